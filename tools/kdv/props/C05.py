"""C05 — per-thread results are invariant under interleaving of threads.  Sections `interleave` /
`interleave-real`: the sequence of event windows delivered per thread (Model/Pairing).  Section `names` (+ the
finding-free side stream `names-shared-pids`): whole TracesParser (Model/Trace) — per-thread trace texts, the
`pids_names` assignments tagged with the teaching thread, and the final `pids_names` under many schedules of
programs holding new-thread / exec record pairs."""
import json

from .. import core
from .. import pairing as P
from ..core import run_section

MODULE = 'KdVerif.Props.C05'
NAMESPACE = 'KdVerif.C05'
TRUSTED = ['Model/Pairing.step/run: hand model of TracesParser.feed/feed_generator up to parse_event_list, tied to '
           'the code by the correspondence sections `interleave` / `interleave-real` (and C04 `pairing`)',
           'Model/Trace.lean (whole TracesParser: handlers, context tables, generated decoders) tied to the code by the '
           'section `names` here and by `pipeline` of C07/C08/C20; Model/TraceWrites.handleWrites is PROVED to be what the '
           'handlers of Model/Trace do to the tables (handler_writes_sound, table_writes_sound)',
           'bytes.decode() is a parameter of the model (strict UTF-8 in the driver)']
ASSUMPTIONS = ['a window is attributed to the thread of its first event (all events of a delivered window have the '
               'same thread id: theorem window_single_thread)',
               'two merges are "interleavings of the same per-thread programs" iff their per-thread subsequences '
               'coincide',
               'feed_generator stops at the first exception: the text/names theorems are about runs that raise none, for '
               'the merged history and for the thread\'s own subsequence (for non-excluded handlers the two raise alike)',
               'exclusion (the property\'s own): the TEXT of TRACE_DATA_THREAD_TERMINATE and of the four dyld string readers '
               '(DLSYM, DLOPEN, MAP_IMAGE, DLOPEN_PREFLIGHT) reads tables written by other threads and is not compared',
               'final pids_names lookups agree when no pid is taught by two different threads (DisjointTeachers)']

SCHEDULES = ['sequential', 'reverse', 'round-robin', 'round-robin-reverse', 'bursty', 'bursty2', 'random',
             'random2', 'longest-first', 'random3', 'random4', 'bursty3']


def schedule(rng, kind, lens):
    """A list of program indices, index i occurring lens[i] times."""
    n = len(lens)
    left = list(lens)
    out = []
    if kind == 'sequential':
        for i in range(n):
            out += [i] * lens[i]
    elif kind == 'reverse':
        for i in reversed(range(n)):
            out += [i] * lens[i]
    elif kind in ('round-robin', 'round-robin-reverse'):
        order = list(range(n)) if kind == 'round-robin' else list(reversed(range(n)))
        while any(left):
            for i in order:
                if left[i]:
                    out.append(i)
                    left[i] -= 1
    elif kind.startswith('bursty'):
        while any(left):
            i = rng.choice([j for j in range(n) if left[j]])
            b = min(left[i], rng.randint(1, 6))
            out += [i] * b
            left[i] -= b
    elif kind == 'longest-first':
        while any(left):
            i = max(range(n), key=lambda j: left[j])
            out.append(i)
            left[i] -= 1
    else:
        pool = [i for i in range(n) for _ in range(lens[i])]
        rng.shuffle(pool)
        out = pool
    return out


def materialise(codes, programs, sched, kind, group):
    """programs: [[tid, [[timestamp, eid, q, args], ...]], ...]; timestamps belong to the program, not to the
    schedule, so per-thread results of different schedules can be compared literally."""
    pos = [0] * len(programs)
    events = []
    for i in sched:
        tid, prog = programs[i]
        ts, e, q, args = prog[pos[i]]
        events.append([ts, tid, e, q, args])
        pos[i] += 1
    return {'codes': codes, 'events': events, 'style': kind, 'group': group,
            'programs': [[t, [list(x) for x in p]] for t, p in programs]}


def fixed_groups():
    """Tiny two-thread program sets under every schedule (so that a broken keying shows up on a handful of events)."""
    tn = P.trace_domain_names()
    codes = [[0x40c000c, 'BSC_read', True], [0x40c0010, 'BSC_write', True], [0x7000008, tn[0], True],
             [0x1020004, 'KTrap_Debug', False]]
    A, B, T, U = [c[0] for c in codes]
    z = [0, 0, 0, 0]
    sets = [
        [[1, [(A, 1), (B, 0), (A, 2)]], [2, [(A, 1), (A, 0), (A, 2)]]],
        [[1, [(A, 1), (A, 2)]], [2, [(A, 2), (A, 1), (A, 2)]]],
        [[1, [(A, 1), (B, 1), (A, 2), (B, 2)]], [2, [(B, 1), (A, 3), (B, 2), (A, 2)]]],
        [[7, [(T, 1), (A, 0), (T, 2)]], [8, [(T, 0), (T, 1), (U, 0), (T, 2)]], [9, [(A, 0)]]],
    ]
    out = []
    for g, progs in enumerate(sets):
        programs = [[t, [[i * 1000 + j, e, q, z] for j, (e, q) in enumerate(p)]] for i, (t, p) in enumerate(progs)]
        lens = [len(p) for _, p in programs]
        import random
        r = random.Random(g)
        out += [materialise(codes, programs, schedule(r, k, lens), k, 'fixed%d' % g) for k in SCHEDULES]
    return out


def gen_group(rng, group, nsched, real=None):
    codes = real if real is not None else P.make_alphabet(rng)
    eids = [c[0] for c in codes]
    nt = rng.randint(2, 4)
    tids = P.pick_tids(rng, nt)
    style = rng.choice(['random', 'nested', 'crossing'])
    programs = []
    for i, t in enumerate(tids):
        prog = P.gen_program(rng, eids, rng.randint(0, 14), style)
        programs.append([t, [[i * 1000 + j, e, q,
                              P.real_args(rng) if real is not None else [rng.getrandbits(64) for _ in range(4)]]
                             for j, (e, q) in enumerate(prog)]])
    lens = [len(p) for _, p in programs]
    return [materialise(codes, programs, schedule(rng, k, lens), k, group) for k in SCHEDULES[:nsched]]


def sequential_case(case):
    progs = case['programs']
    lens = [len(p) for _, p in progs]
    return materialise(case['codes'], progs, schedule(None, 'sequential', lens), 'sequential', case['group'])


def own_thread_expected(case):
    """Each thread's windows when its program is parsed ALONE, from the declarative spec (independent of the
    model and of the implementation)."""
    parts = {}
    for tid, prog in case['programs']:
        if not prog:
            continue
        alone = {'codes': case['codes'], 'events': [[ts, tid, e, q, a] for ts, e, q, a in prog]}
        exp = [x for x in P.Spec(alone).expected_per_event() if x != '-']
        parts[tid] = '|'.join(exp)
    return 'ok ' + ';'.join('%d:%s' % (t, parts[t]) for t in sorted(parts))


def make_impl(factory_of):
    def impl_fn(case):
        return P.show_per_thread(factory_of(case), case)
    return impl_fn


def make_oracle(impl_fn):
    def oracle(case, got):
        if not got.startswith('ok'):
            return ('interleave:raises', 'feeding the merged history failed: ' + got)
        try:
            seq = impl_fn(sequential_case(case))
        except Exception as e:      # pragma: no cover
            seq = 'err ' + core.err_name(e)
        if seq != got:
            return ('interleave:thread-windows-depend-on-schedule',
                    'schedule %s delivers %s, the sequential order delivers %s' % (case['style'], got, seq))
        exp = own_thread_expected(case)
        if exp != got:
            return ('interleave:thread-windows-differ-from-own-run',
                    'schedule %s delivers %s, each thread alone (specification) delivers %s'
                    % (case['style'], got, exp))
        return None
    return oracle


# ---------------------------------------------------------------------------------------------------------
# section `names`: whole TracesParser, learned names and per-thread texts under schedules
# ---------------------------------------------------------------------------------------------------------

EXCLUDED = {'TRACE_DATA_THREAD_TERMINATE', 'DBG_DYLD_TIMING_DLSYM', 'DBG_DYLD_TIMING_DLOPEN',
            'DBG_DYLD_TIMING_MAP_IMAGE', 'DBG_DYLD_TIMING_DLOPEN_PREFLIGHT'}
NAME_SCHEDULES = ['adversarial', 'sequential', 'reverse', 'round-robin-reverse', 'bursty', 'bursty2', 'random',
                  'random2', 'longest-first', 'random3']


def _pl():
    from .. import pipeline as PL
    return PL


def name_program(rng, i, tid, shared_pids=False):
    """One thread's program: complete operations; new-thread / exec pairs teach pids of the thread's own range
    (main stream) or of a range shared by all threads (side stream)."""
    PL = _pl()
    s = PL.Stream(rng)
    s.ts = 100000 * (i + 1)
    base = 1 if shared_pids else 100 * (i + 1)
    pids = list(range(base, base + 4))
    for _ in range(rng.randrange(1, 6)):
        k = rng.random()
        if k < 0.40:
            wd, ws = rng.choice([(True, True)] * 4 + [(True, False), (False, True)])
            s.newthread(tid, rng.randrange(1000, 1010), rng.choice(pids), 'n%d_%d' % (i, rng.randrange(50)), wd, ws)
        elif k < 0.60:
            wd, ws = rng.choice([(True, True)] * 4 + [(True, False), (False, True)])
            s.exec_(tid, rng.choice(pids), 'x%d_%d' % (i, rng.randrange(50)), wd, ws)
        elif k < 0.70:
            s.syscall('BSC_getpid', tid, [0, 0, 0, 0], [0, rng.randrange(1000), 0, 0])
        elif k < 0.78:
            s.syscall('BSC_open', tid, [1, 2, 3, 4], [0, 3, 0, 0],
                      [('/p%d/%d' % (i, rng.randrange(99)) + 'x' * rng.choice([0, 0, 30, 70]), 7 + i)])
        elif k < 0.84:
            s.gstring(tid, rng.randrange(0, 4), 'g%d_%d' % (i, rng.randrange(9)))
        elif k < 0.89:
            s.threadname(tid, 'thr%d_%d' % (i, rng.randrange(9)))
        elif k < 0.93:
            s.sample(tid, 1, thd=(rng.choice(pids), rng.randrange(1000, 1010), 1))
        elif k < 0.96:                      # excluded handler: text reads threads_pids / tids_names of all threads
            s.ev('TRACE_DATA_THREAD_TERMINATE', PL.NONE, tid, [rng.choice([tid, 1000, 1001, 5, 6, 7]), 0, 0, 0])
        else:                               # excluded handler: text reads global_strings of all threads
            s.syscall('DBG_DYLD_TIMING_DLOPEN', tid, [0, rng.randrange(0, 4), 0, 0], [0, 0x1000, 0, 0])
    recs = list(s.recs)
    if len(recs) > 1 and rng.random() < 0.3:           # a lost record: an operation of this thread stays incomplete
        del recs[rng.randrange(len(recs))]              # (an unclosed lookup chain, a pair without its second half, ...)
    return recs


def names_case(programs, sched, kind, group, stream):
    pos = [0] * len(programs)
    recs = []
    for i in sched:
        recs.append(programs[i][1][pos[i]])
        pos[i] += 1
    PL = _pl()
    allrecs = [bytes.fromhex(r) for _, p in programs for r in p]
    codes = {str(k): v for k, v in PL.restricted_codes(allrecs, extra=('VFS_LOOKUP',)).items()}
    return {'codes': codes, 'events': recs, 'style': kind, 'group': group, 'stream': stream,
            'programs': [[t, list(p)] for t, p in programs]}


def names_fixed():
    """The 4-event adversarial schedule A-data, B-data, A-string, B-string (and all other schedules of the same two
    programs), for new-thread pairs and for exec pairs; then a string without data record."""
    PL = _pl()
    out = []
    for g, kind in enumerate(['newthread', 'exec', 'string-only', 'terminate-between', 'terminate-between-exec']):
        progs = []
        for i, (tid, pid, name) in enumerate([(5, 11, 'procA'), (6, 22, 'procB')]):
            s = PL.Stream()
            s.ts = 100000 * (i + 1)
            if kind == 'newthread':
                s.newthread(tid, 1000 + i, pid, name)
            elif kind == 'exec':
                s.exec_(tid, pid, name)
            elif kind == 'string-only':
                s.newthread(tid, 1000 + i, pid, name, with_data=(i == 0))
            elif i == 0:                 # thread A announces a process ...
                if kind == 'terminate-between':
                    s.newthread(tid, 1000, pid, name)
                else:
                    s.exec_(tid, pid, name)
            else:                        # ... thread B reports the end of thread A (named in the record's ARGUMENT)
                s.ev('TRACE_DATA_THREAD_TERMINATE', PL.NONE, tid, [5, 0, 0, 0])
            progs.append([tid, [r.hex() for r in s.recs]])
        lens = [len(p) for _, p in progs]
        import random
        r = random.Random(g)
        for k in NAME_SCHEDULES:
            sk = 'round-robin' if k == 'adversarial' else k
            out.append(names_case(progs, schedule(r, sk, lens), k, 'nfixed%d' % g, 'main'))
    return out


def names_group(rng, group, nsched, shared=False):
    nt = rng.randint(2, 3)
    tids = rng.sample([5, 6, 7, 99, 1000, 1001], nt)
    programs = [[t, [r.hex() for r in name_program(rng, i, t, shared)]] for i, t in enumerate(tids)]
    lens = [len(p) for _, p in programs]
    out = []
    for k in NAME_SCHEDULES[:nsched]:
        sk = 'round-robin' if k == 'adversarial' else k
        out.append(names_case(programs, schedule(rng, sk, lens), k, group, 'shared' if shared else 'main'))
    return out


def names_line(case):
    PL = _pl()
    codes = {int(k): v for k, v in case['codes'].items()}
    return 'tracesw %s %s' % (PL.codes_arg(codes), ' '.join(case['events']))


class RecordingDict(dict):
    """`pids_names` handed to the real TracesParser: logs every assignment with the thread being fed."""

    def __init__(self):
        super().__init__()
        self.log = []
        self.current = None

    def __setitem__(self, k, v):
        self.log.append((self.current, k, v))
        super().__setitem__(k, v)


def names_run(case):
    """The real TracesParser on the merged stream; the answer of `tracesw`."""
    PL = _pl()
    from pykdebugparser.kevent import from_kd_buf
    from pykdebugparser.traces_parser import TracesParser
    codes = {int(k): v for k, v in case['codes'].items()}
    pn = RecordingDict()
    parser = TracesParser(codes, {}, pn)
    outs, err = [], '-'
    try:
        for e in (from_kd_buf(bytes.fromhex(h)) for h in case['events']):
            pn.current = e.tid
            t = parser.feed(e)
            if t is None:
                continue
            try:
                txt = core.hs(str(t))
            except Exception as ex:
                txt = '!' + core.err_name(ex)
            outs.append({'name': codes.get(t.ktraces[0].eventid, '?'), 'ts': [k.timestamp for k in t.ktraces], 'text': txt,
                         'extra': PL.extra_of(t)})
    except Exception as ex:
        err = core.err_name(ex)
    tw = ','.join('%d:%d:%s' % (t, k, core.hs(v)) for t, k, v in pn.log) or '-'
    return PL.answer(outs, err, parser) + ' ;tw=' + tw


def names_impl(case):
    return names_run(case)


def names_view(case, ans):
    """Per thread: (name, ts, text-or-None-when-excluded, payload) of its traces and its tagged name writes; the final
    pids_names; the aborting exception."""
    PL = _pl()
    traces, err, tabs = PL.parse_answer(ans)
    owner = {}
    for tid, prog in case['programs']:
        for r in prog:
            owner[int.from_bytes(bytes.fromhex(r)[:8], 'little')] = tid
    per = {}
    for t in traces:
        tid = owner.get(t['ts'][0]) if t['ts'] else None
        per.setdefault(tid, []).append((t['name'], tuple(t['ts']), None if t['name'] in EXCLUDED else t['raw'], t['extra']))
    taught = {}
    if tabs.get('tw', '-') != '-':
        for item in tabs['tw'].split(','):
            t, k, v = item.split(':')
            taught.setdefault(int(t), []).append((int(k), v))
    return per, taught, tabs.get('pn', '-'), err


_names_cache = {}


def names_oracle(case, got):
    if not got.startswith('ok '):
        return ('names:raises', 'the harness could not run the merged history: ' + got)
    per, taught, pn, err = names_view(case, got)
    if err != '-':
        return ('names:stream-aborted', 'feeding the merged history (schedule %s) raised %s' % (case['style'], err))
    key = case['group']
    if _names_cache.get('key') != key:
        _names_cache.clear()
        _names_cache['key'] = key
        lens = [len(p) for _, p in case['programs']]
        seq = names_case(case['programs'], schedule(None, 'sequential', lens), 'sequential', key, case['stream'])
        _names_cache['seq'] = names_view(seq, names_run(seq))
        alone = {}
        for i, (tid, prog) in enumerate(case['programs']):
            if prog:
                c = names_case(case['programs'], [i] * len(prog), 'alone', key, case['stream'])
                alone[tid] = names_view(c, names_run(c))
        _names_cache['alone'] = alone
    sper, staught, spn, serr = _names_cache['seq']
    for tid, (aper, ataught, apn, aerr) in _names_cache['alone'].items():
        if aerr != '-':
            return ('names:stream-aborted', 'thread %d parsed alone raises %s' % (tid, aerr))
        if taught.get(tid, []) != ataught.get(tid, []):
            return ('names:learned-names-depend-on-other-threads',
                    'schedule %s: thread %d teaches %r, parsed alone it teaches %r'
                    % (case['style'], tid, taught.get(tid, []), ataught.get(tid, [])))
        if per.get(tid, []) != aper.get(tid, []):
            return ('names:thread-traces-depend-on-other-threads',
                    'schedule %s: traces of thread %d are %r, parsed alone %r'
                    % (case['style'], tid, per.get(tid, []), aper.get(tid, [])))
    if set(taught) - set(t for t, _ in case['programs']):
        return ('names:foreign-teacher', 'a name was taught while feeding an event of no program: %r' % taught)
    if case['stream'] == 'main' and pn != spn:
        return ('names:final-pids-names-depend-on-schedule',
                'schedule %s ends with pids_names %s, the sequential order with %s' % (case['style'], pn, spn))
    return None


NAMES_RULE = ('3 hand-written two-thread program sets (new-thread pairs, exec pairs, a name string without data record) — '
              'the first case is the 4-event adversarial schedule A-data, B-data, A-string, B-string — plus seeded sets of '
              '2-3 threads, each program holding new-thread / exec pairs (data + string, sometimes only one of them; pids of '
              'the thread\'s own range), syscalls with one- to three-record lookups, global strings, thread names, sampler windows, '
              'in three programs of ten one record lost (an operation of that thread stays incomplete), thread-terminate '
              'and dlopen records (the excluded handlers), merged under adversarial (round-robin), sequential, reverse, '
              'bursty, longest-first and random schedules; real TracesParser with a recording pids_names dict; compared with '
              'the Lean model: every trace (name, ktraces, text, payload), the four tables and the pids_names assignments '
              'tagged with the feeding thread; oracle: per-thread traces/texts and per-thread taught sequences equal those of '
              'the thread parsed alone, final pids_names equal to the sequential run')


def names_section(rep, rng, tier):
    ns = 8 if tier == 'quick' else len(NAME_SCHEDULES)
    ng = 150 if tier == 'quick' else 2500
    cases = names_fixed() + [c for g in range(ng) for c in names_group(rng, 'n%d' % g, ns)]
    nontriv = lambda c, got: c['style'] != 'sequential' and ';tw=-' not in got  # noqa: E731
    run_section(rep, 'names', cases, line_fn=names_line, impl_fn=names_impl, oracle_fn=names_oracle,
                nontrivial_fn=nontriv, kind_fn=lambda c, got: c['style'], rule=NAMES_RULE,
                skip_fn=lambda m: 'err=Unmodelled' in m)
    ng2 = 40 if tier == 'quick' else 600
    shared = [c for g in range(ng2) for c in names_group(rng, 's%d' % g, ns, shared=True)]
    run_section(rep, 'names-shared-pids', shared, line_fn=names_line, impl_fn=names_impl, oracle_fn=names_oracle,
                nontrivial_fn=nontriv, kind_fn=lambda c, got: c['style'],
                rule='the same with all threads teaching pids of ONE shared range: per-thread traces and taught sequences '
                     'are still compared (the final pids_names legitimately depends on the schedule here and is not)',
                skip_fn=lambda m: 'err=Unmodelled' in m)


impl_stub = make_impl(lambda case: (lambda: P.stub_parser(case)))
impl_real = make_impl(lambda case: (lambda: P.real_parser(case)))
SECTIONS = {'interleave': impl_stub, 'interleave-real': impl_real}


def model_groups_agree(rep, name, cases):
    """The driver's answers for all schedules of one program set must coincide (theorem
    interleaving_invariant_windows, observed on the compiled model)."""
    answers = core.drive([P.line('pairt', c) for c in cases]) if cases else []
    seen = {}
    bad = 0
    for c, a in zip(cases, answers):
        if seen.setdefault(c['group'], a) != a:
            bad += 1
    if bad:
        rep.broken.append('model:%s: %d schedules change the per-thread windows of the compiled model' % (name, bad))


RULE = ('4 hand-written tiny program sets + seeded program sets of 2-4 threads (0..14 events each, 12-code alphabet as '
        'in C04, unmatched / repeated / nested / crossing pairs) each merged under the schedules sequential, reverse, '
        'round-robin (both directions), bursty, longest-first and seeded random; real TracesParser with recording '
        'stubs; compared: per thread the delivered windows (timestamps, gate mark) in order; oracle: equal to the '
        'sequential run of the implementation and to each thread parsed alone by the declarative specification; '
        'non-trivial = non-sequential schedules delivering a multi-event window')


def correspondence(rep, rng, tier):
    kind = lambda c, got: c['style']  # noqa: E731
    nontriv = lambda c, got: got.startswith('ok') and ',' in got and c['style'] != 'sequential'  # noqa: E731
    ns = 8 if tier == 'quick' else 12
    chunks = [500] if tier == 'quick' else [1000] * 6
    g0 = 0
    for k, ng in enumerate(chunks):
        cases = (fixed_groups() if k == 0 else []) + [c for g in range(g0, g0 + ng) for c in gen_group(rng, g, ns)]
        g0 += ng
        run_section(rep, 'interleave', cases,
                    line_fn=lambda c: P.line('pairt', c), impl_fn=impl_stub, oracle_fn=make_oracle(impl_stub),
                    nontrivial_fn=nontriv, kind_fn=kind, rule=RULE)
        model_groups_agree(rep, 'interleave', cases)
    P.shrink_failures(rep, 'interleave', impl_stub, make_oracle(impl_stub), lambda c: P.line('pairt', c))
    real = P.real_alphabet()
    ng2 = 120 if tier == 'quick' else 1500
    rcases = [c for g in range(ng2) for c in gen_group(rng, g, ns, real=real)]
    run_section(rep, 'interleave-real', rcases,
                line_fn=lambda c: P.line('pairt', c), impl_fn=impl_real, oracle_fn=make_oracle(impl_real),
                nontrivial_fn=nontriv, kind_fn=kind,
                rule='the same with the real handlers over BSC_read, BSC_write, BSC_getpid, MACH_SCHED, TRACE_DATA_EXEC, '
                     'TRACE_STRING_PROC_EXIT, one undecoded name and one unknown id (trace.ktraces compared)')
    model_groups_agree(rep, 'interleave-real', rcases)
    P.shrink_failures(rep, 'interleave-real', impl_real, make_oracle(impl_real), lambda c: P.line('pairt', c))
    names_section(rep, rng, tier)


def replay(path):
    with open(path) as fd:
        r = json.load(fd)
    rp = r.get('replay') or {}
    if 'case' not in rp:
        print('nothing to replay (no failing input was recorded):', r.get('no_longer_checks'))
        return 1
    case, sec = rp['case'], rp.get('section', 'interleave')
    if sec.startswith('names'):
        return replay_names(case, path)
    impl_fn = SECTIONS[sec]
    try:
        got = impl_fn(case)
    except Exception as e:
        got = 'err ' + core.err_name(e)
    try:
        seq = impl_fn(sequential_case(case))
    except Exception as e:
        seq = 'err ' + core.err_name(e)
    model = core.drive([P.line('pairt', case)])[0]
    print('merged history, schedule %s (timestamp tid code qualifier):' % case['style'])
    for e in case['events']:
        print('   %d tid=%d code=%#x q=%d' % (e[0], e[1], e[2], e[3]))
    print('impl            :', got)
    print('impl sequential :', seq)
    print('model           :', model)
    res = make_oracle(impl_fn)(case, got)
    if res:
        print('oracle:', res[0], '-', res[1])
        print(f'VIOLATION property=C05 replay={path}')
        return 1
    print('oracle: property holds on this input')
    return 0


def replay_names(case, path):
    from pykdebugparser.kevent import from_kd_buf
    codes = {int(k): v for k, v in case['codes'].items()}
    got = names_impl(case)
    model = core.drive([names_line(case)])[0]
    print('merged history, schedule %s:' % case['style'])
    for h in case['events']:
        e = from_kd_buf(bytes.fromhex(h))
        print('   ts=%d tid=%d %s q=%d args=%s' % (e.timestamp, e.tid, codes.get(e.eventid, hex(e.eventid)), e.func_qualifier,
                                                    list(e.values)))
    print('impl :', got)
    print('model:', model)
    _names_cache.clear()
    res = names_oracle(case, got)
    if res:
        print('oracle:', res[0], '-', res[1])
        print(f'VIOLATION property=C05 replay={path}')
        return 1
    print('oracle: property holds on this input')
    return 0


LEVEL_TEXT = ('Window-level half: Lean theorems for ALL histories and threads — step_other_thread_frame (a step '
              'touches only entries of the event\'s thread), projection_windows (the windows of thread t in a merged '
              'history are the windows of t\'s own subsequence) and interleaving_invariant_windows (equal per-thread '
              'subsequences give equal per-thread window sequences); model tied to the code by differential runs over '
              'many schedules of the same per-thread programs.  Text and names half, over the whole-TracesParser model: '
              'handler_writes_sound / table_writes_sound (the listed table assignments are what the handlers do), '
              'thread_writes_per_thread and learned_names_per_thread (the assignments caused by thread t are a function of '
              't\'s own subsequence), projection_traces / projection_traces_exact (per-thread traces with text), '
              'interleaving_invariant_names (same taught sequences per thread, same multiset, same final lookups when '
              'teachers are disjoint), excluded_generated_exact (reflective: which generated decoders are excluded), noexc_own / '
              'per_thread_of_merged_run (no exception in the merged run implies none in a thread\'s own run; reflective '
              'all_fields_errFree), bundled_nested_rows.')
LEVEL_NOTE = ('Trusted: Lean kernel; hand models of feed (Model/Pairing) and of the handlers (Model/Trace) tied by '
              'correspondence; the translator for the generated decoders.  The text/names theorems are about runs that raise no '
              'exception (feed_generator aborts on the first one) and about code tables that name no table-writing / excluded '
              'handler for the page-fault sub-record ids parsed by the nested parse_event_list call (BenignNested; true of '
              'the bundled table).')
TECHNIQUE = 'Lean 4 frame/projection proof + differential correspondence over schedules'
