"""Read-size probing for the container reader checks (C02, C03, C06).

A reader that takes its input in blocks has failure modes that only show at the edges of ITS blocks: a record, a tag or a
cut that straddles the edge.  The generators of the container checks therefore ask the code under test which block sizes
it works with, and then aim their inputs at the edges of exactly those blocks:

* dynamic: small version-2 and version-3 dumps are parsed by the real code (KdBufParser.parse and
  PyKdebugParser.kevents, whole and cut) from a `RecordingReader`, an io.BytesIO that logs the size of every
  read / read1 / readinto / readinto1 / readline request together with the stream position.  Requests larger than one
  record (64 bytes) that the file grammar does not explain (the 0x100 header padding of version 2, the length-prefixed
  payloads of version 3, at their positions) are block sizes.
* static: integer literals and constant integer expressions of kd_buf_parser.py, kevent.py and pykdebugparser.py (ast), the
  int attributes of those modules and of their classes as imported from REPO_DIR (e.g. `X = io.DEFAULT_BUFFER_SIZE`), and
  their products with the record size.
* fixed: powers of two 2^9 .. 2^20, always part of the thorough tier (which check.py also selects whenever the source
  differs from the fingerprinted revision).

Nothing here knows a particular block size; the unchanged reader requests nothing above 64 bytes that the grammar does not
explain, so only the small static candidates remain and the added cost is a few small dumps."""
import ast
import importlib
import io
import os

from . import core
from . import impl  # noqa: F401  (REPO_DIR first on sys.path)
from . import containers as ct

RECORD = 64
CAP = 8 << 20                       # no candidate above 8 MiB
FILES = ['kd_buf_parser.py', 'kevent.py', 'pykdebugparser.py']
FIXED = [1 << k for k in range(9, 21)]


class RecordingReader(io.BytesIO):
    """io.BytesIO that logs (method, requested size, position before) for every way of taking bytes out of it."""

    def __init__(self, data=b''):
        super().__init__(data)
        self.log = []

    def _note(self, how, n):
        self.log.append((how, -1 if n is None else n, self.tell()))

    def read(self, n=-1):
        self._note('read', n)
        return super().read(n)

    def read1(self, n=-1):
        self._note('read1', n)
        return super().read1(n)

    def readinto(self, buf):
        self._note('readinto', memoryview(buf).nbytes)
        return super().readinto(buf)

    def readinto1(self, buf):
        self._note('readinto1', memoryview(buf).nbytes)
        return super().readinto1(buf)

    def readline(self, n=-1):
        self._note('readline', n)
        return super().readline(n)

    def readlines(self, hint=-1):
        self._note('readlines', hint)
        return super().readlines(hint)

    def peek(self, n=0):            # BytesIO has none; a reader that asks for it gets one, and is recorded
        self._note('peek', n)
        pos = self.tell()
        out = super().read(n if n and n > 0 else 1)
        self.seek(pos)
        return out


def _consume(fn):
    try:
        for _ in fn():
            pass
    except Exception:               # cut dumps end in an exception: only the requests matter here
        pass


def _probe_dumps():
    """[(version, bytes, explained)] – explained: set of (position, size) requests the file grammar itself asks for."""
    out = []
    for seed, nthreads, pad, nrec in ((1, 3, 3, 5), (2, 0, 0, 9)):
        data, info = ct.big_v2({'v': 2, 'seed': seed, 'threads': nthreads, 'pad': pad, 'n': nrec})
        out.append((2, data, {(32, 0x100)}))
    for seed, trail, extra in ((3, 0, 0), (4, 5, 9)):
        rc = {'v': 3, 'seed': seed, 'threads': 3, 'trail': trail,
              'filler': {'len': 37, 'style': 'hi', 'seed': seed}, 'gap1': {'len': 5, 'style': 'soup', 'seed': seed},
              'chunks': [{'gap': {'len': 3, 'seed': 1}, 'n': 4, 'extra': extra}, {'gap': {'len': 0}, 'n': 3, 'extra': 0}]}
        data, info = ct.big_v3(rc)
        payload = ct.bplist({'img': 7, 'pad': 'x' * 70})
        data += ct.TAG_IMAGES + len(payload).to_bytes(8, 'little') + payload + bytes(-(8 + len(payload)) % 8)
        cpu_len = int.from_bytes(data[64:72], 'little')
        tm_at = info['tags'][1] + 8
        tm_len = int.from_bytes(data[tm_at:tm_at + 8], 'little')
        payload_at = len(data) - (-(8 + len(payload)) % 8) - len(payload)
        explained = {(72, cpu_len), (tm_at + 8, tm_len), (payload_at, len(payload))}
        out.append((3, data, explained))
    return out


def dynamic():
    """{'v2': {size: [methods]}, 'v3': {...}} – unexplained request sizes above one record, per container version."""
    from pykdebugparser.kd_buf_parser import KdBufParser
    from pykdebugparser.pykdebugparser import PyKdebugParser
    found = {'v2': {}, 'v3': {}}
    for version, data, explained in _probe_dumps():
        cuts = [len(data), len(data) - 17, len(data) - 64 - 3, len(data) // 2]
        for k in cuts:
            for api in ('parse', 'kevents'):
                rr = RecordingReader(data[:k])
                if api == 'parse':
                    ct.guarded(lambda: _consume(lambda: KdBufParser({}, {}).parse(rr)), 20)
                else:
                    ct.guarded(lambda: _consume(lambda: PyKdebugParser().kevents(rr)), 20)
                for how, n, pos in rr.log:
                    if n > RECORD and (pos, n) not in explained:
                        found['v%d' % version].setdefault(min(n, CAP), set()).add(how)
    return {v: {n: sorted(h) for n, h in d.items()} for v, d in found.items()}


def _const_int(node):
    """value of a constant integer expression (literals combined by + - * // << **), else None."""
    if isinstance(node, ast.Constant):
        return node.value if type(node.value) is int else None
    if isinstance(node, ast.UnaryOp) and isinstance(node.op, ast.USub):
        v = _const_int(node.operand)
        return None if v is None else -v
    if isinstance(node, ast.BinOp):
        a, b = _const_int(node.left), _const_int(node.right)
        if a is None or b is None:
            return None
        try:
            if isinstance(node.op, ast.Add):
                return a + b
            if isinstance(node.op, ast.Sub):
                return a - b
            if isinstance(node.op, ast.Mult):
                return a * b
            if isinstance(node.op, ast.FloorDiv):
                return a // b
            if isinstance(node.op, ast.LShift) and 0 <= b <= 40:
                return a << b
            if isinstance(node.op, ast.Pow) and 0 <= b <= 40 and abs(a) <= 1 << 16:
                return a ** b
        except (ZeroDivisionError, OverflowError, ValueError):
            return None
    return None


def static(repo=None):
    """candidate sizes mined from the source text and from the imported modules: values and their products with 64."""
    repo = repo or core.REPO
    vals = set()
    for fn in FILES:
        path = os.path.join(repo, 'pykdebugparser', fn)
        try:
            with open(path) as fd:
                tree = ast.parse(fd.read())
        except (OSError, SyntaxError):
            continue
        for node in ast.walk(tree):
            v = _const_int(node)
            if v is not None:
                vals.add(v)
        try:
            mod = importlib.import_module('pykdebugparser.' + fn[:-3])
        except Exception:
            continue
        spaces = [vars(mod)] + [vars(c) for c in vars(mod).values()
                                if isinstance(c, type) and getattr(c, '__module__', None) == mod.__name__]
        for ns in spaces:
            for v in list(ns.values()):
                if type(v) is int:
                    vals.add(v)
    out = set()
    for v in vals:
        for c in (v, v * RECORD):
            if RECORD < c <= CAP:
                out.add(c)
    return sorted(out)


_CACHE = {}


def probe():
    """{'dynamic': {'v2': {...}, 'v3': {...}}, 'static': [...]} (computed once per process)."""
    if 'p' not in _CACHE:
        _CACHE['p'] = {'dynamic': dynamic(), 'static': static()}
    return _CACHE['p']


def block_sizes(tier, version=None, static_small=64 << 10, static_budget=24 << 20, max_dynamic=8):
    """[(B, origin)] ascending – the block sizes the generators aim at.
    dynamic sizes always (those of `version`, or of both); static candidates up to 64 KiB in the quick tier, up to the cap
    within a total byte budget in the thorough tier; the fixed boundary sizes in the thorough tier."""
    p = probe()
    out = {}
    dyn = p['dynamic']
    for v in (['v%d' % version] if version else ['v2', 'v3']):
        for n in sorted(dyn[v])[:max_dynamic]:
            out.setdefault(n, 'probed:' + v + ':' + '+'.join(dyn[v][n]))
    if version:                     # sizes seen only with the other container: behind the version's own
        other = 'v3' if version == 2 else 'v2'
        for n in sorted(dyn[other])[:max_dynamic]:
            out.setdefault(n, 'probed:' + other + ':' + '+'.join(dyn[other][n]))
    spent = 0
    for n in p['static']:
        if tier == 'quick':
            if n > static_small:
                break
        else:
            if spent + n > static_budget:
                break
            spent += n
        out.setdefault(n, 'static')
    if tier != 'quick':
        for n in FIXED:
            out.setdefault(n, 'fixed')
    return sorted(out.items())


def describe(tier):
    p = probe()
    return ('read-size probe: requests above one record not explained by the file grammar: v2 %s, v3 %s; static candidates '
            '(literals, module/class int attributes, x64) %s; block sizes aimed at in this run: %s'
            % (p['dynamic']['v2'] or 'none', p['dynamic']['v3'] or 'none', p['static'],
               [b for b, _ in block_sizes(tier)]))


if __name__ == '__main__':
    import json
    import sys
    print(json.dumps(probe(), indent=1, default=str))
    print(block_sizes(sys.argv[1] if len(sys.argv) > 1 else 'quick'))
