import KdVerif.Model.PyIRCo
/-
  The IR the proofs of `Proofs/PyIRCo` were done for: a hand-written copy of what `tools/gen_pyir_co.py` produces from
  `pykdebugparser/trace_handlers/perf.py`, `mach.py` (`handle_mach_vmfault`) and `dyld.py`
  (`handle_timing_launch_executable` and the two image handlers it calls): statement lists as right-nested `seq`; names of
  TOTAL expressions (`args = events[0].values`, `result = rets[2]`, `sub_events = [ev for ev in events if …]`) replaced by
  the expression; every other bound value in a temporary numbered in order of appearance; locals whose value depends on the
  branch taken (`fault_type`, `pid`, `caller_prot`) as mutable locals; `a == b` as `ite (ne a b)` with swapped branches;
  the `to_*` helpers as `flagsOf`.  `C20.source_is_expected_ir` states that the generated programs ARE these terms.
  Core Lean only.
-/
namespace KdVerif.PyIRCo.Expected
open KdVerif.PyIRCo Expr Stmt

/-- `events[0]` -/
def first : Expr := index events 0
/-- `events[0].values[k]` -/
def word (k : Nat) : Expr := index (attr first "values") k
/-- `events[-1].values[k]` -/
def lastWord (k : Nat) : Expr := index (attr (last events) "values") k

/-! ## perf.py -/

/--
```python
@dataclass
class PerfEvent:
    ktraces: List
    sample_what: List
    actionid: int
    th_info: Any = None
    cs_flags: List = None
    cs_frames: List = None

    def __str__(self):
        sample_what = ' | '.join(map(lambda s: s.name, self.sample_what))
        rep = f'PERF_Event, sample_what: {sample_what}, actionid: {self.actionid}'
        if self.cs_frames is not None:
            rep += f', frames count: {len(self.cs_frames)}'
        return rep
```
-/
def clsPerfEvent : ClassDef :=
  { name := "PerfEvent"
    fields := [("sample_what", none), ("actionid", none), ("th_info", some .none), ("cs_flags", some .none),
               ("cs_frames", some .none)]
    str := { base := [.lit "PERF_Event, sample_what: ", .joinNames " | " "sample_what", .lit ", actionid: ", .fld "actionid"]
             rest := .ite (.isNotNone "cs_frames") (.append [.lit ", frames count: ", .lenFld "cs_frames"]) } }

/--
```python
@dataclass
class PerfThdData:
    ktraces: List
    pid: int
    tid: int
    dq_addr: int
    runmode: List

    def __str__(self):
        runmode = ' | '.join(map(lambda r: r.name, self.runmode))
        return f'PERF_THD_Data, pid: {self.pid}, tid: {self.tid}, dq_addr: {hex(self.dq_addr)}, runmode: {runmode}'
```
-/
def clsPerfThdData : ClassDef :=
  { name := "PerfThdData"
    fields := [("pid", none), ("tid", none), ("dq_addr", none), ("runmode", none)]
    str := { base := [.lit "PERF_THD_Data, pid: ", .fld "pid", .lit ", tid: ", .fld "tid", .lit ", dq_addr: ",
                      .hexFld "dq_addr", .lit ", runmode: ", .joinNames " | " "runmode"]
             rest := .skip } }

/-- `PerfThdCswitch(ktraces, tid, pid)`: `return f'PERF_THD_CSwitch, tid: {self.tid}, pid: {self.pid}'` -/
def clsPerfThdCswitch : ClassDef :=
  { name := "PerfThdCswitch"
    fields := [("tid", none), ("pid", none)]
    str := { base := [.lit "PERF_THD_CSwitch, tid: ", .fld "tid", .lit ", pid: ", .fld "pid"], rest := .skip } }

/-- `PerfStkUdata(ktraces, frames)`: `frames = ', '.join(map(hex, self.frames))`,
    `return f'PERF_STK_UData, frames: [{frames}]'` -/
def clsPerfStkUdata : ClassDef :=
  { name := "PerfStkUdata"
    fields := [("frames", none)]
    str := { base := [.lit "PERF_STK_UData, frames: [", .joinHex ", " "frames", .lit "]"], rest := .skip } }

/-- `PerfStkUhdr(ktraces, flags, nframes)`: `flags = ' | '.join(map(lambda c: c.name, self.flags))`,
    `return f'PERF_STK_UHdr, flags: {flags}, frames count: {self.nframes}'` -/
def clsPerfStkUhdr : ClassDef :=
  { name := "PerfStkUhdr"
    fields := [("flags", none), ("nframes", none)]
    str := { base := [.lit "PERF_STK_UHdr, flags: ", .joinNames " | " "flags", .lit ", frames count: ", .fld "nframes"],
             rest := .skip } }

/-- `[ev for ev in events if parser.trace_codes.get(ev.eventid, '') == name]` -/
def namedD (name : String) : Expr := filterNamedD events name

/-- `SamplerAction.<m> in e.sample_what` (`e` = v0) -/
def sampled (m : String) : Expr := isIn (member "SamplerAction" m) (attr (var 0) "sample_what")

/--
```python
    if SamplerAction.SAMPLER_TH_INFO in e.sample_what:
        sub_events = [ev for ev in events if parser.trace_codes.get(ev.eventid, '') == 'PERF_THD_Data']
        if sub_events:
            e.th_info = handle_thd_data(parser, sub_events)                       # through the temporary v1
```
-/
def eventThInfo : Stmt :=
  ite (sampled "SAMPLER_TH_INFO")
    (ite (namedD "PERF_THD_Data")
      (seq (call 1 "handle_thd_data" (namedD "PERF_THD_Data")) (setField 0 "th_info" (var 1)))
      skip)
    skip

/--
```python
    if SamplerAction.SAMPLER_USTACK in e.sample_what:
        sub_events = [ev for ev in events if parser.trace_codes.get(ev.eventid, '') == 'PERF_STK_UHdr']
        if sub_events:
            header = handle_stk_uhdr(parser, sub_events)                                          # v2
            stk_data = [handle_stk_udata(parser, [ev]).frames for ev in events if
                        parser.trace_codes.get(ev.eventid, '') == 'PERF_STK_UData']               # v3
            e.cs_frames = list(chain.from_iterable(stk_data))[:header.nframes]
            e.cs_flags = header.flags
```
-/
def eventStack : Stmt :=
  ite (sampled "SAMPLER_USTACK")
    (ite (namedD "PERF_STK_UHdr")
      (seq (call 2 "handle_stk_uhdr" (namedD "PERF_STK_UHdr"))
        (seq (mapCall 3 "handle_stk_udata" (namedD "PERF_STK_UData") (some "frames"))
          (seq (setField 0 "cs_frames" (takeTo (chain (var 3)) (attr (var 2) "nframes")))
            (setField 0 "cs_flags" (attr (var 2) "flags")))))
      skip)
    skip

/--
```python
def handle_event(parser, events):
    args = events[0].values                                                      # a name for a total expression
    e = PerfEvent(events, to_sampler_action(args[0]), args[1])                   # e = v0
    if SamplerAction.SAMPLER_TH_INFO in e.sample_what: …                         # eventThInfo
    if SamplerAction.SAMPLER_USTACK in e.sample_what: …                          # eventStack
    return e
```
-/
def handleEvent : Stmt :=
  seq (construct 0 "PerfEvent" events [flagsOf "SamplerAction" (word 0), word 1])
    (seq eventThInfo (seq eventStack (ret (var 0))))

/--
```python
def handle_thd_data(parser, events):
    args = events[0].values
    pid = args[0]
    tid = args[1]
    parser.threads_pids[tid] = pid
    return PerfThdData(events, pid, tid, args[2], to_kperf_ti_state(args[3] & 0xffff))
```
-/
def handleThdData : Stmt :=
  seq (store .threadsPids (word 1) (word 0))
    (seq (construct 0 "PerfThdData" events [word 0, word 1, word 2, flagsOf "KperfTiState" (band (word 3) (int 0xffff))])
      (ret (var 0)))

/-- `args = events[0].values`, `return PerfThdCswitch(events, args[0], args[1])` -/
def handleThdCswitch : Stmt :=
  seq (construct 0 "PerfThdCswitch" events [word 0, word 1]) (ret (var 0))

/-- `return PerfStkUdata(events, list(events[0].values))` -/
def handleStkUdata : Stmt :=
  seq (construct 0 "PerfStkUdata" events [listOf (attr first "values")]) (ret (var 0))

/-- `args = events[0].values`, `return PerfStkUhdr(events, to_callstack_flags(args[0]), args[1])` -/
def handleStkUhdr : Stmt :=
  seq (construct 0 "PerfStkUhdr" events [flagsOf "CallstackFlag" (word 0), word 1]) (ret (var 0))

def perf : Program :=
  { classes := [clsPerfEvent, clsPerfThdData, clsPerfThdCswitch, clsPerfStkUdata, clsPerfStkUhdr]
    funs := [⟨"handle_event", handleEvent⟩, ⟨"handle_thd_data", handleThdData⟩, ⟨"handle_thd_cswitch", handleThdCswitch⟩,
             ⟨"handle_stk_udata", handleStkUdata⟩, ⟨"handle_stk_uhdr", handleStkUhdr⟩]
    handlers := [("PERF_Event", "handle_event"), ("PERF_THD_Data", "handle_thd_data"),
                 ("PERF_THD_CSwitch", "handle_thd_cswitch"), ("PERF_STK_UData", "handle_stk_udata"),
                 ("PERF_STK_UHdr", "handle_stk_uhdr")] }

/-! ## mach.py -/

/--
```python
@dataclass
class MachVmfault:
    ktraces: List
    addr: int
    is_kernel: bool
    result: int
    fault_type: DbgVmFaultType = None
    pid: int = None
    caller_prot: List = None

    def __str__(self):
        ret = f'MachVmfault, addr: {hex(self.addr)}, is_kernel: {self.is_kernel}, result: {self.result}'
        if self.result == 0:
            ret += f', type: {self.fault_type.name}'
            if self.pid is not None and self.caller_prot is not None:
                prot = ' | '.join(map(lambda p: p.name, self.caller_prot))
                ret += f', vm_prot: {prot}, pid: {self.pid}'
        return ret
```
-/
def clsMachVmfault : ClassDef :=
  { name := "MachVmfault"
    fields := [("addr", none), ("is_kernel", none), ("result", none), ("fault_type", some .none), ("pid", some .none),
               ("caller_prot", some .none)]
    str := { base := [.lit "MachVmfault, addr: ", .hexFld "addr", .lit ", is_kernel: ", .fld "is_kernel", .lit ", result: ",
                      .fld "result"]
             rest := .ite (.eqInt "result" 0)
               (.seq (.append [.lit ", type: ", .nameFld "fault_type"])
                 (.ite (.and (.isNotNone "pid") (.isNotNone "caller_prot"))
                   (.append [.lit ", vm_prot: ", .joinNames " | " "caller_prot", .lit ", pid: ", .fld "pid"]))) } }

/-- `[e for e in events[1:-1] if 0x1320008 <= e.eventid <= 0x1320014]` -/
def realEventsE : Expr := filterRange (inner events) 0x1320008 0x1320014

/--
```python
        if real_events:
            vm_fault_real = parser.parse_event_list(real_events)                 # v3
            if vm_fault_real is not None:
                pid = vm_fault_real.pid                                          # v1
                caller_prot = vm_fault_real.caller_prot                          # v2
```
-/
def vmfaultReal : Stmt :=
  ite realEventsE
    (seq (nested 3 realEventsE)
      (ite (isNotNone (var 3))
        (seq (assign 1 (attr (var 3) "pid")) (assign 2 (attr (var 3) "caller_prot")))
        skip))
    skip

/--
```python
def handle_mach_vmfault(parser, events):
    args = events[0].values
    is_kernel = bool(args[2])
    rets = events[-1].values
    result = rets[2]
    fault_type = None                                                            # v0
    pid = None                                                                   # v1
    caller_prot = None                                                           # v2
    if result == 0:
        fault_type = DbgVmFaultType(rets[3])
        real_events = [e for e in events[1:-1] if 0x1320008 <= e.eventid <= 0x1320014]
        if real_events: …                                                        # vmfaultReal
    return MachVmfault(events, args[1], is_kernel, result, fault_type, pid, caller_prot)     # v4
```
-/
def handleMachVmfault : Stmt :=
  seq (assign 0 none) (seq (assign 1 none) (seq (assign 2 none)
    (seq (ite (ne (lastWord 2) (int 0)) skip
            (seq (assign 0 (enumOf "DbgVmFaultType" (lastWord 3))) vmfaultReal))
      (seq (construct 4 "MachVmfault" events [word 1, toBool (word 2), lastWord 2, var 0, var 1, var 2])
        (ret (var 4))))))

def mach : Program :=
  { classes := [clsMachVmfault]
    funs := [⟨"handle_mach_vmfault", handleMachVmfault⟩]
    handlers := [("MACH_vmfault", "handle_mach_vmfault")] }

/-! ## dyld.py -/

/-- `DyldUuidMapA(ktraces, uuid, load_addr, fsid)` / `DyldUuidSharedCacheA(…)`:
    `return f'<label>, uuid: "{self.uuid}", load_addr: {hex(self.load_addr)}, fsid: {hex(self.fsid)}'` -/
def clsImage (cls label : String) : ClassDef :=
  { name := cls
    fields := [("uuid", none), ("load_addr", none), ("fsid", none)]
    str := { base := [.lit (label ++ ", uuid: \""), .fld "uuid", .lit "\", load_addr: ", .hexFld "load_addr", .lit ", fsid: ",
                      .hexFld "fsid"]
             rest := .skip } }

/-- `DyldLaunchExecutable(ktraces, main_executable_mh, uuid_map_a)`:
    `return f'DBG_DYLD_TIMING_LAUNCH_EXECUTABLE, main_executable_mh: {hex(self.main_executable_mh)}'` -/
def clsLaunch : ClassDef :=
  { name := "DyldLaunchExecutable"
    fields := [("main_executable_mh", none), ("uuid_map_a", none)]
    str := { base := [.lit "DBG_DYLD_TIMING_LAUNCH_EXECUTABLE, main_executable_mh: ", .hexFld "main_executable_mh"],
             rest := .skip } }

/--
```python
def handle_uuid_map_a(parser, events):            # handle_uuid_shared_cache_a: the same with DyldUuidSharedCacheA
    args = events[0].values
    return DyldUuidMapA(events, UUID(bytes=events[0].data[:16]), args[2], args[3])
```
-/
def handleImage (cls : String) : Stmt :=
  seq (construct 0 cls events [uuidOf (takeTo (attr first "data") (int 16)), word 2, word 3]) (ret (var 0))

/--
```python
def handle_timing_launch_executable(parser, events):
    map_a = [handle_uuid_map_a(parser, [e]) for e in events if parser.trace_codes.get(e.eventid) == 'DYLD_uuid_map_a']   # v0
    map_a += [handle_uuid_shared_cache_a(parser, [e]) for e in events if
              parser.trace_codes.get(e.eventid) == 'DYLD_uuid_shared_cache_a']                                            # v1
    map_a = sorted(map_a, key=lambda x: x.load_addr)                                                                      # v2
    return DyldLaunchExecutable(events, events[0].values[1], map_a)                                                       # v3
```
-/
def handleLaunch : Stmt :=
  seq (mapCall 0 "handle_uuid_map_a" (filterNamed events "DYLD_uuid_map_a") Option.none)
    (seq (mapCall 1 "handle_uuid_shared_cache_a" (filterNamed events "DYLD_uuid_shared_cache_a") Option.none)
      (seq (assign 2 (sortedBy (concat (var 0) (var 1)) "load_addr"))
        (seq (construct 3 "DyldLaunchExecutable" events [word 1, var 2])
          (ret (var 3)))))

def dyld : Program :=
  { classes := [clsImage "DyldUuidMapA" "DYLD_uuid_map_a", clsImage "DyldUuidSharedCacheA" "DYLD_uuid_shared_cache_a",
                clsLaunch]
    funs := [⟨"handle_uuid_map_a", handleImage "DyldUuidMapA"⟩,
             ⟨"handle_uuid_shared_cache_a", handleImage "DyldUuidSharedCacheA"⟩,
             ⟨"handle_timing_launch_executable", handleLaunch⟩]
    handlers := [("DBG_DYLD_TIMING_LAUNCH_EXECUTABLE", "handle_timing_launch_executable")] }

def progs : Programs := { perf := perf, mach := mach, dyld := dyld }

end KdVerif.PyIRCo.Expected
