import KdVerif.Model.ContainerV3
import KdVerif.Proofs.Reader
/-
  Truncation lemmas: `Rel k r r'` says that `r'` reads the first `k` bytes of `r`'s data and stands at
  the same position.  `Det m`: whenever `m` SUCCEEDS on the truncated reader it succeeds on the full
  one with the same value, and the readers stay related (all primitives built from exact reads).
-/
namespace KdVerif
open Reader

def Rel (k : Nat) (r r' : Reader) : Prop := r'.data = r.data.take k ∧ r'.pos = r.pos

theorem Rel.rest {k : Nat} {r r' : Reader} (h : Rel k r r') : r'.rest = r.rest.take (k - r.pos) := by
  simp only [Reader.rest, h.1, h.2, List.drop_take]

/-- a read that comes back complete on the truncated reader is the same read on the full one. -/
theorem Rel.read_full {k : Nat} {r r' : Reader} (h : Rel k r r') (n : Nat)
    (hl : (r'.read n).1.length = n) :
    (r.read n).1 = (r'.read n).1 ∧ Rel k (r.read n).2 (r'.read n).2 := by
  have hr := h.rest
  simp only [read_fst] at hl ⊢
  rw [hr, List.take_take] at hl ⊢
  have hle : n ≤ k - r.pos := by
    rw [List.length_take] at hl
    omega
  rw [Nat.min_eq_left hle] at hl ⊢
  refine ⟨rfl, ?_, ?_⟩
  · simp [h.1]
  · simp only [read_pos, h.2, hr, List.length_take] at hl ⊢
    omega

/-- a short read on the truncated reader exhausts it. -/
theorem read_short_rest (r : Reader) (n : Nat) (hl : (r.read n).1.length ≠ n) : (r.read n).2.rest = [] := by
  rw [read_rest]
  simp only [read_fst, List.length_take] at hl
  exact List.drop_eq_nil_of_le (by omega)

def Det {α : Type} (m : RM α) : Prop :=
  ∀ k r r', Rel k r r' → ∀ a r1', m r' = (.ok a, r1') → ∃ r1, m r = (.ok a, r1) ∧ Rel k r1 r1'

theorem Det.pure {α : Type} (a : α) : Det (pure a : RM α) := by
  intro k r r' h b r1' e
  simp only [RM.pure_apply, Prod.mk.injEq, Except.ok.injEq] at e
  exact ⟨r, by rw [RM.pure_apply, e.1], e.2 ▸ h⟩

theorem RM.bind_eq_ok {α β : Type} {m : RM α} {f : α → RM β} {r r2 : Reader} {b : β}
    (h : (m >>= f) r = (.ok b, r2)) : ∃ a r1, m r = (.ok a, r1) ∧ f a r1 = (.ok b, r2) := by
  change RM.bind' m f r = _ at h
  unfold RM.bind' at h
  split at h
  · rename_i a r1 e; exact ⟨a, r1, e, h⟩
  · simp at h

theorem Det.bind {α β : Type} {m : RM α} {f : α → RM β} (hm : Det m) (hf : ∀ a, Det (f a)) :
    Det (m >>= f) := by
  intro k r r' h b r2' e
  obtain ⟨a, r1', e1, e2⟩ := RM.bind_eq_ok e
  obtain ⟨r1, e1', h1⟩ := hm k r r' h a r1' e1
  obtain ⟨r2, e2', h2⟩ := hf a k r1 r1' h1 b r2' e2
  exact ⟨r2, by rw [RM.bind_ok e1', e2'], h2⟩

theorem Det.readExact (n : Nat) : Det (readExact n) := by
  intro k r r' h a r1' e
  rw [readExact_eq] at e ⊢
  by_cases hov : ssizeLimit ≤ n
  · rw [if_pos hov] at e; simp at e
  rw [if_neg hov] at e ⊢
  by_cases hl : (r'.read n).1.length = n
  · rw [if_pos hl] at e
    simp only [Prod.mk.injEq, Except.ok.injEq] at e
    obtain ⟨h1, h2⟩ := h.read_full n hl
    refine ⟨(r.read n).2, ?_, e.2 ▸ h2⟩
    rw [h1, if_pos hl, e.1]
  · rw [if_neg hl] at e
    simp at e

theorem Det.tell : Det tell := by
  intro k r r' h a r1' e
  simp only [KdVerif.tell, Prod.mk.injEq, Except.ok.injEq] at e
  exact ⟨r, by simp [KdVerif.tell, ← e.1, h.2], e.2 ▸ h⟩

theorem Det.throw {α : Type} (e : PyErr) : Det (RM.throw' e : RM α) := by
  intro k r r' _ a r1' h
  simp [RM.throw'] at h

theorem Det.int32ul : Det int32ul := Det.bind (Det.readExact 4) (fun _ => Det.pure _)
theorem Det.int64ul : Det int64ul := Det.bind (Det.readExact 8) (fun _ => Det.pure _)
theorem Det.prefixedBytes : Det prefixedBytes := Det.bind Det.int64ul (fun n => Det.readExact n)

theorem Det.aligned {α : Type} (modulus : Nat) {m : RM α} (hm : Det m) : Det (aligned modulus m) :=
  Det.bind Det.tell fun _ => Det.bind hm fun _ => Det.bind Det.tell fun _ =>
    Det.bind (Det.readExact _) fun _ => Det.pure _

theorem Det.readFields : ∀ ns : List Nat, Det (readFields ns)
  | [] => Det.pure _
  | n :: ns => Det.bind (Det.readExact n) fun _ => Det.bind (Det.readFields ns) fun _ => Det.pure _

theorem Det.headerV3 (plist : Bytes → Option PView) : Det (headerV3 plist) := by
  unfold KdVerif.headerV3 headerV3Inner
  refine Det.aligned 8 (Det.bind (Det.readFields _) fun fs => Det.bind Det.prefixedBytes fun p => ?_)
  cases plist p with
  | none => exact Det.throw _
  | some _ => exact Det.pure _

end KdVerif

namespace KdVerif
open Reader

theorem seekAux_take (tag : Bytes) (s : Bytes) (j : Nat) (found : Bytes) (n m : Nat)
    (h : seekAux tag (s.take j) found n = (true, m)) : seekAux tag s found n = (true, m) := by
  induction s generalizing j found n with
  | nil => simpa using h
  | cons b t ih =>
    cases j with
    | zero =>
      simp only [List.take_zero, seekAux, Prod.mk.injEq, decide_eq_true_eq] at h
      simp only [seekAux, h.1, if_true, h.2]
    | succ j =>
      simp only [List.take_succ_cons, seekAux] at h ⊢
      by_cases hf : found = tag
      · simpa [hf] using h
      · simp only [hf, if_false] at h ⊢
        exact ih _ _ _ h

theorem seekUntil_eq (tag : Bytes) (r : Reader) : seekUntil tag r =
    if (seekAux tag (r.read tag.length).2.rest (r.read tag.length).1 0).1 then
      (.ok (), (r.read tag.length).2.stepBytes (seekAux tag (r.read tag.length).2.rest (r.read tag.length).1 0).2 0)
    else
      (.error .eof, (r.read tag.length).2.stepBytes (seekAux tag (r.read tag.length).2.rest (r.read tag.length).1 0).2 1) := rfl

@[simp] theorem Reader.stepBytes_data (r : Reader) (n e : Nat) : (r.stepBytes n e).data = r.data := rfl
@[simp] theorem Reader.stepBytes_pos (r : Reader) (n e : Nat) : (r.stepBytes n e).pos = r.pos + n := rfl

theorem seekAux_nil_short (tag found : Bytes) (n : Nat) (h : found.length ≠ tag.length) :
    (seekAux tag [] found n).1 = false := by
  have : found ≠ tag := fun e => h (by rw [e])
  simp [seekAux, this]

theorem Det.seekUntil (tag : Bytes) : Det (seekUntil tag) := by
  intro k r r' h a r1' e
  rw [seekUntil_eq] at e ⊢
  by_cases hl : (r'.read tag.length).1.length = tag.length
  · obtain ⟨h1, h2⟩ := h.read_full _ hl
    obtain ⟨b, m, hbm⟩ : ∃ b m, seekAux tag (r'.read tag.length).2.rest (r'.read tag.length).1 0 = (b, m) :=
      ⟨_, _, rfl⟩
    rw [hbm] at e
    cases b with
    | false => simp at e
    | true =>
      simp only [if_true, Prod.mk.injEq, Except.ok.injEq, true_and] at e
      rw [h2.rest, ← h1] at hbm
      have := seekAux_take _ _ _ _ _ _ hbm
      rw [this]
      refine ⟨(r.read tag.length).2.stepBytes m 0, by simp only [if_true], ?_⟩
      rw [← e]
      exact ⟨by rw [Reader.stepBytes_data, Reader.stepBytes_data]; exact h2.1,
        by rw [Reader.stepBytes_pos, Reader.stepBytes_pos, h2.2]⟩
  · have hr := read_short_rest r' _ hl
    rw [hr, seekAux_nil_short tag _ 0 hl] at e
    simp at e

theorem seekUntil_nil_fails (tag : Bytes) (ht : tag ≠ []) (r : Reader) (hr : r.rest = []) :
    ∃ r1, seekUntil tag r = (.error .eof, r1) := by
  rw [seekUntil_eq]
  have h1 : (r.read tag.length).1 = [] := by simp [hr]
  have h2 : (r.read tag.length).2.rest = [] := by rw [read_rest, hr]; simp
  have : (seekAux tag [] [] 0).1 = false :=
    seekAux_nil_short tag [] 0 (by simpa using fun e => ht (List.eq_nil_of_length_eq_zero e.symm))
  rw [h1, h2, this]
  simp only [Bool.false_eq_true, if_false]
  exact ⟨_, rfl⟩

/-- `reader.read(n)` followed by a tag scan: the only plain (short-read tolerant) read in front of the
    events; if it came back short on the truncated reader the scan fails, so success is stable. -/
theorem Det.plainThenSeek {β : Type} (n : Nat) (tag : Bytes) (ht : tag ≠ []) {g : RM β} (hg : Det g) :
    Det (readPlain n >>= fun _ => (KdVerif.seekUntil tag >>= fun _ => g)) := by
  intro k r r' h b r2' e
  obtain ⟨a, r1', e1, e2⟩ := RM.bind_eq_ok e
  simp only [readPlain, Prod.mk.injEq, Except.ok.injEq] at e1
  by_cases hl : (r'.read n).1.length = n
  · obtain ⟨h1, h2⟩ := h.read_full n hl
    rw [← e1.2] at e2
    obtain ⟨r2, e2', hh⟩ := (Det.bind (Det.seekUntil tag) (fun _ => hg)) k _ _ h2 b r2' e2
    refine ⟨r2, ?_, hh⟩
    have : readPlain n r = (.ok (r.read n).1, (r.read n).2) := rfl
    rw [RM.bind_ok this, e2']
  · have hr := read_short_rest r' n hl
    rw [e1.2] at hr
    obtain ⟨x, r3, e3, _⟩ := RM.bind_eq_ok e2
    obtain ⟨r4, e4⟩ := seekUntil_nil_fails tag ht r1' hr
    rw [e4] at e3
    simp at e3

theorem Det.threadmapV3 : Det threadmapV3 := by
  unfold KdVerif.threadmapV3
  exact Det.plainThenSeek _ _ (by decide)
    (Det.bind (Det.seekUntil _) fun _ => Det.bind Det.prefixedBytes fun _ => Det.pure _)

theorem Det.fixedCString (n : Nat) : Det (fixedCString n) := by
  intro k r r' h a r1' e
  unfold KdVerif.fixedCString at e ⊢
  split at e
  · simp at e
  · rename_i b r0' eb
    obtain ⟨r0, eb', h0⟩ := Det.readExact n k r r' h b r0' eb
    rw [eb']
    split at e
    · rename_i s hs
      simp only [Prod.mk.injEq, Except.ok.injEq] at e
      exact ⟨r0, by simp only [hs, e.1], e.2 ▸ h0⟩
    · simp at e

theorem Det.threadEntry : Det threadEntry :=
  Det.bind Det.int64ul fun _ => Det.bind Det.int32ul fun _ => Det.bind (Det.fixedCString _) fun _ => Det.pure _

theorem Det.arrayN {α : Type} {m : RM α} (hm : Det m) : ∀ n, Det (arrayN m n)
  | 0 => Det.pure _
  | n + 1 => Det.bind hm fun _ => Det.bind (Det.arrayN hm n) fun _ => Det.pure _

theorem Det.padding (n : Nat) : Det (padding n) := Det.bind (Det.readExact n) fun _ => Det.pure _

end KdVerif

namespace KdVerif
open Reader

/-- what the loops need from the record decoder: anything but 64 bytes is rejected (C01). -/
def RejectsShort {ε : Type} (dec : Bytes → Except PyErr ε) : Prop :=
  ∀ x : Bytes, x.length ≠ 64 → ∃ e, dec x = .error e

theorem recordLoop_trunc {ε : Type} (dec : Bytes → Except PyErr ε) (hdec : RejectsShort dec)
    {k : Nat} (fuel' : Nat) : ∀ (fuel : Nat) (r r' : Reader), Rel k r r' → fuel' ≤ fuel →
    (recordLoop dec fuel' r').1 <+: (recordLoop dec fuel r).1 := by
  induction fuel' with
  | zero => intro fuel r r' _ _; exact List.nil_prefix
  | succ f' ih =>
    intro fuel r r' h hf
    obtain ⟨f, rfl⟩ : ∃ f, fuel = f + 1 := ⟨fuel - 1, by omega⟩
    simp only [recordLoop]
    by_cases he : (r'.read 64).1 = []
    · simp only [he, if_true]; exact List.nil_prefix
    · by_cases hl : (r'.read 64).1.length = 64
      · obtain ⟨h1, h2⟩ := h.read_full 64 hl
        rw [h1]
        simp only [he, if_false]
        cases hd : dec (r'.read 64).1 with
        | error e => exact List.nil_prefix
        | ok ev =>
          simp only [List.cons_prefix_cons, true_and]
          exact ih f _ _ h2 (by omega)
      · obtain ⟨e, hd⟩ := hdec _ hl
        simp only [he, if_false, hd]; exact List.nil_prefix

theorem recordsN_trunc {ε : Type} (dec : Bytes → Except PyErr ε) (hdec : RejectsShort dec) {k : Nat} (n : Nat) :
    ∀ (r r' : Reader), Rel k r r' →
      (recordsN dec n r').1 <+: (recordsN dec n r).1 ∧
      ((recordsN dec n r').2.1 = none →
        (recordsN dec n r).1 = (recordsN dec n r').1 ∧ (recordsN dec n r).2.1 = none ∧
          Rel k (recordsN dec n r).2.2 (recordsN dec n r').2.2) := by
  induction n with
  | zero => intro r r' h; exact ⟨List.nil_prefix, fun _ => ⟨rfl, rfl, h⟩⟩
  | succ n ih =>
    intro r r' h
    simp only [recordsN, Gen.Consts.keventSize]
    by_cases hl : (r'.read 64).1.length = 64
    · obtain ⟨h1, h2⟩ := h.read_full 64 hl
      rw [h1]
      cases hd : dec (r'.read 64).1 with
      | error e => exact ⟨List.nil_prefix, fun hh => by simp at hh⟩
      | ok ev =>
        obtain ⟨i1, i2⟩ := ih _ _ h2
        refine ⟨by simp only [List.cons_prefix_cons, true_and]; exact i1, fun hh => ?_⟩
        obtain ⟨j1, j2, j3⟩ := i2 hh
        exact ⟨by simp only [j1], j2, j3⟩
    · obtain ⟨e, hd⟩ := hdec _ hl
      simp only [hd]
      exact ⟨List.nil_prefix, fun hh => by simp at hh⟩

/-- at end of file a chunk delivers nothing. -/
theorem recordsN_exhausted {ε : Type} (dec : Bytes → Except PyErr ε) (hdec : RejectsShort dec) (n : Nat)
    (r : Reader) (hr : r.rest = []) :
    (recordsN dec n r).1 = [] ∧ ((recordsN dec n r).2.1 = none → (recordsN dec n r).2.2.rest = []) := by
  cases n with
  | zero => exact ⟨rfl, fun _ => hr⟩
  | succ n =>
    have : (r.read 64).1.length ≠ 64 := by simp [hr]
    obtain ⟨e, hd⟩ := hdec _ this
    simp only [recordsN, Gen.Consts.keventSize, hd]
    exact ⟨trivial, fun hh => by simp at hh⟩

theorem chunkLoop_trunc {ε : Type} (dec : Bytes → Except PyErr ε) (hdec : RejectsShort dec)
    {k : Nat} (fuel' : Nat) : ∀ (fuel : Nat) (r r' : Reader), Rel k r r' → fuel' ≤ fuel →
    (chunkLoop dec fuel' r').1 <+: (chunkLoop dec fuel r).1 := by
  induction fuel' with
  | zero => intro fuel r r' _ _; exact List.nil_prefix
  | succ f' ih =>
    intro fuel r r' h hf
    obtain ⟨f, rfl⟩ : ∃ f, fuel = f + 1 := ⟨fuel - 1, by omega⟩
    rw [chunkLoop]
    cases hs' : seekUntil Gen.Consts.TRACEV3_EVENTS_TAG r' with
    | mk res1' r1' =>
    cases res1' with
    | error e => exact List.nil_prefix
    | ok u =>
      obtain ⟨r1, hs, h1⟩ := Det.seekUntil _ k r r' h u r1' hs'
      rw [chunkLoop, hs]
      simp only
      cases hi' : int64ul r1' with
      | mk res2' r2' =>
      cases res2' with
      | error e => exact List.nil_prefix
      | ok size =>
        obtain ⟨r2, hi, h2⟩ := Det.int64ul k r1 r1' h1 size r2' hi'
        rw [hi]
        simp only
        by_cases hl : (r2'.read 8).1.length = 8
        · obtain ⟨_, h3⟩ := h2.read_full 8 hl
          obtain ⟨q1, q2⟩ := recordsN_trunc dec hdec (size / Gen.Consts.keventSize) _ _ h3
          cases hq' : (recordsN dec (size / Gen.Consts.keventSize) (r2'.read 8).2).2.1 with
          | some e =>
            simp only
            cases hq : (recordsN dec (size / Gen.Consts.keventSize) (r2.read 8).2).2.1 with
            | some e2 => exact q1
            | none =>
              simp only
              split
              · exact q1.trans (List.prefix_append _ _)
              · exact q1
          | none =>
            obtain ⟨j1, j2, j3⟩ := q2 hq'
            simp only [j2, j1]
            by_cases hm : ((recordsN dec (size / Gen.Consts.keventSize) (r2'.read 8).2).2.2.read
                Gen.Consts.TRACEV3_MORE_EVENTS.length).1 = Gen.Consts.TRACEV3_MORE_EVENTS
            · have hl4 : ((recordsN dec (size / Gen.Consts.keventSize) (r2'.read 8).2).2.2.read
                  Gen.Consts.TRACEV3_MORE_EVENTS.length).1.length = Gen.Consts.TRACEV3_MORE_EVENTS.length := by
                rw [hm]
              obtain ⟨g1, g2⟩ := j3.read_full _ hl4
              simp only [hm, if_true, g1]
              rw [List.prefix_append_right_inj]
              exact ih f _ _ g2 (by omega)
            · simp only [hm, if_false]
              split
              · exact List.prefix_append _ _
              · exact List.prefix_refl _
        · have hr := read_short_rest r2' 8 hl
          obtain ⟨x1, x2⟩ := recordsN_exhausted dec hdec (size / Gen.Consts.keventSize) _ hr
          cases hq' : (recordsN dec (size / Gen.Consts.keventSize) (r2'.read 8).2).2.1 with
          | some e => simp only [x1]; exact List.nil_prefix
          | none =>
            have hr2 := x2 hq'
            have : ¬ ((recordsN dec (size / Gen.Consts.keventSize) (r2'.read 8).2).2.2.read
                Gen.Consts.TRACEV3_MORE_EVENTS.length).1 = Gen.Consts.TRACEV3_MORE_EVENTS := by
              simp [hr2, Gen.Consts.TRACEV3_MORE_EVENTS]
            simp only [this, if_false, x1]; exact List.nil_prefix

end KdVerif

namespace KdVerif
open Reader

/-- number of leading zero bytes. -/
def leadZeros (s : Bytes) : Nat := (s.takeWhile (· == 0)).length

theorem leadZeros_take (s : Bytes) (j : Nat) : leadZeros (s.take j) = min (leadZeros s) j := by
  induction s generalizing j with
  | nil => simp [leadZeros]
  | cons b t ih =>
    cases j with
    | zero => simp [leadZeros]
    | succ j =>
      by_cases hb : b = 0
      · have := ih j
        simp only [leadZeros, List.take_succ_cons, List.takeWhile_cons, hb, beq_self_eq_true, if_true,
          List.length_cons] at this ⊢
        omega
      · have hb' : (b == 0) = false := by simpa using hb
        simp [leadZeros, List.takeWhile_cons, hb']

theorem leadZeros_le (s : Bytes) : leadZeros s ≤ s.length := by
  unfold leadZeros
  exact (List.takeWhile_sublist _).length_le

/-- closed form of the greedy zero skipper: it stops behind the leading zeros of the unread suffix. -/
theorem greedyZeros_spec (fuel : Nat) : ∀ (r : Reader), r.rest.length + 1 ≤ fuel →
    ∃ l b, greedyRange constZeroByte fuel r = (.ok l, b) ∧ b.data = r.data ∧ b.pos = r.pos + leadZeros r.rest
      ∧ l.length = leadZeros r.rest := by
  induction fuel with
  | zero => intro r h; omega
  | succ fuel ih =>
    intro r hf
    cases hrest : r.rest with
    | nil =>
      have : readExact 1 r = (.error .streamError, (r.read 1).2) := by
        rw [readExact_small (by decide)]; simp [hrest]
      have e1 : constZeroByte r = (.error .streamError, (r.read 1).2) := by
        unfold constZeroByte; rw [RM.bind_err this]
      exact ⟨[], (r.read 1).2.seekTo r.pos, by simp only [greedyRange, e1], by simp, by simp [leadZeros],
        by simp [leadZeros]⟩
    | cons b t =>
      have h' : r.rest = [b] ++ t := by simpa using hrest
      obtain ⟨r1, e1, c1⟩ := readExact_cont (n := 1) h' rfl
      have hp1 : r1.pos = r.pos + 1 := by
        have := congrArg (fun x => x.2.pos) e1
        rw [readExact_small (by decide)] at this
        simp only [read_fst, hrest, List.take_succ_cons, List.take_zero, List.length_cons, List.length_nil,
          Nat.zero_add, if_true, read_pos] at this
        simp at this
        omega
      by_cases hb : b = 0
      · subst hb
        have ez : constZeroByte r = (.ok (), r1) := by
          unfold constZeroByte; rw [RM.bind_ok e1]; rfl
        obtain ⟨l, b2, e2, d2, p2, l2⟩ := ih r1 (by rw [c1.1]; simp [hrest] at hf; omega)
        refine ⟨() :: l, b2, by simp only [greedyRange, ez, e2], d2.trans c1.2, ?_, ?_⟩
        · rw [p2, hp1, c1.1]; simp [leadZeros]; omega
        · rw [List.length_cons, l2, c1.1]; simp [leadZeros]
      · have ez : constZeroByte r = (.error .streamError, r1) := by
          unfold constZeroByte; rw [RM.bind_ok e1]
          simp [hb]; rfl
        have hb' : (b == 0) = false := by simpa using hb
        exact ⟨[], r1.seekTo r.pos, by simp only [greedyRange, ez], by simp [c1.2], by simp [leadZeros, hb'],
          by simp [leadZeros, hb']⟩

def DetW {α : Type} (R : α → α → Prop) (m : RM α) : Prop :=
  ∀ k r r', Rel k r r' → ∀ a r1', m r' = (.ok a, r1') →
    ∃ b r1, m r = (.ok b, r1) ∧ R b a ∧ (Rel k r1 r1' ∨ r1'.rest = [])

theorem DetW.bind {α β : Type} {R : β → β → Prop} {m : RM α} {f : α → RM β} (hm : Det m)
    (hf : ∀ a, DetW R (f a)) : DetW R (m >>= f) := by
  intro k r r' h b r2' e
  obtain ⟨a, r1', e1, e2⟩ := RM.bind_eq_ok e
  obtain ⟨r1, e1', h1⟩ := hm k r r' h a r1' e1
  obtain ⟨b2, r2, e2', h2⟩ := hf a k r1 r1' h1 b r2' e2
  exact ⟨b2, r2, by rw [RM.bind_ok e1', e2'], h2⟩

theorem zeroSkip_detW {β : Type} {R : β → β → Prop} (g : List Unit → β) (hR : ∀ l l', R (g l) (g l')) :
    DetW R (restFuel >>= fun fuel => (greedyRange constZeroByte fuel >>= fun pad => (pure (g pad) : RM β))) := by
  intro k r r' h b r2' e
  obtain ⟨l, b1, e1, d1, p1, _⟩ := greedyZeros_spec (r.rest.length + 1) r (Nat.le_refl _)
  obtain ⟨l', b1', e1', d1', p1', _⟩ := greedyZeros_spec (r'.rest.length + 1) r' (Nat.le_refl _)
  have hr : restFuel r = (.ok (r.rest.length + 1), r) := rfl
  have hr' : restFuel r' = (.ok (r'.rest.length + 1), r') := rfl
  have e2 : (restFuel >>= fun fuel => (greedyRange constZeroByte fuel >>= fun pad => (pure (g pad) : RM β))) r'
      = (.ok (g l'), b1') := by rw [RM.bind_ok hr', RM.bind_ok e1']; rfl
  rw [e2] at e
  simp only [Prod.mk.injEq, Except.ok.injEq] at e
  refine ⟨g l, b1, by rw [RM.bind_ok hr, RM.bind_ok e1]; rfl, e.1 ▸ hR l l', ?_⟩
  rw [← e.2]
  rw [h.rest, leadZeros_take] at p1'
  by_cases hz : leadZeros r.rest ≤ k - r.pos
  · left
    exact ⟨by rw [d1', d1, h.1], by rw [p1', p1, h.2, Nat.min_eq_left hz]⟩
  · right
    have hlen := leadZeros_le r.rest
    simp only [Reader.rest, List.length_drop] at hlen
    have hz' : k - r.pos ≤ leadZeros r.rest := by omega
    rw [Nat.min_eq_right hz'] at p1'
    simp only [Reader.rest, d1', h.1, p1', h.2]
    apply List.drop_eq_nil_of_le
    rw [List.length_take]
    omega

theorem headerV2_detW : DetW (fun b a => b.threadmap = a.threadmap) headerV2 := by
  unfold headerV2
  exact DetW.bind Det.int32ul fun _ => DetW.bind (Det.padding _) fun _ => DetW.bind (Det.padding _) fun _ =>
    DetW.bind Det.int32ul fun _ => DetW.bind Det.int64ul fun _ => DetW.bind (Det.padding _) fun _ =>
    DetW.bind (Det.arrayN Det.threadEntry _) fun _ => zeroSkip_detW _ (fun _ _ => rfl)

theorem recordLoop_nil {ε : Type} (dec : Bytes → Except PyErr ε) (fuel : Nat) (r : Reader) (hr : r.rest = []) :
    (recordLoop dec fuel r).1 = [] := by
  cases fuel with
  | zero => rfl
  | succ f => simp [recordLoop, hr]

theorem parseV2_trunc {ε : Type} (dec : Bytes → Except PyErr ε) (hdec : RejectsShort dec) (prior prior' : Tables)
    {k : Nat} {r r' : Reader} (h : Rel k r r') :
    (parseV2 dec prior' r').events <+: (parseV2 dec prior r).events := by
  unfold parseV2
  cases hh' : headerV2 r' with
  | mk res' r1' =>
  cases res' with
  | error e => exact List.nil_prefix
  | ok hd' =>
    obtain ⟨hd, r1, hh, _, hrel⟩ := headerV2_detW k r r' h hd' r1' hh'
    rw [hh]
    simp only
    rcases hrel with hrel | hnil
    · apply recordLoop_trunc dec hdec _ _ _ _ hrel
      rw [hrel.rest, List.length_take]
      have : min (k - r1.pos) r1.rest.length ≤ r1.rest.length := Nat.min_le_right _ _
      omega
    · rw [recordLoop_nil dec _ _ hnil]; exact List.nil_prefix

end KdVerif

namespace KdVerif
open Reader

theorem events_evs {ε : Type} (l : List ε) (e : Option PyErr) (t t' : Tables) (m : V3Meta) (r : Reader) :
    (Run3.mk (l.map Out.ev) e t t' m r).events = l := by
  simp only [Run3.events]
  induction l with
  | nil => rfl
  | cons a l ih => simpa [Out.ev?] using ih

theorem events_evs_logs {ε : Type} (l : List ε) (g : List LogOut) (e : Option PyErr) (t t' : Tables) (m : V3Meta)
    (r : Reader) : (Run3.mk (l.map Out.ev ++ g.map Out.log) e t t' m r).events = l := by
  have h1 : (l.map (Out.ev (ε := ε))).filterMap Out.ev? = l := by
    induction l with
    | nil => rfl
    | cons a l ih => simpa [Out.ev?] using ih
  have h2 : (g.map (Out.log (ε := ε))).filterMap Out.ev? = [] := by
    induction g with
    | nil => rfl
    | cons a g ih => simpa [Out.ev?] using ih
  unfold Run3.events
  rw [List.filterMap_append, h1, h2, List.append_nil]

/-- everything after the chunk loop only adds log records. -/
theorem tailV3_events {ε : Type} (plist : Bytes → Option PView) (evs : List ε) (t : Tables) (m : V3Meta)
    (r : Reader) : (tailV3 plist evs t m r).events = evs := by
  unfold tailV3
  simp only
  split
  · exact events_evs _ _ _ _ _ _
  · unfold tailOfBlocks
    split
    · exact events_evs _ _ _ _ _ _
    · exact events_evs_logs _ _ _ _ _ _ _

theorem parseV3_trunc {ε : Type} (plist : Bytes → Option PView) (dec : Bytes → Except PyErr ε)
    (hdec : RejectsShort dec) (prior prior' : PState) {k : Nat} {r r' : Reader} (h : Rel k r r') :
    (parseV3 plist dec prior' r').events <+: (parseV3 plist dec prior r).events := by
  unfold parseV3
  cases hh' : headerV3 plist r' with
  | mk res' r1' =>
  cases res' with
  | error e => exact List.nil_prefix
  | ok hd =>
    obtain ⟨r1, hh, h1⟩ := Det.headerV3 plist k r r' h hd r1' hh'
    rw [hh]
    simp only
    cases ht' : threadmapV3 r1' with
    | mk res2' r2' =>
    cases res2' with
    | error e => exact List.nil_prefix
    | ok tm =>
      obtain ⟨r2, ht, h2⟩ := Det.threadmapV3 k r1 r1' h1 tm r2' ht'
      rw [ht]
      simp only
      have hfuel : r2'.rest.length / 16 + 2 ≤ r2.rest.length / 16 + 2 := by
        rw [h2.rest, List.length_take]
        have : min (k - r2.pos) r2.rest.length ≤ r2.rest.length := Nat.min_le_right _ _
        have := Nat.div_le_div_right (c := 16) this
        omega
      have key := chunkLoop_trunc dec hdec (r2'.rest.length / 16 + 2) (r2.rest.length / 16 + 2) r2 r2' h2 hfuel
      split <;> split <;> simp only [events_evs, tailV3_events] <;> exact key

theorem parse_trunc {ε : Type} (plist : Bytes → Option PView) (dec : Bytes → Except PyErr ε)
    (hdec : RejectsShort dec) (prior prior' : PState) (data : Bytes) (k : Nat) :
    (parse plist dec prior' (data.take k)).events <+: (parse plist dec prior data).events := by
  have h0 : Rel k (Reader.ofBytes data) (Reader.ofBytes (data.take k)) := ⟨rfl, rfl⟩
  unfold parse
  by_cases hl : ((Reader.ofBytes (data.take k)).read Gen.Consts.RAW_VERSION_SIZE).1.length = Gen.Consts.RAW_VERSION_SIZE
  · obtain ⟨h1, h2⟩ := h0.read_full _ hl
    simp only [h1]
    split
    · simp only [events_evs]
      exact parseV2_trunc dec hdec _ _ h2
    · split
      · exact parseV3_trunc plist dec hdec _ _ h2
      · exact List.nil_prefix
  · have n2 : ¬ ((Reader.ofBytes (data.take k)).read Gen.Consts.RAW_VERSION_SIZE).1 = Gen.Consts.RAW_VERSION2_BYTES :=
      fun e => hl (by rw [e]; rfl)
    have n3 : ¬ ((Reader.ofBytes (data.take k)).read Gen.Consts.RAW_VERSION_SIZE).1 = Gen.Consts.RAW_VERSION3_BYTES :=
      fun e => hl (by rw [e]; rfl)
    simp only [n2, n3, if_false]
    exact List.nil_prefix

end KdVerif

namespace KdVerif
open Reader

/-- when the cut v2 dump gets as far as its records, its tables are the full dump's tables. -/
theorem parseV2_trunc_tables {ε : Type} (dec : Bytes → Except PyErr ε) (prior prior' : Tables)
    {k : Nat} {r r' : Reader} (h : Rel k r r') (hne : (parseV2 dec prior' r').events ≠ []) :
    (parseV2 dec prior' r').tables = (parseV2 dec prior r).tables := by
  unfold parseV2 at hne ⊢
  cases hh' : headerV2 r' with
  | mk res' r1' =>
  rw [hh'] at hne
  cases res' with
  | error e => simp at hne
  | ok hd' =>
    obtain ⟨hd, r1, hh, htm, _⟩ := headerV2_detW k r r' h hd' r1' hh'
    rw [hh]
    simp only [setThreadMap, htm]

theorem parseV3_trunc_tables {ε : Type} (plist : Bytes → Option PView) (dec : Bytes → Except PyErr ε)
    (prior prior' : PState) {k : Nat} {r r' : Reader} (h : Rel k r r')
    (hne : (parseV3 plist dec prior' r').events ≠ []) :
    (parseV3 plist dec prior' r').tmTables = (parseV3 plist dec prior r).tmTables := by
  unfold parseV3 at hne ⊢
  cases hh' : headerV3 plist r' with
  | mk res' r1' =>
  rw [hh'] at hne
  cases res' with
  | error e => exact absurd rfl hne
  | ok hd =>
    obtain ⟨r1, hh, h1⟩ := Det.headerV3 plist k r r' h hd r1' hh'
    rw [hh]
    dsimp only at hne ⊢
    cases ht' : threadmapV3 r1' with
    | mk res2' r2' =>
    rw [ht'] at hne
    cases res2' with
    | error e => exact absurd rfl hne
    | ok tm =>
      obtain ⟨r2, ht, h2⟩ := Det.threadmapV3 k r1 r1' h1 tm r2' ht'
      rw [ht]
      dsimp only
      have tl : ∀ (evs : List ε) (t : Tables) (m : V3Meta) (x : Reader), (tailV3 plist evs t m x).tmTables = t := by
        intro evs t m x
        unfold tailV3
        dsimp only
        split
        · rfl
        · unfold tailOfBlocks
          split <;> rfl
      split <;> split <;> simp only [tl, setThreadMap]

theorem parse_trunc_tables {ε : Type} (plist : Bytes → Option PView) (dec : Bytes → Except PyErr ε)
    (prior prior' : PState) (data : Bytes) (k : Nat)
    (hne : (parse plist dec prior' (data.take k)).events ≠ []) :
    (parse plist dec prior' (data.take k)).tmTables = (parse plist dec prior data).tmTables := by
  have h0 : Rel k (Reader.ofBytes data) (Reader.ofBytes (data.take k)) := ⟨rfl, rfl⟩
  unfold parse at hne ⊢
  by_cases hl : ((Reader.ofBytes (data.take k)).read Gen.Consts.RAW_VERSION_SIZE).1.length = Gen.Consts.RAW_VERSION_SIZE
  · obtain ⟨h1, h2⟩ := h0.read_full _ hl
    simp only [h1] at hne ⊢
    split
    · rename_i hv2
      simp only [hv2, if_true, events_evs] at hne
      exact parseV2_trunc_tables dec _ _ h2 hne
    · rename_i hv2
      simp only [hv2, if_false] at hne
      split
      · rename_i hv3
        simp only [hv3, if_true] at hne
        exact parseV3_trunc_tables plist dec _ _ h2 hne
      · rename_i hv3
        simp only [hv3, if_false] at hne
        exact absurd rfl hne
  · have n2 : ¬ ((Reader.ofBytes (data.take k)).read Gen.Consts.RAW_VERSION_SIZE).1 = Gen.Consts.RAW_VERSION2_BYTES :=
      fun e => hl (by rw [e]; rfl)
    have n3 : ¬ ((Reader.ofBytes (data.take k)).read Gen.Consts.RAW_VERSION_SIZE).1 = Gen.Consts.RAW_VERSION3_BYTES :=
      fun e => hl (by rw [e]; rfl)
    simp only [n2, n3, if_false] at hne
    exact absurd rfl hne

end KdVerif
