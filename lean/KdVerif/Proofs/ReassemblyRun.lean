import KdVerif.Proofs.Reassembly
import KdVerif.Proofs.Projection
import KdVerif.Proofs.Composite
/-
  C08 lemmas, part 2: the records of one split text fed through the whole parser (`Trace.run`), interleaved
  with other records.  Generic in the handler: `Reasm` collects what is needed from a handler
  (continuation records are swallowed; the complete window yields the trace).
-/
namespace KdVerif.Reassembly
open KdVerif.Pairing

section pairing
variable (domOf : Nat → Bool)

/-- What a stored list of key `k` looks like. -/
def GoodList (k : Key) (w : List Kevent) : Prop :=
  (∃ y ys, w = y :: ys ∧ y.eventid = k.eid) ∧ ∀ x ∈ w, x.tid = k.tid ∧ domOf x.eventid = k.dom

/-- Invariant of the two pairing tables: every stored list is non-empty, begins with a record of the key's
    code and holds records of the key's thread and pairing domain only.  True of the empty tables and kept by
    every `feed`. -/
def WF (s : Pairing.PState) : Prop := ∀ k w, s k = some w → GoodList domOf k w

theorem wf_empty : WF domOf Pairing.PState.empty := by
  intro k w h; simp [Pairing.PState.empty] at h

theorem goodList_snoc (k : Key) (w : List Kevent) (e : Kevent) (h : GoodList domOf k w)
    (ht : e.tid = k.tid) (hd : domOf e.eventid = k.dom) : GoodList domOf k (w ++ [e]) := by
  obtain ⟨⟨y, ys, rfl, hy⟩, hall⟩ := h
  refine ⟨⟨y, ys ++ [e], by simp, hy⟩, ?_⟩
  intro x hx
  rcases List.mem_append.1 hx with hx | hx
  · exact hall x hx
  · simp only [List.mem_singleton] at hx; subst hx; exact ⟨ht, hd⟩

/-- Effect of one step on a key other than the event's own: unchanged, or the event appended (then the event
    is of the key's thread and domain). -/
theorem step_other_key (s : Pairing.PState) (e : Kevent) (k : Key) (hk : k ≠ keyOf domOf e) :
    (step domOf s e).1 k = s k ∨
    ((step domOf s e).1 k = (s k).map (· ++ [e]) ∧ k.dom = domOf e.eventid ∧ k.tid = e.tid) := by
  by_cases hc : k.dom = domOf e.eventid ∧ k.tid = e.tid
  · by_cases h1 : e.qual = 1
    · right; rw [step_start domOf s e h1]; simp [appendAll_apply, set_apply, hk, hc]
    · by_cases h2 : e.qual = 2
      · cases hst : s (keyOf domOf e) with
        | none => left; rw [step_end_closed domOf s e h2 hst]
        | some w => right; rw [step_end_open domOf s e w h2 hst]; simp [appendAll_apply, set_apply, hk, hc]
      · right; rw [step_single domOf s e h1 h2]; simp [appendAll_apply, hc]
  · left
    by_cases h1 : e.qual = 1
    · rw [step_start domOf s e h1]; simp [appendAll_apply, set_apply, hk, hc]
    · by_cases h2 : e.qual = 2
      · cases hst : s (keyOf domOf e) with
        | none => rw [step_end_closed domOf s e h2 hst]
        | some w => rw [step_end_open domOf s e w h2 hst]; simp [appendAll_apply, set_apply, hk, hc]
      · rw [step_single domOf s e h1 h2]; simp [appendAll_apply, hc]

/-- Effect of one step on the event's own key. -/
theorem step_own_key (s : Pairing.PState) (e : Kevent) :
    (step domOf s e).1 (keyOf domOf e) =
      if e.qual = 1 then some [e] else if e.qual = 2 then none else (s (keyOf domOf e)).map (· ++ [e]) := by
  by_cases h1 : e.qual = 1
  · rw [step_start domOf s e h1]; simp [appendAll_apply, set_apply, h1]
  · by_cases h2 : e.qual = 2
    · cases hst : s (keyOf domOf e) with
      | none => rw [step_end_closed domOf s e h2 hst]; simp [h2, hst]
      | some w => rw [step_end_open domOf s e w h2 hst]; simp [set_apply, h2]
    · rw [step_single domOf s e h1 h2]; simp [appendAll_apply, h1, h2]

theorem wf_step (s : Pairing.PState) (e : Kevent) (hs : WF domOf s) : WF domOf (step domOf s e).1 := by
  intro k w hw
  by_cases hk : k = keyOf domOf e
  · subst hk
    rw [step_own_key] at hw
    by_cases h1 : e.qual = 1
    · simp only [h1, if_true, Option.some.injEq] at hw
      subst hw
      exact ⟨⟨e, [], rfl, rfl⟩, by simp⟩
    · by_cases h2 : e.qual = 2
      · simp [h2] at hw
      · simp only [h1, h2, if_false, Option.map_eq_some_iff] at hw
        obtain ⟨w0, hw0, rfl⟩ := hw
        exact goodList_snoc domOf _ w0 e (hs _ _ hw0) rfl rfl
  · rcases step_other_key domOf s e k hk with h | ⟨h, hd, ht⟩
    · rw [h] at hw; exact hs k w hw
    · rw [h, Option.map_eq_some_iff] at hw
      obtain ⟨w0, hw0, rfl⟩ := hw
      exact goodList_snoc domOf k w0 e (hs _ _ hw0) ht.symm hd.symm

/-- Every delivered window begins with a record of the code and the thread of the event that caused it. -/
theorem step_out_first (s : Pairing.PState) (e : Kevent) (hs : WF domOf s) (w : List Kevent)
    (hw : (step domOf s e).2 = some w) : ∃ y ys, w = y :: ys ∧ y.eventid = e.eventid ∧ y.tid = e.tid := by
  by_cases h1 : e.qual = 1
  · rw [step_start domOf s e h1] at hw; cases hw
  · by_cases h2 : e.qual = 2
    · cases hst : s (keyOf domOf e) with
      | none => rw [step_end_closed domOf s e h2 hst] at hw; cases hw
      | some w0 =>
        rw [step_end_open domOf s e w0 h2 hst] at hw
        simp only [Option.some.injEq] at hw
        subst hw
        obtain ⟨⟨y, ys, rfl, hy⟩, hall⟩ := hs _ _ hst
        exact ⟨y, ys ++ [e], by simp, hy, (hall y (by simp)).1⟩
    · rw [step_single domOf s e h1 h2] at hw
      simp only [Option.some.injEq] at hw
      subst hw
      exact ⟨e, [], rfl, rfl, rfl⟩

end pairing

/-! ### the whole parser -/
section trace
open KdVerif.Trace
variable (env : Env)

theorem globalLoop_evs (own : Nat) (l : List Kevent) (dbg sid : Nat) (vstr : Bytes) (evs : List Kevent) :
    ∃ suf, (globalLoop own l dbg sid vstr evs).2.2.2 = evs ++ suf := by
  induction l generalizing dbg sid vstr evs with
  | nil => exact ⟨[], by simp [globalLoop]⟩
  | cons e rest ih =>
    by_cases hown : e.eventid = own
    · unfold globalLoop
      simp only [hown, ne_eq, not_true_eq_false, if_false]
      by_cases he : hasEnd e = true
      · exact ⟨[e], by simp [he]⟩
      · simp only [he, Bool.false_eq_true, if_false]
        obtain ⟨suf, h⟩ := ih (if hasStart e then arg e 0 else dbg) (if hasStart e then arg e 1 else sid)
          (if hasStart e then vstr ++ e.data.drop 16 else vstr ++ e.data) (evs ++ [e])
        refine ⟨e :: suf, ?_⟩
        by_cases hs : hasStart e = true <;> simp [hs] at h ⊢ <;> exact h
    · rw [globalLoop_cons_skip own e rest _ _ _ _ hown]
      exact ih _ _ _ _

theorem globalLoop_first (e : Kevent) (rest : List Kevent) :
    firstOf (globalLoop e.eventid (e :: rest) 0 0 [] []).2.2.2 = e := by
  unfold globalLoop
  simp only [ne_eq, not_true_eq_false, if_false]
  by_cases he : hasEnd e = true
  · simp [he, firstOf]
  · simp only [he, Bool.false_eq_true, if_false]
    obtain ⟨suf, h⟩ := globalLoop_evs e.eventid rest (if hasStart e then arg e 0 else 0)
      (if hasStart e then arg e 1 else 0)
      (if hasStart e then [] ++ e.data.drop 16 else [] ++ e.data) ([] ++ [e])
    by_cases hs : hasStart e = true <;> simp [hs] at h ⊢ <;> simp [h, firstOf]

/-- Whatever a handler returns, the first record of the trace is the first record of its window. -/
theorem handle_first (t : Tabs) (name : String) (w : List Kevent) (tr : TraceOut) (t' : Tabs)
    (h : handle env t name w = .ok (some tr, t')) : firstOf tr.events = firstOf w := by
  rw [Composite.handle_unfold] at h
  unfold handleWith at h
  split at h
  case h_5 =>
    unfold hStringGlobal at h
    split at h
    · cases h
    · cases w with
      | nil =>
        simp only [globalLoop] at h
        split at h
        · cases h
        · simp only [mk, Except.ok.injEq, Prod.mk.injEq, Option.some.injEq] at h
          obtain ⟨rfl, _⟩ := h; rfl
      | cons e rest =>
        have hf := globalLoop_first e rest
        have hfe : (firstOf (e :: rest)).eventid = e.eventid := rfl
        rw [hfe] at h
        generalize globalLoop e.eventid (e :: rest) 0 0 [] [] = g at h hf
        obtain ⟨a, b, c, d⟩ := g
        simp only at h hf
        split at h
        · cases h
        · simp only [mk, Except.ok.injEq, Prod.mk.injEq, Option.some.injEq] at h
          obtain ⟨rfl, _⟩ := h
          simpa [firstOf] using hf
  all_goals (simp only [hDataNewthread, hDataExec, hDataThreadTerminate, hDataThreadTerminatePid, hStringNewthread,
    hStringExec, hStringProcExit, hStringThreadname, hVfsLookup, hPerfEvent, hPerfThdData, hMachVmfault,
    hDyldLaunch, mk, bind, Except.bind, pure, Except.pure] at h)
  all_goals (repeat' (split at h))
  all_goals (first
    | (cases h; done)
    | (cases h; rfl)
    | (simp only [Except.ok.injEq, Prod.mk.injEq, Option.some.injEq] at h; obtain ⟨rfl, _⟩ := h; rfl)
    | (generalize vmfaultCore _ _ _ _ _ _ = r at h
       cases r with
       | error e => cases h
       | ok v =>
         simp only [Except.map, Except.ok.injEq, Prod.mk.injEq, Option.some.injEq] at h
         obtain ⟨rfl, _⟩ := h; rfl))

theorem parseEventList_first (t : Tabs) (w : List Kevent) (tr : TraceOut) (t' : Tabs)
    (h : parseEventList env t w = .ok (some tr, t')) : firstOf tr.events = firstOf w := by
  rw [Composite.parseEventList_unfold] at h
  unfold parseEventListWith at h
  split at h
  · cases h
  · split at h
    · cases h
    · split at h
      · exact handle_first env t _ _ tr t' (by rw [Composite.handle_unfold]; exact h)
      · cases h

/-- One `feed`, unfolded: the pairing step, then `parse_event_list` on the delivered window (if any). -/
theorem feed_eq (s : Trace.PState) (e : Kevent) :
    feed env s e =
      match (Pairing.step env.domOf s.pairing e).2 with
      | none => .ok (none, { s with pairing := (Pairing.step env.domOf s.pairing e).1 })
      | some w =>
        match parseEventList env s.tabs w with
        | .error err => .error err
        | .ok (r, t') => .ok (r, { pairing := (Pairing.step env.domOf s.pairing e).1, tabs := t' }) := by
  unfold feed
  cases hst : Pairing.step env.domOf s.pairing e with
  | mk p' o =>
    cases o with
    | none => rfl
    | some w =>
      simp only [bind, Except.bind, pure, Except.pure]
      cases parseEventList env s.tabs w with
      | error err => rfl
      | ok v => rfl

theorem feed_pairing (s s' : Trace.PState) (e : Kevent) (r : Option TraceOut)
    (h : feed env s e = .ok (r, s')) : s'.pairing = (Pairing.step env.domOf s.pairing e).1 := by
  rw [feed_eq] at h
  split at h
  · cases h; rfl
  · split at h
    · cases h
    · cases h; rfl

/-- The first record of any trace a `feed` returns has the code and the thread of the fed event. -/
theorem feed_out_first (s s' : Trace.PState) (e : Kevent) (tr : TraceOut) (hwf : WF env.domOf s.pairing)
    (h : feed env s e = .ok (some tr, s')) :
    (firstOf tr.events).eventid = e.eventid ∧ (firstOf tr.events).tid = e.tid := by
  rw [feed_eq] at h
  split at h
  · cases h
  · rename_i w hw
    split at h
    · cases h
    · rename_i r t' hp
      cases h
      obtain ⟨y, ys, rfl, hy1, hy2⟩ := step_out_first env.domOf s.pairing e hwf w hw
      rw [parseEventList_first env _ _ tr t' hp]
      exact ⟨hy1, hy2⟩

theorem run_cons (s : Trace.PState) (e : Kevent) (es : List Kevent) :
    run env s (e :: es) =
      match feed env s e with
      | .error err => ([], some err, s)
      | .ok (r, s') => (r.toList ++ (run env s' es).1, (run env s' es).2.1, (run env s' es).2.2) := by
  rw [Trace.run]
  cases feed env s e with
  | error err => rfl
  | ok v =>
    obtain ⟨r, s'⟩ := v
    cases r <;> rfl

/-- The records a text's handler looks at on thread `t`: code in `B`. -/
def blocked (t : Nat) (B : Nat → Bool) (x : Kevent) : Bool := x.tid == t && B x.eventid

/-- The traces that begin with such a record. -/
def mineOut (t : Nat) (B : Nat → Bool) (o : TraceOut) : Bool := blocked t B (firstOf o.events)

/-- Records that are not `blocked` never produce a `mineOut` trace. -/
theorem run_skip (t : Nat) (B : Nat → Bool) (stream : List Kevent) (s : Trace.PState)
    (hst : ∀ x ∈ stream, blocked t B x = false) (hwf : WF env.domOf s.pairing) :
    (run env s stream).1.filter (mineOut t B) = [] := by
  induction stream generalizing s with
  | nil => rfl
  | cons x xs ih =>
    rw [run_cons]
    cases hf : feed env s x with
    | error err => rfl
    | ok v =>
      obtain ⟨r, s'⟩ := v
      have hwf' : WF env.domOf s'.pairing := by
        rw [feed_pairing env s s' x r hf]; exact wf_step _ _ _ hwf
      simp only [List.filter_append, ih s' (fun y hy => hst y (by simp [hy])) hwf', List.append_nil]
      cases r with
      | none => rfl
      | some tr =>
        obtain ⟨h1, h2⟩ := feed_out_first env s s' x tr hwf hf
        have : mineOut t B tr = false := by
          have := hst x (by simp)
          simpa [mineOut, blocked, h1, h2] using this
        simp [this]

/-- What the generic theorem needs from a handler: records of key `k` (thread `t`, code in `B`, domain
    `k.dom`); a continuation record alone is swallowed; a window whose `B`-records are exactly `all` yields a
    trace with property `P`. -/
structure Reasm (t : Nat) (B : Nat → Bool) (k : Key) (all : List Kevent) (P : TraceOut → Prop) : Prop where
  ktid : k.tid = t
  kB : B k.eid = true
  Bdom : ∀ x, B x = true → env.domOf x = k.dom
  cont : ∀ tabs m, keyOf env.domOf m = k → m.qual = 0 → parseEventList env tabs [m] = .ok (none, tabs)
  final : ∀ tabs w, w.filter (fun x => B x.eventid) = all → GoodList env.domOf k w →
    ∃ tr tabs', parseEventList env tabs w = .ok (some tr, tabs') ∧ P tr

theorem blocked_of_key {t : Nat} {B : Nat → Bool} {k : Key} {all : List Kevent} {P : TraceOut → Prop}
    (R : Reasm env t B k all P) (x : Kevent) (hx : keyOf env.domOf x = k) : blocked t B x = true := by
  have h1 : x.tid = t := by rw [← R.ktid, ← hx]; rfl
  have h2 : B x.eventid = true := by have := R.kB; rw [← hx] at this; exact this
  simp [blocked, h1, h2]

/-- IN PROGRESS: key `k` holds `w` whose `B`-records are the records fed so far; the remaining records of
    the text are `mids ++ [cn]`. -/
theorem run_progress {t : Nat} {B : Nat → Bool} {k : Key} {all : List Kevent} {P : TraceOut → Prop}
    (R : Reasm env t B k all P) (stream : List Kevent) (s : Trace.PState) (w fed mids : List Kevent) (cn : Kevent)
    (hstream : stream.filter (blocked t B) = mids ++ [cn])
    (hall : fed ++ mids ++ [cn] = all)
    (hm : ∀ m ∈ mids, m.qual = 0 ∧ keyOf env.domOf m = k) (hcn : cn.qual = 2 ∧ keyOf env.domOf cn = k)
    (hs : s.pairing k = some w) (hw : w.filter (fun x => B x.eventid) = fed)
    (hwf : WF env.domOf s.pairing) (herr : (run env s stream).2.1 = none) :
    ∃ tr, (run env s stream).1.filter (mineOut t B) = [tr] ∧ P tr := by
  induction stream generalizing s w fed mids with
  | nil => simp at hstream
  | cons x xs ih =>
    rw [run_cons] at herr ⊢
    cases hbx : blocked t B x with
    | false =>
      have hxs : xs.filter (blocked t B) = mids ++ [cn] := by simpa [List.filter_cons, hbx] using hstream
      cases hf : feed env s x with
      | error err => simp [hf] at herr
      | ok v =>
        obtain ⟨r, s'⟩ := v
        simp only [hf] at herr ⊢
        have hp := feed_pairing env s s' x r hf
        have hwf' : WF env.domOf s'.pairing := by rw [hp]; exact wf_step _ _ _ hwf
        have hk : k ≠ keyOf env.domOf x := by
          intro hk; rw [blocked_of_key env R x hk.symm] at hbx; cases hbx
        have hr : r.toList.filter (mineOut t B) = [] := by
          cases r with
          | none => rfl
          | some tr =>
            obtain ⟨h1, h2⟩ := feed_out_first env s s' x tr hwf hf
            have : mineOut t B tr = false := by simpa [mineOut, blocked, h1, h2] using hbx
            simp [this]
        rw [List.filter_append, hr, List.nil_append]
        rcases step_other_key env.domOf s.pairing x k hk with h | ⟨h, hd, ht⟩
        · exact ih s' w fed mids hxs hall hm (by rw [hp, h, hs]) hw hwf' herr
        · refine ih s' (w ++ [x]) fed mids hxs hall hm (by rw [hp, h, hs]; rfl) ?_ hwf' herr
          have hBx : B x.eventid = false := by
            have h1 : x.tid = t := by rw [← ht, R.ktid]
            simpa [blocked, h1] using hbx
          simp [List.filter_append, hw, hBx]
    | true =>
      have hxs : x :: xs.filter (blocked t B) = mids ++ [cn] := by simpa [List.filter_cons, hbx] using hstream
      cases mids with
      | nil =>
        simp only [List.nil_append, List.cons.injEq] at hxs
        obtain ⟨rfl, hxs⟩ := hxs
        have hkx := hcn.2
        have hst := step_end_open env.domOf s.pairing x w hcn.1 (by rw [hkx]; exact hs)
        have hgl : GoodList env.domOf k (w ++ [x]) :=
          goodList_snoc _ _ _ _ (hwf k w hs) (by rw [← hkx]; rfl) (by rw [← hkx]; rfl)
        have hBx : B x.eventid = true := by have := R.kB; rw [← hkx] at this; exact this
        obtain ⟨tr, tabs', hpe, hP⟩ := R.final s.tabs (w ++ [x])
          (by simp only [List.filter_append, hw, List.filter_cons, hBx, if_true, List.filter_nil]
              simpa using hall) hgl
        have hf : feed env s x = .ok (some tr, { pairing := (Pairing.step env.domOf s.pairing x).1, tabs := tabs' }) := by
          rw [feed_eq, hst]; simp only [hpe]
        simp only [hf] at herr ⊢
        have hwf' : WF env.domOf (Pairing.step env.domOf s.pairing x).1 := wf_step _ _ _ hwf
        have hskip := run_skip env t B xs { pairing := (Pairing.step env.domOf s.pairing x).1, tabs := tabs' }
          (by intro y hy
              have : y ∉ xs.filter (blocked t B) := by rw [hxs]; simp
              simpa [List.mem_filter, hy] using this) hwf'
        have hmine : mineOut t B tr = true := by
          obtain ⟨⟨y, ys, hyw, hye⟩, hallw⟩ := hwf k w hs
          have hfo : firstOf tr.events = y := by
            rw [parseEventList_first env _ _ tr tabs' hpe, hyw]; rfl
          have h1 : y.tid = t := by rw [← R.ktid]; exact (hallw y (by rw [hyw]; simp)).1
          have h2 : B y.eventid = true := by rw [hye]; exact R.kB
          simp [mineOut, hfo, blocked, h1, h2]
        exact ⟨tr, by simp [hskip, hmine], hP⟩
      | cons m mids' =>
        simp only [List.cons_append, List.cons.injEq] at hxs
        obtain ⟨rfl, hxs⟩ := hxs
        obtain ⟨hq, hkx⟩ := hm x (by simp)
        have hst := step_single env.domOf s.pairing x (by omega) (by omega)
        have hpe := R.cont s.tabs x hkx hq
        have hf : feed env s x = .ok (none, { pairing := (Pairing.step env.domOf s.pairing x).1, tabs := s.tabs }) := by
          rw [feed_eq, hst]; simp only [hpe]
        simp only [hf] at herr ⊢
        have hwf' : WF env.domOf (Pairing.step env.domOf s.pairing x).1 := wf_step _ _ _ hwf
        have hBx : B x.eventid = true := by have := R.kB; rw [← hkx] at this; exact this
        have hown : (Pairing.step env.domOf s.pairing x).1 k = some (w ++ [x]) := by
          have := step_own_key env.domOf s.pairing x
          rw [hkx] at this
          rw [this, hs]; simp [hq]
        simp only [Option.toList_none, List.nil_append]
        exact ih _ (w ++ [x]) (fed ++ [x]) mids' hxs (by simpa using hall)
          (fun m hm' => hm m (by simp [hm'])) hown (by simp [List.filter_append, hw, hBx]) hwf' herr

/-- The records of one text (a single START|END record, or START, NONEs, END), all of key `k`, interleaved
    with records that are not `blocked`: exactly one `mineOut` trace, and it has property `P`. -/
theorem run_chunks {t : Nat} {B : Nat → Bool} {k : Key} {all : List Kevent} {P : TraceOut → Prop}
    (R : Reasm env t B k all P) (stream : List Kevent) (s : Trace.PState)
    (hshape : (∃ e, all = [e] ∧ e.qual = 3) ∨
      (∃ c0 mids cn, all = c0 :: mids ++ [cn] ∧ c0.qual = 1 ∧ (∀ m ∈ mids, m.qual = 0) ∧ cn.qual = 2))
    (hkeys : ∀ c ∈ all, keyOf env.domOf c = k)
    (hstream : stream.filter (blocked t B) = all)
    (hwf : WF env.domOf s.pairing) (herr : (run env s stream).2.1 = none) :
    ∃ tr, (run env s stream).1.filter (mineOut t B) = [tr] ∧ P tr := by
  induction stream generalizing s with
  | nil =>
    rcases hshape with ⟨e, h, _⟩ | ⟨c0, mids, cn, h, _⟩ <;> simp [← hstream] at h
  | cons x xs ih =>
    rw [run_cons] at herr ⊢
    cases hbx : blocked t B x with
    | false =>
      have hxs : xs.filter (blocked t B) = all := by simpa [List.filter_cons, hbx] using hstream
      cases hf : feed env s x with
      | error err => simp [hf] at herr
      | ok v =>
        obtain ⟨r, s'⟩ := v
        simp only [hf] at herr ⊢
        have hp := feed_pairing env s s' x r hf
        have hwf' : WF env.domOf s'.pairing := by rw [hp]; exact wf_step _ _ _ hwf
        have hr : r.toList.filter (mineOut t B) = [] := by
          cases r with
          | none => rfl
          | some tr =>
            obtain ⟨h1, h2⟩ := feed_out_first env s s' x tr hwf hf
            have : mineOut t B tr = false := by simpa [mineOut, blocked, h1, h2] using hbx
            simp [this]
        rw [List.filter_append, hr, List.nil_append]
        exact ih s' hxs hwf' herr
    | true =>
      have hxs : x :: xs.filter (blocked t B) = all := by simpa [List.filter_cons, hbx] using hstream
      have hwf' : WF env.domOf (Pairing.step env.domOf s.pairing x).1 := wf_step _ _ _ hwf
      rcases hshape with ⟨e, hall, hq⟩ | ⟨c0, mids, cn, hall, hq0, hqm, hqn⟩
      · rw [hall] at hxs
        simp only [List.cons.injEq] at hxs
        obtain ⟨rfl, hxs⟩ := hxs
        have hkx : keyOf env.domOf x = k := hkeys x (by rw [hall]; simp)
        have hst := step_single env.domOf s.pairing x (by omega) (by omega)
        have hBx : B x.eventid = true := by have := R.kB; rw [← hkx] at this; exact this
        obtain ⟨tr, tabs', hpe, hP⟩ := R.final s.tabs [x] (by simp [hBx, hall])
          ⟨⟨x, [], rfl, by rw [← hkx]; rfl⟩, by intro y hy; simp only [List.mem_singleton] at hy; subst hy; rw [← hkx]; exact ⟨rfl, rfl⟩⟩
        have hf : feed env s x = .ok (some tr, { pairing := (Pairing.step env.domOf s.pairing x).1, tabs := tabs' }) := by
          rw [feed_eq, hst]; simp only [hpe]
        simp only [hf] at herr ⊢
        have hskip := run_skip env t B xs { pairing := (Pairing.step env.domOf s.pairing x).1, tabs := tabs' }
          (by intro y hy
              have : y ∉ xs.filter (blocked t B) := by rw [hxs]; simp
              simpa [List.mem_filter, hy] using this) hwf'
        have hmine : mineOut t B tr = true := by
          have hfo : firstOf tr.events = x := by rw [parseEventList_first env _ _ tr tabs' hpe]; rfl
          simp [mineOut, hfo, hbx]
        exact ⟨tr, by simp [hskip, hmine], hP⟩
      · rw [hall] at hxs
        simp only [List.cons_append, List.cons.injEq] at hxs
        obtain ⟨rfl, hxs⟩ := hxs
        have hkx : keyOf env.domOf x = k := hkeys x (by rw [hall]; simp)
        have hst := step_start env.domOf s.pairing x hq0
        have hf : feed env s x = .ok (none, { pairing := (Pairing.step env.domOf s.pairing x).1, tabs := s.tabs }) := by
          rw [feed_eq, hst]
        simp only [hf] at herr ⊢
        have hBx : B x.eventid = true := by have := R.kB; rw [← hkx] at this; exact this
        have hown : (Pairing.step env.domOf s.pairing x).1 k = some [x] := by
          have := step_own_key env.domOf s.pairing x
          rw [hkx] at this
          rw [this]; simp [hq0]
        simp only [Option.toList_none, List.nil_append]
        exact run_progress env R xs _ [x] [x] mids cn hxs (by simpa using hall.symm)
          (fun m hm' => ⟨hqm m hm', hkeys m (by rw [hall]; simp [hm'])⟩)
          ⟨hqn, hkeys cn (by rw [hall]; simp)⟩ hown (by simp [hBx]) hwf' herr

end trace
end KdVerif.Reassembly
