"""A fresh interpreter in which the host tables ARE Darwin's before the package under test is imported:
   python -m kdv.hostproc   (stdin: one JSON decoder case per line; stdout: one JSON string per line)
An in-process swap of the objects a handler module imported cannot see a table captured at import time (a module-level
tuple or dict built from errno.errorcode); replacing the tables before the import can."""
import enum
import errno
import json
import signal
import socket
import sys

from .darwin_tables import DARWIN_ERRNO, DARWIN_SIGNALS, DARWIN_AF, DARWIN_SK, DARWIN_SOL


def install_darwin():
    errno.errorcode.clear()
    errno.errorcode.update(DARWIN_ERRNO)
    signal.Signals = enum.IntEnum('Signals', {v: k for k, v in DARWIN_SIGNALS.items()})
    socket.AddressFamily = enum.IntEnum('AddressFamily', {v: k for k, v in DARWIN_AF.items()})
    socket.SocketKind = enum.IntEnum('SocketKind', {v: k for k, v in DARWIN_SK.items()})
    socket.SOL_SOCKET = DARWIN_SOL


def main():
    if len(sys.argv) < 2 or sys.argv[1] != 'host':
        install_darwin()
    from . import core
    from . import decoders as D
    out = sys.stdout
    for ln in sys.stdin:
        c = json.loads(ln)
        try:
            t = D.text_of(D.impl_fn(c))
        except Exception as e:
            t = 'raise ' + core.err_name(e)
        out.write(json.dumps(t) + '\n')


if __name__ == '__main__':
    main()
