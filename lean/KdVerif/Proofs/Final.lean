import KdVerif.Proofs.Cost
/-
  Assembly: whole-parse facts (cost, provenance of events, no model hang) for parse_v2, parse_v3, parse.
-/
namespace KdVerif
open Reader

theorem rest_length (r : Reader) : r.rest.length = r.data.length - r.pos := by
  simp [Reader.rest]

theorem parseV2_final {ε : Type} (dec : Bytes → Except PyErr ε) (hdec : RejectsShort dec) (hnh : NoHangDec dec)
    (prior : Tables) (r : Reader) (g : Good r) :
    Step 2 12 r (parseV2 dec prior r).rd ∧
    Slices dec r.data r.pos (parseV2 dec prior r).rd.pos (parseV2 dec prior r).events ∧
    (parseV2 dec prior r).err ≠ some .hang := by
  obtain ⟨s1, _⟩ := linA_headerV2 r g
  unfold parseV2
  cases hh : headerV2 r with
  | mk res r1 =>
  rw [hh] at s1
  dsimp only at s1
  cases res with
  | error e =>
    refine ⟨s1.weaken (Nat.le_refl _) (by omega), .nil s1.mono, ?_⟩
    have := nh_headerV2 r r1 e hh
    simpa using this
  | ok h =>
    dsimp only
    obtain ⟨s2, sl2⟩ := recordLoop_spec dec hdec (r1.rest.length / 64 + 2) r1 s1.good
    refine ⟨s1.trans s2, ?_, ?_⟩
    · rw [s1.data] at sl2; exact sl2.mono s1.mono (Nat.le_refl _)
    · apply recordLoop_nohang dec hdec hnh _ r1 s1.good
      rw [rest_length]; omega

theorem dispatchBlock_nohang (plist : Bytes → Option PView) (s : BlockState) (b : Bytes × Bytes) :
    dispatchBlock plist s b ≠ .error .hang := by
  unfold dispatchBlock
  repeat' split
  all_goals simp

theorem dispatchBlocks_nohang (plist : Bytes → Option PView) : ∀ (bs : List (Bytes × Bytes)) (s : BlockState),
    (dispatchBlocks plist s bs).2 ≠ some .hang
  | [], s => by simp [dispatchBlocks]
  | b :: bs, s => by
    simp only [dispatchBlocks]
    cases hd : dispatchBlock plist s b with
    | error e =>
      have := dispatchBlock_nohang plist s b
      rw [hd] at this
      simpa using this
    | ok s' => exact dispatchBlocks_nohang plist bs s'

theorem logLoop_nohang (strings : List (Nat × Bytes)) : ∀ (es : List RawLog) (i : Nat) (t : Tables),
    (logLoop strings i t es).2.1 ≠ some .hang
  | [], i, t => by simp [logLoop]
  | e :: es, i, t => by
    simp only [logLoop]
    cases hf : fromRawLog strings i e with
    | error err =>
      have : err = .keyError := by
        unfold fromRawLog at hf
        repeat' split at hf
        all_goals simp_all
      simp [this]
    | ok lo => exact logLoop_nohang strings es _ _

theorem tailV3_final {ε : Type} (plist : Bytes → Option PView) (evs : List ε) (t : Tables) (m : V3Meta)
    (r : Reader) (g : Good r) :
    (tailV3 plist evs t m r).rd.data = r.data ∧
    (tailV3 plist evs t m r).rd.pos ≤ r.data.length ∧
    (tailV3 plist evs t m r).rd.cost + 3 * r.pos ≤
      r.cost + 3 * (tailV3 plist evs t m r).rd.pos + 2 * r.data.length + 38 ∧
    (tailV3 plist evs t m r).err ≠ some .hang := by
  have g' : r.pos ≤ r.data.length := g
  have g1 : Good (r.seekTo (r.pos - 8)) := by show r.pos - 8 ≤ r.data.length; omega
  obtain ⟨d, p1, p2, c, nh⟩ := greedyBlocks_spec ((r.seekTo (r.pos - 8)).rest.length / 16 + 2) _ g1
  have hfuel : (r.seekTo (r.pos - 8)).data.length - (r.seekTo (r.pos - 8)).pos <
      ((r.seekTo (r.pos - 8)).rest.length / 16 + 2) * 16 := by
    rw [rest_length]; omega
  have nh' := nh hfuel
  unfold tailV3
  dsimp only
  cases hg : greedyRange blockElem ((r.seekTo (r.pos - 8)).rest.length / 16 + 2) (r.seekTo (r.pos - 8)) with
  | mk res r2 =>
  rw [hg] at d p1 p2 c nh'
  dsimp only at d p1 p2 c nh'
  simp only [seekTo_data, seekTo_pos] at d p1 p2 c
  have hc : r2.cost + 3 * r.pos ≤ r.cost + 3 * r2.pos + 2 * r.data.length + 38 := by
    simp only [Reader.cost, Reader.seekTo] at c ⊢; omega
  cases res with
  | error e => exact absurd rfl (nh' e)
  | ok blocks =>
    dsimp only
    unfold tailOfBlocks
    cases hdb : dispatchBlocks plist ⟨m.reset, [], []⟩ blocks with
    | mk s oe =>
    cases oe with
    | some e =>
      refine ⟨d, p2, hc, ?_⟩
      have := dispatchBlocks_nohang plist blocks ⟨m.reset, [], []⟩
      rw [hdb] at this
      exact this
    | none => exact ⟨d, p2, hc, logLoop_nohang _ _ _ _⟩

theorem parseV3_final {ε : Type} (plist : Bytes → Option PView) (dec : Bytes → Except PyErr ε)
    (hdec : RejectsShort dec) (hnh : NoHangDec dec) (prior : PState) (r : Reader) (g : Good r) :
    (parseV3 plist dec prior r).rd.cost + 3 * r.pos ≤ r.cost + 5 * r.data.length + 66 ∧
    Slices dec r.data r.pos r.data.length (parseV3 plist dec prior r).events ∧
    (parseV3 plist dec prior r).err ≠ some .hang := by
  have g' : r.pos ≤ r.data.length := g
  obtain ⟨s1, _⟩ := linA_headerV3 plist r g
  unfold parseV3
  cases hh : headerV3 plist r with
  | mk res r1 =>
  rw [hh] at s1
  dsimp only at s1
  have hg1 := s1.good
  rw [s1.data] at hg1
  have hc1 := s1.cost
  have hm1 := s1.mono
  cases res with
  | error e =>
    dsimp only
    refine ⟨by omega, .nil g', ?_⟩
    have := nh_headerV3 plist r r1 e hh
    simpa using this
  | ok hd =>
    dsimp only
    obtain ⟨s2, _⟩ := linA_threadmapV3 r1 s1.good
    cases ht : threadmapV3 r1 with
    | mk res2 r2 =>
    rw [ht] at s2
    dsimp only at s2
    have hg2 := s2.good
    rw [s2.data, s1.data] at hg2
    have hc2 := s2.cost
    have hm2 := s2.mono
    cases res2 with
    | error e =>
      dsimp only
      refine ⟨by omega, .nil g', ?_⟩
      have := nh_threadmapV3 r1 r2 e ht
      simpa using this
    | ok tm =>
      dsimp only
      obtain ⟨s3, sl3⟩ := chunkLoop_spec dec hdec (r2.rest.length / 16 + 2) r2 s2.good
      have nh3 := chunkLoop_nohang dec hdec hnh (r2.rest.length / 16 + 2) r2 s2.good (by rw [rest_length]; omega)
      have hg3 := s3.good
      rw [s3.data, s2.data, s1.data] at hg3
      have hc3 := s3.cost
      have hm3 := s3.mono
      rw [s2.data, s1.data] at sl3
      have sl : Slices dec r.data r.pos r.data.length (chunkLoop dec (r2.rest.length / 16 + 2) r2).1 :=
        sl3.mono (by omega) hg3
      cases hq : (chunkLoop dec (r2.rest.length / 16 + 2) r2).2.1 with
      | some e =>
        dsimp only
        refine ⟨by omega, by rw [events_evs]; exact sl, ?_⟩
        rw [hq] at nh3; exact nh3
      | none =>
        dsimp only
        obtain ⟨t1, t2, t3, t4⟩ := tailV3_final plist (chunkLoop dec (r2.rest.length / 16 + 2) r2).1
          (setThreadMap prior.tables tm) { prior.md with header := some hd }
          (chunkLoop dec (r2.rest.length / 16 + 2) r2).2.2 s3.good
        rw [s3.data, s2.data, s1.data] at t2 t3
        dsimp only at t2 t3 t4
        refine ⟨by omega, by rw [tailV3_events]; exact sl, t4⟩

theorem parse_final {ε : Type} (plist : Bytes → Option PView) (dec : Bytes → Except PyErr ε)
    (hdec : RejectsShort dec) (hnh : NoHangDec dec) (prior : PState) (data : Bytes) :
    (parse plist dec prior data).rd.cost ≤ 5 * data.length + 67 ∧
    Slices dec data 0 data.length (parse plist dec prior data).events ∧
    (parse plist dec prior data).err ≠ some .hang := by
  have g0 : Good (Reader.ofBytes data) := Nat.zero_le _
  have s0 := step_read (Reader.ofBytes data) Gen.Consts.RAW_VERSION_SIZE g0
  have hc0 := s0.cost
  have hg0 := s0.good
  have hcost0 : (Reader.ofBytes data).cost = 0 := rfl
  have hpos0 : (Reader.ofBytes data).pos = 0 := rfl
  have hd0 : (Reader.ofBytes data).data = data := rfl
  rw [read_data, hd0] at hg0
  rw [hcost0, hpos0] at hc0
  unfold parse
  dsimp only
  split
  · obtain ⟨a1, a2, a3⟩ := parseV2_final dec hdec hnh prior.tables _ s0.good
    have hc := a1.cost
    have hg := a1.good
    rw [a1.data, read_data, hd0] at hg
    rw [read_data, hd0] at a2
    refine ⟨by dsimp only; omega, ?_, a3⟩
    rw [events_evs]
    exact a2.mono (Nat.zero_le _) hg
  · split
    · obtain ⟨a1, a2, a3⟩ := parseV3_final plist dec hdec hnh prior _ s0.good
      rw [read_data, hd0] at a1 a2
      exact ⟨by omega, a2.mono (Nat.zero_le _) (Nat.le_refl _), a3⟩
    · exact ⟨by dsimp only; omega, .nil (Nat.zero_le _), by simp⟩

end KdVerif

namespace KdVerif

theorem Slices.mem {ε : Type} {dec : Bytes → Except PyErr ε} {data : Bytes} {lo hi : Nat} {es : List ε}
    (h : Slices dec data lo hi es) {e : ε} (he : e ∈ es) :
    ∃ p, p + 64 ≤ data.length ∧ dec ((data.drop p).take 64) = .ok e := by
  induction h with
  | nil _ => simp at he
  | @cons lo hi p e' es h1 h2 h3 _ ih =>
    rcases List.mem_cons.mp he with rfl | hm
    · exact ⟨p, h2, h3⟩
    · exact ih hm

end KdVerif
