import Driver.Util
import KdVerif.Model.Callstacks
open KdVerif
namespace Driver.Callstacks
open KdVerif.Callstacks

/-- The code names the callstack path looks at, in the order of the id groups on the command line. -/
def codeNames : List String :=
  ["PERF_Event", "PERF_STK_UHdr", "PERF_STK_UData", "DYLD_uuid_map_a", "DYLD_uuid_shared_cache_a",
   "DBG_DYLD_TIMING_LAUNCH_EXECUTABLE"]

def nameOfGroups (groups : List (List Nat)) (eid : Nat) : String :=
  match (groups.zip codeNames).find? (fun g => g.1.contains eid) with
  | some g => g.2
  | none => ""

def showFrame (f : Frame) : String :=
  match f.image with
  | none => s!"{f.address}"
  | some (u, off) => s!"{f.address}:{toHex u}:{off}"

def showCallstack (c : Callstack) : String :=
  s!"{c.timestamp}/{c.tid}/" ++ ",".intercalate (c.frames.map showFrame)

def showResult : Except PyErr (List Callstack) → String
  | .error e => s!"err {e.name}"
  | .ok [] => "ok -"
  | .ok cs => "ok " ++ ";".intercalate (cs.map showCallstack)

/-- Split the argument list at the `|` tokens (one request per piece). -/
def splitBar : List String → List (List String)
  | [] => [[]]
  | "|" :: rest => [] :: splitBar rest
  | x :: rest =>
    match splitBar rest with
    | [] => [[x]]
    | h :: t => (x :: h) :: t

/-- `cs <six id groups a,b/c/…> <trace-domain ids or -> <record hex>… [| <record hex>…]…`:
    the callstacks of every request (each starting from empty image lists), joined by ` | `. -/
def cmdCs : Cmd
  | ids :: doms :: recs =>
    match (ids.splitOn "/").mapM parseNatList, parseNatList doms, (splitBar recs).mapM parseRecs with
    | some groups, some ds, some reqs =>
      if groups.length ≠ codeNames.length then "bad-op"
      else
        " | ".intercalate (reqs.map fun evs =>
          showResult (callstacksOf (nameOfGroups groups) (fun eid => ds.contains eid) evs))
    | _, _, _ => "bad-op"
  | _ => "bad-op"

/-- `bisect <list or -> <x>`: Python's `bisect.bisect(list, x)` on any list. -/
def cmdBisect : Cmd
  | [l, x] =>
    match parseNatList l, x.toNat? with
    | some a, some v =>
      match bisect a v with
      | .ok n => s!"ok {n}"
      | .error e => s!"err {e.name}"
    | _, _ => "bad-op"
  | _ => "bad-op"

def commands : List (String × Cmd) := [("cs", cmdCs), ("bisect", cmdBisect)]

end Driver.Callstacks
