"""Translation tie of `KdBufParser.__init__` (kd_buf_parser.py -> Gen/PyIRRd.prog.init, tools/gen_pyir_rd.py; interpreter
`PyIRRd.runCtor`), used by C03.  Two sections:

  kd-init-ir        the object the GENERATED constructor builds (`rdinit <given>`: which dict each table is, the metadata as the
                    `parse…` commands print it) against a real KdBufParser constructed with every combination of given / None /
                    omitted arguments
  kd-init-metadata  code only: on a FRESH KdBufParser a dump is parsed that never reaches the block loop of parse_v3 (a version-2
                    dump, a version-3 dump cut before its additional data, bytes with neither magic, nothing at all); every
                    metadata attribute the request did not set must still be the documented default
"""
from . import core
from . import containers as ct

TRUSTED = ('KdBufParser.__init__ is tied to the SOURCE TEXT by translation: tools/gen_pyir_rd.py turns it into the attribute '
           'initialisers SORTED by attribute (independent of each other: displays, None, `{} if p is None else p`; dict() = {}) — '
           'part of Gen/PyIRRd.prog, so source_is_expected_ir (C02 / C03 / C06) covers it; kd_init_ir_eq_model: the interpreted '
           'constructor yields, for every combination of given / None arguments, tables that ARE the caller\'s dicts (or new empty '
           'ones) and exactly the metadata V3Meta {} the reader model parse / parseV3 / tailV3 starts from; kd_fresh_parser_parse: '
           'the interpreted parse on that object is the hand model from <tables given, {}>.  That kevents / os_log_events build a '
           'FRESH KdBufParser on the object\'s two tables per request is the translated `parseStream` of Model/PyIRFl (C12).  '
           'Trusted: the translator and PyIRRd.runCtor (tested against CPython by the section kd-init-ir)')

GIVEN = ['-', '0', '1', '00', '01', '10', '11']
DEFAULT_META = 'hdr=~ codes=- kexts= dyld=~/e/~ images=~ procs=~'


def build(given):
    from pykdebugparser.kd_buf_parser import KdBufParser
    args = [({7: 70} if k == 0 else {70: 'seventy'}) if ch == '1' else None for k, ch in enumerate('' if given == '-' else given)]
    return KdBufParser(*args), args


def table_word(kp, attr, args):
    if not hasattr(kp, attr):
        return 'unbound'
    v = getattr(kp, attr)
    hit = [k for k, a in enumerate(args) if a is not None and a is v]
    if hit:
        return 'arg%d' % hit[0]
    return 'new' if isinstance(v, dict) and not v and not any(v is a for a in args) else 'other'


def impl_init(case):
    kp, args = build(case['given'])
    try:
        meta = ct.show_meta(kp)
    except Exception as e:                                 # an attribute of another shape than the one the reader code expects
        meta = 'metadata-unreadable:' + core.err_name(e)
    return 'ok tp=%s pn=%s %s' % (table_word(kp, 'threads_pids', args), table_word(kp, 'pids_names', args), meta)


def defaults_violated(kp, reached_header=False):
    """the documented defaults, stated on the object: -> (attribute, value) of the first that differs, or None"""
    want = [('trace_codes', ''), ('images', {}), ('dyld_modules', {}), ('processes', {}), ('kernel_extensions', {'Binaries': []})]
    for a, w in want:
        if not hasattr(kp, a):
            return a, '<unbound>'
        if getattr(kp, a) != w or type(getattr(kp, a)) is not type(w):
            return a, getattr(kp, a)
    if not reached_header and getattr(kp, 'v3_header', 0) is not None:
        return 'v3_header', getattr(kp, 'v3_header', '<unbound>')
    return None


def oracle_init(case, got):
    if not got.startswith('ok'):
        return ('kd-init:raises', 'KdBufParser(%s) failed: %s' % (case['given'], got))
    kp, args = build(case['given'])
    for k, attr in enumerate(('threads_pids', 'pids_names')):
        v = getattr(kp, attr, None)
        if k < len(args) and args[k] is not None:
            if v is not args[k]:
                return ('kd-init:%s-not-shared' % attr, 'KdBufParser keeps %r, not the dict object it was given, as %s: what '
                        'set_thread_map stores never reaches the caller' % (v, attr))
        elif not isinstance(v, dict) or v:
            return ('kd-init:%s-not-empty' % attr, 'without the argument %s is %r' % (attr, v))
    bad = defaults_violated(kp)
    if bad:
        return ('kd-init:metadata-default:' + bad[0], 'a new KdBufParser has %s = %r' % bad)
    return None


RULE_INIT = ('KdBufParser constructed with no / one / two positional arguments, each a dict or None (%s): which object the two '
             'tables are and the metadata attributes, against the GENERATED __init__ run by PyIRRd.runCtor from junk metadata '
             '(`rdinit`); oracle on the real object: a given dict is kept by reference, a missing one is a new empty dict, the '
             'metadata attributes hold the documented defaults' % ' '.join(GIVEN))


def init_section(rep):
    ans = core.drive(['rdinit 11'])[0]
    cases = [{'given': g} for g in GIVEN]
    if ans == 'unsupported':
        core.run_code_section(rep, 'kd-init-ir', cases, oracle_fn=lambda c: oracle_init(c, _safe(impl_init, c)),
                              rule=RULE_INIT + ' (code only: the translation of __init__ left the subset)')
    else:
        core.run_section(rep, 'kd-init-ir', cases, line_fn=lambda c: 'rdinit ' + c['given'], impl_fn=impl_init,
                         oracle_fn=oracle_init, rule=RULE_INIT)


def _safe(fn, c):
    try:
        return fn(c)
    except Exception as e:
        return 'err ' + core.err_name(e)


# ---------------------------------------------------------------------------------------------------------------------

def metadata_cases(rng, n):
    out = []
    for i in range(n):
        f = ct.gen_v3(rng, small=True)
        data = ct.v3_bytes(f)
        kind = i % 3
        if kind == 0:                                   # a version-2 dump with the same thread map and records
            recs = [bytes.fromhex(r) for ch in f['chunks'] for r in ch['recs']]
            threads = [(t[0], t[1], bytes.fromhex(t[2])) for t in f['threads']]
            out.append({'kind': 'v2', 'hex': ct.enc_v2(threads, rng.choice([0, 1, 64]), recs).hex()})
        elif kind == 1:                                 # cut inside the header / scans / thread map / first chunk
            out.append({'kind': 'v3-cut', 'hex': data[:rng.randrange(4, max(5, len(data) // 3))].hex()})
        else:                                           # magic only
            out.append({'kind': 'v3-magic', 'hex': data[:4].hex()})
    return out + [{'kind': 'empty', 'hex': ''}, {'kind': 'garbage', 'hex': '00010203'}]


def oracle_metadata(case):
    """On a fresh parser, after a request that never reached the block loop, the attributes the blocks fill hold their
    defaults."""
    data = bytes.fromhex(case['hex'])
    res = ct.run_impl(data, {}, {}, budget=20 * len(data) + 2000)
    kp = res.kp
    reached = kp.__dict__.get('v3_header') is not None
    if case['kind'] == 'v3-cut' and res.err is None:
        return None                                     # the cut fell behind the last chunk: parse_v3 reset the attributes itself
    bad = defaults_violated(kp, reached_header=reached or case['kind'] == 'v3-cut')
    if bad:
        return ('kd-init:metadata-after-parse:' + bad[0],
                'after a fresh KdBufParser parsed a %s dump of %d bytes (%s, %d events) its %s is %r, not the default'
                % (case['kind'], len(data), ct.show_err(res.err), len(res.events), bad[0], bad[1]))
    return None


RULE_META = ('code only: a FRESH KdBufParser({}, {}) parses a dump that never reaches the block loop of parse_v3 — a version-2 dump, '
             'a version-3 dump cut before its additional data, the bare magic, garbage, nothing — and every metadata attribute '
             '(trace_codes, images, dyld_modules, processes, kernel_extensions; v3_header unless the header was read) must hold its '
             'documented default: \'\', {}, {}, {}, {\'Binaries\': []}, None')


def metadata_section(rep, rng, tier):
    cases = metadata_cases(rng, 30 if tier == 'quick' else 600)
    core.run_code_section(rep, 'kd-init-metadata', cases, oracle_metadata, rule=RULE_META, kind_fn=lambda c: c['kind'])


def replay(rp):
    case = rp['case']
    if rp['section'] == 'kd-init-ir':
        got = _safe(impl_init, case)
        print('impl :', got)
        try:
            print('model:', core.drive(['rdinit ' + case['given']])[0])
        except core.Infra as e:
            print('model: <driver unavailable: %s>' % e)
        return oracle_init(case, got)
    print('dump  : %s, %d bytes: %s' % (case['kind'], len(case['hex']) // 2, case['hex'][:200]))
    return oracle_metadata(case)
