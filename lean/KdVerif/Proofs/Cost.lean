import KdVerif.Model.ContainerV3
import KdVerif.Proofs.Trunc
/-
  Position and cost accounting.  `Step a b r r1`: `r1` continues `r` on the same data, not behind it,
  inside the data, and the work done (`cost` = read calls + bytes returned) grew by at most `a` per
  byte advanced plus `b`.  `LinA a b adv m`: every run of `m` from a good reader is such a step, and
  a SUCCESSFUL run advances at least `adv` bytes.
-/
namespace KdVerif
open Reader

def Good (r : Reader) : Prop := r.pos ≤ r.data.length

structure Step (a b : Nat) (r r1 : Reader) : Prop where
  data : r1.data = r.data
  mono : r.pos ≤ r1.pos
  good : r1.pos ≤ r1.data.length
  cost : r1.cost + a * r.pos ≤ r.cost + a * r1.pos + b

theorem Step.refl (a b : Nat) {r : Reader} (g : Good r) : Step a b r r := ⟨rfl, Nat.le_refl _, g, by omega⟩

theorem Step.trans {a b1 b2 : Nat} {r r1 r2 : Reader} (h1 : Step a b1 r r1) (h2 : Step a b2 r1 r2) :
    Step a (b1 + b2) r r2 :=
  ⟨h2.data.trans h1.data, Nat.le_trans h1.mono h2.mono, h2.good, by have := h1.cost; have := h2.cost; omega⟩

theorem Step.weaken {a b a' b' : Nat} {r r1 : Reader} (h : Step a b r r1) (ha : a ≤ a') (hb : b ≤ b') :
    Step a' b' r r1 := by
  refine ⟨h.data, h.mono, h.good, ?_⟩
  have h1 := h.cost
  have h2 := h.mono
  obtain ⟨d, rfl⟩ : ∃ d, a' = a + d := ⟨a' - a, by omega⟩
  have : d * r.pos ≤ d * r1.pos := Nat.mul_le_mul_left d h2
  rw [Nat.add_mul, Nat.add_mul]
  omega

/-- a step that advanced at least `b` bytes pays its constant with one more unit per byte. -/
theorem Step.absorb {a b : Nat} {r r1 : Reader} (h : Step a b r r1) (hadv : r.pos + b ≤ r1.pos) :
    Step (a + 1) 0 r r1 := by
  refine ⟨h.data, h.mono, h.good, ?_⟩
  have := h.cost
  rw [Nat.add_mul, Nat.add_mul]
  omega

theorem Step.good' {a b : Nat} {r r1 : Reader} (h : Step a b r r1) : Good r1 := h.good

def LinA {α : Type} (a b adv : Nat) (m : RM α) : Prop :=
  ∀ r, Good r → Step a b r (m r).2 ∧ ∀ x, (m r).1 = .ok x → r.pos + adv ≤ (m r).2.pos

theorem LinA.weaken {α : Type} {a b adv a' b' adv' : Nat} {m : RM α} (h : LinA a b adv m)
    (ha : a ≤ a') (hb : b ≤ b') (hv : adv' ≤ adv) : LinA a' b' adv' m := fun r g =>
  ⟨(h r g).1.weaken ha hb, fun x hx => by have := (h r g).2 x hx; omega⟩

theorem step_read (r : Reader) (n : Nat) (g : Good r) : Step 1 1 r (r.read n).2 := by
  refine ⟨rfl, by simp, ?_, ?_⟩
  · simp only [read_pos, read_data, Reader.rest, List.length_drop]; unfold Good at g; omega
  · simp only [Reader.cost, Reader.read, read_pos]; omega

theorem linA_readPlain (n : Nat) : LinA 1 1 0 (readPlain n) := fun r g =>
  ⟨step_read r n g, fun _ _ => by simp [KdVerif.readPlain]⟩

theorem linA_readExact (n : Nat) : LinA 1 1 n (readExact n) := fun r g => by
  rw [readExact_eq]
  split
  · exact ⟨⟨rfl, Nat.le_refl _, g, by simp only [Reader.cost, Reader.bump]; omega⟩, fun _ hx => by simp at hx⟩
  split
  · rename_i h
    refine ⟨step_read r n g, fun _ _ => ?_⟩
    simp only [read_fst, List.length_take] at h
    simp only [read_pos]; omega
  · exact ⟨step_read r n g, fun _ hx => by simp at hx⟩

theorem linA_pure {α : Type} (x : α) (a : Nat) : LinA a 0 0 (pure x : RM α) := fun r g =>
  ⟨Step.refl a 0 g, fun _ _ => Nat.le_refl _⟩

theorem linA_throw {α : Type} (e : PyErr) (a adv : Nat) : LinA a 0 adv (RM.throw' e : RM α) := fun r g =>
  ⟨Step.refl a 0 g, fun _ hx => by simp [RM.throw'] at hx⟩

theorem linA_tell (a : Nat) : LinA a 0 0 tell := fun r g => ⟨Step.refl a 0 g, fun _ _ => Nat.le_refl _⟩

theorem linA_restFuel (a : Nat) : LinA a 0 0 restFuel := fun r g => ⟨Step.refl a 0 g, fun _ _ => Nat.le_refl _⟩

theorem linA_bind {α β : Type} {a b1 b2 v1 v2 : Nat} {m : RM α} {f : α → RM β}
    (hm : LinA a b1 v1 m) (hf : ∀ x, LinA a b2 v2 (f x)) : LinA a (b1 + b2) (v1 + v2) (m >>= f) := by
  intro r g
  obtain ⟨s1, a1⟩ := hm r g
  cases hmr : m r with
  | mk res r1 =>
  rw [hmr] at s1 a1
  dsimp only at s1 a1
  cases res with
  | error e =>
    rw [RM.bind_err hmr]
    exact ⟨s1.weaken (Nat.le_refl _) (by omega), fun _ hx => by simp at hx⟩
  | ok x =>
    rw [RM.bind_ok hmr]
    obtain ⟨s2, a2⟩ := hf x r1 s1.good
    refine ⟨s1.trans s2, fun y hy => ?_⟩
    have := a1 x rfl
    have := a2 y hy
    omega

theorem linA_int32ul : LinA 1 1 4 int32ul := (linA_bind (linA_readExact 4) fun _ => linA_pure _ 1)
theorem linA_int64ul : LinA 1 1 8 int64ul := (linA_bind (linA_readExact 8) fun _ => linA_pure _ 1)
theorem linA_padding (n : Nat) : LinA 1 1 n (padding n) := (linA_bind (linA_readExact n) fun _ => linA_pure _ 1)

theorem linA_fixedCString (n : Nat) : LinA 1 1 n (fixedCString n) := by
  intro r g
  obtain ⟨s, a⟩ := linA_readExact n r g
  unfold KdVerif.fixedCString
  cases h : KdVerif.readExact n r with
  | mk res r1 =>
  rw [h] at s a
  dsimp only at s a
  cases res with
  | error e => exact ⟨s, fun _ hx => by simp at hx⟩
  | ok b =>
    simp only
    cases cstringOf b with
    | ok n' => exact ⟨s, fun _ _ => a b rfl⟩
    | error e => exact ⟨s, fun _ hx => by simp at hx⟩

theorem linA_threadEntry : LinA 1 3 32 threadEntry :=
  (linA_bind linA_int64ul fun _ => linA_bind linA_int32ul fun _ =>
    linA_bind (linA_fixedCString 0x14) fun _ => linA_pure _ 1 : LinA 1 (1 + (1 + (1 + 0))) (8 + (4 + (0x14 + 0))) _)

/-- `Array(n, m)`: each successful element pays for itself. -/
theorem linA_arrayN {α : Type} {a b adv : Nat} {m : RM α} (hm : LinA a b adv m) (hb : b ≤ adv) :
    ∀ n, LinA (a + 1) b 0 (arrayN m n)
  | 0 => linA_pure _ _ |>.weaken (Nat.le_refl _) (Nat.zero_le _) (Nat.le_refl _)
  | n + 1 => by
    intro r g
    obtain ⟨s1, a1⟩ := hm r g
    simp only [KdVerif.arrayN]
    cases hmr : m r with
    | mk res r1 =>
    rw [hmr] at s1 a1
    dsimp only at s1 a1
    cases res with
    | error e =>
      rw [RM.bind_err hmr]
      exact ⟨s1.weaken (by omega) (Nat.le_refl _), fun _ hx => by simp at hx⟩
    | ok x =>
      rw [RM.bind_ok hmr]
      have s1' := s1.absorb (by have := a1 x rfl; omega)
      obtain ⟨s2, _⟩ := (linA_bind (linA_arrayN hm hb n) fun l => linA_pure (x :: l) (a + 1)) r1 s1.good
      refine ⟨by simpa using s1'.trans s2, fun _ _ => ?_⟩
      exact Nat.le_trans (by omega) (s1'.trans s2).mono

end KdVerif

namespace KdVerif
open Reader

/-! ### the greedy zero skipper -/

theorem constZeroByte_snd (r : Reader) : (constZeroByte r).2 = (r.read 1).2 := by
  unfold constZeroByte
  cases h : readExact 1 r with
  | mk res r1 =>
  have h2 : r1 = (r.read 1).2 := by
    rw [readExact_small (by decide)] at h
    split at h <;> simp only [Prod.mk.injEq] at h <;> exact h.2.symm
  cases res with
  | error e => rw [RM.bind_err h, h2]
  | ok b =>
    rw [RM.bind_ok h]
    split <;> simp [RM.throw', h2]

theorem linA_constZeroByte : LinA 1 1 1 constZeroByte :=
  (linA_bind (linA_readExact 1) fun b => by
    split
    · exact linA_pure _ 1
    · exact linA_throw _ 1 0 : LinA 1 (1 + 0) (1 + 0) _)

theorem linA_greedyZeros : ∀ fuel, LinA 2 2 0 (greedyRange constZeroByte fuel)
  | 0 => fun r g => ⟨Step.refl 2 2 g, fun _ hx => by simp [greedyRange, RM.throw'] at hx⟩
  | fuel + 1 => by
    intro r g
    obtain ⟨s1, a1⟩ := linA_constZeroByte r g
    have hsnd := constZeroByte_snd r
    simp only [greedyRange]
    cases hc : constZeroByte r with
    | mk res r1 =>
    rw [hc] at s1 a1 hsnd
    dsimp only at s1 a1 hsnd
    cases res with
    | ok u =>
      dsimp only
      have s1' := s1.absorb (by have := a1 u rfl; omega)
      obtain ⟨s2, _⟩ := linA_greedyZeros fuel r1 s1.good
      cases hg : greedyRange constZeroByte fuel r1 with
      | mk res2 r2 =>
      rw [hg] at s2
      dsimp only at s2
      have := s1'.trans s2
      cases res2 with
      | ok l => exact ⟨this, fun _ _ => this.mono⟩
      | error e => exact ⟨this, fun _ hx => by simp at hx⟩
    | error e =>
      have hfin : Step 2 2 r (r1.seekTo r.pos) := by
        refine ⟨s1.data, Nat.le_refl _, by rw [seekTo_data, s1.data]; exact g, ?_⟩
        have hc1 := s1.cost
        have : r1.pos ≤ r.pos + 1 := by rw [hsnd, read_pos]; omega
        simp only [Reader.cost, Reader.seekTo] at hc1 ⊢
        omega
      cases e <;> first
        | exact ⟨hfin, fun _ _ => Nat.le_refl _⟩
        | exact ⟨s1.weaken (by omega) (by omega), fun _ hx => by simp at hx⟩

/-! ### seek_until -/

theorem seekAux_count (tag : Bytes) (rest : Bytes) : ∀ (found : Bytes) (n : Nat),
    (seekAux tag rest found n).2 ≤ n + rest.length := by
  induction rest with
  | nil => intro found n; simp [seekAux]
  | cons b t ih =>
    intro found n
    simp only [seekAux]
    split
    · simp
    · have := ih (found.drop 1 ++ [b]) (n + 1); simp only [List.length_cons]; omega

theorem linA_seekUntil (tag : Bytes) : LinA 2 2 tag.length (seekUntil tag) := by
  intro r g
  have sr := step_read r tag.length g
  have hcnt := seekAux_count tag (r.read tag.length).2.rest (r.read tag.length).1 0
  have hgood : (r.read tag.length).2.pos + (r.read tag.length).2.rest.length ≤ r.data.length := by
    have := sr.good
    simp only [Reader.rest, List.length_drop, read_data] at this ⊢
    omega
  rw [seekUntil_eq]
  have hc := sr.cost
  have hm := sr.mono
  split
  · rename_i hs
    refine ⟨⟨rfl, ?_, ?_, ?_⟩, fun _ _ => ?_⟩
    · simp only [stepBytes_pos]; omega
    · simp only [stepBytes_pos, stepBytes_data, read_data]; omega
    · simp only [Reader.cost, Reader.stepBytes] at hc ⊢; omega
    · by_cases hl : (r.read tag.length).1.length = tag.length
      · simp only [read_fst, List.length_take] at hl
        simp only [stepBytes_pos, read_pos]; omega
      · rw [read_short_rest r _ hl, seekAux_nil_short tag _ 0 hl] at hs
        simp at hs
  · refine ⟨⟨rfl, ?_, ?_, ?_⟩, fun _ hx => by simp at hx⟩
    · simp only [stepBytes_pos]; omega
    · simp only [stepBytes_pos, stepBytes_data, read_data]; omega
    · simp only [Reader.cost, Reader.stepBytes] at hc ⊢; omega

/-! ### slices: events are decodings of disjoint, ordered 64-byte windows of the data -/

inductive Slices {ε : Type} (dec : Bytes → Except PyErr ε) (data : Bytes) : Nat → Nat → List ε → Prop
  | nil {lo hi : Nat} : lo ≤ hi → Slices dec data lo hi []
  | cons {lo hi p : Nat} {e : ε} {es : List ε} : lo ≤ p → p + 64 ≤ data.length →
      dec ((data.drop p).take 64) = .ok e → Slices dec data (p + 64) hi es → Slices dec data lo hi (e :: es)

theorem Slices.le {ε : Type} {dec : Bytes → Except PyErr ε} {data : Bytes} {lo hi : Nat} {es : List ε}
    (h : Slices dec data lo hi es) : lo ≤ hi := by
  induction h with
  | nil h => exact h
  | cons h1 _ _ _ ih => omega

theorem Slices.mono {ε : Type} {dec : Bytes → Except PyErr ε} {data : Bytes} {lo hi lo' hi' : Nat} {es : List ε}
    (h : Slices dec data lo hi es) (hl : lo' ≤ lo) (hh : hi ≤ hi') : Slices dec data lo' hi' es := by
  induction h generalizing lo' with
  | nil h => exact .nil (by omega)
  | cons h1 h2 h3 _ ih => exact .cons (by omega) h2 h3 (ih (Nat.le_refl _) hh)

theorem Slices.append {ε : Type} {dec : Bytes → Except PyErr ε} {data : Bytes} {lo mid hi : Nat} {a b : List ε}
    (h1 : Slices dec data lo mid a) (h2 : Slices dec data mid hi b) : Slices dec data lo hi (a ++ b) := by
  induction h1 with
  | nil h => exact h2.mono h (Nat.le_refl _)
  | cons c1 c2 c3 _ ih => exact .cons c1 c2 c3 (ih h2)

/-- accepted ⇒ 64 bytes (contrapositive of `RejectsShort`). -/
theorem RejectsShort.len {ε : Type} {dec : Bytes → Except PyErr ε} (h : RejectsShort dec) {x : Bytes} {e : ε}
    (hx : dec x = .ok e) : x.length = 64 := by
  by_cases hl : x.length = 64
  · exact hl
  · obtain ⟨e', he⟩ := h x hl; rw [he] at hx; simp at hx

def NoHangDec {ε : Type} (dec : Bytes → Except PyErr ε) : Prop := ∀ x, dec x ≠ .error .hang

/-- a complete 64-byte read is the slice at the reader's position. -/
theorem read64_slice (r : Reader) (h : (r.read 64).1.length = 64) :
    (r.read 64).1 = (r.data.drop r.pos).take 64 ∧ r.pos + 64 ≤ r.data.length ∧ (r.read 64).2.pos = r.pos + 64 := by
  simp only [read_fst, Reader.rest, List.length_take, List.length_drop] at h
  refine ⟨rfl, by omega, ?_⟩
  simp only [read_pos, Reader.rest, List.length_drop]; omega

/-! ### the v2 record loop -/

theorem recordLoop_spec {ε : Type} (dec : Bytes → Except PyErr ε) (hdec : RejectsShort dec) :
    ∀ (fuel : Nat) (r : Reader), Good r →
      Step 2 1 r (recordLoop dec fuel r).2.2 ∧
      Slices dec r.data r.pos (recordLoop dec fuel r).2.2.pos (recordLoop dec fuel r).1
  | 0, r, g => ⟨Step.refl 2 1 g, .nil (Nat.le_refl _)⟩
  | fuel + 1, r, g => by
    have sr := step_read r 64 g
    simp only [recordLoop]
    split
    · exact ⟨sr.weaken (by omega) (Nat.le_refl _), .nil sr.mono⟩
    · cases hd : dec (r.read 64).1 with
      | error e => exact ⟨sr.weaken (by omega) (Nat.le_refl _), .nil sr.mono⟩
      | ok ev =>
        have hl := hdec.len hd
        obtain ⟨e1, e2, e3⟩ := read64_slice r hl
        obtain ⟨s2, sl2⟩ := recordLoop_spec dec hdec fuel (r.read 64).2 sr.good
        have sr' := sr.absorb (by omega)
        refine ⟨by simpa using sr'.trans s2, ?_⟩
        rw [read_data, e3] at sl2
        exact .cons (Nat.le_refl _) e2 (e1 ▸ hd) sl2

theorem recordLoop_nohang {ε : Type} (dec : Bytes → Except PyErr ε) (hdec : RejectsShort dec) (hnh : NoHangDec dec) :
    ∀ (fuel : Nat) (r : Reader), Good r → r.data.length - r.pos < fuel * 64 →
      (recordLoop dec fuel r).2.1 ≠ some .hang
  | 0, r, _, h => by omega
  | fuel + 1, r, g, h => by
    simp only [recordLoop]
    split
    · simp
    · cases hd : dec (r.read 64).1 with
      | error e =>
        have := hnh (r.read 64).1
        rw [hd] at this
        simpa using this
      | ok ev =>
        obtain ⟨_, e2, e3⟩ := read64_slice r (hdec.len hd)
        have sr := step_read r 64 g
        exact recordLoop_nohang dec hdec hnh fuel _ sr.good (by rw [read_data, e3]; omega)

/-! ### the v3 record and chunk loops -/

theorem recordsN_spec {ε : Type} (dec : Bytes → Except PyErr ε) (hdec : RejectsShort dec) :
    ∀ (n : Nat) (r : Reader), Good r →
      Step 2 1 r (recordsN dec n r).2.2 ∧
      Slices dec r.data r.pos (recordsN dec n r).2.2.pos (recordsN dec n r).1
  | 0, r, g => ⟨Step.refl 2 1 g, .nil (Nat.le_refl _)⟩
  | n + 1, r, g => by
    have sr := step_read r 64 g
    simp only [recordsN, Gen.Consts.keventSize]
    cases hd : dec (r.read 64).1 with
    | error e => exact ⟨sr.weaken (by omega) (Nat.le_refl _), .nil sr.mono⟩
    | ok ev =>
      have hl := hdec.len hd
      obtain ⟨e1, e2, e3⟩ := read64_slice r hl
      obtain ⟨s2, sl2⟩ := recordsN_spec dec hdec n (r.read 64).2 sr.good
      have sr' := sr.absorb (by omega)
      refine ⟨by simpa using sr'.trans s2, ?_⟩
      rw [read_data, e3] at sl2
      exact .cons (Nat.le_refl _) e2 (e1 ▸ hd) sl2

theorem recordsN_nohang {ε : Type} (dec : Bytes → Except PyErr ε) (hnh : NoHangDec dec) :
    ∀ (n : Nat) (r : Reader), (recordsN dec n r).2.1 ≠ some .hang
  | 0, r => by simp [recordsN]
  | n + 1, r => by
    simp only [recordsN]
    cases hd : dec (r.read Gen.Consts.keventSize).1 with
    | error e =>
      have := hnh (r.read Gen.Consts.keventSize).1
      rw [hd] at this
      simpa using this
    | ok ev => exact recordsN_nohang dec hnh n _

end KdVerif

namespace KdVerif
open Reader

theorem chunkLoop_spec {ε : Type} (dec : Bytes → Except PyErr ε) (hdec : RejectsShort dec) :
    ∀ (fuel : Nat) (r : Reader), Good r →
      Step 3 6 r (chunkLoop dec fuel r).2.2 ∧
      Slices dec r.data r.pos (chunkLoop dec fuel r).2.2.pos (chunkLoop dec fuel r).1
  | 0, r, g => ⟨Step.refl 3 6 g, .nil (Nat.le_refl _)⟩
  | fuel + 1, r, g => by
    rw [chunkLoop]
    obtain ⟨s1, a1⟩ := linA_seekUntil Gen.Consts.TRACEV3_EVENTS_TAG r g
    cases hs : seekUntil Gen.Consts.TRACEV3_EVENTS_TAG r with
    | mk res1 r1 =>
    rw [hs] at s1 a1
    dsimp only at s1 a1
    cases res1 with
    | error e => exact ⟨s1.weaken (by omega) (by omega), .nil s1.mono⟩
    | ok u =>
      dsimp only
      have adv1 := a1 u rfl
      obtain ⟨s2, a2⟩ := linA_int64ul r1 s1.good
      cases hi : int64ul r1 with
      | mk res2 r2 =>
      rw [hi] at s2 a2
      dsimp only at s2 a2
      cases res2 with
      | error e =>
        exact ⟨(s1.trans (s2.weaken (by omega) (Nat.le_refl _))).weaken (by omega) (by omega),
          .nil (Nat.le_trans s1.mono s2.mono)⟩
      | ok size =>
        dsimp only
        have adv2 := a2 size rfl
        have s3 := step_read r2 8 s2.good
        obtain ⟨s4, sl4⟩ := recordsN_spec dec hdec (size / Gen.Consts.keventSize) (r2.read 8).2 s3.good
        have s14 : Step 2 5 r (recordsN dec (size / Gen.Consts.keventSize) (r2.read 8).2).2.2 :=
          ((s1.trans (s2.weaken (by omega) (Nat.le_refl _))).trans (s3.weaken (by omega) (Nat.le_refl _))).trans s4
        have hd4 : (r2.read 8).2.data = r.data := by rw [read_data, s2.data, s1.data]
        have lo4 : r.pos ≤ (r2.read 8).2.pos := Nat.le_trans s1.mono (Nat.le_trans s2.mono s3.mono)
        rw [hd4] at sl4
        have sl4' := sl4.mono lo4 (Nat.le_refl _)
        cases hq : (recordsN dec (size / Gen.Consts.keventSize) (r2.read 8).2).2.1 with
        | some e => exact ⟨s14.weaken (by omega) (by omega), sl4'⟩
        | none =>
          dsimp only
          have s5 := step_read (recordsN dec (size / Gen.Consts.keventSize) (r2.read 8).2).2.2
            Gen.Consts.TRACEV3_MORE_EVENTS.length s4.good
          have s15 := s14.trans (s5.weaken (by omega : 1 ≤ 2) (Nat.le_refl _))
          split
          · rename_i hm
            have hl5 : ((recordsN dec (size / Gen.Consts.keventSize) (r2.read 8).2).2.2.read
                Gen.Consts.TRACEV3_MORE_EVENTS.length).1.length = 8 := by rw [hm]; rfl
            have adv5 : (recordsN dec (size / Gen.Consts.keventSize) (r2.read 8).2).2.2.pos + 8 ≤
                ((recordsN dec (size / Gen.Consts.keventSize) (r2.read 8).2).2.2.read
                  Gen.Consts.TRACEV3_MORE_EVENTS.length).2.pos := by
              simp only [read_fst, List.length_take] at hl5
              simp only [read_pos]
              have : Gen.Consts.TRACEV3_MORE_EVENTS.length = 8 := rfl
              omega
            have hadv : r.pos + (5 + 1) ≤ ((recordsN dec (size / Gen.Consts.keventSize) (r2.read 8).2).2.2.read
                  Gen.Consts.TRACEV3_MORE_EVENTS.length).2.pos := by
              have h3 := s3.mono
              have h4 := s4.mono
              have : Gen.Consts.TRACEV3_EVENTS_TAG.length = 8 := rfl
              omega
            have s15' := s15.absorb hadv
            obtain ⟨s6, sl6⟩ := chunkLoop_spec dec hdec fuel _ s5.good
            refine ⟨by simpa using s15'.trans s6, ?_⟩
            have hd6 : ((recordsN dec (size / Gen.Consts.keventSize) (r2.read 8).2).2.2.read
                  Gen.Consts.TRACEV3_MORE_EVENTS.length).2.data = r.data := by
              rw [read_data, s4.data, hd4]
            rw [hd6] at sl6
            exact sl4'.append (sl6.mono s5.mono (Nat.le_refl _))
          · exact ⟨s15.weaken (by omega) (by omega), sl4'.mono (Nat.le_refl _) s5.mono⟩

theorem chunkLoop_nohang {ε : Type} (dec : Bytes → Except PyErr ε) (hdec : RejectsShort dec) (hnh : NoHangDec dec) :
    ∀ (fuel : Nat) (r : Reader), Good r → r.data.length - r.pos < fuel * 16 →
      (chunkLoop dec fuel r).2.1 ≠ some .hang
  | 0, r, _, h => by omega
  | fuel + 1, r, g, h => by
    rw [chunkLoop]
    obtain ⟨s1, a1⟩ := linA_seekUntil Gen.Consts.TRACEV3_EVENTS_TAG r g
    cases hs : seekUntil Gen.Consts.TRACEV3_EVENTS_TAG r with
    | mk res1 r1 =>
    rw [hs] at s1 a1
    dsimp only at s1 a1
    cases res1 with
    | error e =>
      rw [seekUntil_eq] at hs
      split at hs <;> simp only [Prod.mk.injEq, Except.error.injEq] at hs
      · simp at hs
      · dsimp only; rw [← hs.1]; simp
    | ok u =>
      dsimp only
      have adv1 := a1 u rfl
      obtain ⟨s2, a2⟩ := linA_int64ul r1 s1.good
      cases hi : int64ul r1 with
      | mk res2 r2 =>
      rw [hi] at s2 a2
      dsimp only at s2 a2
      cases res2 with
      | error e =>
        dsimp only
        unfold int64ul at hi
        cases hre : readExact 8 r1 with
        | mk res r' =>
        cases res with
        | ok b => rw [RM.bind_ok hre] at hi; simp at hi
        | error e' =>
          rw [RM.bind_err hre] at hi
          have := readExact_err hre
          simp only [Prod.mk.injEq, Except.error.injEq] at hi
          rw [← hi.1, this]; simp
      | ok size =>
        dsimp only
        have adv2 := a2 size rfl
        have s3 := step_read r2 8 s2.good
        obtain ⟨s4, _⟩ := recordsN_spec dec hdec (size / Gen.Consts.keventSize) (r2.read 8).2 s3.good
        cases hq : (recordsN dec (size / Gen.Consts.keventSize) (r2.read 8).2).2.1 with
        | some e =>
          dsimp only
          have := recordsN_nohang dec hnh (size / Gen.Consts.keventSize) (r2.read 8).2
          rw [hq] at this
          exact this
        | none =>
          dsimp only
          have s5 := step_read (recordsN dec (size / Gen.Consts.keventSize) (r2.read 8).2).2.2
            Gen.Consts.TRACEV3_MORE_EVENTS.length s4.good
          split
          · apply chunkLoop_nohang dec hdec hnh fuel _ s5.good
            have h3 := s3.mono
            have h4 := s4.mono
            have h5 := s5.mono
            have : Gen.Consts.TRACEV3_EVENTS_TAG.length = 8 := rfl
            have hd : ((recordsN dec (size / Gen.Consts.keventSize) (r2.read 8).2).2.2.read
                  Gen.Consts.TRACEV3_MORE_EVENTS.length).2.data.length = r.data.length := by
              rw [read_data, s4.data, read_data, s2.data, s1.data]
            have h6 := s5.good
            rw [hd] at h6 ⊢
            omega
          · simp

end KdVerif

namespace KdVerif
open Reader

/-! ### counter independence: outcome and final position depend on (data, pos) only -/

def Same (r r' : Reader) : Prop := r'.data = r.data ∧ r'.pos = r.pos

def CI {α : Type} (m : RM α) : Prop :=
  ∀ r r', Same r r' → (m r').1 = (m r).1 ∧ Same (m r).2 (m r').2

theorem ci_readExact (n : Nat) : CI (readExact n) := by
  intro r r' h
  have hr : r'.rest = r.rest := by simp only [Reader.rest, h.1, h.2]
  have hf : (r'.read n).1 = (r.read n).1 := by simp [hr]
  have hs : Same (r.read n).2 (r'.read n).2 := ⟨by simp [h.1], by simp [h.2, hr]⟩
  rw [readExact_eq, readExact_eq, hf]
  split
  · exact ⟨rfl, h⟩
  · split <;> exact ⟨rfl, hs⟩

theorem ci_pure {α : Type} (x : α) : CI (pure x : RM α) := fun _ _ h => ⟨rfl, h⟩

theorem ci_bind {α β : Type} {m : RM α} {f : α → RM β} (hm : CI m) (hf : ∀ x, CI (f x)) : CI (m >>= f) := by
  intro r r' h
  obtain ⟨e1, s1⟩ := hm r r' h
  cases hmr : m r with
  | mk res r1 =>
  cases hmr' : m r' with
  | mk res' r1' =>
  rw [hmr, hmr'] at e1 s1
  dsimp only at e1 s1
  subst e1
  cases res' with
  | error e => rw [RM.bind_err hmr, RM.bind_err hmr']; exact ⟨rfl, s1⟩
  | ok x => rw [RM.bind_ok hmr, RM.bind_ok hmr']; exact hf x r1 r1' s1

theorem ci_prefixedBytes : CI prefixedBytes :=
  ci_bind (ci_bind (ci_readExact 8) fun _ => ci_pure _) fun n => ci_readExact n

theorem linA_prefixedBytes : LinA 1 2 8 prefixedBytes :=
  (linA_bind linA_int64ul fun n => (linA_readExact n).weaken (Nat.le_refl _) (Nat.le_refl _) (Nat.zero_le _) :
    LinA 1 (1 + 1) (8 + 0) _)

theorem aligned_eq {α : Type} (modulus : Nat) (m : RM α) (r : Reader) :
    aligned modulus m r =
      match m r with
      | (.ok a, r1) =>
        (match readExact (padTo modulus (r1.pos - r.pos)) r1 with
         | (.ok _, r2) => (.ok a, r2)
         | (.error e, r2) => (.error e, r2))
      | (.error e, r1) => (.error e, r1) := by
  unfold aligned
  have ht : tell r = (.ok r.pos, r) := rfl
  rw [RM.bind_ok ht]
  cases hm : m r with
  | mk res r1 =>
  cases res with
  | error e => rw [RM.bind_err hm]
  | ok a =>
    rw [RM.bind_ok hm]
    have ht1 : tell r1 = (.ok r1.pos, r1) := rfl
    rw [RM.bind_ok ht1]
    dsimp only
    cases hp : readExact (padTo modulus (r1.pos - r.pos)) r1 with
    | mk res2 r2 =>
    cases res2 with
    | error e => rw [RM.bind_err hp]
    | ok b => rw [RM.bind_ok hp]; rfl

theorem padTo_lt (n : Nat) : padTo 8 n < 8 := by unfold padTo; omega

/-- What one element of the additional-data range does to the reader.
    success: at least 16 bytes consumed and the work is at most 3 per byte consumed;
    failure: the work is at most 2 per unread byte plus 14. -/
theorem blockElem_spec (r : Reader) (g : Good r) :
    (blockElem r).2.data = r.data ∧ (blockElem r).2.pos ≤ r.data.length ∧
    (∀ x, (blockElem r).1 = .ok x → r.pos + 16 ≤ (blockElem r).2.pos ∧
        (blockElem r).2.cost + 3 * r.pos ≤ r.cost + 3 * (blockElem r).2.pos) ∧
    (∀ e, (blockElem r).1 = .error e → e ≠ .hang ∧
        (blockElem r).2.cost + 2 * r.pos ≤ r.cost + 2 * r.data.length + 14) := by
  obtain ⟨st, at_⟩ := linA_readExact 8 r g
  unfold blockElem
  cases ht : readExact 8 r with
  | mk rest ra =>
  rw [ht] at st at_
  dsimp only at st at_
  cases rest with
  | error e =>
    rw [RM.bind_err ht]
    refine ⟨st.data, by rw [← st.data]; exact st.good, fun _ hx => by simp at hx, fun e' he' => ?_⟩
    have hc := st.cost
    have hg := st.good
    rw [st.data] at hg
    have hte := readExact_err ht
    · simp only [Except.error.injEq] at he'
      refine ⟨by rw [← he', hte]; simp, ?_⟩
      have hm := st.mono
      have g' : r.pos ≤ r.data.length := g
      dsimp only; omega
  | ok tag =>
    rw [RM.bind_ok ht]
    have adv_t := at_ tag rfl
    have ga := st.good
    -- first alternative
    obtain ⟨sp, ap⟩ := linA_prefixedBytes ra ga
    have hsel : ∀ y, select2 (aligned 8 prefixedBytes) prefixedBytes ra = y →
        y.2.data = r.data ∧ y.2.pos ≤ r.data.length ∧
        (∀ x, y.1 = .ok x → ra.pos + 8 ≤ y.2.pos ∧ y.2.cost + 2 * ra.pos ≤ ra.cost + 2 * y.2.pos + 12) ∧
        (∀ e, y.1 = .error e → e = .streamError ∧ y.2.pos = ra.pos ∧
            y.2.cost + 2 * ra.pos ≤ ra.cost + 2 * r.data.length + 5) := by
      intro y hy
      unfold select2 at hy
      rw [aligned_eq] at hy
      cases hp : prefixedBytes ra with
      | mk resp rp =>
      rw [hp] at sp ap hy
      dsimp only at sp ap hy
      have hdp : rp.data = r.data := sp.data.trans st.data
      have hgp : rp.pos ≤ r.data.length := by rw [← hdp]; exact sp.good
      -- the second alternative starts from the same position: same outcome
      have hsame : Same ra (rp.seekTo ra.pos) := ⟨by rw [seekTo_data, sp.data], rfl⟩
      cases resp with
      | error e =>
        -- both alternatives fail the same way
        have he : e = .streamError := by
          unfold prefixedBytes int64ul at hp
          cases hre : readExact 8 ra with
          | mk res r' =>
          cases res with
          | error e' =>
            rw [RM.bind_err (RM.bind_err hre)] at hp
            have := readExact_err hre
            simp only [Prod.mk.injEq, Except.error.injEq] at hp
            rw [← hp.1, this]
          | ok b =>
            have : (readExact 8 >>= fun b => (pure (leNat b) : RM Nat)) ra = (.ok (leNat b), r') := by
              rw [RM.bind_ok hre]; rfl
            rw [RM.bind_ok this] at hp
            exact readExact_err hp
        subst he
        simp only at hy
        obtain ⟨c1, c2⟩ := ci_prefixedBytes ra (rp.seekTo ra.pos) hsame
        rw [hp] at c1 c2
        dsimp only at c1 c2
        have g2 : Good (rp.seekTo ra.pos) := by
          show ra.pos ≤ rp.data.length; rw [sp.data]; exact ga
        obtain ⟨sp2, _⟩ := linA_prefixedBytes (rp.seekTo ra.pos) g2
        cases hp2 : prefixedBytes (rp.seekTo ra.pos) with
        | mk resp2 rp2 =>
        rw [hp2] at c1 sp2 c2 hy
        dsimp only at c1 sp2 c2
        subst c1
        simp only at hy
        subst hy
        refine ⟨by rw [seekTo_data, sp2.data, seekTo_data, hdp], by rw [seekTo_pos, ← st.data]; exact ga,
          fun _ hx => by simp at hx, fun e' _ => ⟨by simp_all, rfl, ?_⟩⟩
        have h1 := sp.cost
        have h2 := sp2.cost
        have h3 : rp2.pos ≤ r.data.length := by
          have := sp2.good; rw [sp2.data, seekTo_data, hdp] at this; exact this
        simp only [Reader.cost, Reader.seekTo] at h1 h2 ⊢
        omega
      | ok payload =>
        have advp := ap payload rfl
        dsimp only at hy
        have gp : Good rp := sp.good
        obtain ⟨sq, _⟩ := linA_readExact (padTo 8 (rp.pos - ra.pos)) rp gp
        cases hq : readExact (padTo 8 (rp.pos - ra.pos)) rp with
        | mk resq rq =>
        rw [hq] at hy sq
        dsimp only at hy sq
        cases resq with
        | ok b =>
          dsimp only at hy
          subst hy
          dsimp only
          refine ⟨sq.data.trans hdp, by have := sq.good; rw [sq.data, hdp] at this; exact this,
            fun _ _ => ⟨Nat.le_trans advp sq.mono, ?_⟩, fun _ hx => by simp at hx⟩
          have h1 := sp.cost
          have h2 := sq.cost
          have := sq.mono
          omega
        | error e =>
          -- padding missing: the second alternative re-reads the same length and payload
          have he : e ≠ .hang := by
            rw [readExact_err hq]; simp
          have hqpos : rq.pos ≤ rp.pos + 7 := by
            have hlt := padTo_lt (rp.pos - ra.pos)
            rw [readExact_small (Nat.lt_trans hlt (by decide))] at hq
            have : rq = (rp.read (padTo 8 (rp.pos - ra.pos))).2 := by
              split at hq <;> simp only [Prod.mk.injEq] at hq <;> exact hq.2.symm
            rw [this, read_pos]; omega
          have hsame2 : Same ra (rq.seekTo ra.pos) := ⟨by rw [seekTo_data, sq.data, sp.data], rfl⟩
          obtain ⟨c1, c2⟩ := ci_prefixedBytes ra (rq.seekTo ra.pos) hsame2
          rw [hp] at c1 c2
          dsimp only at c1 c2
          have g2 : Good (rq.seekTo ra.pos) := by
            show ra.pos ≤ rq.data.length; rw [sq.data, sp.data]; exact ga
          obtain ⟨sp2, _⟩ := linA_prefixedBytes (rq.seekTo ra.pos) g2
          cases hp2 : prefixedBytes (rq.seekTo ra.pos) with
          | mk resp2 rp2 =>
          rw [hp2] at c1 sp2 c2
          dsimp only at c1 sp2 c2
          subst c1
          have hy' : y = (.ok payload, rp2) := by
            cases e <;> first | exact absurd rfl he | (simp only at hy; rw [hp2] at hy; exact hy.symm)
          subst hy'
          dsimp only
          refine ⟨by rw [sp2.data, seekTo_data, sq.data, hdp], by rw [c2.2]; exact hgp,
            fun _ _ => ⟨by rw [c2.2]; exact advp, ?_⟩, fun _ hx => by simp at hx⟩
          have h1 := sp.cost
          have h2 := sq.cost
          have h3 := sp2.cost
          have h4 := c2.2
          simp only [Reader.cost, Reader.seekTo] at h1 h2 h3 ⊢
          omega
    cases hsl : select2 (aligned 8 prefixedBytes) prefixedBytes ra with
    | mk ress rs =>
    obtain ⟨d, gd, ok_, er_⟩ := hsel _ hsl
    dsimp only at d gd ok_ er_
    have hct := st.cost
    cases ress with
    | error e =>
      rw [RM.bind_err hsl]
      obtain ⟨e1, e2, e3⟩ := er_ e rfl
      refine ⟨d, gd, fun _ hx => by simp at hx, fun e' he' => ?_⟩
      simp only [Except.error.injEq] at he'
      refine ⟨by rw [← he', e1]; simp, ?_⟩
      dsimp only
      have := st.mono
      omega
    | ok data =>
      rw [RM.bind_ok hsl]
      obtain ⟨o1, o2⟩ := ok_ data rfl
      refine ⟨d, gd, fun _ _ => ⟨by simp only [RM.pure_apply]; omega, ?_⟩, fun _ hx => by simp at hx⟩
      simp only [RM.pure_apply]
      omega

end KdVerif

namespace KdVerif
open Reader

/-! ### the additional-data range -/

theorem greedyBlocks_spec : ∀ (fuel : Nat) (r : Reader), Good r →
    (greedyRange blockElem fuel r).2.data = r.data ∧ r.pos ≤ (greedyRange blockElem fuel r).2.pos ∧
    (greedyRange blockElem fuel r).2.pos ≤ r.data.length ∧
    (greedyRange blockElem fuel r).2.cost + 3 * r.pos ≤
      r.cost + 3 * (greedyRange blockElem fuel r).2.pos + 2 * r.data.length + 14 ∧
    (r.data.length - r.pos < fuel * 16 → ∀ e, (greedyRange blockElem fuel r).1 ≠ .error e)
  | 0, r, g => ⟨rfl, Nat.le_refl _, g, by simp only [greedyRange, RM.throw']; omega, fun h => by omega⟩
  | fuel + 1, r, g => by
    obtain ⟨d, gd, ok_, er_⟩ := blockElem_spec r g
    simp only [greedyRange]
    cases hb : blockElem r with
    | mk res r1 =>
    rw [hb] at d gd ok_ er_
    dsimp only at d gd ok_ er_
    cases res with
    | ok x =>
      dsimp only
      obtain ⟨o1, o2⟩ := ok_ x rfl
      have g1 : Good r1 := by show r1.pos ≤ r1.data.length; rw [d]; exact gd
      obtain ⟨i1, i2, i3, i4, i5⟩ := greedyBlocks_spec fuel r1 g1
      cases hg : greedyRange blockElem fuel r1 with
      | mk res2 r2 =>
      rw [hg] at i1 i2 i3 i4 i5
      dsimp only at i1 i2 i3 i4 i5
      rw [d] at i3 i4 i5
      have g' : r.pos ≤ r.data.length := g
      have hh : r.data.length - r.pos < (fuel + 1) * 16 → r.data.length - r1.pos < fuel * 16 := by omega
      cases res2 with
      | ok l =>
        dsimp only
        exact ⟨i1.trans d, by omega, i3, by omega, fun _ e => by simp⟩
      | error e =>
        dsimp only
        exact ⟨i1.trans d, by omega, i3, by omega, fun h e' he' => i5 (hh h) e rfl⟩
    | error e =>
      obtain ⟨e1, e2⟩ := er_ e rfl
      have g' : r.pos ≤ r.data.length := g
      cases e <;> first
        | exact absurd rfl e1
        | exact ⟨d, Nat.le_refl _, g, by simp only [Reader.cost, Reader.seekTo] at e2 ⊢; omega, fun _ e' => by simp⟩

/-! ### no model "hang" outside the fuelled loops -/

def NH {α : Type} (m : RM α) : Prop := ∀ r r' e, m r = (.error e, r') → e ≠ .hang

theorem nh_bind {α β : Type} {m : RM α} {f : α → RM β} (hm : NH m) (hf : ∀ x, NH (f x)) : NH (m >>= f) := by
  intro r r' e h
  cases hmr : m r with
  | mk res r1 =>
  cases res with
  | error e1 =>
    rw [RM.bind_err hmr] at h
    simp only [Prod.mk.injEq, Except.error.injEq] at h
    exact h.1 ▸ hm r r1 e1 hmr
  | ok x => rw [RM.bind_ok hmr] at h; exact hf x r1 r' e h

theorem nh_pure {α : Type} (x : α) : NH (pure x : RM α) := fun _ _ _ h => by simp at h
theorem nh_tell : NH tell := fun _ _ _ h => by simp [tell] at h
theorem nh_restFuel : NH restFuel := fun _ _ _ h => by simp [restFuel] at h
theorem nh_readPlain (n : Nat) : NH (readPlain n) := fun _ _ _ h => by simp [readPlain] at h

theorem nh_readExact (n : Nat) : NH (readExact n) := by
  intro r r' e h
  rw [readExact_err h]; simp

theorem nh_throw {α : Type} (e : PyErr) (he : e ≠ .hang) : NH (RM.throw' e : RM α) := by
  intro r r' e' h
  simp only [RM.throw', Prod.mk.injEq, Except.error.injEq] at h
  exact h.1 ▸ he

theorem nh_int32ul : NH int32ul := nh_bind (nh_readExact 4) fun _ => nh_pure _
theorem nh_int64ul : NH int64ul := nh_bind (nh_readExact 8) fun _ => nh_pure _
theorem nh_padding (n : Nat) : NH (padding n) := nh_bind (nh_readExact n) fun _ => nh_pure _
theorem nh_prefixedBytes : NH prefixedBytes := nh_bind nh_int64ul fun n => nh_readExact n

theorem nh_fixedCString (n : Nat) : NH (fixedCString n) := by
  intro r r' e h
  unfold fixedCString at h
  cases hre : readExact n r with
  | mk res r1 =>
  rw [hre] at h
  cases res with
  | error e1 =>
    simp only [Prod.mk.injEq, Except.error.injEq] at h
    exact h.1 ▸ nh_readExact n r r1 e1 hre
  | ok b =>
    dsimp only at h
    unfold cstringOf at h
    split at h
    · simp at h
    · rename_i e2 hc
      simp only [Prod.mk.injEq, Except.error.injEq] at h
      dsimp only at hc
      split at hc
      · simp only [Except.error.injEq] at hc; rw [← h.1, ← hc]; simp
      · split at hc
        · simp at hc
        · simp only [Except.error.injEq] at hc; rw [← h.1, ← hc]; simp

theorem nh_threadEntry : NH threadEntry :=
  nh_bind nh_int64ul fun _ => nh_bind nh_int32ul fun _ => nh_bind (nh_fixedCString _) fun _ => nh_pure _

theorem nh_arrayN {α : Type} {m : RM α} (hm : NH m) : ∀ n, NH (arrayN m n)
  | 0 => nh_pure _
  | n + 1 => nh_bind hm fun _ => nh_bind (nh_arrayN hm n) fun _ => nh_pure _

theorem nh_zeroSkip {β : Type} (g : List Unit → β) :
    NH (restFuel >>= fun fuel => (greedyRange constZeroByte fuel >>= fun pad => (pure (g pad) : RM β))) := by
  intro r r' e h
  obtain ⟨l, b1, e1, _⟩ := greedyZeros_spec (r.rest.length + 1) r (Nat.le_refl _)
  have hr : restFuel r = (.ok (r.rest.length + 1), r) := rfl
  rw [RM.bind_ok hr, RM.bind_ok e1] at h
  simp at h

theorem nh_headerV2 : NH headerV2 := by
  unfold headerV2
  exact nh_bind nh_int32ul fun _ => nh_bind (nh_padding _) fun _ => nh_bind (nh_padding _) fun _ =>
    nh_bind nh_int32ul fun _ => nh_bind nh_int64ul fun _ => nh_bind (nh_padding _) fun _ =>
    nh_bind (nh_arrayN nh_threadEntry _) fun _ => nh_zeroSkip _

theorem nh_seekUntil (tag : Bytes) : NH (seekUntil tag) := by
  intro r r' e h
  rw [seekUntil_eq] at h
  split at h <;> simp only [Prod.mk.injEq, Except.error.injEq] at h
  · simp at h
  · rw [← h.1]; simp

theorem nh_readFields : ∀ ns, NH (readFields ns)
  | [] => nh_pure _
  | n :: ns => nh_bind (nh_readExact n) fun _ => nh_bind (nh_readFields ns) fun _ => nh_pure _

theorem nh_aligned {α : Type} (k : Nat) {m : RM α} (hm : NH m) : NH (aligned k m) :=
  nh_bind nh_tell fun _ => nh_bind hm fun _ => nh_bind nh_tell fun _ => nh_bind (nh_readExact _) fun _ => nh_pure _

theorem nh_headerV3 (plist : Bytes → Option PView) : NH (headerV3 plist) := by
  unfold headerV3 headerV3Inner
  refine nh_aligned 8 (nh_bind (nh_readFields _) fun _ => nh_bind nh_prefixedBytes fun p => ?_)
  cases plist p with
  | none => exact nh_throw _ (by simp)
  | some _ => exact nh_pure _

theorem nh_threadmapV3 : NH threadmapV3 := by
  unfold threadmapV3
  exact nh_bind (nh_readPlain _) fun _ => nh_bind (nh_seekUntil _) fun _ => nh_bind (nh_seekUntil _) fun _ =>
    nh_bind nh_prefixedBytes fun _ => nh_pure _

/-! ### LinA for the fixed-layout parts -/

theorem linA_headerV2 : LinA 2 11 0 headerV2 := by
  unfold headerV2
  have w1 : ∀ {α : Type} {b v : Nat} {m : RM α}, LinA 1 b v m → LinA 2 b 0 m :=
    fun h => h.weaken (by omega) (Nat.le_refl _) (Nat.zero_le _)
  exact (linA_bind (w1 linA_int32ul) fun _ => linA_bind (w1 (linA_padding _)) fun _ =>
    linA_bind (w1 (linA_padding _)) fun _ => linA_bind (w1 linA_int32ul) fun _ => linA_bind (w1 linA_int64ul) fun _ =>
    linA_bind (w1 (linA_padding _)) fun _ => linA_bind (linA_arrayN linA_threadEntry (by omega) _) fun _ =>
    linA_bind (linA_restFuel 2) fun fuel => linA_bind (linA_greedyZeros fuel) fun _ => linA_pure _ 2 :
      LinA 2 (1 + (1 + (1 + (1 + (1 + (1 + (3 + (0 + (2 + 0))))))))) (0 + (0 + (0 + (0 + (0 + (0 + (0 + (0 + (0 + 0))))))))) _)

theorem linA_readFields : ∀ ns : List Nat, LinA 1 ns.length 0 (readFields ns)
  | [] => linA_pure _ 1
  | n :: ns => by
    have := (linA_bind ((linA_readExact n).weaken (Nat.le_refl _) (Nat.le_refl _) (Nat.zero_le _)) fun b =>
      linA_bind (linA_readFields ns) fun l => linA_pure (leNat b :: l) 1 :
        LinA 1 (1 + (ns.length + 0)) (0 + (0 + 0)) _)
    exact this.weaken (Nat.le_refl _) (by simp only [List.length_cons]; omega) (Nat.le_refl _)

theorem linA_aligned {α : Type} {b v : Nat} (k : Nat) {m : RM α} (hm : LinA 1 b v m) : LinA 1 (b + 1) 0 (aligned k m) := by
  have := (linA_bind (linA_tell 1) fun p1 => linA_bind hm fun a => linA_bind (linA_tell 1) fun p2 =>
    linA_bind ((linA_readExact (padTo k (p2 - p1))).weaken (Nat.le_refl _) (Nat.le_refl _) (Nat.zero_le _)) fun _ =>
      linA_pure a 1 : LinA 1 (0 + (b + (0 + (1 + 0)))) (0 + (v + (0 + (0 + 0)))) _)
  exact this.weaken (Nat.le_refl _) (by omega) (Nat.zero_le _)

theorem linA_headerV3 (plist : Bytes → Option PView) : LinA 1 15 0 (headerV3 plist) := by
  unfold headerV3
  have inner : LinA 1 (12 + (2 + 0)) (0 + (8 + 0)) (headerV3Inner plist) := by
    unfold headerV3Inner
    exact linA_bind (linA_readFields v3FieldSizes) fun fs => linA_bind linA_prefixedBytes fun p => by
      cases plist p with
      | none => exact linA_throw _ 1 0
      | some _ => exact linA_pure _ 1
  exact (linA_aligned 8 inner).weaken (Nat.le_refl _) (by omega) (Nat.le_refl _)

theorem linA_threadmapV3 : LinA 2 7 0 threadmapV3 := by
  unfold threadmapV3
  have w1 : ∀ {α : Type} {b v : Nat} {m : RM α}, LinA 1 b v m → LinA 2 b 0 m :=
    fun h => h.weaken (by omega) (Nat.le_refl _) (Nat.zero_le _)
  have w2 : ∀ {α : Type} {b v : Nat} {m : RM α}, LinA 2 b v m → LinA 2 b 0 m :=
    fun h => h.weaken (by omega) (Nat.le_refl _) (Nat.zero_le _)
  exact (linA_bind (w1 (linA_readPlain _)) fun _ => linA_bind (w2 (linA_seekUntil _)) fun _ =>
    linA_bind (w2 (linA_seekUntil _)) fun _ => linA_bind (w1 linA_prefixedBytes) fun _ => linA_pure _ 2 :
      LinA 2 (1 + (2 + (2 + (2 + 0)))) (0 + (0 + (0 + (0 + 0)))) _)

end KdVerif
