import KdVerif.Model.PyIRCs
/-
  The IR the proofs of `Proofs/PyIRCs` were done for: a hand-written copy of what `tools/gen_pyir.py` produces
  from `pykdebugparser/callstacks_parser.py` (same normal form as `Spec/PyIRExpected`).
  `C15.source_is_expected_ir` states that the generated blocks ARE these terms.  Core Lean only.
-/
namespace KdVerif.PyIRCs.Expected
open KdVerif.PyIRCs Expr Stmt

/--
```python
def insert_image(self, address, uuid):                                   # address = v0, uuid = v1
    if address in self.dyld_addresses:
        return
    index_ = bisect(self.dyld_addresses, address)                        # index_ = v2
    self.dyld_addresses.insert(index_, address)
    self.dyld_uuids.insert(index_, uuid)
```
-/
def insertImage : Block :=
  { params := 2
    body :=
      ite (isIn (var 0) addrs) (ret none)
        (assign 2 (bisect addrs (var 0))
          (insert addrs (var 2) (var 0)
            (insert uuids (var 2) (var 1) (ret none)))) }

/-- the body of the frame loop (trace = v0, frames = v1, frame = v2, index_ = v3) -/
def frameBody : Stmt :=
  assign 3 (sub (bisect addrs (var 2)) (int 1))
    (ite (gt (var 3) (int (-1)))
      (append 1 (mkFrame (var 2) (index uuids (var 3)) (sub (var 2) (index addrs (var 3)))) done)
      (append 1 (mkFrame (var 2) none none) done))

/--
```python
for trace in generator:                                                  # trace = v0
    if isinstance(trace, PerfEvent) and trace.cs_frames is not None:
        frames = []                                                      # frames = v1
        for frame in trace.cs_frames:                                    # frame = v2
            index_ = bisect(self.dyld_addresses, frame) - 1              # index_ = v3
            if index_ > -1:
                frames.append(Frame(frame, self.dyld_uuids[index_], frame - self.dyld_addresses[index_]))
            else:
                frames.append(Frame(frame, None, None))
        yield Callstack(trace.ktraces[0].timestamp, trace.ktraces[0].tid, frames)      # the value: frames
```
-/
def frameLoop : Block :=
  { params := 1
    body := assignNewList 1 (forIn 2 (csFrames (var 0)) frameBody (ret (var 1))) }

end KdVerif.PyIRCs.Expected
