import KdVerif.Model.OsLog
/-
  Lemmas for C16: association-list facts, the induction over the key chain of
  `from_raw_log_event`, the dataclass constructor, `mapE`.
-/
namespace KdVerif.OsLog

@[simp] theorem andThen_ok (a : α) (f : α → Except PyErr β) : (Except.ok a >>=? f) = f a := rfl
@[simp] theorem andThen_error (e : PyErr) (f : α → Except PyErr β) : (Except.error e >>=? f) = .error e := rfl

/-! ### association lists -/

theorem lookup_derase_ne (d : Dict) {k k' : String} (h : k ≠ k') :
    (derase d k').lookup k = d.lookup k := by
  induction d with
  | nil => rfl
  | cons p d ih =>
    obtain ⟨a, v⟩ := p
    unfold derase at ih ⊢
    by_cases hak : a = k'
    · subst hak
      have hka : (k == a) = false := by simpa using h
      simp [List.lookup_cons, hka, ih]
    · have : (a != k') = true := by simpa using hak
      simp only [List.filter_cons, this, if_true, List.lookup_cons, ih]

theorem lookup_map_key_mem (l : List Entry) (val : Entry → PVal) (hnd : (l.map (·.key)).Nodup) {e : Entry}
    (he : e ∈ l) : (l.map fun e => (e.key, val e)).lookup e.key = some (val e) := by
  induction l with
  | nil => cases he
  | cons x xs ih =>
    have h' : x.key ∉ xs.map (·.key) ∧ (xs.map (·.key)).Nodup := by simpa using hnd
    rcases List.mem_cons.mp he with rfl | he'
    · simp
    · have hne : (e.key == x.key) = false := by
        have : e.key ≠ x.key := fun heq => h'.1 (heq ▸ List.mem_map_of_mem he')
        simpa using this
      simp only [List.map_cons, List.lookup_cons, hne]
      exact ih h'.2 he'

theorem lookup_map_key_not_mem (l : List Entry) (val : Entry → PVal) {k : String}
    (h : k ∉ l.map (·.key)) : (l.map fun e => (e.key, val e)).lookup k = none := by
  induction l with
  | nil => rfl
  | cons x xs ih =>
    have h' : k ≠ x.key ∧ k ∉ xs.map (·.key) := by simpa using h
    have hne : (k == x.key) = false := by simpa using h'.1
    simp only [List.map_cons, List.lookup_cons, hne]
    exact ih h'.2

theorem lookup_derase_none (d : Dict) {k : String} (k' : String) (h : d.lookup k = none) :
    (derase d k').lookup k = none := by
  induction d with
  | nil => rfl
  | cons p d ih =>
    obtain ⟨a, v⟩ := p
    have hka : (k == a) = false := by
      cases hb : (k == a) with
      | false => rfl
      | true => simp [List.lookup_cons, hb] at h
    have hd : d.lookup k = none := by simpa [List.lookup_cons, hka] using h
    unfold derase at ih ⊢
    by_cases hak : (a != k') = true
    · simp only [List.filter_cons, hak, if_true, List.lookup_cons, hka]
      exact ih hd
    · simp only [List.filter_cons, hak]
      exact ih hd

/-! ### mapE -/

theorem mapE_ok_of_forall {f : α → Except PyErr β} {g : α → β} (l : List α)
    (h : ∀ a ∈ l, f a = .ok (g a)) : mapE f l = .ok (l.map g) := by
  induction l with
  | nil => rfl
  | cons a l ih =>
    have h1 := h a (by simp)
    have h2 := ih (fun x hx => h x (by simp [hx]))
    simp [mapE, h1, h2]

theorem mapE_ok_exists {f : α → Except PyErr β} (l : List α)
    (h : ∀ a ∈ l, ∃ b, f a = .ok b) : ∃ bs, mapE f l = .ok bs := by
  induction l with
  | nil => exact ⟨[], rfl⟩
  | cons a l ih =>
    obtain ⟨b, hb⟩ := h a (by simp)
    obtain ⟨bs, hbs⟩ := ih (fun x hx => h x (by simp [hx]))
    exact ⟨b :: bs, by simp [mapE, hb, hbs]⟩

/-- `mapE` maps 1:1 and in order. -/
theorem mapE_ok_inv {f : α → Except PyErr β} : ∀ (l : List α) (bs : List β), mapE f l = .ok bs →
    bs.length = l.length ∧ ∀ (i : Nat) (h1 : i < l.length) (h2 : i < bs.length), f l[i] = .ok bs[i] := by
  intro l
  induction l with
  | nil =>
    intro bs h
    simp [mapE] at h
    subst h
    exact ⟨rfl, fun i h1 => absurd h1 (by simp)⟩
  | cons a l ih =>
    intro bs h
    simp only [mapE] at h
    cases hfa : f a with
    | error e => simp [hfa] at h
    | ok b =>
      cases hm : mapE f l with
      | error e => simp [hfa, hm] at h
      | ok bs' =>
        simp [hfa, hm] at h
        subst h
        obtain ⟨hl, hi⟩ := ih bs' hm
        refine ⟨by simp [hl], ?_⟩
        intro i h1 h2
        cases i with
        | zero => simpa using hfa
        | succ i => simpa using hi i (by simpa using h1) (by simpa using h2)


/-! ### the key chain -/

theorem step_absent {T : IdTables} {S : Strings} {e : Entry} {st : Dict × Dict}
    (h : st.1.lookup e.key = none) (hr : e.required = false) : step T S e st = .ok st := by
  simp [step, h, hr]

theorem step_present {T : IdTables} {S : Strings} {e : Entry} {st : Dict × Dict} {v r : PVal}
    (h : st.1.lookup e.key = some v) (hr : applyTransform T S e.tr v = .ok r) :
    step T S e st = .ok (derase st.1 e.key, (e.field, r) :: st.2) := by
  simp [step, h, hr]

/-- The chain, run from any intermediate state that still agrees with the original event `ev` on the
    remaining keys: it succeeds; every present key's field holds the transform of its value; fields of
    absent keys are untouched; nothing else is written. -/
theorem runChain_spec (T : IdTables) (S : Strings) (ev : Dict) :
    ∀ (es : List Entry) (ev' parsed : Dict),
      (es.map (·.key)).Nodup → (es.map (·.field)).Nodup →
      (∀ e ∈ es, ev'.lookup e.key = ev.lookup e.key) →
      (∀ e ∈ es, e.required = true → (ev.lookup e.key).isSome) →
      (∀ e ∈ es, ∀ v, ev.lookup e.key = some v → ∃ r, applyTransform T S e.tr v = .ok r) →
      ∃ ev'' parsed', runChain T S es (ev', parsed) = .ok (ev'', parsed') ∧
        (∀ e ∈ es, ∀ v, ev.lookup e.key = some v →
            ∃ r, applyTransform T S e.tr v = .ok r ∧ parsed'.lookup e.field = some r) ∧
        (∀ f, (∀ e ∈ es, (ev.lookup e.key).isSome → e.field ≠ f) → parsed'.lookup f = parsed.lookup f) ∧
        (∀ kv ∈ parsed', kv ∈ parsed ∨ kv.1 ∈ es.map (·.field)) := by
  intro es
  induction es with
  | nil =>
    intro ev' parsed _ _ _ _ _
    exact ⟨ev', parsed, rfl, by simp, fun _ _ => rfl, fun kv h => Or.inl h⟩
  | cons e es ih =>
    intro ev' parsed hk hf hag hreq htr
    have hk' : e.key ∉ es.map (·.key) ∧ (es.map (·.key)).Nodup := by simpa using hk
    have hf' : e.field ∉ es.map (·.field) ∧ (es.map (·.field)).Nodup := by simpa using hf
    have hreq' : ∀ e' ∈ es, e'.required = true → (ev.lookup e'.key).isSome :=
      fun e' h => hreq e' (by simp [h])
    have htr' : ∀ e' ∈ es, ∀ v, ev.lookup e'.key = some v → ∃ r, applyTransform T S e'.tr v = .ok r :=
      fun e' h => htr e' (by simp [h])
    have hfne : ∀ e' ∈ es, e'.field ≠ e.field := by
      intro e' h heq
      exact hf'.1 (by rw [← heq]; exact List.mem_map_of_mem h)
    cases hl : ev.lookup e.key with
    | none =>
      have hl' : ev'.lookup e.key = none := by rw [hag e (by simp), hl]
      have hr : e.required = false := by
        cases hq : e.required with
        | false => rfl
        | true => have := hreq e (by simp) hq; simp [hl] at this
      have hag' : ∀ e' ∈ es, ev'.lookup e'.key = ev.lookup e'.key := fun e' h => hag e' (by simp [h])
      obtain ⟨ev'', parsed', hrun, h1, h2, h3⟩ := ih ev' parsed hk'.2 hf'.2 hag' hreq' htr'
      refine ⟨ev'', parsed', ?_, ?_, ?_, ?_⟩
      · simp only [runChain]
        rw [step_absent (st := (ev', parsed)) hl' hr]
        exact hrun
      · intro e' he' v hv
        rcases List.mem_cons.mp he' with rfl | he'
        · rw [hl] at hv; cases hv
        · exact h1 e' he' v hv
      · intro f hfx
        exact h2 f (fun e' h => hfx e' (by simp [h]))
      · intro kv hkv
        rcases h3 kv hkv with h | h
        · exact Or.inl h
        · exact Or.inr (by simp only [List.map_cons, List.mem_cons]; exact Or.inr h)
    | some v =>
      have hl' : ev'.lookup e.key = some v := by rw [hag e (by simp), hl]
      obtain ⟨r, hr⟩ := htr e (by simp) v hl
      have hag' : ∀ e' ∈ es, (derase ev' e.key).lookup e'.key = ev.lookup e'.key := by
        intro e' h
        have hne : e'.key ≠ e.key := by
          intro heq
          exact hk'.1 (by rw [← heq]; exact List.mem_map_of_mem h)
        rw [lookup_derase_ne _ hne]
        exact hag e' (by simp [h])
      obtain ⟨ev'', parsed', hrun, h1, h2, h3⟩ :=
        ih (derase ev' e.key) ((e.field, r) :: parsed) hk'.2 hf'.2 hag' hreq' htr'
      refine ⟨ev'', parsed', ?_, ?_, ?_, ?_⟩
      · simp only [runChain]
        rw [step_present (st := (ev', parsed)) hl' hr]
        exact hrun
      · intro e' he' v' hv'
        rcases List.mem_cons.mp he' with rfl | he'
        · rw [hl] at hv'
          cases hv'
          refine ⟨r, hr, ?_⟩
          rw [h2 e'.field (fun e'' h _ => hfne e'' h)]
          simp
        · exact h1 e' he' v' hv'
      · intro f hfx
        rw [h2 f (fun e' h => hfx e' (by simp [h]))]
        have hne : e.field ≠ f := hfx e (by simp) (by simp [hl])
        have : (f == e.field) = false := by simpa using fun h => hne h.symm
        simp [List.lookup_cons, this]
      · intro kv hkv
        rcases h3 kv hkv with h | h
        · rcases List.mem_cons.mp h with rfl | h
          · exact Or.inr (by simp)
          · exact Or.inl h
        · exact Or.inr (by simp only [List.map_cons, List.mem_cons]; exact Or.inr h)

/-- A mandatory key that is missing makes the chain fail (with `KeyError` unless an earlier entry
    already failed). -/
theorem runChain_missing (T : IdTables) (S : Strings) (e : Entry) (hr : e.required = true) :
    ∀ (es : List Entry) (ev' parsed : Dict), e ∈ es → ev'.lookup e.key = none →
      ∃ err, runChain T S es (ev', parsed) = .error err := by
  intro es
  induction es with
  | nil => intro _ _ h; cases h
  | cons x xs ih =>
    intro ev' parsed hmem hl
    simp only [runChain]
    cases hs : step T S x (ev', parsed) with
    | error err => exact ⟨err, rfl⟩
    | ok st' =>
      rcases List.mem_cons.mp hmem with rfl | hmem'
      · simp [step, hl, hr] at hs
      · have hl' : st'.1.lookup e.key = none := by
          unfold step at hs
          simp only at hs
          cases hx : ev'.lookup x.key with
          | none =>
            rw [hx] at hs
            cases hq : x.required with
            | true => simp [hq] at hs
            | false =>
              simp only [hq, Bool.false_eq_true, if_false, Except.ok.injEq] at hs
              rw [← hs]; exact hl
          | some v =>
            rw [hx] at hs
            cases ha : applyTransform T S x.tr v with
            | error err => simp [ha] at hs
            | ok r =>
              simp only [ha, Except.ok.injEq] at hs
              rw [← hs]
              exact lookup_derase_none ev' x.key hl
        obtain ⟨st1, st2⟩ := st'
        exact ih st1 st2 hmem' hl'

/-- The chain reads the event only through the keys it names. -/
theorem runChain_congr (T : IdTables) (S : Strings) :
    ∀ (es : List Entry) (ev1 ev2 parsed : Dict),
      (es.map (·.key)).Nodup → (∀ e ∈ es, ev1.lookup e.key = ev2.lookup e.key) →
      (runChain T S es (ev1, parsed)).map (·.2) = (runChain T S es (ev2, parsed)).map (·.2) := by
  intro es
  induction es with
  | nil => intro _ _ _ _ _; rfl
  | cons e es ih =>
    intro ev1 ev2 parsed hk hag
    have hk' : e.key ∉ es.map (·.key) ∧ (es.map (·.key)).Nodup := by simpa using hk
    have hl := hag e (by simp)
    simp only [runChain, step, hl]
    cases hv : ev2.lookup e.key with
    | none =>
      cases e.required with
      | true => rfl
      | false => exact ih ev1 ev2 parsed hk'.2 (fun e' h => hag e' (by simp [h]))
    | some v =>
      cases ha : applyTransform T S e.tr v with
      | error err => simp only [ha]
      | ok r =>
        simp only [ha]
        apply ih _ _ _ hk'.2
        intro e' h
        have hne : e'.key ≠ e.key := by
          intro heq
          exact hk'.1 (by rw [← heq]; exact List.mem_map_of_mem h)
        rw [lookup_derase_ne _ hne, lookup_derase_ne _ hne]
        exact hag e' (by simp [h])

theorem fromRaw_congr (T : Tables) (S : Strings) (ev1 ev2 : Dict) (hk : (T.chain.map (·.key)).Nodup)
    (hag : ∀ e ∈ T.chain, ev1.lookup e.key = ev2.lookup e.key) :
    fromRawLogEvent T S ev1 = fromRawLogEvent T S ev2 := by
  have h := runChain_congr T.id S T.chain ev1 ev2 [] hk hag
  unfold fromRawLogEvent
  cases h1 : runChain T.id S T.chain (ev1, []) with
  | error e1 =>
    cases h2 : runChain T.id S T.chain (ev2, []) with
    | error e2 => rw [h1, h2] at h; simpa [Except.map] using h
    | ok s2 => rw [h1, h2] at h; simp [Except.map] at h
  | ok s1 =>
    cases h2 : runChain T.id S T.chain (ev2, []) with
    | error e2 => rw [h1, h2] at h; simp [Except.map] at h
    | ok s2 =>
      rw [h1, h2] at h
      have : s1.2 = s2.2 := by simpa [Except.map] using h
      simp only [this]

/-! ### the dataclass constructor -/

/-- What the constructor stores in field `f`: the keyword argument if given, else the default. -/
def fieldVal (parsed : Dict) (f : FieldDef) : PVal :=
  match parsed.lookup f.name with
  | some v => v
  | none => f.default.getD PVal.none

theorem construct_spec (fields : List FieldDef) (parsed : Dict)
    (hkeys : ∀ kv ∈ parsed, ∃ f ∈ fields, f.name = kv.1)
    (hreq : ∀ f ∈ fields, (parsed.lookup f.name).isSome ∨ f.default.isSome) :
    construct fields parsed = .ok (fields.map fun f => (f.name, fieldVal parsed f)) := by
  have hall : (parsed.all fun kv => fields.any fun f => f.name == kv.1) = true := by
    simp only [List.all_eq_true, List.any_eq_true, beq_iff_eq]
    intro kv h
    obtain ⟨f, hf, hn⟩ := hkeys kv h
    exact ⟨f, hf, hn⟩
  simp only [construct, hall, if_true]
  apply mapE_ok_of_forall
  intro f hf
  simp only [fieldValue, fieldVal]
  cases hl : parsed.lookup f.name with
  | some v => rfl
  | none =>
    rcases hreq f hf with h | h
    · simp [hl] at h
    · cases hd : f.default with
      | none => simp [hd] at h
      | some d => rfl

theorem lookup_map_fields (fields : List FieldDef) (g : FieldDef → PVal) (n : String) :
    (fields.map fun f => (f.name, g f)).lookup n = (fields.find? fun f => f.name == n).map g := by
  induction fields with
  | nil => rfl
  | cons f fs ih =>
    simp only [List.map_cons, List.lookup_cons, List.find?_cons]
    by_cases h : f.name = n
    · subst h; simp
    · have h1 : (n == f.name) = false := by simpa using fun h' => h h'.symm
      have h2 : (f.name == n) = false := by simpa using h
      simp [h1, h2, ih]


theorem eq_of_nodup_map {f : α → β} : ∀ {l : List α}, (l.map f).Nodup → ∀ {a b}, a ∈ l → b ∈ l → f a = f b → a = b
  | [], _, _, _, ha, _, _ => by cases ha
  | x :: xs, h, a, b, ha, hb, hab => by
    have h' : f x ∉ xs.map f ∧ (xs.map f).Nodup := by simpa using h
    rcases List.mem_cons.mp ha with ha' | ha' <;> rcases List.mem_cons.mp hb with hb' | hb'
    · rw [ha', hb']
    · subst ha'
      exact absurd (hab ▸ List.mem_map_of_mem hb') h'.1
    · subst hb'
      exact absurd (hab.symm ▸ List.mem_map_of_mem ha') h'.1
    · exact eq_of_nodup_map h'.2 ha' hb' hab

/-- Side conditions on the translated tables; for the tables of the current source they are
    closed by `decide` (C16.tables_ok). -/
structure TablesOk (T : Tables) : Prop where
  ctor : T.ctorOk = true
  keysNodup : (T.chain.map (·.key)).Nodup
  fieldsNodup : (T.chain.map (·.field)).Nodup
  keysHaveFields : ∀ e ∈ T.chain, ∃ f ∈ T.fields, f.name = e.field
  requiredCovered : ∀ f ∈ T.fields, f.default.isSome = false →
    ∃ e ∈ T.chain, e.required = true ∧ e.field = f.name

/-- `from_raw_log_event` for tables that satisfy the side conditions, any event that has the mandatory
    keys and whose present keys carry values their transforms accept: the record has exactly the dataclass
    fields, a present key's field is the transform of its value, an absent key's field is its default. -/
theorem fromRaw_spec (T : Tables) (ok : TablesOk T) (S : Strings) (ev : Dict)
    (hmand : ∀ e ∈ T.chain, e.required = true → (ev.lookup e.key).isSome)
    (htr : ∀ e ∈ T.chain, ∀ v, ev.lookup e.key = some v → ∃ r, applyTransform T.id S e.tr v = .ok r) :
    ∃ rec, fromRawLogEvent T S ev = .ok rec ∧ rec.map (·.1) = T.fields.map (·.name) ∧
      (∀ e ∈ T.chain, ∀ v, ev.lookup e.key = some v →
          ∃ r, applyTransform T.id S e.tr v = .ok r ∧ rec.lookup e.field = some r) ∧
      (∀ e ∈ T.chain, ev.lookup e.key = none →
          ∃ f ∈ T.fields, f.name = e.field ∧ f.default.isSome = true ∧ rec.lookup e.field = f.default) := by
  obtain ⟨ev'', parsed', hrun, h1, h2, h3⟩ :=
    runChain_spec T.id S ev T.chain ev [] ok.keysNodup ok.fieldsNodup (fun _ _ => rfl) hmand htr
  have hkeys : ∀ kv ∈ parsed', ∃ f ∈ T.fields, f.name = kv.1 := by
    intro kv hkv
    rcases h3 kv hkv with h | h
    · cases h
    · obtain ⟨e, he, hfe⟩ := List.mem_map.mp h
      obtain ⟨f, hf, hn⟩ := ok.keysHaveFields e he
      exact ⟨f, hf, by rw [hn, hfe]⟩
  have hreq : ∀ f ∈ T.fields, (parsed'.lookup f.name).isSome ∨ f.default.isSome := by
    intro f hf
    cases hd : f.default.isSome with
    | true => exact Or.inr rfl
    | false =>
      obtain ⟨e, he, her, hef⟩ := ok.requiredCovered f hf hd
      have hp := hmand e he her
      cases hl : ev.lookup e.key with
      | none => simp [hl] at hp
      | some v =>
        obtain ⟨r, _, hr⟩ := h1 e he v hl
        exact Or.inl (by rw [← hef, hr]; rfl)
  have hc := construct_spec T.fields parsed' hkeys hreq
  refine ⟨T.fields.map fun f => (f.name, fieldVal parsed' f), ?_, ?_, ?_, ?_⟩
  · simp only [fromRawLogEvent, hrun, ok.ctor, if_true]
    exact hc
  · simp [List.map_map, Function.comp_def]
  · intro e he v hv
    obtain ⟨r, hr, hp⟩ := h1 e he v hv
    refine ⟨r, hr, ?_⟩
    rw [lookup_map_fields]
    obtain ⟨f, hf, hn⟩ := ok.keysHaveFields e he
    cases hfind : T.fields.find? (fun f => f.name == e.field) with
    | none =>
      have := List.find?_eq_none.mp hfind f hf
      simp [hn] at this
    | some f0 =>
      have hn0 : f0.name = e.field := by simpa using List.find?_some hfind
      simp [fieldVal, hn0, hp]
  · intro e he hv
    obtain ⟨f, hf, hn⟩ := ok.keysHaveFields e he
    have hnone : parsed'.lookup e.field = none := by
      rw [h2 e.field]
      · rfl
      · intro e' he' hpres heq
        have := eq_of_nodup_map ok.fieldsNodup he' he heq
        subst this
        simp [hv] at hpres
    cases hfind : T.fields.find? (fun f => f.name == e.field) with
    | none =>
      have := List.find?_eq_none.mp hfind f hf
      simp [hn] at this
    | some f0 =>
      have hn0 : f0.name = e.field := by simpa using List.find?_some hfind
      have hf0 : f0 ∈ T.fields := List.mem_of_find?_eq_some hfind
      have hd : f0.default.isSome = true := by
        rcases hreq f0 hf0 with h | h
        · rw [hn0, hnone] at h; cases h
        · exact h
      refine ⟨f0, hf0, hn0, hd, ?_⟩
      rw [lookup_map_fields, hfind]
      cases hdd : f0.default with
      | none => simp [hdd] at hd
      | some d => simp [fieldVal, hn0, hnone, hdd]

end KdVerif.OsLog
