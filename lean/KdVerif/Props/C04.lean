import KdVerif.Proofs.Pairing
import KdVerif.Proofs.Projection
import KdVerif.Proofs.PyIR
import KdVerif.Gen.PyIR
import KdVerif.Proofs.PyIRTp
/-
  C04 — START/END pairing delivers exactly each operation's per-thread event window.

  Subject: `Model/Pairing.step` (= `TracesParser.feed` with `_feed_start_event`, `_feed_end_event`,
  `_feed_single_event`), iterated from the empty tables over an ARBITRARY history `h : List Kevent`
  (any thread ids, any codes, any qualifier value: 1 = START, 2 = END, every other value is treated like
  NONE/ALL — the real qualifier is `debugid % 4`, C01.qualifier_range).  `domOf eid` = "`trace_codes[eid]`
  is one of the ten kernel trace-string/data names" (which of the two tables the event uses); it is an
  arbitrary parameter of every theorem.

  Vocabulary (declarative, `Spec/Pairing`):  `keyOf e = (domOf e.eventid, e.tid, e.eventid)`,
  `openAt h k`, `accepted h x`, `win k h`, `bodyOf k pre mid`;  `emitAt h e` = what the model hands to
  `parse_event_list` when `e` is fed after history `h` (`Proofs/Pairing`; it is the last entry of the
  per-event answers `outputs` that the driver prints — `emit_is_last_output`).
-/
namespace KdVerif.C04
open KdVerif.Pairing

variable (domOf : Nat → Bool)

/-- REFINEMENT.  After any history the two tables hold exactly the open keys, each with its declarative
    window: `(stateAfter h) k = if openAt h k then some (win k h) else none`. -/
theorem state_eq (h : List Kevent) (k : Key) :
    stateAfter domOf h k = if openAt domOf h k then some (win domOf k h) else none :=
  Pairing.state_eq domOf h k

/-- `emitAt h e` is what `feed` answers for `e` arriving after `h` (the last of the per-event answers). -/
theorem emit_is_last_output (h : List Kevent) (e : Kevent) :
    outputs domOf PState.empty (h ++ [e]) = outputs domOf PState.empty h ++ [emitAt domOf h e] ∧
    run domOf (h ++ [e]) = run domOf h ++ (emitAt domOf h e).toList :=
  ⟨outputs_snoc domOf h e, run_snoc domOf h e⟩

/-- An END whose key (thread, code, domain) is open after the prefix `h` delivers, at that moment, exactly
    one window: `win (key e) h` followed by the END itself; it closes that key and no other. -/
theorem end_emits_window (h : List Kevent) (e : Kevent) (hq : e.qual = 2)
    (ho : openAt domOf h (keyOf domOf e) = true) :
    emitAt domOf h e = some (win domOf (keyOf domOf e) h ++ [e]) ∧
    stateAfter domOf (h ++ [e]) (keyOf domOf e) = none ∧
    openAt domOf (h ++ [e]) (keyOf domOf e) = false ∧
    ∀ k, k ≠ keyOf domOf e → openAt domOf (h ++ [e]) k = openAt domOf h k := by
  have hcl : openAt domOf (h ++ [e]) (keyOf domOf e) = false := by
    rw [openAt_snoc]; simp [isMark, hq]
  refine ⟨?_, ?_, hcl, ?_⟩
  · rw [emitAt_eq_emitSpec]; simp [emitSpec, hq, ho]
  · rw [Pairing.state_eq, hcl]; simp
  · intro k hk
    rw [openAt_snoc]
    have : isMark domOf k e = false := by
      simp only [isMark, decide_eq_false_iff_not, not_and]; exact fun h' => absurd h'.symm hk
    simp [this]

/-- An END whose key is not open delivers nothing and leaves both tables exactly as they were. -/
theorem stray_end_noop (h : List Kevent) (e : Kevent) (hq : e.qual = 2)
    (ho : openAt domOf h (keyOf domOf e) = false) :
    emitAt domOf h e = none ∧ stateAfter domOf (h ++ [e]) = stateAfter domOf h := by
  have hst : stateAfter domOf h (keyOf domOf e) = none := by rw [Pairing.state_eq]; simp [ho]
  constructor
  · simp [emitAt, step_end_closed domOf _ e hq hst]
  · rw [stateAfter_snoc, step_end_closed domOf _ e hq hst]

/-- A NONE- or ALL-qualified event delivers exactly itself. -/
theorem single_emits_self (h : List Kevent) (e : Kevent) (h1 : e.qual ≠ 1) (h2 : e.qual ≠ 2) :
    emitAt domOf h e = some [e] := by
  simp [emitAt, step_single domOf _ e h1 h2]

/-- A START delivers nothing (it opens / re-opens its key with the window `[e]`). -/
theorem start_emits_nothing (h : List Kevent) (e : Kevent) (h1 : e.qual = 1) :
    emitAt domOf h e = none ∧ openAt domOf (h ++ [e]) (keyOf domOf e) = true ∧
    win domOf (keyOf domOf e) (h ++ [e]) = [e] := by
  refine ⟨by simp [emitAt, step_start domOf _ e h1], ?_, ?_⟩
  · rw [openAt_snoc]; simp [isMark, h1]
  · exact win_snoc_start domOf h e _ (by simp [isStartOf, h1])

/-- Nothing else is ever delivered: every delivered window is the window of a matched END or a single
    NONE/ALL event. -/
theorem no_other_output (h : List Kevent) (e : Kevent) (w : List Kevent)
    (hw : emitAt domOf h e = some w) :
    (e.qual = 2 ∧ openAt domOf h (keyOf domOf e) = true ∧ w = win domOf (keyOf domOf e) h ++ [e]) ∨
    (e.qual ≠ 1 ∧ e.qual ≠ 2 ∧ w = [e]) := by
  rw [emitAt_eq_emitSpec] at hw
  unfold emitSpec at hw
  by_cases h1 : e.qual = 1
  · simp [h1] at hw
  · by_cases h2 : e.qual = 2
    · left
      cases ho : openAt domOf h (keyOf domOf e) <;> simp [h2, ho] at hw
      exact ⟨h2, rfl, hw.symm⟩
    · right
      simp only [h1, h2, if_false, Option.some.injEq] at hw
      exact ⟨h1, h2, hw.symm⟩

/-- The complete output of a history is the declarative one: the per-prefix emissions, in order. -/
theorem run_is_declarative (h : List Kevent) : run domOf h = runSpec domOf h :=
  run_eq_runSpec domOf h

/-- Every window in the output of a history was delivered by one of its events, at that event. -/
theorem run_mem (m : List Kevent) (w : List Kevent) (hw : w ∈ run domOf m) :
    ∃ pre e post, m = pre ++ e :: post ∧ emitAt domOf pre e = some w := by
  induction m using snoc_induction with
  | nil => simp [run, runFrom] at hw
  | snoc h e ih =>
    rw [run_snoc, List.mem_append] at hw
    rcases hw with hw | hw
    · obtain ⟨pre, e', post, rfl, h'⟩ := ih hw
      exact ⟨pre, e', post ++ [e], by simp, h'⟩
    · refine ⟨h, e, [], rfl, ?_⟩
      cases hem : emitAt domOf h e with
      | none => simp [hem] at hw
      | some w' => simp only [hem, Option.toList_some, List.mem_singleton] at hw; rw [hw]

/-- `openAt` in the property's words: a key is open iff the history contains a START of it with neither a
    START nor an END of the same key after it. -/
theorem open_iff_unclosed_start (h : List Kevent) (k : Key) :
    openAt domOf h k = true ↔
      ∃ pre s mid, h = pre ++ s :: mid ∧ keyOf domOf s = k ∧ s.qual = 1 ∧
        ∀ x ∈ mid, keyOf domOf x = k → x.qual ≠ 1 ∧ x.qual ≠ 2 := by
  constructor
  · exact open_decomp domOf h k
  · rintro ⟨pre, s, mid, rfl, hk, hq, hmid⟩
    exact open_of_decomp domOf k pre mid s hk hq hmid

/-- SHAPE of the window of a matched END.  If the history is `pre ++ s :: mid` where `s` is a START of the
    END's key and `mid` holds neither a START nor an END of that key (i.e. `s` is the most recent such START
    and still open), the END delivers `s`, then `bodyOf … mid`, then itself. -/
theorem window_shape (pre mid : List Kevent) (s e : Kevent) (hq : e.qual = 2)
    (hk : keyOf domOf s = keyOf domOf e) (hs : s.qual = 1)
    (hmid : ∀ x ∈ mid, keyOf domOf x = keyOf domOf e → x.qual ≠ 1 ∧ x.qual ≠ 2) :
    emitAt domOf (pre ++ s :: mid) e =
      some (s :: bodyOf domOf (keyOf domOf e) (pre ++ [s]) mid ++ [e]) := by
  have ho := open_of_decomp domOf _ pre mid s hk hs hmid
  have hno : ∀ x ∈ mid, isStartOf domOf (keyOf domOf e) x = false := by
    intro x hx
    simp only [isStartOf, decide_eq_false_iff_not, not_and]
    exact fun hxk => (hmid x hx hxk).1
  rw [(end_emits_window domOf _ e hq ho).1,
    win_of_decomp domOf _ pre mid s (by simp [isStartOf, hk, hs]) hno]

/-- The window of a matched END begins with the most recent START of the same thread and code. -/
theorem window_head_is_last_start (h : List Kevent) (e : Kevent) (hq : e.qual = 2)
    (ho : openAt domOf h (keyOf domOf e) = true) :
    ∃ pre s mid rest, h = pre ++ s :: mid ∧ s.qual = 1 ∧ s.tid = e.tid ∧ s.eventid = e.eventid ∧
      (∀ x ∈ mid, x.tid = e.tid → x.eventid = e.eventid → x.qual ≠ 1 ∧ x.qual ≠ 2) ∧
      emitAt domOf h e = some (s :: rest) := by
  obtain ⟨pre, s, mid, rfl, hk, hs, hmid⟩ := open_decomp domOf h _ ho
  refine ⟨pre, s, mid, _, rfl, hs, ?_, ?_, ?_, window_shape domOf pre mid s e hq hk hs hmid⟩
  · exact congrArg Key.tid hk
  · exact congrArg Key.eid hk
  · intro x hx ht he
    exact hmid x hx (by simp [keyOf, ht, he])

/-- Every delivered window ends with the event that caused it (for an END: that END). -/
theorem window_last_is_end (h : List Kevent) (e : Kevent) (w : List Kevent)
    (hw : emitAt domOf h e = some w) : w.getLast? = some e := by
  rcases no_other_output domOf h e w hw with ⟨_, _, rfl⟩ | ⟨_, _, rfl⟩ <;> simp

/-- SANDWICH, on the body alone (any key, any position).  With `mid` the events that follow `pre`: the
    body contains every same-thread same-domain event of `mid` that is not an END, and contains nothing but
    same-thread same-domain events of `mid` — both as SUBLISTS. -/
theorem body_sandwich (pre mid : List Kevent) (k : Key) :
    (mid.filter fun x => sameTD domOf k x && decide (x.qual ≠ 2)).Sublist (bodyOf domOf k pre mid) ∧
    (bodyOf domOf k pre mid).Sublist (mid.filter (sameTD domOf k)) :=
  ⟨sublist_bodyOf domOf k pre mid, bodyOf_sublist domOf k pre mid⟩

/-- SANDWICH.  With `mid` the events strictly between the most recent open START `s` and the END `e` in
    the history: the END delivers `s :: body ++ [e]` where `body` contains every event of `mid` of the same
    thread and the same pairing domain that is not an END, and contains nothing but events of `mid` of the
    same thread and domain — both as SUBLISTS, hence in stream order, with no duplicates beyond the stream's
    own, nothing of another thread or the other pairing domain, nothing from outside the interval.
    (What may be missing: ENDs; exactly which — `matched_end_included`, `body_exact`.) -/
theorem window_sandwich (pre mid : List Kevent) (s e : Kevent) (hq : e.qual = 2)
    (hk : keyOf domOf s = keyOf domOf e) (hs : s.qual = 1)
    (hmid : ∀ x ∈ mid, keyOf domOf x = keyOf domOf e → x.qual ≠ 1 ∧ x.qual ≠ 2) :
    ∃ body, emitAt domOf (pre ++ s :: mid) e = some (s :: body ++ [e]) ∧
      (mid.filter fun x =>
        decide (domOf x.eventid = domOf e.eventid ∧ x.tid = e.tid) && decide (x.qual ≠ 2)).Sublist body ∧
      body.Sublist (mid.filter fun x => decide (domOf x.eventid = domOf e.eventid ∧ x.tid = e.tid)) :=
  ⟨_, window_shape domOf pre mid s e hq hk hs hmid,
    sublist_bodyOf domOf (keyOf domOf e) (pre ++ [s]) mid, bodyOf_sublist domOf (keyOf domOf e) (pre ++ [s]) mid⟩

/-- The whole window is a sublist of the interval `START … END` of the history. -/
theorem window_sublist_interval (pre mid : List Kevent) (k : Key) (s e : Kevent) :
    (s :: bodyOf domOf k pre mid ++ [e]).Sublist (s :: mid ++ [e]) := by
  have h := ((bodyOf_sublist domOf k pre mid).trans List.filter_sublist)
  exact (h.append (List.Sublist.refl [e])).cons_cons s

/-- The body is exactly: the events of `mid` of the key's thread and domain that were accepted when they
    arrived (not an END, or an END whose own key was open at that point). -/
theorem body_exact (pre mid : List Kevent) (k : Key) :
    bodyOf domOf k pre mid =
      ((annotFrom pre mid).filter fun p =>
        sameTD domOf k p.2 && (decide (p.2.qual ≠ 2) || openAt domOf p.1 (keyOf domOf p.2))).map (·.2) := rfl

/-- An END in between that closes an open START of its own (same thread, same domain) is in the window. -/
theorem matched_end_included (pre a b : List Kevent) (k : Key) (x : Kevent)
    (htd : sameTD domOf k x = true) (hox : openAt domOf (pre ++ a) (keyOf domOf x) = true) :
    x ∈ bodyOf domOf k pre (a ++ x :: b) :=
  mem_bodyOf_of domOf k pre a b x htd (by simp [accepted, hox])

/-- Every delivered window is non-empty, its first event has the code and the thread of the event that
    caused it, and all its events are of that thread. -/
theorem window_first_event (h : List Kevent) (e : Kevent) (w : List Kevent)
    (hw : emitAt domOf h e = some w) :
    (∃ x rest, w = x :: rest ∧ x.eventid = e.eventid ∧ x.tid = e.tid) ∧ ∀ y ∈ w, y.tid = e.tid := by
  rcases no_other_output domOf h e w hw with ⟨hq, ho, rfl⟩ | ⟨_, _, rfl⟩
  · obtain ⟨pre, s, mid, rfl, hk, hs, hmid⟩ := open_decomp domOf h _ ho
    have hsh := window_shape domOf pre mid s e hq hk hs hmid
    rw [(end_emits_window domOf _ e hq ho).1] at hsh
    simp only [Option.some.injEq] at hsh
    rw [hsh]
    refine ⟨⟨s, _, rfl, congrArg Key.eid hk, congrArg Key.tid hk⟩, ?_⟩
    intro y hy
    simp only [List.cons_append, List.mem_cons, List.mem_append, List.not_mem_nil, or_false] at hy
    rcases hy with rfl | hy | rfl
    · exact congrArg Key.tid hk
    · exact bodyOf_tid domOf _ _ _ y hy
    · rfl
  · exact ⟨⟨e, [], rfl, rfl, rfl⟩, by simp⟩

/-! ### the gate of `parse_event_list` -/

/-- `parse_event_list` on a delivered window calls a handler iff the code of the event that caused it is
    decodable (`codes[eid]` exists and has a handler), with exactly the delivered window; it never raises
    `IndexError`.  (Whether the handler then returns a trace object is C08.) -/
theorem trace_iff_decodable (dec : Nat → Bool) (h : List Kevent) (e : Kevent) (w : List Kevent)
    (hw : emitAt domOf h e = some w) :
    gate dec w = .ok (if dec e.eventid then some w else none) := by
  obtain ⟨⟨x, rest, rfl, hx, _⟩, _⟩ := window_first_event domOf h e w hw
  simp [gate, hx]

/-- `traces`: the handler invocations of a whole history are the delivered windows whose first event's
    code is decodable, in order; no exception. -/
theorem traces_eq_filter (dec : Nat → Bool) (h : List Kevent) :
    traces dec domOf h = .ok ((run domOf h).filter fun w =>
      match w with | x :: _ => dec x.eventid | [] => false) := by
  have hne : ∀ w ∈ run domOf h, w ≠ [] := fun w hw => (run_window_tid domOf h w hw).1
  unfold traces
  generalize run domOf h = ws at hne
  induction ws with
  | nil => rfl
  | cons w ws ih =>
    have := ih (fun w' hw' => hne w' (by simp [hw']))
    cases w with
    | nil => exact absurd rfl (hne [] (by simp))
    | cons x xs =>
      by_cases hd : dec x.eventid = true
      · simp [gateAll, gate, this, hd]
      · simp [gateAll, gate, this, hd]

/-! ### non-vacuity: a concrete crossing / nested / re-opened / stray history -/

/-- timestamp, thread, code, qualifier -/
def ev (ts tid eid q : Nat) : Kevent :=
  { timestamp := ts, data := [], values := [], tid := tid, debugid := eid + q, eventid := eid, qual := q }

/-- code 8 is in the trace domain -/
def dom8 : Nat → Bool := fun eid => eid == 8

/-- thread 1: START a(4), START b(12), foreign-domain NONE (8), stray END c(16), other thread's event,
    END a, START a again, START a again (re-open), END b, END a, END a (stray). -/
def demo : List Kevent :=
  [ev 0 1 4 1, ev 1 1 12 1, ev 2 1 8 0, ev 3 1 16 2, ev 4 2 4 0, ev 5 1 4 2, ev 6 1 4 1, ev 7 1 4 1,
   ev 8 1 12 2, ev 9 1 4 2, ev 10 1 4 2]

example : (outputs dom8 PState.empty demo).map (Option.map (List.map (·.timestamp))) =
    [none, none, some [2], none, some [4], some [0, 1, 5], none, none, some [1, 5, 6, 7, 8],
     some [7, 8, 9], none] := by decide

example : openAt dom8 (demo.take 5) (keyOf dom8 (ev 5 1 4 2)) = true ∧
    openAt dom8 (demo.take 3) (keyOf dom8 (ev 3 1 16 2)) = false := by decide

example : emitAt dom8 (demo.take 8) (ev 8 1 12 2) =
    some (win dom8 (keyOf dom8 (ev 8 1 12 2)) (demo.take 8) ++ [ev 8 1 12 2]) :=
  (end_emits_window dom8 _ _ rfl (by decide)).1

example : traces (fun eid => eid == 4) dom8 demo =
    .ok [[ev 4 2 4 0], [ev 0 1 4 1, ev 1 1 12 1, ev 5 1 4 2], [ev 7 1 4 1, ev 8 1 12 2, ev 9 1 4 2]] := by
  rfl

/-! ### translation tie: the SOURCE TEXT of the five methods, run by an interpreter of Python, is the model

  `tools/gen_pyir.py` translates `TracesParser.feed`, `parse_event_list`, `_feed_start_event`, `_feed_end_event`,
  `_feed_single_event` and the dict `self.qualifiers_actions` (pure `ast`, on every run) into the deep embedding of
  `Model/PyIR` (`Gen/PyIR.lean`).  `PyIR.feed prog cfg w e` runs `feed(e)` by the big-step interpreter `PyIR.exec`
  on the heap `w` (the two window tables as insertion-ordered dicts of dicts of lists, plus the log `w.calls` of the
  arguments `parse_event_list` was called with); `cfg` = the read-only tables (`trace_codes`, `trace_handlers`,
  `self.handlers`), arbitrary.  `PyIR.abs w` is the model state: key `(dom, tid, eid)` present iff
  `tid in table_dom and eid in table_dom[tid]`.  `PyIR.WF w`: no duplicate keys (the tables are dicts).
  `PyIR.domOf cfg eid` = "`eid in trace_codes and trace_codes[eid] in trace_handlers`", `PyIR.dec cfg eid` =
  "`eid in trace_codes and trace_codes[eid] in self.handlers`" — the parameters `domOf` / `dec` of the theorems above. -/

/-- The program generated from the source text is, node for node, the program the refinement below was proved
    for (`Spec/PyIRExpected`, a hand-written copy quoting the Python), and the translator met nothing it could
    not express.  Any statement, condition, table entry or evaluation order that changes makes this false.  Likewise
    the generator wrapper `feed_generator` and the constructor `__init__` (`Spec/PyIRTpExpected`; theorems at the end of
    this file and of `Props/C17`). -/
theorem source_is_expected_ir : Gen.PyIR.prog = PyIR.Expected.prog ∧ Gen.PyIR.notes = [] ∧
    Gen.PyIR.feedGenerator = PyIRTp.Expected.feedGenerator ∧ Gen.PyIR.init = PyIRTp.Expected.init := by decide

/-- ONE `feed(e)`, for EVERY well-formed heap `w`, every event `e` with a two-bit qualifier (C01.qualifier_range) and
    every `cfg`: the interpreter does not raise; the heap it leaves is well-formed and abstracts to the model's next
    state; `parse_event_list` was called exactly with the list the model emits (or not at all); the value returned is
    `None` or the result of the handler `gate` lets through (`PyIR.retOf`). -/
theorem expected_ir_refines_model (cfg : PyIR.Cfg) (w : PyIR.World) (e : Kevent) (hwf : PyIR.WF w)
    (hq : e.qual < 4) :
    ∃ w', PyIR.feed PyIR.Expected.prog cfg w e =
        .ok (PyIR.retOf cfg (step (PyIR.domOf cfg) (PyIR.abs w) e).2, w') ∧
      PyIR.WF w' ∧ PyIR.abs w' = (step (PyIR.domOf cfg) (PyIR.abs w) e).1 ∧
      w'.calls = w.calls ++ (step (PyIR.domOf cfg) (PyIR.abs w) e).2.toList :=
  PyIR.feed_refines_step cfg w e hwf hq

/-- The same for the program GENERATED from the source. -/
theorem source_ir_refines_model (cfg : PyIR.Cfg) (w : PyIR.World) (e : Kevent) (hwf : PyIR.WF w)
    (hq : e.qual < 4) :
    ∃ w', PyIR.feed Gen.PyIR.prog cfg w e =
        .ok (PyIR.retOf cfg (step (PyIR.domOf cfg) (PyIR.abs w) e).2, w') ∧
      PyIR.WF w' ∧ PyIR.abs w' = (step (PyIR.domOf cfg) (PyIR.abs w) e).1 ∧
      w'.calls = w.calls ++ (step (PyIR.domOf cfg) (PyIR.abs w) e).2.toList := by
  rw [source_is_expected_ir.1]; exact PyIR.feed_refines_step cfg w e hwf hq

/-- ALL histories: feeding `h` to a fresh parser (both tables empty), the generated program returns, event by
    event, what the model's per-event outputs give through the gate; the lists handed to `parse_event_list`
    are exactly `Pairing.run`, in order; the tables at the end abstract to `Pairing.stateAfter`.  So every theorem
    of this file about `run` / `outputs` / `stateAfter` / `emitAt` is a theorem about the source text. -/
theorem run_ir_eq_run_model (cfg : PyIR.Cfg) (h : List Kevent) (hq : ∀ e ∈ h, e.qual < 4) :
    ∃ w', PyIR.runFrom Gen.PyIR.prog cfg PyIR.World.empty h =
        .ok ((outputs (PyIR.domOf cfg) PState.empty h).map (PyIR.retOf cfg), w') ∧
      w'.calls = run (PyIR.domOf cfg) h ∧ PyIR.abs w' = stateAfter (PyIR.domOf cfg) h ∧ PyIR.WF w' := by
  obtain ⟨w', h1, hwf, ha, hc⟩ := PyIR.runFrom_refines cfg h PyIR.World.empty PyIR.wf_empty hq
  rw [PyIR.abs_empty] at h1 ha hc
  rw [source_is_expected_ir.1]
  exact ⟨w', h1, by simpa [PyIR.World.empty, run] using hc, ha, hwf⟩

/-- `parse_event_list(l)` of the generated program is `gate`: `events[0]` of `[]` raises `IndexError`; otherwise
    the call is logged, and a handler is called — with exactly `l`, under the name `trace_codes[l[0].eventid]` —
    iff the first event's code is decodable; else `None`.  The heap is not touched. -/
theorem parse_event_list_ir_eq_gate (cfg : PyIR.Cfg) (l : List Kevent) (w : PyIR.World) :
    PyIR.invoke Gen.PyIR.prog cfg 1 .parseEventList [.list l] w =
      match gate (PyIR.dec cfg) l with
      | .error x => .error x
      | .ok none => .ok (.none, { w with calls := w.calls ++ [l] })
      | .ok (some v) => .ok (.result (PyIR.handlerName cfg v) v, { w with calls := w.calls ++ [l] }) := by
  rw [source_is_expected_ir.1, PyIR.invoke_pel, PyIR.hPel_eq_gate]
  cases gate (PyIR.dec cfg) l with
  | error x => rfl
  | ok r => cases r <;> rfl

/-- `feed` returns a handler's result exactly when the model emits a window whose first code is decodable. -/
theorem ir_return_iff (cfg : PyIR.Cfg) (o : Option (List Kevent)) :
    PyIR.retOf cfg o ≠ .none ↔ ∃ w v, o = some w ∧ gate (PyIR.dec cfg) w = .ok (some v) := by
  cases o with
  | none => simp [PyIR.retOf]
  | some w =>
    simp only [PyIR.retOf, Option.some.injEq]
    cases hg : gate (PyIR.dec cfg) w with
    | error x => simp [hg]
    | ok r => cases r <;> simp [hg]

/-! non-vacuity of the translation tie: thread 1: START a(4), START b(12), NONE c(8, trace domain), END a,
    stray END d(16, unknown code), END b.  Codes 4, 8, 12 are known (names 1, 2, 3), name 2 is a trace-domain name,
    only name 1 has a handler. -/

def cfgDemo : PyIR.Cfg :=
  { codes := fun eid => if eid = 4 then some 1 else if eid = 8 then some 2 else if eid = 12 then some 3 else none
    isTraceName := fun n => n == 2
    hasHandler := fun n => n == 1 }

def demoIR : List Kevent := [ev 0 1 4 1, ev 1 1 12 1, ev 2 1 8 0, ev 3 1 4 2, ev 4 1 16 2, ev 5 1 12 2]

/-- the generated program, run by the interpreter: returned values and the `parse_event_list` log -/
example : (PyIR.runFrom Gen.PyIR.prog cfgDemo PyIR.World.empty demoIR).toOption.map (fun r => (r.1, r.2.calls)) =
    some ([.none, .none, .none, .result 1 [ev 0 1 4 1, ev 1 1 12 1, ev 3 1 4 2], .none, .none],
          [[ev 2 1 8 0], [ev 0 1 4 1, ev 1 1 12 1, ev 3 1 4 2], [ev 1 1 12 1, ev 3 1 4 2, ev 5 1 12 2]]) := by
  decide

/-- … equals the model's answer on the same history -/
example : (PyIR.runFrom Gen.PyIR.prog cfgDemo PyIR.World.empty demoIR).toOption.map (fun r => (r.1, r.2.calls)) =
    some ((outputs (PyIR.domOf cfgDemo) PState.empty demoIR).map (PyIR.retOf cfgDemo),
          run (PyIR.domOf cfgDemo) demoIR) := by
  decide

/-- the heap in between: after the first three events thread 1 has `{4: [0,1], 12: [1]}` in `on_going_events`
    (insertion order) and nothing in `on_going_traces` -/
example : (PyIR.runFrom Gen.PyIR.prog cfgDemo PyIR.World.empty (demoIR.take 3)).toOption.map (·.2.events) =
      some [(1, [(4, [ev 0 1 4 1, ev 1 1 12 1]), (12, [ev 1 1 12 1])])] ∧
    (PyIR.runFrom Gen.PyIR.prog cfgDemo PyIR.World.empty (demoIR.take 3)).toOption.map (·.2.traces) = some [] := by
  decide

example : PyIR.invoke Gen.PyIR.prog cfgDemo 1 .parseEventList [.list []] PyIR.World.empty = .error .indexError := by
  rw [parse_event_list_ir_eq_gate]; rfl

/-! ### translation tie, continued: the generator wrapper `feed_generator`

  `tools/gen_pyir.py` also translates `TracesParser.feed_generator(self, generator)` — `for event in generator: ret =
  self.feed(event); if ret is not None: yield ret` — into the generator subset of `Model/PyIRTp` (`Gen.PyIR.feedGenerator`).
  `PyIRTp.runFeedGen prog g cfg es err w` consumes `parser.feed_generator(<a generator that delivers the events es and then
  raises err, if any>)` to its end on the heap `w`; `self.feed(event)` is answered by the interpreter of `Model/PyIR` running
  the TRANSLATED `feed` (the subject of `source_ir_refines_model`).  The answer: the values yielded, in order, then the final
  heap — or the exception that ended the stream, after the values already delivered. -/

/-- **feed_generator_ir_eq_model.**  For EVERY event list `es`, every exception `err` the event generator itself may end
    with, every initial heap `w` (well-formed or not) and every `cfg`: the interpreted `feed_generator` of the source IS the
    pipeline model `feedGen` (`Model/Pipeline`) instantiated with the interpreted `feed` (`PyIRTp.feedStep`: state = heap,
    item delivered = the returned value unless it is `None`):
    * it yields exactly the traces `feedGen` delivers, in the same order;
    * an exception of `feed` ends the stream after the traces already delivered (`feedGen`'s second component, which is
      the exception the state machine `PyIRTp.finalState` stops with); the generator's own exception surfaces when
      everything it delivered was consumed without one; otherwise the generator ends in the state the state machine ends
      in (`PyIRTp.outcome`). -/
theorem feed_generator_ir_eq_model (cfg : PyIR.Cfg) (w : PyIR.World) (es : List Kevent) (err : Option PyErr) :
    (PyIRTp.runFeedGen Gen.PyIR.prog Gen.PyIR.feedGenerator cfg es err w).1 =
        (feedGen (PyIRTp.feedStep Gen.PyIR.prog cfg) w es).1 ∧
    (PyIRTp.runFeedGen Gen.PyIR.prog Gen.PyIR.feedGenerator cfg es err w).2 =
        PyIRTp.outcome (PyIRTp.finalState (PyIRTp.feedStep Gen.PyIR.prog cfg) w es) err ∧
    (feedGen (PyIRTp.feedStep Gen.PyIR.prog cfg) w es).2 =
        PyIRTp.errOf (PyIRTp.finalState (PyIRTp.feedStep Gen.PyIR.prog cfg) w es) := by
  rw [source_is_expected_ir.2.2.1, PyIRTp.runFeedGen_expected, PyIRTp.thenRaise_eq, PyIRTp.feedGenS_fst,
    PyIRTp.feedGenS_snd]
  exact ⟨rfl, rfl, PyIRTp.feedGen_err _ es w⟩

/-- … composed with `run_ir_eq_run_model`: a FRESH parser (both window tables empty) fed a whole history through the
    interpreted `feed_generator` never raises by itself, yields exactly the non-`None` answers of the pairing model
    (`Pairing.outputs` through the gate, i.e. one handler result per delivered decodable window, in order), hands
    `parse_event_list` exactly `Pairing.run`, and leaves the tables of `Pairing.stateAfter`. -/
theorem feed_generator_ir_eq_pairing_model (cfg : PyIR.Cfg) (h : List Kevent) (hq : ∀ e ∈ h, e.qual < 4)
    (err : Option PyErr) :
    ∃ w', PyIRTp.runFeedGen Gen.PyIR.prog Gen.PyIR.feedGenerator cfg h err PyIR.World.empty =
        (((outputs (PyIR.domOf cfg) PState.empty h).map (PyIR.retOf cfg)).filter (fun v => decide (v ≠ .none)),
         match err with | some x => .error x | none => .ok w') ∧
      w'.calls = run (PyIR.domOf cfg) h ∧ PyIR.abs w' = stateAfter (PyIR.domOf cfg) h ∧ PyIR.WF w' := by
  obtain ⟨w', h1, h2, h3, h4⟩ := run_ir_eq_run_model cfg h hq
  refine ⟨w', ?_, h2, h3, h4⟩
  rw [source_is_expected_ir.2.2.1, PyIRTp.runFeedGen_expected, PyIRTp.feedGenS_of_runFrom _ cfg h _ _ _ h1,
    PyIRTp.thenRaise_eq]
  cases err <;> rfl

private instance exceptDecEq {ε α : Type} [DecidableEq ε] [DecidableEq α] : DecidableEq (Except ε α)
  | .ok a, .ok b => if h : a = b then isTrue (by rw [h]) else isFalse (fun e => h (Except.ok.inj e))
  | .error a, .error b => if h : a = b then isTrue (by rw [h]) else isFalse (fun e => h (Except.error.inj e))
  | .ok _, .error _ => isFalse (fun e => nomatch e)
  | .error _, .ok _ => isFalse (fun e => nomatch e)

private instance prodExceptDecEq {α ε β : Type} [DecidableEq α] [DecidableEq ε] [DecidableEq β] :
    DecidableEq (α × Except ε β) := inferInstance

/-- non-vacuity: the GENERATED `feed_generator` over the demo history of the tie above, from empty tables: ONE trace is
    yielded (the window of code 4 — the only name with a handler; the windows of codes 8 and 12 are dropped by the gate,
    the other three records deliver nothing), `parse_event_list` saw the three windows, and thread 1 is left with no open
    code. -/
example : (PyIRTp.runFeedGen Gen.PyIR.prog Gen.PyIR.feedGenerator cfgDemo demoIR none PyIR.World.empty).1 =
    [.result 1 [ev 0 1 4 1, ev 1 1 12 1, ev 3 1 4 2]] := by decide

example : (match (PyIRTp.runFeedGen Gen.PyIR.prog Gen.PyIR.feedGenerator cfgDemo demoIR none PyIR.World.empty).2 with
    | .ok w => some (w.events, w.traces, w.calls.length)
    | .error _ => none) = some ([(1, [])], [], 3) := by decide

/-- … it equals the pipeline model over the generated `feed` -/
example : (PyIRTp.runFeedGen Gen.PyIR.prog Gen.PyIR.feedGenerator cfgDemo demoIR none PyIR.World.empty).1 =
    (feedGen (PyIRTp.feedStep Gen.PyIR.prog cfgDemo) PyIR.World.empty demoIR).1 := by decide

/-- … the event generator's own exception (a truncated dump: `EOFError` of the reader) surfaces after the trace was
    delivered -/
example : PyIRTp.runFeedGen Gen.PyIR.prog Gen.PyIR.feedGenerator cfgDemo (demoIR.take 4) (some .eof) PyIR.World.empty =
    ([.result 1 [ev 0 1 4 1, ev 1 1 12 1, ev 3 1 4 2]], .error .eof) := by decide

/-- … an exception of `feed` itself (a qualifier outside the dict: `KeyError` of `self.qualifiers_actions[…]`) ends the
    stream after the trace already delivered; the records behind it are never fed -/
example : PyIRTp.runFeedGen Gen.PyIR.prog Gen.PyIR.feedGenerator cfgDemo
      (demoIR.take 4 ++ [ev 9 1 4 7, ev 10 1 4 1, ev 11 1 4 2]) none PyIR.World.empty =
    ([.result 1 [ev 0 1 4 1, ev 1 1 12 1, ev 3 1 4 2]], .error .keyError) := by decide

/-! ### translation tie, continued: the constructor `__init__`

  `tools/gen_pyir.py` translates `TracesParser.__init__(self, trace_codes_map, threads_pids, pids_names)` into
  `Gen.PyIR.init : PyIRTp.InitDef`: the initialisers `self.<attr> = <parameter>` / `self.<attr> = {}` SORTED by attribute
  (they do not depend on each other: every value is a bare parameter or an empty dict display, checked by the translator;
  `dict()` = `{}`), and the `self.handlers.update(<family>_handlers)` calls in source order (the registry: `Props/C17`).
  `PyIRTp.runInit d n` constructs the object from `n` arguments: which OBJECT each attribute is — `Ref.arg k`, the caller's
  k-th argument ITSELF, or `Ref.fresh n`, the n-th dict the constructor made, empty. -/

/-- **init_ir_eq_model.**  The interpreted `__init__` of the source produces exactly the initial parser state the hand
    models start from:
    * all ten attributes are bound;
    * `trace_codes`, `threads_pids`, `pids_names` ARE the caller's three arguments — shared, not copied: what the container
      parser writes into the caller's tables after construction (`set_thread_map`), the decoders read, and what the
      `TRACE_*` handlers declare, the caller's formatter sees;
    * `on_going_events` and `on_going_traces` are two DIFFERENT new empty dicts: the heap is `PyIR.World.empty`, from which
      `run_ir_eq_run_model` / `feed_generator_ir_eq_pairing_model` start, and it abstracts to `Pairing.PState.empty`, from
      which `run` / `stateAfter` / `outputs` start;
    * with `global_strings`, `tids_names`, `last_data_newthread`, `last_data_exec` and `handlers` that makes seven
      pairwise different new dicts;
    * so for ANY contents `tp` / `pn` of the caller's two tables the whole-parser state is
      `{ pairing := PState.empty, tabs := { threadsPids := tp, pidsNames := pn } }` — the other four context tables of
      `Trace.Tabs` empty: the `startState` of `Model/TracePipeline` (next theorem). -/
theorem init_ir_eq_model :
    ∃ o, PyIRTp.runInit Gen.PyIR.init 3 = .ok o ∧
      (∀ a, (o.get a).isSome = true) ∧
      o.get .traceCodes = some (.arg 0) ∧ o.get .threadsPids = some (.arg 1) ∧ o.get .pidsNames = some (.arg 2) ∧
      o.world = some PyIR.World.empty ∧ PyIR.abs PyIR.World.empty = PState.empty ∧
      (∃ ns, o.freshOf [.onGoingEvents, .onGoingTraces, .globalStrings, .tidsNames, .lastDataNewthread, .lastDataExec,
          .handlers] = some ns ∧ ns.Nodup) ∧
      ∀ (tp : Trace.Dict Nat) (pn : Trace.Dict String),
        o.state tp pn = some { pairing := PState.empty, tabs := { threadsPids := tp, pidsNames := pn } } := by
  refine ⟨PyIRTp.expectedObj, ?_, ?_, rfl, rfl, rfl, rfl, PyIR.abs_empty, ⟨[0, 1, 2, 3, 4, 5, 6], rfl, by decide⟩,
    PyIRTp.expectedObj_state⟩
  · rw [source_is_expected_ir.2.2.2]; exact PyIRTp.runInit_expected
  · intro a; cases a <;> rfl

/-- … that state is where the request-level model starts: for every dump, the state of the object the interpreted
    `__init__` builds on the caller's tables as `set_thread_map` fills them is `TracePipeline.startState`. -/
theorem init_state_is_model_start (d : TracePipeline.Dump) :
    ∃ o, PyIRTp.runInit Gen.PyIR.init 3 = .ok o ∧
      o.state (Declared.mapTabs d.threadMap).threadsPids (Declared.mapTabs d.threadMap).pidsNames =
        some (TracePipeline.startState d) := by
  obtain ⟨o, h, _, _, _, _, _, _, _, hs⟩ := init_ir_eq_model
  exact ⟨o, h, by rw [hs]; rfl⟩

/-- a constructor called with another number of arguments raises `TypeError` -/
example : PyIRTp.runInit Gen.PyIR.init 2 = .error .typeError := by decide

/-- non-vacuity of the sharing clause: the interpreter tells a shared table from a copied one and one window table from
    two — a constructor that binds `threads_pids` to a new dict, or both window tables to one object, has no model state. -/
example : ((PyIRTp.runInit { Gen.PyIR.init with sets := Gen.PyIR.init.sets.map fun s =>
      if s.1 = .threadsPids then (s.1, .emptyDict) else s } 3).toOption.bind fun o => o.tabs [] []).isNone = true := by
  decide

example : (PyIRTp.Obj.world { attrs := [(.onGoingEvents, .fresh 0), (.onGoingTraces, .fresh 0)], made := 1 }) = none := by
  decide

end KdVerif.C04
