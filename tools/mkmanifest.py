#!/venv/bin/python
"""Writes MANIFEST.json from the per-property check modules (single source of truth)."""
import importlib
import json
import os
import sys

HERE = os.path.dirname(os.path.abspath(__file__))
sys.path.insert(0, HERE)
VERIF = os.path.dirname(HERE)

ALL = ['C%02d' % i for i in range(1, 21)]


def main():
    checks, na = [], []
    for p in ALL:
        try:
            pm = importlib.import_module(f'kdv.props.{p}')
        except ImportError:
            na.append({'property_id': p, 'reason': 'check not built yet in this round (planned: DESIGN.md §5 %s); '
                                                     'no technique other than Lean proof is substituted' % p})
            continue
        checks.append({
            'property_id': p,
            'quick_cmd': f'/venv/bin/python tools/check.py {p} --tier quick',
            'thorough_cmd': f'/venv/bin/python tools/check.py {p} --tier thorough',
            'evidence_file': f'evidence/{p}.json',
            'replay_cmd_template': f'/venv/bin/python tools/check.py {p} --replay {{path}}',
            'engine': 'kdverif-lean',
            'level_claimed': {'category': 'proof', 'text': pm.LEVEL_TEXT, 'design_ref': f'DESIGN.md §5 {p}'},
            'level_note': pm.LEVEL_NOTE,
            'technique': pm.TECHNIQUE,
        })
    man = {
        'version': 1,
        'setup_cmd': 'tools/setup.sh',
        'hooks': {'guard': 'PYKDEBUGPARSER_VERIF', 'enable': 'none needed: the harness drives public entry points '
                  'in-process and wraps readers; no source hooks exist',
                  'baseline_off_cmd': 'cd /repo && /venv/bin/python -m pytest -ra -q -p no:cacheprovider --timeout=900',
                  'source_commits': [], 'add_only': True},
        'engines': [{'name': 'kdverif-lean', 'path': 'lean/', 'serves_properties': [c['property_id'] for c in checks],
                     'kind_free_text': 'Lean 4 model + theorems (lake project KdVerif), translator tools/translate.py '
                                       '(regenerates lean/KdVerif/Gen from /repo each run), correspondence harness '
                                       'tools/kdv (real code vs. compiled model driver kddrv)'}],
        'checks': checks,
        'not_applicable': na,
        'notes': 'All checks: regen Gen/*.lean from /repo -> lake build Props module -> #print axioms audit -> '
                 'correspondence (real code vs Lean driver) -> failing-input search on the real code. '
                 'Exit 2 = infrastructure failure (no verdict).',
    }
    with open(os.path.join(VERIF, 'MANIFEST.json'), 'w') as fd:
        json.dump(man, fd, indent=1)
    print('checks:', [c['property_id'] for c in checks], 'na:', len(na))


main()
