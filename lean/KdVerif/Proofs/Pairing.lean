import KdVerif.Spec.Pairing
/-
  Refinement of the pairing state machine (`Model/Pairing.step`) to the declarative specification
  (`Spec/Pairing`), by induction on the history (snoc induction), plus the frame/projection lemmas of C05.
  Core Lean only.
-/
namespace KdVerif.Pairing

/-- Induction on a list from the right (Mathlib's `List.reverseRecOn` for propositions). -/
theorem snoc_induction {α : Type} {P : List α → Prop} (nil : P [])
    (snoc : ∀ l a, P l → P (l ++ [a])) (l : List α) : P l := by
  have h : ∀ r : List α, P r.reverse := by
    intro r
    induction r with
    | nil => exact nil
    | cons a r ih => rw [List.reverse_cons]; exact snoc _ _ ih
  simpa using h l.reverse

/-! ### the two generic list helpers of the specification -/

theorem annotFrom_append {α : Type} (pre a b : List α) :
    annotFrom pre (a ++ b) = annotFrom pre a ++ annotFrom (pre ++ a) b := by
  induction a generalizing pre with
  | nil => simp [annotFrom]
  | cons y ys ih => simp [annotFrom, ih, List.append_assoc]

theorem annotFrom_snoc {α : Type} (pre l : List α) (x : α) :
    annotFrom pre (l ++ [x]) = annotFrom pre l ++ [(pre ++ l, x)] := by
  rw [annotFrom_append]; rfl

/-- `annotFrom` adds information only: forgetting the prefixes gives the list back. -/
theorem annotFrom_map_snd {α : Type} (pre l : List α) : (annotFrom pre l).map (·.2) = l := by
  induction l generalizing pre with
  | nil => rfl
  | cons y ys ih => simp [annotFrom, ih]

/-- The prefix attached to an element is exactly what precedes it. -/
theorem mem_annotFrom {α : Type} (pre l : List α) (p : List α × α) :
    p ∈ annotFrom pre l ↔ ∃ a b, l = a ++ p.2 :: b ∧ p.1 = pre ++ a := by
  induction l generalizing pre with
  | nil => simp [annotFrom]
  | cons y ys ih =>
    simp only [annotFrom, List.mem_cons, ih]
    constructor
    · rintro (rfl | ⟨a, b, h1, h2⟩)
      · exact ⟨[], ys, rfl, by simp⟩
      · exact ⟨y :: a, b, by simp [h1], by simp [h2]⟩
    · rintro ⟨a, b, h1, h2⟩
      cases a with
      | nil =>
        left
        simp only [List.nil_append, List.cons.injEq] at h1
        obtain ⟨rfl, rfl⟩ := h1
        cases p; simp_all
      | cons z a =>
        right
        simp only [List.cons_append, List.cons.injEq] at h1
        obtain ⟨rfl, rfl⟩ := h1
        exact ⟨a, b, rfl, by simp [h2]⟩

theorem splitLast_snoc {α : Type} (p : α → Bool) (l : List α) (x : α) :
    splitLast p (l ++ [x]) =
      if p x then some (l, x, []) else (splitLast p l).map fun t => (t.1, t.2.1, t.2.2 ++ [x]) := by
  induction l with
  | nil => by_cases h : p x <;> simp [splitLast, h]
  | cons y ys ih =>
    simp only [List.cons_append, splitLast, ih]
    by_cases h : p x
    · simp [h]
    · simp only [h]
      cases hs : splitLast p ys with
      | some t => simp
      | none => by_cases hy : p y <;> simp [hy]

theorem splitLast_none_of {α : Type} (p : α → Bool) (l : List α) (h : ∀ x ∈ l, p x = false) :
    splitLast p l = none := by
  induction l with
  | nil => rfl
  | cons y ys ih =>
    have hy : p y = false := h y (by simp)
    simp [splitLast, ih (fun x hx => h x (by simp [hx])), hy]

theorem splitLast_of_none {α : Type} (p : α → Bool) (l : List α) (h : splitLast p l = none) :
    ∀ x ∈ l, p x = false := by
  induction l with
  | nil => simp
  | cons y ys ih =>
    simp only [splitLast] at h
    cases hs : splitLast p ys with
    | some t => obtain ⟨a, s, b⟩ := t; simp [hs] at h
    | none =>
      simp only [hs] at h
      by_cases hy : p y
      · simp [hy] at h
      · intro x hx
        rcases List.mem_cons.1 hx with rfl | hx'
        · simpa using hy
        · exact ih hs x hx'

theorem splitLast_sound {α : Type} (p : α → Bool) (l a b : List α) (s : α)
    (h : splitLast p l = some (a, s, b)) : l = a ++ s :: b ∧ p s = true ∧ ∀ x ∈ b, p x = false := by
  induction l generalizing a with
  | nil => simp [splitLast] at h
  | cons y ys ih =>
    simp only [splitLast] at h
    cases hs : splitLast p ys with
    | some t =>
      obtain ⟨a', s', b'⟩ := t
      simp only [hs, Option.some.injEq, Prod.mk.injEq] at h
      obtain ⟨rfl, rfl, rfl⟩ := h
      obtain ⟨h1, h2, h3⟩ := ih _ hs
      exact ⟨by simp [← h1], h2, h3⟩
    | none =>
      simp only [hs] at h
      by_cases hy : p y
      · simp only [hy, if_true, Option.some.injEq, Prod.mk.injEq] at h
        obtain ⟨rfl, rfl, rfl⟩ := h
        exact ⟨rfl, hy, splitLast_of_none p _ hs⟩
      · simp [hy] at h

/-- `splitLast` finds exactly the decomposition "… `s` … with `p s` and no later element satisfying `p`". -/
theorem splitLast_eq_some_iff {α : Type} (p : α → Bool) (l a b : List α) (s : α) :
    splitLast p l = some (a, s, b) ↔ l = a ++ s :: b ∧ p s = true ∧ ∀ x ∈ b, p x = false := by
  refine ⟨splitLast_sound p l a b s, ?_⟩
  rintro ⟨rfl, hs, hb⟩
  induction a with
  | nil =>
    simp only [List.nil_append, splitLast, splitLast_none_of p b hb, hs, if_true]
  | cons y ys ih => simp only [List.cons_append, splitLast, ih]


/-! ### how the specification evolves when one event is appended -/
section
variable (domOf : Nat → Bool)

theorem openAt_nil (k : Key) : openAt domOf [] k = false := rfl

theorem openAt_snoc (h : List Kevent) (e : Kevent) (k : Key) :
    openAt domOf (h ++ [e]) k = if isMark domOf k e then decide (e.qual = 1) else openAt domOf h k := by
  unfold openAt
  by_cases hm : isMark domOf k e <;> simp [List.filter_append, hm]

theorem isStartOf_isMark {k : Key} {x : Kevent} (h : isStartOf domOf k x = true) :
    isMark domOf k x = true := by
  simp only [isStartOf, isMark, decide_eq_true_eq] at *
  exact ⟨h.1, Or.inl h.2⟩

/-- An open key has a START in the history. -/
theorem splitLast_isSome_of_open (h : List Kevent) (k : Key) (ho : openAt domOf h k = true) :
    ∃ t, splitLast (isStartOf domOf k) h = some t := by
  cases hs : splitLast (isStartOf domOf k) h with
  | some t => exact ⟨t, rfl⟩
  | none =>
    exfalso
    have hn := splitLast_of_none _ _ hs
    unfold openAt at ho
    cases hl : (h.filter (isMark domOf k)).getLast? with
    | none => simp [hl] at ho
    | some x =>
      simp only [hl, decide_eq_true_eq] at ho
      have hx := List.mem_of_getLast? hl
      rw [List.mem_filter] at hx
      have := hn x hx.1
      simp only [isStartOf, isMark, decide_eq_true_eq, decide_eq_false_iff_not, not_and] at this hx
      exact this hx.2.1 ho

theorem bodyOf_snoc (k : Key) (pre mid : List Kevent) (x : Kevent) :
    bodyOf domOf k pre (mid ++ [x]) =
      bodyOf domOf k pre mid ++ (if sameTD domOf k x && accepted domOf (pre ++ mid) x then [x] else []) := by
  unfold bodyOf
  rw [annotFrom_snoc, List.filter_append, List.map_append]
  congr 1
  by_cases hc : (sameTD domOf k x && accepted domOf (pre ++ mid) x) = true <;> simp [hc]

theorem win_nil (k : Key) : win domOf k [] = [] := rfl

theorem win_snoc_start (h : List Kevent) (e : Kevent) (k : Key) (hs : isStartOf domOf k e = true) :
    win domOf k (h ++ [e]) = [e] := by
  simp [win, splitLast_snoc, hs, bodyOf, annotFrom]

theorem win_snoc_other (h : List Kevent) (e : Kevent) (k : Key) (hs : isStartOf domOf k e = false)
    (ho : openAt domOf h k = true) :
    win domOf k (h ++ [e]) =
      win domOf k h ++ (if sameTD domOf k e && accepted domOf h e then [e] else []) := by
  obtain ⟨⟨pre, s, mid⟩, ht⟩ := splitLast_isSome_of_open domOf h k ho
  have hh := (splitLast_sound _ _ _ _ _ ht).1
  simp only [win, splitLast_snoc, hs, ht, Option.map_some, Bool.false_eq_true, if_false, bodyOf_snoc,
    List.cons_append]
  have : pre ++ [s] ++ mid = h := by rw [hh]; simp
  rw [this]


/-! ### the state machine, one event at a time -/

theorem runFrom_nil (s : PState) : runFrom domOf s [] = (s, []) := rfl

theorem runFrom_cons (s : PState) (e : Kevent) (es : List Kevent) :
    runFrom domOf s (e :: es) =
      ((runFrom domOf (step domOf s e).1 es).1,
       (step domOf s e).2.toList ++ (runFrom domOf (step domOf s e).1 es).2) := by
  simp only [runFrom]
  cases (step domOf s e).2 <;> rfl

theorem runFrom_append (s : PState) (a b : List Kevent) :
    runFrom domOf s (a ++ b) =
      ((runFrom domOf (runFrom domOf s a).1 b).1,
       (runFrom domOf s a).2 ++ (runFrom domOf (runFrom domOf s a).1 b).2) := by
  induction a generalizing s with
  | nil => simp [runFrom]
  | cons e es ih => simp only [List.cons_append, runFrom_cons, ih, List.append_assoc]

/-- What feeding `e` after history `h` hands to `parse_event_list` (the model's answer). -/
def emitAt (h : List Kevent) (e : Kevent) : Option (List Kevent) :=
  (step domOf (stateAfter domOf h) e).2

theorem stateAfter_nil : stateAfter domOf [] = PState.empty := rfl

theorem stateAfter_snoc (h : List Kevent) (e : Kevent) :
    stateAfter domOf (h ++ [e]) = (step domOf (stateAfter domOf h) e).1 := by
  simp only [stateAfter, runFrom_append, runFrom_cons, runFrom_nil]

theorem run_snoc (h : List Kevent) (e : Kevent) :
    run domOf (h ++ [e]) = run domOf h ++ (emitAt domOf h e).toList := by
  simp only [run, emitAt, stateAfter, runFrom_append, runFrom_cons, runFrom_nil, List.append_nil]

theorem outputs_append (s : PState) (a b : List Kevent) :
    outputs domOf s (a ++ b) = outputs domOf s a ++ outputs domOf (runFrom domOf s a).1 b := by
  induction a generalizing s with
  | nil => simp [outputs, runFrom]
  | cons e es ih => simp [outputs, runFrom_cons, ih]

/-- The per-event answers the driver prints: the answer for the last event is `emitAt`. -/
theorem outputs_snoc (h : List Kevent) (e : Kevent) :
    outputs domOf PState.empty (h ++ [e]) = outputs domOf PState.empty h ++ [emitAt domOf h e] := by
  simp [outputs_append, outputs, emitAt, stateAfter]

/-- `run` is the per-event answers with the `None`s dropped (`feed_generator`). -/
theorem run_eq_outputs (s : PState) (h : List Kevent) :
    (runFrom domOf s h).2 = (outputs domOf s h).filterMap id := by
  induction h generalizing s with
  | nil => rfl
  | cons e es ih =>
    rw [runFrom_cons]
    simp only [outputs, ih]
    cases (step domOf s e).2 <;> simp


/-! ### refinement: the tables after a history are the open keys with their declarative windows -/

@[simp] theorem keyOf_tid (e : Kevent) : (keyOf domOf e).tid = e.tid := rfl
@[simp] theorem keyOf_eid (e : Kevent) : (keyOf domOf e).eid = e.eventid := rfl
@[simp] theorem keyOf_dom (e : Kevent) : (keyOf domOf e).dom = domOf e.eventid := rfl

theorem step_start (s : PState) (e : Kevent) (h1 : e.qual = 1) :
    step domOf s e =
      (appendAll (set s (keyOf domOf e) (some [])) (domOf e.eventid) e.tid e, none) := by
  simp [step, h1]

theorem step_end_closed (s : PState) (e : Kevent) (h2 : e.qual = 2) (hs : s (keyOf domOf e) = none) :
    step domOf s e = (s, none) := by
  simp [step, h2, hs]

theorem step_end_open (s : PState) (e : Kevent) (w : List Kevent) (h2 : e.qual = 2)
    (hs : s (keyOf domOf e) = some w) :
    step domOf s e =
      (set (appendAll s (domOf e.eventid) e.tid e) (keyOf domOf e) none, some (w ++ [e])) := by
  simp [step, h2, hs, appendAll]

theorem step_single (s : PState) (e : Kevent) (h1 : e.qual ≠ 1) (h2 : e.qual ≠ 2) :
    step domOf s e = (appendAll s (domOf e.eventid) e.tid e, some [e]) := by
  simp [step, h1, h2]

theorem sameTD_iff (k : Key) (e : Kevent) :
    sameTD domOf k e = true ↔ (k.dom = domOf e.eventid ∧ k.tid = e.tid) := by
  simp only [sameTD, decide_eq_true_eq]
  constructor <;> rintro ⟨a, b⟩ <;> exact ⟨a.symm, b.symm⟩

theorem sameTD_keyOf (e : Kevent) : sameTD domOf (keyOf domOf e) e = true := by
  simp [sameTD, keyOf]

theorem ite_some_eq_none {α : Type} (c : Bool) (a : α) :
    (if c = true then some a else none) = none ↔ c = false := by
  cases c <;> simp

theorem ite_some_eq_some {α : Type} (c : Bool) (a w : α) :
    (if c = true then some a else none) = some w ↔ c = true ∧ a = w := by
  cases c <;> simp

theorem state_eq (h : List Kevent) (k : Key) :
    stateAfter domOf h k = if openAt domOf h k then some (win domOf k h) else none := by
  induction h using snoc_induction generalizing k with
  | nil => simp [stateAfter_nil, PState.empty, openAt_nil]
  | snoc h e ih =>
    rw [stateAfter_snoc, openAt_snoc]
    -- the three shapes of `step`
    have hclosed : stateAfter domOf h (keyOf domOf e) = none → openAt domOf h (keyOf domOf e) = false :=
      fun hst => (ite_some_eq_none _ _).1 ((ih _).symm.trans hst)
    have hopen : ∀ w, stateAfter domOf h (keyOf domOf e) = some w → openAt domOf h (keyOf domOf e) = true :=
      fun w hst => ((ite_some_eq_some _ _ _).1 ((ih _).symm.trans hst)).1
    by_cases hk : keyOf domOf e = k
    · -- the event's own key
      subst hk
      by_cases h1 : e.qual = 1
      · have hs : isStartOf domOf (keyOf domOf e) e = true := by simp [isStartOf, h1]
        simp [step_start domOf _ e h1, h1, isMark, appendAll, set, win_snoc_start domOf h e _ hs]
      · by_cases h2 : e.qual = 2
        · have hm : isMark domOf (keyOf domOf e) e = true := by simp [isMark, h2]
          simp only [hm, if_true, h2]
          cases hst : stateAfter domOf h (keyOf domOf e) with
          | none => simp [step_end_closed domOf _ e h2 hst, hst]
          | some w => simp [step_end_open domOf _ e w h2 hst, set]
        · have hm : isMark domOf (keyOf domOf e) e = false := by simp [isMark, h1, h2]
          have hs : isStartOf domOf (keyOf domOf e) e = false := by simp [isStartOf, h1]
          simp only [step_single domOf _ e h1 h2, hm, Bool.false_eq_true, if_false]
          by_cases ho : openAt domOf h (keyOf domOf e) = true
          · simp [appendAll, ih, ho, win_snoc_other domOf h e _ hs ho, sameTD_keyOf, accepted, h2]
          · simp [appendAll, ih, ho]
    · -- another key
      have hm : isMark domOf k e = false := by simp [isMark, hk]
      have hs : isStartOf domOf k e = false := by simp [isStartOf, hk]
      have hk' : ¬ k = keyOf domOf e := fun h => hk h.symm
      simp only [hm, Bool.false_eq_true, if_false]
      by_cases ho : openAt domOf h k = true
      · rw [win_snoc_other domOf h e k hs ho]
        by_cases htd : sameTD domOf k e = true
        · have htd' := (sameTD_iff domOf k e).1 htd
          by_cases h1 : e.qual = 1
          · simp [step_start domOf _ e h1, appendAll, set, hk', htd', ih, ho, htd, accepted, h1]
          · by_cases h2 : e.qual = 2
            · cases hst : stateAfter domOf h (keyOf domOf e) with
              | none =>
                have hacc : accepted domOf h e = false := by simp [accepted, h2, hclosed hst]
                simp [step_end_closed domOf _ e h2 hst, ih k, ho, hacc]
              | some w =>
                have hacc : accepted domOf h e = true := by simp [accepted, hopen w hst]
                simp [step_end_open domOf _ e w h2 hst, set, hk', appendAll, htd', ih k, ho, htd, hacc]
            · simp [step_single domOf _ e h1 h2, appendAll, htd', ih, ho, htd, accepted, h2]
        · have htd' : ¬ (k.dom = domOf e.eventid ∧ k.tid = e.tid) :=
            fun h => htd ((sameTD_iff domOf k e).2 h)
          by_cases h1 : e.qual = 1
          · simp [step_start domOf _ e h1, appendAll, set, hk', htd', ih, ho, htd]
          · by_cases h2 : e.qual = 2
            · cases hst : stateAfter domOf h (keyOf domOf e) with
              | none => simp [step_end_closed domOf _ e h2 hst, ih k, ho, htd]
              | some w => simp [step_end_open domOf _ e w h2 hst, set, hk', appendAll, htd', ih k, ho, htd]
            · simp [step_single domOf _ e h1 h2, appendAll, htd', ih, ho, htd]
      · -- not open: stays absent
        have hn : stateAfter domOf h k = none := by rw [ih]; simp [ho]
        by_cases h1 : e.qual = 1
        · simp [step_start domOf _ e h1, appendAll, set, hk', hn, ho]
        · by_cases h2 : e.qual = 2
          · cases hst : stateAfter domOf h (keyOf domOf e) with
            | none => simp [step_end_closed domOf _ e h2 hst, hn, ho]
            | some w => simp [step_end_open domOf _ e w h2 hst, set, hk', appendAll, hn, ho]
          · simp [step_single domOf _ e h1 h2, appendAll, hn, ho]


/-! ### consequences: what is emitted, in terms of the history alone -/

theorem stateAfter_isSome_iff (h : List Kevent) (k : Key) :
    (stateAfter domOf h k).isSome = openAt domOf h k := by
  rw [state_eq]; cases openAt domOf h k <;> rfl

/-- The model's per-event answer is the declarative one. -/
theorem emitAt_eq_emitSpec (h : List Kevent) (e : Kevent) : emitAt domOf h e = emitSpec domOf h e := by
  unfold emitAt emitSpec
  by_cases h1 : e.qual = 1
  · simp [step_start domOf _ e h1, h1]
  · by_cases h2 : e.qual = 2
    · simp only [h2, if_true]
      cases ho : openAt domOf h (keyOf domOf e) with
      | false =>
        have : stateAfter domOf h (keyOf domOf e) = none := by rw [state_eq]; simp [ho]
        simp [step_end_closed domOf _ e h2 this]
      | true =>
        have : stateAfter domOf h (keyOf domOf e) = some (win domOf (keyOf domOf e) h) := by
          rw [state_eq]; simp [ho]
        simp [step_end_open domOf _ e _ h2 this]
    · simp [step_single domOf _ e h1 h2, h1, h2]

/-- The whole output sequence is the declarative one. -/
theorem run_eq_runSpec (h : List Kevent) : run domOf h = runSpec domOf h := by
  induction h using snoc_induction with
  | nil => rfl
  | snoc h e ih =>
    rw [run_snoc, ih, emitAt_eq_emitSpec]
    simp only [runSpec, annotFrom_snoc, List.nil_append, List.filterMap_append]
    cases hem : emitSpec domOf h e <;> simp [hem]

/-- A window decomposed at its START: the START found by `win` is the last START of the key, and the
    rest is `bodyOf` over what follows. -/
theorem win_of_decomp (k : Key) (pre mid : List Kevent) (s : Kevent)
    (hs : isStartOf domOf k s = true) (hmid : ∀ x ∈ mid, isStartOf domOf k x = false) :
    win domOf k (pre ++ s :: mid) = s :: bodyOf domOf k (pre ++ [s]) mid := by
  have := (splitLast_eq_some_iff (isStartOf domOf k) (pre ++ s :: mid) pre mid s).2 ⟨rfl, hs, hmid⟩
  simp [win, this]

/-- An open key has a last START, with neither a START nor an END of that key after it. -/
theorem open_decomp (h : List Kevent) (k : Key) (ho : openAt domOf h k = true) :
    ∃ pre s mid, h = pre ++ s :: mid ∧ keyOf domOf s = k ∧ s.qual = 1 ∧
      ∀ x ∈ mid, keyOf domOf x = k → x.qual ≠ 1 ∧ x.qual ≠ 2 := by
  induction h using snoc_induction with
  | nil => simp [openAt_nil] at ho
  | snoc h e ih =>
    rw [openAt_snoc] at ho
    by_cases hm : isMark domOf k e = true
    · simp only [hm, if_true, decide_eq_true_eq] at ho
      simp only [isMark, decide_eq_true_eq] at hm
      exact ⟨h, e, [], rfl, hm.1, ho, by simp⟩
    · simp only [hm] at ho
      obtain ⟨pre, s, mid, rfl, hk, hq, hmid⟩ := ih ho
      refine ⟨pre, s, mid ++ [e], by simp, hk, hq, ?_⟩
      intro x hx hxk
      rcases List.mem_append.1 hx with hx | hx
      · exact hmid x hx hxk
      · simp only [List.mem_singleton] at hx
        subst hx
        simp only [isMark, decide_eq_true_eq, not_and, not_or] at hm
        exact hm hxk

/-- Conversely such a decomposition makes the key open. -/
theorem open_of_decomp (k : Key) (pre mid : List Kevent) (s : Kevent) (hk : keyOf domOf s = k)
    (hq : s.qual = 1) (hmid : ∀ x ∈ mid, keyOf domOf x = k → x.qual ≠ 1 ∧ x.qual ≠ 2) :
    openAt domOf (pre ++ s :: mid) k = true := by
  induction mid using snoc_induction with
  | nil =>
    rw [openAt_snoc]; simp [isMark, hk, hq]
  | snoc mid e ih =>
    have : pre ++ s :: (mid ++ [e]) = (pre ++ s :: mid) ++ [e] := by simp
    rw [this, openAt_snoc]
    have hm : isMark domOf k e = false := by
      simp only [isMark, decide_eq_false_iff_not, not_and, not_or]
      exact fun hke => hmid e (by simp) hke
    simp only [hm, Bool.false_eq_true, if_false]
    exact ih (fun x hx => hmid x (by simp [hx]))


/-! ### the body of a window between two Sublist bounds -/

theorem filter_sublist_of_imp {α : Type} (p q : α → Bool) (l : List α) (h : ∀ x, p x = true → q x = true) :
    (l.filter p).Sublist (l.filter q) := by
  have : l.filter p = (l.filter q).filter p := by
    rw [List.filter_filter]
    apply List.filter_congr
    intro x _
    cases hp : p x with
    | false => simp
    | true => simp [h x hp]
  rw [this]
  exact List.filter_sublist

/-- Nothing foreign, nothing from outside, stream order, no duplication: the body is a sublist of the
    same-thread same-domain events of `mid`. -/
theorem bodyOf_sublist (k : Key) (pre mid : List Kevent) :
    (bodyOf domOf k pre mid).Sublist (mid.filter (sameTD domOf k)) := by
  have h1 : mid.filter (sameTD domOf k) =
      ((annotFrom pre mid).filter (fun p => sameTD domOf k p.2)).map (·.2) := by
    conv => lhs; rw [← annotFrom_map_snd pre mid]
    rw [List.filter_map]; rfl
  rw [h1]
  exact (filter_sublist_of_imp _ _ _ (by intro x hx; simp only [Bool.and_eq_true] at hx; exact hx.1)).map _

/-- Nothing but stray ENDs is left out. -/
theorem sublist_bodyOf (k : Key) (pre mid : List Kevent) :
    (mid.filter fun x => sameTD domOf k x && decide (x.qual ≠ 2)).Sublist (bodyOf domOf k pre mid) := by
  have h1 : (mid.filter fun x => sameTD domOf k x && decide (x.qual ≠ 2)) =
      ((annotFrom pre mid).filter (fun p => sameTD domOf k p.2 && decide (p.2.qual ≠ 2))).map (·.2) := by
    conv => lhs; rw [← annotFrom_map_snd pre mid]
    rw [List.filter_map]; rfl
  rw [h1]
  refine (filter_sublist_of_imp _ _ _ ?_).map _
  intro x hx
  simp only [Bool.and_eq_true, accepted, Bool.or_eq_true] at hx ⊢
  exact ⟨hx.1, Or.inl hx.2⟩

/-- Exact membership: the event at position `mid = a ++ x :: b` is in the body iff it is of the key's
    thread and domain and was accepted when it arrived. -/
theorem mem_bodyOf_of (k : Key) (pre a b : List Kevent) (x : Kevent)
    (htd : sameTD domOf k x = true) (hacc : accepted domOf (pre ++ a) x = true) :
    x ∈ bodyOf domOf k pre (a ++ x :: b) := by
  unfold bodyOf
  rw [List.mem_map]
  refine ⟨(pre ++ a, x), ?_, rfl⟩
  rw [List.mem_filter]
  exact ⟨(mem_annotFrom _ _ _).2 ⟨a, b, rfl, rfl⟩, by simp [htd, hacc]⟩

theorem bodyOf_tid (k : Key) (pre mid : List Kevent) : ∀ x ∈ bodyOf domOf k pre mid, x.tid = k.tid := by
  intro x hx
  have := (bodyOf_sublist domOf k pre mid).subset hx
  rw [List.mem_filter] at this
  exact ((sameTD_iff domOf k x).1 this.2).2.symm

end
end KdVerif.Pairing
