import Driver.Util
import KdVerif.Model.Pairing
open KdVerif
namespace Driver.Pairing

/-- `pair <trace-domain eids, comma separated or -> <record hex>…` : per event `-` or the emitted
    window as the timestamps of its events. -/
def cmdPair : Cmd
  | doms :: recs =>
    match parseNatList doms, parseRecs recs with
    | some ds, some es =>
      let outs := KdVerif.Pairing.outputs (fun eid => ds.contains eid) KdVerif.Pairing.PState.empty es
      "ok " ++ ";".intercalate (outs.map fun
        | none => "-"
        | some w => natListC (w.map (·.timestamp)))
    | _, _ => "bad-op"
  | _ => "bad-op"

def commands : List (String × Cmd) := [("pair", cmdPair)]

end Driver.Pairing
