import KdVerif.Spec.ContainerV2
/-
  The RAW_VERSION3 file grammar as the reader expects it, written as an encoder.
  Independent of the reader model (only `toLE`, list operations, the tag constants written out here
  and compared with the reflected ones in Props/C03).  Plist payloads are opaque byte strings.
-/
namespace KdVerif.Spec

def v3Magic : Bytes := [0x00, 0x03, 0xaa, 0x55]
def tagStackshotEnd : Bytes := [115, 116, 97, 99, 107, 115, 104, 111, 116, 95, 111, 117, 116, 95, 102, 108]
def tagThreadmap : Bytes := [0, 0x1d, 0, 0, 0, 0, 0, 0]
def tagEvents : Bytes := [0, 0x1e, 0, 0, 0, 0, 0, 0]
def tagMore : Bytes := [0, 0x20, 0, 0, 0, 0, 0, 0]

/-- one events chunk: scanner gap, the size field is `64 * recs.length + extra`, 8 unknown bytes. -/
structure V3Chunk where
  gap : Bytes
  extra : Nat
  unknown8 : Bytes
  recs : List Bytes
  deriving Repr

structure V3Block where
  tag : Bytes
  payload : Bytes
  padded : Bool            -- followed by zero bytes up to the next multiple of 8 (counted from the tag's end)
  deriving Repr

structure V3File where
  hdr : List Nat           -- the 12 integer header fields
  cpu : Bytes              -- cpu_info payload (a plist)
  four : Bytes             -- the 4 bytes skipped by `reader.read(4)`
  filler : Bytes           -- stackshot contents before the end marker
  gap1 : Bytes             -- between the marker and the thread-map tag
  threads : List V2Thread
  tmTrail : Bytes          -- < 32 bytes behind the last entry, inside the thread-map chunk
  first : V3Chunk
  more : List V3Chunk      -- further chunks, each introduced by the MORE tag
  blocks : List V3Block
  deriving Repr

def v3FieldSizes : List Nat := [4, 4, 8, 4, 4, 8, 8, 4, 4, 4, 4, 4]

def encodeFields : List Nat → List Nat → Bytes
  | s :: ss, v :: vs => toLE s v ++ encodeFields ss vs
  | _, _ => []

/-- Python's `-(n) % 8`. -/
def pad8 (n : Nat) : Nat := (8 - n % 8) % 8

def encodeChunk (c : V3Chunk) : Bytes :=
  c.gap ++ (tagEvents ++ (toLE 8 (64 * c.recs.length + c.extra) ++ (c.unknown8 ++ c.recs.flatten)))

def encodeBlock (b : V3Block) : Bytes :=
  b.tag ++ (toLE 8 b.payload.length ++ (b.payload ++ (if b.padded then zeros (pad8 (8 + b.payload.length)) else [])))

def threadmapBytes (f : V3File) : Bytes := (f.threads.map encodeThread).flatten ++ f.tmTrail

def encodeV3 (f : V3File) : Bytes :=
  v3Magic ++ (encodeFields v3FieldSizes f.hdr ++ (toLE 8 f.cpu.length ++ (f.cpu ++ (zeros (pad8 (68 + f.cpu.length)) ++
    (f.four ++ (f.filler ++ (tagStackshotEnd ++ (f.gap1 ++ (tagThreadmap ++ (toLE 8 (threadmapBytes f).length ++
      (threadmapBytes f ++ (encodeChunk f.first ++ ((f.more.map (fun c => tagMore ++ encodeChunk c)).flatten ++
        (f.blocks.map encodeBlock).flatten)))))))))))))

/-- the scanner side-condition: the first place where `tag` occurs in `pre ++ tag` is at `pre.length`. -/
def NoEarlier (tag pre : Bytes) : Prop :=
  ∀ i, i < pre.length → ((pre ++ tag).drop i).take tag.length ≠ tag

end KdVerif.Spec

namespace KdVerif.Spec

def V3Chunk.WF (c : V3Chunk) : Prop :=
  NoEarlier tagEvents c.gap ∧ c.extra < 64 ∧ 64 * c.recs.length + c.extra < 2 ^ 64 ∧ c.unknown8.length = 8 ∧
  (∀ r ∈ c.recs, r.length = 64 ∧ IsBytes r)

def V3Block.WF (b : V3Block) : Prop := b.tag.length = 8 ∧ b.payload.length < 2 ^ 63

/-- every block but the last is followed by its alignment padding (or needs none): an unpadded block
    in the middle makes the reader eat the head of the next tag. -/
def blocksAligned : List V3Block → Prop
  | [] => True
  | [_] => True
  | b :: b' :: bs => (b.padded = true ∨ b.payload.length % 8 = 0) ∧ blocksAligned (b' :: bs)

def V3File.WF (f : V3File) : Prop :=
  f.hdr.length = 12 ∧
  (∀ i (h1 : i < v3FieldSizes.length) (h2 : i < f.hdr.length), f.hdr[i] < 256 ^ v3FieldSizes[i]) ∧
  f.cpu.length < 2 ^ 63 ∧ f.four.length = 4 ∧
  NoEarlier tagStackshotEnd f.filler ∧ NoEarlier tagThreadmap f.gap1 ∧
  (∀ t ∈ f.threads, t.WF) ∧ f.tmTrail.length < 32 ∧ (threadmapBytes f).length < 2 ^ 63 ∧
  (∀ c ∈ f.first :: f.more, c.WF) ∧
  (∀ b ∈ f.blocks, b.WF) ∧ blocksAligned f.blocks ∧ (∀ b, f.blocks.head? = some b → b.tag ≠ tagMore)

/-- all records of all chunks, in file order. -/
def V3File.recs (f : V3File) : List Bytes := (f.first :: f.more).flatMap (·.recs)

end KdVerif.Spec
