"""Translator of the CONTEXT-TABLE HANDLERS: pykdebugparser/trace_handlers/trace.py (pure `ast`, nothing is imported or
run; the values of `DgbFuncQual` are read from the class body in kevent.py the way gen_pyir.enum_values does)
-> lean/KdVerif/Gen/PyIRTr.lean, one `Program` of the IR of lean/KdVerif/Model/PyIRTr.lean:

    every module-level `@dataclass`              -> ClassDef  (fields after `ktraces` with defaults, `__str__` as f-string pieces)
    every module-level `def f(parser, events)`   -> FunDef    (statements)
    `handlers = {'KEY': function, …}`            -> List (String × String)

Normal form (so that harmless rewrites give the same term):
  * a statement list is a right-nested `seq`; an `if` without `else` has `skip` as its else branch; docstrings, comments and
    `pass` vanish; `v += e` is `v = v + e`;
  * the two parameters may have any name; locals are numbered in source order of their first binding; `return Cls(…)` binds a
    fresh temporary numbered after them;
  * a local bound exactly ONCE, by a top-level statement of the body, before all of its uses, to an expression of the
    `events[0]` family — `events[0]`, `events[0].<Kevent field>`, `events[0].values[k]` with k in 0..3, or such an
    expression written through another alias — is inlined (`result = events[0].values`, `tid = events[0].values[0]`): on a
    non-empty window of four-word records (the only windows `parse_event_list` passes on) such an expression has no effect
    and cannot raise, so evaluating it at the uses instead of at the binding changes nothing;
  * conditions in one spelling: `if not c: A else: B` is `ite c B A`, `a == b` is `ite (ne a b) B A`, `x is None` is
    `ite (isNotNone x) B A` — never a negated condition;
  * `DgbFuncQual.<NAME>.value` becomes the int reflected from kevent.py.
Everything else becomes an explicit `.unsupported "<source text>"` node or an entry of `notes`: never a guess."""
import ast
import os

TABLES = {'threads_pids': '.threadsPids', 'pids_names': '.pidsNames', 'tids_names': '.tidsNames',
          'global_strings': '.globalStrings', 'last_data_newthread': '.lastDataNewthread',
          'last_data_exec': '.lastDataExec'}
KEVENT_FIELDS = ('timestamp', 'data', 'values', 'tid', 'debugid', 'eventid', 'func_qualifier')


def src(node):
    try:
        return ' '.join(ast.unparse(node).split())
    except Exception:
        return '<?>'


def enum_values(kevent_src, cls_name):
    """NAME -> int of `class <cls_name>(enum.Enum)` read from the class body (as tools/gen_pyir.py does)."""
    for node in ast.parse(kevent_src).body:
        if isinstance(node, ast.ClassDef) and node.name == cls_name:
            out = {}
            for st in node.body:
                if isinstance(st, ast.Assign) and len(st.targets) == 1 and isinstance(st.targets[0], ast.Name) \
                        and isinstance(st.value, ast.Constant) and isinstance(st.value.value, int) \
                        and not isinstance(st.value.value, bool):
                    out[st.targets[0].id] = st.value.value
            return out
    return {}


def is_nat(e):
    return isinstance(e, ast.Constant) and isinstance(e.value, int) and not isinstance(e.value, bool) and e.value >= 0


class Fn:
    """One handler body -> Stmt (python tuples)."""

    def __init__(self, fn, classes, quals, enum_name):
        self.fn = fn
        self.classes = classes               # names of the module-level dataclasses
        self.quals = quals                   # DgbFuncQual NAME -> int ({} when the import is not the expected one)
        self.enum_name = enum_name
        self.parser = fn.args.args[0].arg
        self.events = fn.args.args[1].arg
        self.vars = {}
        self.alias = {}                      # name -> translated expression
        self.in_loop = 0

    # ---- binding analysis ----------------------------------------------------------------------------------
    def stores(self):
        """[(name, node)] of every binding of a plain name in the function, in source order (comprehension variables
        are scoped to their comprehension and handled where the comprehension is)."""
        out = []

        def walk(n, in_comp):
            if isinstance(n, (ast.ListComp, ast.GeneratorExp, ast.SetComp, ast.DictComp)):
                in_comp = True
            if isinstance(n, ast.Name) and isinstance(n.ctx, (ast.Store, ast.Del)) and not in_comp:
                out.append((n.id, n))
            for c in ast.iter_child_nodes(n):
                walk(c, in_comp)
        for s in self.fn.body:
            walk(s, False)
        return out

    def family(self, e):
        """`events[0]` family, through the aliases found so far"""
        if isinstance(e, ast.Name):
            return e.id in self.alias
        if isinstance(e, ast.Subscript) and is_nat(e.slice):
            v = e.value
            if isinstance(v, ast.Name) and v.id == self.events and v.id not in self.alias:
                return e.slice.value == 0
            t = self.alias_kind(v)
            return t == 'values' and e.slice.value <= 3
        if isinstance(e, ast.Attribute):
            return self.alias_kind(e.value) == 'record' and e.attr in KEVENT_FIELDS
        return False

    def alias_kind(self, e):
        """'record' (events[0]) | 'values' (events[0].values) | 'other' | None (not in the family)"""
        if not self.family(e):
            return None
        if isinstance(e, ast.Name):
            return self.alias_kinds[e.id]
        if isinstance(e, ast.Subscript):
            return 'record' if isinstance(e.value, ast.Name) and e.value.id == self.events else 'other'
        return 'values' if e.attr == 'values' else 'other'

    def find_aliases(self):
        st = self.stores()
        counts = {}
        for name, _ in st:
            counts[name] = counts.get(name, 0) + 1
        self.alias_kinds = {}
        for s in self.fn.body:                                   # top-level statements only
            if isinstance(s, ast.Assign) and len(s.targets) == 1 and isinstance(s.targets[0], ast.Name):
                name = s.targets[0].id
                if counts.get(name) != 1 or name in (self.parser, self.events) or not self.family(s.value):
                    continue
                end = (s.end_lineno, s.end_col_offset)
                uses = [n for n in ast.walk(self.fn) if isinstance(n, ast.Name) and n.id == name
                        and isinstance(n.ctx, ast.Load)]
                if any((n.lineno, n.col_offset) < end for n in uses):
                    continue
                kind = self.alias_kind(s.value)
                self.alias[name] = self.ex(s.value)
                self.alias_kinds[name] = kind
        self.alias_stmts = {id(s) for s in self.fn.body if isinstance(s, ast.Assign) and len(s.targets) == 1
                            and isinstance(s.targets[0], ast.Name) and s.targets[0].id in self.alias}
        for name, _ in st:
            if name not in self.alias and name not in self.vars:
                self.vars[name] = len(self.vars)
        self.rebinds_params = any(name in (self.parser, self.events) for name, _ in st)

    def fresh(self):
        name = '<tmp%d>' % len(self.vars)
        self.vars[name] = len(self.vars)
        return self.vars[name]

    # ---- expressions ---------------------------------------------------------------------------------------
    def table_of(self, e):
        """`parser.<table>` -> table tag"""
        if isinstance(e, ast.Attribute) and isinstance(e.value, ast.Name) and e.value.id == self.parser \
                and self.parser not in self.vars and e.attr in TABLES:
            return TABLES[e.attr]
        return None

    def join_data(self, call):
        """`b''.join([x.data for x in events if x.eventid == OWN])` -> ('joinData', OWN)"""
        f = call.func
        if not (isinstance(f, ast.Attribute) and f.attr == 'join' and isinstance(f.value, ast.Constant)
                and f.value.value == b'' and len(call.args) == 1 and not call.keywords):
            return None
        c = call.args[0]
        if not (isinstance(c, (ast.ListComp, ast.GeneratorExp)) and len(c.generators) == 1):
            return None
        g = c.generators[0]
        if g.is_async or not isinstance(g.target, ast.Name) or len(g.ifs) != 1:
            return None
        x = g.target.id
        if not (isinstance(g.iter, ast.Name) and g.iter.id == self.events and x not in (self.events, self.parser)):
            return None
        if not (isinstance(c.elt, ast.Attribute) and c.elt.attr == 'data' and isinstance(c.elt.value, ast.Name)
                and c.elt.value.id == x):
            return None
        t = g.ifs[0]
        if not (isinstance(t, ast.Compare) and len(t.ops) == 1 and isinstance(t.ops[0], ast.Eq)):
            return None

        def is_xid(n):
            return isinstance(n, ast.Attribute) and n.attr == 'eventid' and isinstance(n.value, ast.Name) and n.value.id == x
        a, b = t.left, t.comparators[0]
        own = b if is_xid(a) else a if is_xid(b) else None
        if own is None or any(isinstance(n, ast.Name) and n.id == x for n in ast.walk(own)):
            return None
        return ('joinData', self.ex(own))

    def ex(self, e):
        if isinstance(e, ast.Constant):
            if e.value is None:
                return ('none',)
            if is_nat(e):
                return ('int', e.value)
            if isinstance(e.value, bytes):
                return ('bytes', e.value)
            if isinstance(e.value, str):
                return ('str', e.value)
            return ('unsupported', src(e))
        if isinstance(e, ast.Name):
            if e.id in self.alias:
                return self.alias[e.id]
            if e.id in self.vars:
                return ('var', self.vars[e.id])
            if e.id == self.events:
                return ('events',)
            return ('unsupported', src(e))
        if isinstance(e, ast.Subscript):
            if is_nat(e.slice):
                return ('index', self.ex(e.value), e.slice.value)
            s = e.slice
            if isinstance(s, ast.Slice) and s.upper is None and s.step is None and s.lower is not None and is_nat(s.lower):
                return ('dropFrom', self.ex(e.value), s.lower.value)
            return ('unsupported', src(e))
        if isinstance(e, ast.Attribute):
            v = e.value
            if e.attr == 'value' and isinstance(v, ast.Attribute) and isinstance(v.value, ast.Name) \
                    and v.value.id == self.enum_name and v.value.id not in self.vars and v.value.id not in self.alias:
                n = self.quals.get(v.attr)
                if n is None or n < 0:
                    return ('unsupported', src(e))
                return ('int', n)
            if isinstance(v, ast.Name) and v.id == self.parser:
                return ('unsupported', src(e))
            return ('attr', self.ex(v), e.attr)
        if isinstance(e, ast.BinOp) and isinstance(e.op, ast.BitAnd):
            return ('band', self.ex(e.left), self.ex(e.right))
        if isinstance(e, ast.BinOp) and isinstance(e.op, ast.Add):
            return ('cat', self.ex(e.left), self.ex(e.right))
        if isinstance(e, ast.Compare) and len(e.ops) == 1:
            op, a, b = e.ops[0], e.left, e.comparators[0]
            if isinstance(op, ast.IsNot) and isinstance(b, ast.Constant) and b.value is None:
                return ('isNotNone', self.ex(a))
            if isinstance(op, ast.NotEq):
                return ('ne', self.ex(a), self.ex(b))
            return ('unsupported', src(e))
        if isinstance(e, ast.Call):
            f = e.func
            j = self.join_data(e)
            if j is not None:
                return j
            if isinstance(f, ast.Attribute):
                t = self.table_of(f.value)
                if t is not None and f.attr == 'get' and not e.keywords and len(e.args) in (1, 2):
                    if len(e.args) == 1:
                        return ('tget', t, self.ex(e.args[0]))
                    return ('tgetD', t, self.ex(e.args[0]), self.ex(e.args[1]))
                if f.attr == 'replace' and not e.keywords and len(e.args) == 2 \
                        and all(isinstance(a, ast.Constant) for a in e.args) \
                        and e.args[0].value == b'\x00' and e.args[1].value == b'':
                    return ('replaceNul', self.ex(f.value))
                if f.attr == 'decode' and not e.args:
                    if not e.keywords:
                        return ('decode', self.ex(f.value))
                    if len(e.keywords) == 1 and e.keywords[0].arg == 'errors' \
                            and isinstance(e.keywords[0].value, ast.Constant) \
                            and e.keywords[0].value.value == 'backslashreplace':
                        return ('decodeBsr', self.ex(f.value))
            return ('unsupported', src(e))
        return ('unsupported', src(e))

    def cond(self, e):
        """(condition, swapped)"""
        if isinstance(e, ast.UnaryOp) and isinstance(e.op, ast.Not):
            c, sw = self.cond(e.operand)
            return c, not sw
        if isinstance(e, ast.Compare) and len(e.ops) == 1:
            op, a, b = e.ops[0], e.left, e.comparators[0]
            if isinstance(op, ast.Eq):
                return ('ne', self.ex(a), self.ex(b)), True
            if isinstance(op, ast.Is) and isinstance(b, ast.Constant) and b.value is None:
                return ('isNotNone', self.ex(a)), True
        return self.ex(e), False

    # ---- statements ----------------------------------------------------------------------------------------
    def class_call(self, v):
        return isinstance(v, ast.Call) and isinstance(v.func, ast.Name) and v.func.id in self.classes \
            and v.func.id not in self.vars and v.func.id not in self.alias and v.func.id not in (self.parser, self.events)

    def construct(self, idx, v):
        if v.keywords or not v.args or any(isinstance(a, ast.Starred) for a in v.args):
            return ('unsupported', src(v))
        return ('construct', idx, v.func.id, self.ex(v.args[0]), [self.ex(a) for a in v.args[1:]])

    def block(self, stmts):
        out = []
        for s in stmts:
            out += self.stmt(s)
        return out

    def stmt(self, s):
        if isinstance(s, ast.Pass):
            return []
        if isinstance(s, ast.Expr) and isinstance(s.value, ast.Constant) and isinstance(s.value.value, str):
            return []                                              # docstring
        if id(s) in self.alias_stmts:
            return []
        if isinstance(s, ast.Break) and self.in_loop:
            return [('brk',)]
        if isinstance(s, ast.Continue) and self.in_loop:
            return [('cont',)]
        if isinstance(s, ast.Return):
            if s.value is None:
                return [('ret', ('none',))]
            if self.class_call(s.value):
                c = self.construct(len(self.vars), s.value)
                if c[0] == 'unsupported':
                    return [c]
                v = self.fresh()
                return [c, ('ret', ('var', v))]
            return [('ret', self.ex(s.value))]
        if isinstance(s, ast.Expr):
            v = s.value
            if isinstance(v, ast.Call) and isinstance(v.func, ast.Attribute) and v.func.attr == 'append' \
                    and isinstance(v.func.value, ast.Name) and v.func.value.id in self.vars and len(v.args) == 1 \
                    and not v.keywords:
                return [('append', self.vars[v.func.value.id], self.ex(v.args[0]))]
            return [('unsupported', src(s))]
        if isinstance(s, ast.Assign) and len(s.targets) == 1:
            t, v = s.targets[0], s.value
            if isinstance(t, ast.Name) and t.id in self.vars:
                if self.class_call(v):
                    return [self.construct(self.vars[t.id], v)]
                if isinstance(v, ast.List) and not v.elts:
                    return [('newList', self.vars[t.id])]
                return [('assign', self.vars[t.id], self.ex(v))]
            if isinstance(t, ast.Attribute) and isinstance(t.value, ast.Name) and t.value.id in self.vars:
                return [('setField', self.vars[t.value.id], t.attr, self.ex(v))]
            if isinstance(t, ast.Subscript) and self.table_of(t.value) is not None and not isinstance(t.slice, ast.Slice):
                return [('store', self.table_of(t.value), self.ex(t.slice), self.ex(v))]
            return [('unsupported', src(s))]
        if isinstance(s, ast.AugAssign) and isinstance(s.target, ast.Name) and isinstance(s.op, ast.Add) \
                and s.target.id in self.vars:
            i = self.vars[s.target.id]
            return [('assign', i, ('cat', ('var', i), self.ex(s.value)))]
        if isinstance(s, ast.If):
            c, sw = self.cond(s.test)
            a, b = self.seq(self.block(s.body)), self.seq(self.block(s.orelse))
            return [('ite', c, b, a) if sw else ('ite', c, a, b)]
        if isinstance(s, ast.For) and not s.orelse and isinstance(s.target, ast.Name) and s.target.id in self.vars \
                and isinstance(s.iter, ast.Name) and s.iter.id == self.events and not s.type_comment:
            self.in_loop += 1
            body = self.seq(self.block(s.body))
            self.in_loop -= 1
            return [('forEvents', self.vars[s.target.id], body)]
        return [('unsupported', src(s))]

    @staticmethod
    def seq(stmts):
        if not stmts:
            return ('skip',)
        if len(stmts) == 1:
            return stmts[0]
        return ('seq', stmts[0], Fn.seq(stmts[1:]))

    def function(self):
        self.find_aliases()
        if self.rebinds_params:
            return ('unsupported', '%s rebinds a parameter' % self.fn.name)
        for n in ast.walk(self.fn):
            if n is not self.fn and isinstance(n, (ast.FunctionDef, ast.AsyncFunctionDef, ast.Lambda, ast.ClassDef,
                                                   ast.Global, ast.Nonlocal, ast.Yield, ast.YieldFrom, ast.Await,
                                                   ast.NamedExpr, ast.Try, ast.With, ast.Delete)):
                return ('unsupported', '%s uses %s' % (self.fn.name, type(n).__name__))
        return self.seq(self.block(self.fn.body))


# ----------------------------------------------------------------------------------------------------------------
# dataclasses and their __str__
# ----------------------------------------------------------------------------------------------------------------

def pieces(e, selfname):
    """an f-string (or a plain str constant) -> [('lit', s) | ('fld', name) | ('punsupported', src)]"""
    if isinstance(e, ast.Constant) and isinstance(e.value, str):
        return [('lit', e.value)] if e.value else []
    if not isinstance(e, ast.JoinedStr):
        return [('punsupported', src(e))]
    out = []
    for v in e.values:
        if isinstance(v, ast.Constant) and isinstance(v.value, str):
            if v.value:
                if out and out[-1][0] == 'lit':
                    out[-1] = ('lit', out[-1][1] + v.value)
                else:
                    out.append(('lit', v.value))
        elif isinstance(v, ast.FormattedValue) and v.conversion == -1 and v.format_spec is None \
                and isinstance(v.value, ast.Attribute) and isinstance(v.value.value, ast.Name) \
                and v.value.value.id == selfname:
            out.append(('fld', v.value.attr))
        else:
            out.append(('punsupported', src(v)))
    return out


def scond(e, selfname):
    def fld(n):
        return n.attr if isinstance(n, ast.Attribute) and isinstance(n.value, ast.Name) and n.value.id == selfname else None
    if isinstance(e, ast.Compare) and len(e.ops) == 1 and isinstance(e.ops[0], ast.IsNot) \
            and isinstance(e.comparators[0], ast.Constant) and e.comparators[0].value is None and fld(e.left):
        return ('isNotNone', fld(e.left))
    if fld(e):
        return ('truthy', fld(e))
    return ('cunsupported', src(e))


def str_def(fn):
    """`__str__` -> (base pieces, [(cond, pieces)])"""
    bad = ([('punsupported', 'def __str__: ' + '; '.join(src(s) for s in fn.body)[:300])], [])
    a = fn.args
    if len(a.args) != 1 or a.vararg or a.kwarg or a.kwonlyargs or a.posonlyargs or a.defaults or fn.decorator_list:
        return bad
    me = a.args[0].arg
    body = [s for s in fn.body if not (isinstance(s, ast.Expr) and isinstance(s.value, ast.Constant))
            and not isinstance(s, ast.Pass)]
    if len(body) == 1 and isinstance(body[0], ast.Return) and body[0].value is not None:
        return (pieces(body[0].value, me), [])
    if len(body) >= 2 and isinstance(body[0], ast.Assign) and len(body[0].targets) == 1 \
            and isinstance(body[0].targets[0], ast.Name) and body[0].targets[0].id != me \
            and isinstance(body[-1], ast.Return) and isinstance(body[-1].value, ast.Name) \
            and body[-1].value.id == body[0].targets[0].id:
        v = body[0].targets[0].id
        base = pieces(body[0].value, me)
        apps = []
        for s in body[1:-1]:
            if isinstance(s, ast.If) and not s.orelse and len(s.body) == 1 and isinstance(s.body[0], ast.AugAssign) \
                    and isinstance(s.body[0].op, ast.Add) and isinstance(s.body[0].target, ast.Name) \
                    and s.body[0].target.id == v:
                apps.append((scond(s.test, me), pieces(s.body[0].value, me)))
            else:
                return bad
        return (base, apps)
    return bad


def fval(e):
    if isinstance(e, ast.Constant):
        if e.value is None:
            return ('fnone',)
        if is_nat(e):
            return ('fint', e.value)
        if isinstance(e.value, str):
            return ('fstr', e.value)
    return None


def class_def(c, notes, dataclass_ok):
    """-> (name, [(field, default | None)], strdef)"""
    decos = [src(d) for d in c.decorator_list]
    if decos != ['dataclass'] or not dataclass_ok:
        notes.append('class %s: decorators %s (expected exactly @dataclass from dataclasses)' % (c.name, decos))
    if c.bases or c.keywords:
        notes.append('class %s has bases' % c.name)
    fields = []
    sd = None
    for s in c.body:
        if isinstance(s, ast.Expr) and isinstance(s.value, ast.Constant) or isinstance(s, ast.Pass):
            continue
        if isinstance(s, ast.AnnAssign) and isinstance(s.target, ast.Name) and s.simple:
            d = None
            if s.value is not None:
                d = fval(s.value)
                if d is None:
                    notes.append('class %s: default of %s not understood: %s' % (c.name, s.target.id, src(s.value)))
            fields.append((s.target.id, d))
        elif isinstance(s, ast.FunctionDef) and s.name == '__str__' and sd is None:
            sd = str_def(s)
        else:
            notes.append('class %s: member not understood: %s' % (c.name, src(s)[:120]))
    if not fields or fields[0] != ('ktraces', None):
        notes.append('class %s: the first field is not `ktraces` without default' % c.name)
    else:
        fields = fields[1:]
    if len({f for f, _ in fields}) != len(fields) or any(f == 'ktraces' for f, _ in fields):
        notes.append('class %s: a field is declared twice' % c.name)
    if sd is None:
        sd = ([('punsupported', 'class %s has no __str__' % c.name)], [])
    return (c.name, fields, sd)


# ----------------------------------------------------------------------------------------------------------------
# the module
# ----------------------------------------------------------------------------------------------------------------

def translate(repo):
    """-> (classes, funs, handlers, notes)"""
    with open(os.path.join(repo, 'pykdebugparser', 'trace_handlers', 'trace.py')) as fd:
        tree = ast.parse(fd.read())
    with open(os.path.join(repo, 'pykdebugparser', 'kevent.py')) as fd:
        ksrc = fd.read()
    notes = []
    enum_name, dataclass_ok = None, False
    class_nodes, fun_nodes, table, table_target = [], [], None, None
    for node in tree.body:
        if isinstance(node, ast.ImportFrom):
            for al in node.names:
                bound = al.asname or al.name
                if node.module == 'pykdebugparser.kevent' and al.name == 'DgbFuncQual' and node.level == 0:
                    enum_name = bound
                elif node.module == 'dataclasses' and al.name == 'dataclass' and bound == 'dataclass' and node.level == 0:
                    dataclass_ok = True
                elif node.module not in ('typing',):
                    notes.append('import not understood: %s' % src(node))
        elif isinstance(node, ast.Import):
            notes.append('import not understood: %s' % src(node))
        elif isinstance(node, ast.ClassDef):
            class_nodes.append(node)
        elif isinstance(node, ast.FunctionDef):
            fun_nodes.append(node)
        elif isinstance(node, ast.Assign) and len(node.targets) == 1 and isinstance(node.targets[0], ast.Name) \
                and node.targets[0].id == 'handlers' and table is None:
            table, table_target = node.value, node.targets[0]
        elif isinstance(node, ast.Expr) and isinstance(node.value, ast.Constant) and isinstance(node.value.value, str):
            pass
        else:
            notes.append('module-level statement not understood: %s' % src(node)[:160])
    quals = enum_values(ksrc, 'DgbFuncQual') if enum_name else {}
    if not enum_name:
        notes.append('DgbFuncQual is not imported from pykdebugparser.kevent')
    # every module-level name must be bound once (a second def / class / assignment would replace the first)
    names = [n.name for n in class_nodes + fun_nodes] + ['handlers', 'dataclass'] + ([enum_name] if enum_name else [])
    for n in sorted({x for x in names if names.count(x) > 1}):
        notes.append('module-level name bound twice: %s' % n)
    for n in ast.walk(tree):
        if isinstance(n, ast.Name) and isinstance(n.ctx, (ast.Store, ast.Del)) and n.id in names and n is not table_target:
            notes.append('%s is rebound at line %d' % (n.id, n.lineno))
        if isinstance(n, ast.Global):
            notes.append('global statement at line %d' % n.lineno)
    classes = [class_def(c, notes, dataclass_ok) for c in class_nodes]
    cnames = {c[0] for c in classes}
    funs = []
    for f in fun_nodes:
        a = f.args
        if len(a.args) != 2 or a.vararg or a.kwarg or a.kwonlyargs or a.posonlyargs or a.defaults or f.decorator_list \
                or a.args[0].arg == a.args[1].arg:
            funs.append((f.name, ('unsupported', 'def %s(%s): not (parser, events)' % (f.name, src(a)))))
        else:
            funs.append((f.name, Fn(f, cnames, quals, enum_name).function()))
    handlers = []
    if not isinstance(table, ast.Dict):
        notes.append('`handlers` is not a module-level dict display')
    else:
        d = {}
        fnames = {f.name for f in fun_nodes}
        for k, v in zip(table.keys, table.values):
            if isinstance(k, ast.Constant) and isinstance(k.value, str) and isinstance(v, ast.Name) and v.id in fnames:
                d[k.value] = v.id        # a repeated key: the last value wins, the first position stays (dict display)
            else:
                notes.append('handlers entry not understood: %s: %s' % (src(k) if k is not None else '**', src(v)))
        handlers = list(d.items())
    for n in ast.walk(tree):             # handlers[...] = … / handlers.update(…) / del handlers[…] anywhere
        if isinstance(n, ast.Subscript) and isinstance(n.ctx, (ast.Store, ast.Del)) and isinstance(n.value, ast.Name) \
                and n.value.id == 'handlers':
            notes.append('handlers[...] stored at line %d' % n.lineno)
        if isinstance(n, ast.Call) and isinstance(n.func, ast.Attribute) and isinstance(n.func.value, ast.Name) \
                and n.func.value.id == 'handlers':
            notes.append('handlers.%s(...) called at line %d' % (n.func.attr, n.lineno))
    return classes, funs, handlers, notes


# ----------------------------------------------------------------------------------------------------------------
# Lean rendering
# ----------------------------------------------------------------------------------------------------------------

def lean(t, S):
    k = t[0]
    L = lambda x: lean(x, S)  # noqa: E731
    if k in ('none', 'events', 'skip', 'brk', 'cont'):
        return '.' + k
    if k == 'int':
        return '(.int %d)' % t[1]
    if k == 'bytes':
        return '(.bytes [%s])' % ', '.join(str(x) for x in t[1])
    if k == 'str':
        return '(.str %s)' % S(t[1])
    if k == 'var':
        return '(.var %d)' % t[1]
    if k in ('index', 'dropFrom'):
        return '(.%s %s %d)' % (k, L(t[1]), t[2])
    if k == 'attr':
        return '(.attr %s %s)' % (L(t[1]), S(t[2]))
    if k in ('band', 'cat', 'ne', 'seq'):
        return '(.%s %s %s)' % (k, L(t[1]), L(t[2]))
    if k in ('joinData', 'replaceNul', 'decode', 'decodeBsr', 'isNotNone', 'ret'):
        return '(.%s %s)' % (k, L(t[1]))
    if k == 'tget':
        return '(.tget %s %s)' % (t[1], L(t[2]))
    if k == 'tgetD':
        return '(.tgetD %s %s %s)' % (t[1], L(t[2]), L(t[3]))
    if k == 'unsupported':
        return '(.unsupported %s)' % S(t[1])
    if k in ('assign', 'append'):
        return '(.%s %d %s)' % (k, t[1], L(t[2]))
    if k == 'newList':
        return '(.newList %d)' % t[1]
    if k == 'construct':
        return '(.construct %d %s %s [%s])' % (t[1], S(t[2]), L(t[3]), ', '.join(L(a) for a in t[4]))
    if k == 'setField':
        return '(.setField %d %s %s)' % (t[1], S(t[2]), L(t[3]))
    if k == 'store':
        return '(.store %s %s %s)' % (t[1], L(t[2]), L(t[3]))
    if k == 'ite':
        return '(.ite %s %s %s)' % (L(t[1]), L(t[2]), L(t[3]))
    if k == 'forEvents':
        return '(.forEvents %d %s)' % (t[1], L(t[2]))
    raise ValueError(k)


def lean_piece(p, S):
    return {'lit': '.lit %s', 'fld': '.fld %s', 'punsupported': '.unsupported %s'}[p[0]] % S(p[1])


def lean_scond(c, S):
    return '(%s)' % ({'isNotNone': '.isNotNone %s', 'truthy': '.truthy %s', 'cunsupported': '.unsupported %s'}[c[0]] % S(c[1]))


def lean_fval(d, S):
    if d is None:
        return 'none'
    return {'fnone': 'some .none', 'fint': 'some (.int %s)', 'fstr': 'some (.str %s)'}[d[0]] % \
        (() if d[0] == 'fnone' else (d[1] if d[0] == 'fint' else S(d[1])))


def lean_class(c, S):
    name, fields, (base, apps) = c
    fs = ', '.join('(%s, %s)' % (S(f), lean_fval(d, S)) for f, d in fields)
    ps = lambda l: '[' + ', '.join(lean_piece(p, S) for p in l) + ']'  # noqa: E731
    ap = ', '.join('(%s, %s)' % (lean_scond(c_, S), ps(l)) for c_, l in apps)
    return '{ name := %s, fields := [%s],\n    str := { base := %s, appends := [%s] } }' % (S(name), fs, ps(base), ap)


def generate(repo, write_if_changed, lean_str):
    classes, funs, handlers, notes = translate(repo)
    S = lean_str
    L = ['import KdVerif.Model.PyIRTr', 'namespace KdVerif.Gen.PyIRTr', 'open KdVerif.PyIRTr', '',
         '/-! The context-table handlers of pykdebugparser/trace_handlers/trace.py (the ten `handle_trace_*` functions, the',
         '    `__str__` methods of their dataclasses, the `handlers` dict), translated from the source text into the IR of',
         '    `Model/PyIRTr` (tools/gen_pyir_tr.py). -/', '']
    L.append('def classes : List ClassDef := [\n  ' + ',\n  '.join(lean_class(c, S) for c in classes) + ']\n')
    L.append('def funs : List FunDef := [\n  ' +
             ',\n  '.join('{ name := %s, body :=\n    %s }' % (S(n), lean(b, S)) for n, b in funs) + ']\n')
    L.append('def handlers : List (String × String) := [\n  ' +
             ',\n  '.join('(%s, %s)' % (S(k), S(v)) for k, v in handlers) + ']\n')
    L.append('def prog : Program := { classes := classes, funs := funs, handlers := handlers }\n')
    L.append('/-- What the translator could not express outside the bodies (must be empty). -/')
    L.append('def notes : List String := [' + ', '.join(S(n) for n in notes) + ']\n')
    L += ['end KdVerif.Gen.PyIRTr', '']
    return write_if_changed('PyIRTr.lean', '\n'.join(L))
