import KdVerif.Proofs.ReassemblyPaths
import KdVerif.Proofs.PyIRVn
import KdVerif.Gen.Decoders
import KdVerif.Gen.PyIRVn
/-
  C08 — paths and strings split over several records are reassembled exactly, once.

  Specification (`Spec/Reassembly`): the KERNEL-side encoders `encodeLookup`, `encodeGlobalString`,
  `encodeThreadName` (8/16/0-byte header, 32-byte NUL-padded payloads, START on the first record, END on the
  last, both on a single one, NONE in between) and the records they become (`lookupEvents` …) for an arbitrary
  thread, code id and timestamps.  Subject: `Model/Trace` — `vnodeGen` (= `TracesParser.vnode_generator`),
  `parseVnodes`, `mkWindow`, `hVfsLookup`, `globalLoop`/`hStringGlobal`, `hStringThreadname`, `feed`, `run`
  (tied to the real `TracesParser` by the correspondence sections `reassembly`, `syscall-paths`, `pipeline`);
  `vnodeGen`, `parseVnodes`, `parseVnode` are moreover tied to the SOURCE TEXT of `vnode_generator`, `parse_vnodes`,
  `parse_vnode` by translation (§6: `source_is_expected_ir`, `vnode_generator_ir_eq_model`, …).
  `bytes.decode()` is the parameter `dec`/`env.dec`: every theorem is about BYTES and holds for any decoder.

  All texts are arbitrary NUL-free byte strings of ANY length — 184 (the kernel's limit) plays no role.
-/
namespace KdVerif.C08
open KdVerif.Trace KdVerif.IR KdVerif.Reassembly

/-! ## 1. chunk arithmetic -/

/-- `chunks_join`.  The payloads of a lookup: at least one; every payload is a full 32-byte argument area; the
    first begins with the 8-byte little-endian vnode id; the rest of the first payload followed by all later
    payloads, NULs stripped, is exactly the path — for every NUL-free path of any length. -/
theorem chunks_join (vnode : Nat) (p : Bytes) (hp : NulFree p) :
    ∃ c cs, encodeLookup vnode p = c :: cs ∧ (∀ x ∈ c :: cs, x.length = 32) ∧ c.take 8 = toLE 8 vnode ∧
      stripNul (c.drop 8 ++ cs.flatten) = p := by
  obtain ⟨c, cs, h1, h2, h3⟩ := chunks_join_nulFree (toLE 8 vnode) p (by simp [toLE_length]) hp
  rw [toLE_length] at h2 h3
  refine ⟨c, cs, h1, ?_, h2, h3⟩
  rw [← h1]
  exact splitChunks_length _ _ (by simp [toLE_length])

/-- `stripNul (p ++ zeros) = p` for NUL-free `p` (the padding of the last record disappears, nothing else). -/
theorem stripNul_padding (p : Bytes) (n : Nat) (hp : NulFree p) : stripNul (p ++ List.replicate n 0) = p := by
  rw [stripNul_append, stripNul_replicate_zero, List.append_nil, stripNul_of_nulFree p hp]

/-- Same for strings behind the 16-byte header and for thread names (no header). -/
theorem chunks_join_string (debugid strId : Nat) (s : Bytes) (hs : NulFree s) :
    ∃ c cs, encodeGlobalString debugid strId s = c :: cs ∧ (∀ x ∈ c :: cs, x.length = 32) ∧
      c.take 16 = toLE 8 debugid ++ toLE 8 strId ∧ stripNul (c.drop 16 ++ cs.flatten) = s := by
  obtain ⟨c, cs, h1, h2, h3⟩ := chunks_join_nulFree (toLE 8 debugid ++ toLE 8 strId) s (by simp [toLE_length]) hs
  simp only [List.length_append, toLE_length] at h2 h3
  refine ⟨c, cs, h1, ?_, h2, h3⟩
  rw [← h1]
  exact splitChunks_length _ _ (by simp [toLE_length])

theorem chunks_join_name (s : Bytes) (hs : NulFree s) :
    (∀ x ∈ encodeThreadName s, x.length = 32) ∧ stripNul (encodeThreadName s).flatten = s := by
  obtain ⟨c, cs, h1, _, h3⟩ := chunks_join_nulFree [] s (by simp) hs
  refine ⟨splitChunks_length _ _ (by simp), ?_⟩
  simp only [encodeThreadName, h1]
  simpa using h3

/-! ## 2. the reassembly loops on encoded records -/

/-- `vnode_generator` on the records of one kernel-encoded lookup yields exactly one `Vnode`: its `ktraces` are
    exactly those records, its vnode id is the id in the FIRST record, its path is `dec` of exactly the original
    bytes (if `dec` raises, `vnode_generator` raises the same).  Every NUL-free path, any length. -/
theorem vnodeGen_encode (dec : Bytes → Except PyErr String) (tid eid : Nat) (ts : Nat → Nat) (vnode : Nat)
    (p : Bytes) (hv : vnode < 2 ^ 64) (hp : NulFree p) :
    vnodeGen dec (lookupEvents tid eid ts vnode p) [] 0 [] =
      (dec p).map fun s => [⟨lookupEvents tid eid ts vnode p, vnode, s⟩] := by
  have := vnodeGen_lookupEvents dec tid eid ts vnode p hv hp []
  rw [List.append_nil] at this
  rw [this]
  cases dec p <;> rfl

/-- Several lookups one after the other come out one `Vnode` each, in order. -/
theorem vnodeGen_encode_many (dec : Bytes → Except PyErr String) (tid eid : Nat) (ls : List LookupSpec)
    (ss : List String) (hg : GoodSpecs ls) (hd : Decoded dec ls ss) :
    vnodeGen dec (encodeLookups tid eid ls) [] 0 [] = .ok (vnodesOf tid eid ls ss) :=
  vnodeGen_encodeLookups dec tid eid ls ss hg hd

/-- The `TRACE_STRING_GLOBAL` loop (which skips records whose code differs from the window's first record) on
    ANY window `w` whose records of code `eid` are the records of one kernel-encoded string — records of other
    codes may sit anywhere in between —: debug id and string id of the FIRST record, exactly the string's records
    collected, and the collected bytes strip to exactly the original text. -/
theorem globalLoop_encode (tid eid : Nat) (ts : Nat → Nat) (debugid strId : Nat) (s : Bytes)
    (hd : debugid < 2 ^ 64) (hi : strId < 2 ^ 64) (hs : NulFree s) (w : List Kevent)
    (hw : w.filter (fun e => e.eventid == eid) = globalStringEvents tid eid ts debugid strId s) :
    ∃ vstr, globalLoop eid w 0 0 [] [] =
        (debugid, strId, vstr, globalStringEvents tid eid ts debugid strId s) ∧ stripNul vstr = s := by
  obtain ⟨vstr, h1, h2⟩ := globalLoop_globalStringEvents tid eid ts debugid strId s hd hi []
  rw [List.append_nil] at h1
  exact ⟨vstr, by rw [globalLoop_filter, hw, h1], by rw [h2, stripNul_of_nulFree s hs]⟩

/-- The whole handler on such a window (it begins with a record of code `eid`; unrelated records of OTHER codes
    in between are ignored and are not among the trace's `ktraces`): one trace with exactly `dec s`, the string id
    of the first record; `global_strings[id]` is set to it (unless empty). -/
theorem global_string_encode (env : Env) (tabs : Tabs) (t eid : Nat) (ts : Nat → Nat) (debugid strId : Nat)
    (s : Bytes) (hd : debugid < 2 ^ 64) (hi : strId < 2 ^ 64) (hs : NulFree s) (str : String)
    (hdec : env.dec s = .ok str) (w : List Kevent) (hne : w ≠ []) (hfirst : (firstOf w).eventid = eid)
    (hw : w.filter (fun e => e.eventid == eid) = globalStringEvents t eid ts debugid strId s) :
    hStringGlobal env tabs w =
      .ok (some (mk "TRACE_STRING_GLOBAL" (globalStringEvents t eid ts debugid strId s)
              s!"New global string: \"{str}\", id: {strId}"),
           if str ≠ "" then { tabs with globalStrings := tabs.globalStrings.set strId str } else tabs) :=
  hStringGlobal_encoded env tabs t eid ts debugid strId s hd hi hs str hdec w hne hfirst hw

/-- Thread names (`TRACE_STRING_THREADNAME` and `_PREV`) on such a window: the joined payloads of the records
    of the window's own code strip to exactly the name; the handler yields one trace (its `ktraces` are the whole
    window) with `dec` of it and records it for the thread. -/
theorem thread_name_encode (env : Env) (tabs : Tabs) (key label : String) (t eid : Nat) (ts : Nat → Nat)
    (s : Bytes) (hs : NulFree s) (str : String) (hdec : env.dec s = .ok str)
    (w : List Kevent) (hne : w ≠ []) (hfirst : (firstOf w).eventid = eid)
    (hw : w.filter (fun e => e.eventid == eid) = threadNameEvents t eid ts s) :
    stripNul (joinData w) = s ∧
    hStringThreadname key label env tabs w =
      .ok (some (mk key w (label ++ str)), { tabs with tidsNames := tabs.tidsNames.set t str }) :=
  ⟨by rw [joinData_threadNameEvents t eid ts s w hfirst hw, stripNul_of_nulFree s hs],
   hStringThreadname_encoded env tabs key label t eid ts s hs str hdec w hne hfirst hw⟩

/-! ## 3. one trace per text through the whole parser -/

/-- Invariant of the pairing tables assumed of the starting state: every stored list is non-empty, begins with
    a record of its key's code, holds records of its key's thread and domain only.  The empty tables satisfy
    it and every `feed` keeps it (`wf_reachable`), so every reachable state does. -/
abbrev WF (env : Env) (s : Trace.PState) : Prop := Reassembly.WF env.domOf s.pairing

theorem wf_start (env : Env) (tabs : Tabs) : WF env { pairing := Pairing.PState.empty, tabs := tabs } :=
  wf_empty env.domOf

theorem wf_reachable (env : Env) (s : Trace.PState) (stream : List Kevent) (h : WF env s) :
    WF env (run env s stream).2.2 := by
  induction stream generalizing s with
  | nil => exact h
  | cons x xs ih =>
    rw [run_cons]
    cases hf : feed env s x with
    | error err => exact h
    | ok v =>
      obtain ⟨r, s'⟩ := v
      exact ih s' (by unfold WF; rw [feed_pairing env s s' x r hf]; exact wf_step _ _ _ h)

/-- The `VFS_LOOKUP` records of thread `t`. -/
def lookupOf (env : Env) (t : Nat) (x : Kevent) : Bool := x.tid == t && isLookup env x

/-- The traces that begin with such a record (the lookup traces of thread `t`; a trace for a continuation
    record would be one of them). -/
def lookupTraceOf (env : Env) (t : Nat) (o : TraceOut) : Bool := lookupOf env t (firstOf o.events)

/-- `lookup_one_trace`.  Let the records of ONE kernel-encoded lookup (any NUL-free path of any length, any
    vnode id < 2^64, any timestamps) arrive on thread `t`, anywhere inside a stream `stream` whose OTHER records
    are arbitrary except that none of them is a `VFS_LOOKUP` record of thread `t`
    (`stream.filter (lookupOf env t) = the records of the lookup`): records of other threads — including their
    own lookups, STARTs, ENDs —, same-thread records of any other code (enclosing syscall START/END, nested
    operations, trace-domain records, undecodable codes) may be interleaved at will, before, between and after
    the records.  From ANY well-formed state (in particular the empty one; an older unfinished lookup of `t`
    is simply replaced), if the stream raises no exception, the output contains EXACTLY ONE trace that begins
    with a lookup record of thread `t`; it is named `VFS_LOOKUP`, its text is `lookup("<dec p>"), vnode id: <v>`,
    and the lookup records among its `ktraces` are exactly the records of this lookup.  In particular NO
    continuation record produced a trace.
    (Not allowed in between, and a legitimate reason for a different outcome: another `VFS_LOOKUP` record of
    the same thread, e.g. a second lookup's START — see `nested_lookup_start_breaks`.) -/
theorem lookup_one_trace (env : Env) (t eid : Nat) (hcode : env.codes eid = some "VFS_LOOKUP")
    (ts : Nat → Nat) (vnode : Nat) (p : Bytes) (hv : vnode < 2 ^ 64) (hp : NulFree p)
    (str : String) (hdec : env.dec p = .ok str)
    (s : Trace.PState) (hwf : WF env s) (stream : List Kevent)
    (hstream : stream.filter (lookupOf env t) = lookupEvents t eid ts vnode p)
    (herr : (run env s stream).2.1 = none) :
    ∃ tr, (run env s stream).1.filter (lookupTraceOf env t) = [tr] ∧
      tr.name = "VFS_LOOKUP" ∧ tr.text = .ok s!"lookup(\"{str}\"), vnode id: {vnode}" ∧
      tr.events.filter (isLookup env) = lookupEvents t eid ts vnode p := by
  obtain ⟨c, cs, hsp⟩ := splitChunks_cons (toLE 8 vnode) p
  have hshape := chunkEvents_shape t eid ts c cs
  have hle : lookupEvents t eid ts vnode p = chunkEvents t eid ts (c :: cs) := by
    simp only [lookupEvents, encodeLookup, hsp]
  rw [← hle] at hshape
  exact run_chunks env (reasm_lookup env t eid hcode ts vnode p hv hp str hdec) stream s hshape
    (lookupEvents_keys env t eid hcode ts vnode p) hstream hwf herr

/-- The records of thread `t` that carry the code `eid` (of the string / name being reassembled). -/
def sameCodeOf (t eid : Nat) (x : Kevent) : Bool := x.tid == t && x.eventid == eid

/-- The traces that begin with such a record. -/
def sameCodeTraceOf (t eid : Nat) (o : TraceOut) : Bool := sameCodeOf t eid (firstOf o.events)

/-- `global_string_one_trace`.  The records of one kernel-encoded global string (code `eid`) on thread `t`,
    inside a stream whose other records are arbitrary EXCEPT that none of them is a record of thread `t` with the
    same event id `eid` (`stream.filter (sameCodeOf t eid) = the string's records`).  Allowed in between, before
    and after: anything of other threads; same-thread records of every other code — in particular other
    trace-domain records of the same thread (`TRACE_DATA_*`, `TRACE_STRING_PROC_EXIT`, a whole thread name, a
    START…END pair of another trace-domain code, nested or enclosing), which do land in the string's window but
    are skipped by the handler.  Not allowed (and a legitimate reason for a different outcome, see
    `same_code_string_in_between_breaks`): another record of the SAME code on the same thread, e.g. a second
    global string started in between — its START re-opens the key.
    Then, from any well-formed state, if the stream raises no exception: exactly one trace begins with a record
    of code `eid` of thread `t`; it is `New global string: "<dec s>", id: <id of the first record>` and its
    `ktraces` are exactly the string's records; no continuation record produced a trace. -/
theorem global_string_one_trace (env : Env) (t eid : Nat) (hcode : env.codes eid = some "TRACE_STRING_GLOBAL")
    (ts : Nat → Nat) (debugid strId : Nat) (sb : Bytes) (hd : debugid < 2 ^ 64) (hi : strId < 2 ^ 64)
    (hs : NulFree sb) (str : String) (hdec : env.dec sb = .ok str)
    (s : Trace.PState) (hwf : WF env s) (stream : List Kevent)
    (hstream : stream.filter (sameCodeOf t eid) = globalStringEvents t eid ts debugid strId sb)
    (herr : (run env s stream).2.1 = none) :
    ∃ tr, (run env s stream).1.filter (sameCodeTraceOf t eid) = [tr] ∧
      tr.name = "TRACE_STRING_GLOBAL" ∧ tr.text = .ok s!"New global string: \"{str}\", id: {strId}" ∧
      tr.events = globalStringEvents t eid ts debugid strId sb := by
  obtain ⟨c, cs, hsp⟩ := splitChunks_cons (toLE 8 debugid ++ toLE 8 strId) sb
  have hshape := chunkEvents_shape t eid ts c cs
  have hle : globalStringEvents t eid ts debugid strId sb = chunkEvents t eid ts (c :: cs) := by
    simp only [globalStringEvents, encodeGlobalString, hsp]
  rw [← hle] at hshape
  have hdom : env.domOf eid = true := by simp [Env.domOf, hcode, traceDomainNames]
  exact run_chunks env (reasm_globalString env t eid hcode ts debugid strId sb hd hi hs str hdec) stream s hshape
    (chunkEvents_keys_dom env t eid hdom ts _) hstream hwf herr

/-- `thread_name_one_trace`, for `TRACE_STRING_THREADNAME` (`prev = false`) and `…_PREV` (`prev = true`): same
    side condition (no other record of thread `t` with the name's own event id); the trace's `ktraces` are the
    whole window, of which the records of code `eid` are exactly the name's records. -/
theorem thread_name_one_trace (env : Env) (t eid : Nat) (prev : Bool)
    (hcode : env.codes eid = some (if prev then "TRACE_STRING_THREADNAME_PREV" else "TRACE_STRING_THREADNAME"))
    (ts : Nat → Nat) (sb : Bytes) (hs : NulFree sb) (str : String) (hdec : env.dec sb = .ok str)
    (s : Trace.PState) (hwf : WF env s) (stream : List Kevent)
    (hstream : stream.filter (sameCodeOf t eid) = threadNameEvents t eid ts sb)
    (herr : (run env s stream).2.1 = none) :
    ∃ tr, (run env s stream).1.filter (sameCodeTraceOf t eid) = [tr] ∧
      tr.name = (if prev then "TRACE_STRING_THREADNAME_PREV" else "TRACE_STRING_THREADNAME") ∧
      tr.text = .ok ((if prev then "Thread terminated name: " else "New thread name: ") ++ str) ∧
      tr.events.filter (fun e => e.eventid == eid) = threadNameEvents t eid ts sb := by
  obtain ⟨c, cs, hsp⟩ := splitChunks_cons [] sb
  have hshape := chunkEvents_shape t eid ts c cs
  have hle : threadNameEvents t eid ts sb = chunkEvents t eid ts (c :: cs) := by
    simp only [threadNameEvents, encodeThreadName, hsp]
  rw [← hle] at hshape
  have hdom : env.domOf eid = true := by cases prev <;> simp [Env.domOf, hcode, traceDomainNames]
  exact run_chunks env (reasm_threadName env t eid prev hcode ts sb hs str hdec) stream s hshape
    (chunkEvents_keys_dom env t eid hdom ts _) hstream hwf herr

/-! ## 4. lookups inside a syscall window -/

/-- `syscall_paths_partial`.  A window (START of the syscall, …, END of the syscall — in fact ANY event list)
    whose `VFS_LOOKUP` records are the records of the kernel-encoded lookups `ls`, one lookup after the other,
    with any records of other codes anywhere in between: the decoders see `lookups = [(dec p₁, v₁), …,
    (dec pₙ, vₙ)]` in lookup order, and the second-phase lookup of `link`/`rename`/… (`restFirst`) is
    `lookups[1]`, PROVIDED no record of a later lookup is VALUE-equal to a record of the first.

    What is missing for the full statement: that proviso.  `[e for e in events if e not in old.ktraces]`
    compares records by value, so a later lookup whose records are byte-identical to the first's (same path,
    same vnode, same timestamps) is removed with it: finding K5, `k5_identical_lookups` below. -/
theorem syscall_paths_partial (env : Env) (tabs : Tabs) (events : List Kevent) (tid eid : Nat)
    (ls : List LookupSpec) (ss : List String) (hg : GoodSpecs ls) (hd : Decoded env.dec ls ss)
    (hev : events.filter (isLookup env) = encodeLookups tid eid ls)
    (hk5 : ∀ l rest, ls = l :: rest →
      ∀ e ∈ encodeLookups tid eid rest, e ∉ lookupEvents tid eid l.ts l.vnode l.path) :
    ∃ W, mkWindow env tabs events = .ok W ∧ W.lookups = lookupsOf ls ss ∧
      W.restFirst = (lookupsOf ls ss)[1]? ∧
      W.startArgs = (firstOf events).values ∧ W.endArgs = (lastOf events).values ∧
      W.startTid = (firstOf events).tid ∧ W.startData = (firstOf events).data :=
  mkWindow_encoded env tabs events tid eid ls ss hg hd hev hk5

/-- The proviso holds whenever the records carry distinct timestamps (as records of one CPU's buffer do):
    here, when every timestamp of a later lookup differs from every timestamp of the first. -/
theorem k5_proviso_of_timestamps (tid eid : Nat) (l : LookupSpec) (rest : List LookupSpec)
    (h : ∀ e ∈ encodeLookups tid eid rest, ∀ e' ∈ lookupEvents tid eid l.ts l.vnode l.path,
      e.timestamp ≠ e'.timestamp) :
    ∀ e ∈ encodeLookups tid eid rest, e ∉ lookupEvents tid eid l.ts l.vnode l.path :=
  fun e he hin => h e he e hin rfl

/-! ### concrete witnesses -/

def asciiDec (b : Bytes) : Except PyErr String := .ok (String.ofList (b.map Char.ofNat))
def demoHost : Host :=
  { errno := fun _ => none, signals := fun _ => none, addressFamily := fun _ => none, socketKind := fun _ => none,
    solSocket := 0 }
def demoTables : Tables :=
  { enums := [], dicts := [], openAcc := [], openDefault := ⟨"", 0⟩, openShown := [], statMembers := [], sIFMT := 0 }
/-- code 4 = VFS_LOOKUP, 8 = BSC_rename (no decoder loaded), 12 = TRACE_STRING_GLOBAL, 16 = TRACE_STRING_THREADNAME -/
def demoCodes : Nat → Option String := fun k =>
  if k = 4 then some "VFS_LOOKUP" else if k = 8 then some "BSC_rename" else if k = 12 then some "TRACE_STRING_GLOBAL"
  else if k = 16 then some "TRACE_STRING_THREADNAME" else none
def demoEnv : Env := { codes := demoCodes, host := demoHost, tables := demoTables, decoders := [], dec := asciiDec }
def zeros32 : Bytes := List.replicate 32 0
/-- "/tmp/" ++ 30 × 'a' : 35 bytes = 24 + 11 → two records -/
def path35 : Bytes := [47, 116, 109, 112, 47] ++ List.replicate 30 97
/-- 24 + 32 + 32 bytes exactly: three records, the last one without any padding -/
def path88 : Bytes := List.replicate 88 98
def tsFrom (n : Nat) : Nat → Nat := fun i => n + i

/-- K5 (negative witness, in the model): `rename("/a", "/a")` whose two lookups are byte-identical (same
    vnode, same timestamps): both are reassembled, but the second-phase lookup finds nothing — the second path
    argument is shown empty. -/
theorem k5_identical_lookups :
    let evs := mkEvent 1 7 8 1 zeros32 :: lookupEvents 7 4 (tsFrom 10) 5 [47, 97] ++
      lookupEvents 7 4 (tsFrom 10) 5 [47, 97] ++ [mkEvent 30 7 8 2 zeros32]
    ((mkWindow demoEnv {} evs).toOption.map fun W => (W.lookups, W.restFirst)) =
      some ([⟨"/a", 5⟩, ⟨"/a", 5⟩], none) := by decide

/-- … with distinct timestamps the same window is fine. -/
example :
    let evs := mkEvent 1 7 8 1 zeros32 :: lookupEvents 7 4 (tsFrom 10) 5 [47, 97] ++
      lookupEvents 7 4 (tsFrom 20) 5 [47, 97] ++ [mkEvent 30 7 8 2 zeros32]
    ((mkWindow demoEnv {} evs).toOption.map fun W => (W.lookups, W.restFirst)) =
      some ([⟨"/a", 5⟩, ⟨"/a", 5⟩], some ⟨"/a", 5⟩) := by decide

/-- Non-vacuity of `vnodeGen_encode`: 35-byte and 88-byte paths are NUL-free, encode to 2 and 3 records
    with qualifiers START, END / START, NONE, END; a 24-byte path to ONE record qualified START|END. -/
example : ((lookupEvents 7 4 (tsFrom 10) 0x1122334455667788 path35).map (·.qual)) = [1, 2] ∧
    ((lookupEvents 7 4 (tsFrom 10) 9 path88).map (·.qual)) = [1, 0, 2] ∧
    ((lookupEvents 7 4 (tsFrom 10) 9 (List.replicate 24 99)).map (·.qual)) = [3] ∧
    ((lookupEvents 7 4 (tsFrom 10) 9 (List.replicate 25 99)).map (·.qual)) = [1, 2] ∧
    ((lookupEvents 7 4 (tsFrom 10) 9 []).map (·.data)) = [toLE 8 9 ++ List.replicate 24 0] := by decide

example : NulFree path35 ∧ NulFree path88 := by
  constructor <;> intro b hb <;> simp [path35, path88] at hb <;> omega

/-- Non-vacuity of `lookup_one_trace`: thread 7's 3-record lookup with, in between, a lookup of thread 9
    (its START, its END), an enclosing `BSC_rename` START/END of thread 7, an undecodable same-thread record and
    a trace-domain record of thread 7; from the empty state; no exception; exactly one lookup trace of thread 7
    (and one of thread 9). -/
def demoStream : List Kevent :=
  match lookupEvents 7 4 (tsFrom 10) 77 path88, lookupEvents 9 4 (tsFrom 40) 99 path35 with
  | [a, b, c], [x, y] =>
    [mkEvent 1 7 8 1 zeros32, a, x, mkEvent 2 7 20 0 zeros32, b, y, mkEvent 3 7 16 3 zeros32, c, mkEvent 4 7 8 2 zeros32]
  | _, _ => []

example : demoStream.filter (lookupOf demoEnv 7) = lookupEvents 7 4 (tsFrom 10) 77 path88 ∧
    (run demoEnv { pairing := Pairing.PState.empty, tabs := {} } demoStream).2.1 = none ∧
    ((run demoEnv { pairing := Pairing.PState.empty, tabs := {} } demoStream).1.map
        fun o => (o.name, o.events.map (·.timestamp), o.text.toOption)) =
      [("VFS_LOOKUP", [40, 41], some ("lookup(\"/tmp/" ++ String.ofList (List.replicate 30 'a') ++ "\"), vnode id: 99")),
       ("TRACE_STRING_THREADNAME", [3], some "New thread name: "),
       ("VFS_LOOKUP", [10, 2, 11, 12], some ("lookup(\"" ++ String.ofList (List.replicate 88 'b') ++ "\"), vnode id: 77"))] := by
  decide

/-- A second lookup's START on the same thread between the records legitimately breaks it (the kernel never
    does this: a thread's lookups are sequential): the first lookup is never reported. -/
theorem nested_lookup_start_breaks :
    let s := match lookupEvents 7 4 (tsFrom 10) 77 path35, lookupEvents 7 4 (tsFrom 40) 99 [47, 98] with
      | [a, b], [x] => [a, { x with qual := 1 }, b]
      | _, _ => []
    ((run demoEnv { pairing := Pairing.PState.empty, tabs := {} } s).1.map fun o => o.events.map (·.timestamp)) =
      [[40, 11]] := by decide

/-- 40 × 'A': with the 16-byte header two records; 40 × 'n' as a thread name: two records. -/
def text40 (b : Nat) : Bytes := List.replicate 40 b

/-- code 24 = TRACE_DATA_THREAD_TERMINATE, 28 = TRACE_STRING_PROC_EXIT (both trace-domain), 32 = a START/END
    trace-domain code (TRACE_DATA_EXEC used as a pair) -/
def demoCodes2 : Nat → Option String := fun k =>
  if k = 12 then some "TRACE_STRING_GLOBAL" else if k = 16 then some "TRACE_STRING_THREADNAME"
  else if k = 24 then some "TRACE_DATA_THREAD_TERMINATE" else if k = 28 then some "TRACE_STRING_PROC_EXIT"
  else if k = 32 then some "TRACE_DATA_EXEC" else none
def demoEnv2 : Env := { demoEnv with codes := demoCodes2 }

/-- Non-vacuity of the strengthened `global_string_one_trace` / `thread_name_one_trace`: between the two records
    of a global string of thread 7 fall, on the SAME thread, a `TRACE_DATA_THREAD_TERMINATE` whose argument bytes
    are "DCBA", a `TRACE_STRING_PROC_EXIT`, a START…END pair of another trace-domain code and a WHOLE two-record
    thread name; the string and the name both come out exact, the string's ktraces are its two records only. -/
def demoStream2 : List Kevent :=
  match globalStringEvents 7 12 (tsFrom 10) 0 5 (text40 65), threadNameEvents 7 16 (tsFrom 40) (text40 110) with
  | [a, b], [x, y] =>
    [a, mkEvent 1 7 24 0 (toLE 8 0x41424344 ++ List.replicate 24 0), mkEvent 2 7 28 0 (text40 120 |>.take 32),
     mkEvent 3 7 32 1 zeros32, x, mkEvent 4 7 32 2 zeros32, y, b]
  | _, _ => []

example : demoStream2.filter (sameCodeOf 7 12) = globalStringEvents 7 12 (tsFrom 10) 0 5 (text40 65) ∧
    demoStream2.filter (sameCodeOf 7 16) = threadNameEvents 7 16 (tsFrom 40) (text40 110) ∧
    (run demoEnv2 { pairing := Pairing.PState.empty, tabs := {} } demoStream2).2.1 = none ∧
    (((run demoEnv2 { pairing := Pairing.PState.empty, tabs := {} } demoStream2).1.filter
        fun o => sameCodeTraceOf 7 12 o || sameCodeTraceOf 7 16 o).map
        fun o => (o.name, o.events.map (·.timestamp), o.text.toOption)) =
      [("TRACE_STRING_THREADNAME", [40, 4, 41], some ("New thread name: " ++ String.ofList (List.replicate 40 'n'))),
       ("TRACE_STRING_GLOBAL", [10, 11],
        some ("New global string: \"" ++ String.ofList (List.replicate 40 'A') ++ "\", id: 5"))] := by
  decide

/-- Another string of the SAME code started on the same thread between the records legitimately breaks it (its
    START re-opens the key): the first string is never reported, the second swallows the first's last record. -/
theorem same_code_string_in_between_breaks :
    let s := match globalStringEvents 7 12 (tsFrom 10) 0 5 (text40 65), globalStringEvents 7 12 (tsFrom 40) 0 6 (text40 66) with
      | [a, b], [x, y] => [a, x, b, y]
      | _, _ => []
    ((run demoEnv2 { pairing := Pairing.PState.empty, tabs := {} } s).1.map
        fun o => (o.events.map (·.timestamp), o.text.toOption)) =
      [([40, 11], some ("New global string: \"" ++ String.ofList (List.replicate 16 'B' ++ List.replicate 24 'A') ++
          "\", id: 6"))] := by decide

/-! ## 5. which decoder shows which lookup at which parameter position

  Vocabulary (`Proofs/ReassemblyPaths`): `PathSrc` = how a decoder picks the path of a parameter —
  `first` (`parse_vnode(events).path`: lookup 0, '' when there is none), `second` (the second-phase lookup
  `parse_vnode([e for e in events if e not in first.ktraces]).path`: lookup 1 under the K5 proviso),
  `nth i n` (`nodes[i].path if len(nodes) > n else ''`), `last` (`nodes[-1].path if nodes else ''`), `spawn`
  (`vnodes[3].path if len(vnodes) >= 6 else (vnodes[0].path if vnodes else '')`); `src.toExpr` its IR expression,
  `src.shown lookups restFirst` the path it denotes, `quoted e` = `"{e}"`; `pathParams d` = the parameters of `d`
  (position, condition, expression with the constructor arguments inlined) that read lookups in any way;
  `lockstep` walks the decoder table and the table below together. -/

/-- THE TABLE: decoder key ↦ [(parameter position, which lookup it shows)], in the order of the generated
    decoder table.  E.g. `rename(old, new)` shows lookup 0 at position 0 and the second-phase lookup (lookup 1)
    at position 1; `renameat(fd, old, fd2, new)` shows lookup 0 at position 1 (when there is one) and lookup 1 at
    position 3 (when there are two); `symlinkat(target, fd, linkpath)` shows lookup 0 at position 0 only when there
    are two lookups and the LAST lookup at position 2; `posix_spawn(pid, path, …)` shows lookup 3 when there are
    ≥ 6 lookups (the first three being stdin/stdout/stderr), else lookup 0. -/
def pathTableA : List (Nat × List (Nat × PathSrc)) := [
  (23225981780214637428, [(0, .first)]),  -- BSC_acct
  (23225981780399582827, [(0, .first), (1, .second)]),  -- BSC_link
  (23225981780450370926, [(0, .first)]),  -- BSC_open
  (5945851335743621065074, [(0, .first)]),  -- BSC_chdir
  (5945851335743621656420, [(0, .first)]),  -- BSC_chmod
  (5945851335743621789550, [(0, .first)]),  -- BSC_chown
  (5945851335756690453612, [(0, .first)]),  -- BSC_fsctl
  (5945851335760751650408, [(0, .first)]),  -- BSC_getfh
  (5945851335786621069682, [(0, .first)]),  -- BSC_mkdir
  (5945851335786621726564, [(0, .first)]),  -- BSC_mknod
  (5945851335786689293940, [(0, .first), (1, .second)]),  -- BSC_mount
  (5945851335808129460594, [(0, .first)]),  -- BSC_rmdir
  (1522137941948146477527923, [(0, .first)]),  -- BSC_access
  (1522137941950367227932532, [(0, .first)]),  -- BSC_chroot
  (1522137941960241189975918, [(0, .first)]),  -- BSC_lchown
  (1522137941960267060175220, [(1, .nth 0 0), (3, .nth 1 1)]),  -- BSC_linkat
  (1522137941961375027390063, [(0, .first)]),  -- BSC_mkfifo
  (1522137941963595509031284, [(1, .first)]),  -- BSC_openat
  (1522137941966846949420389, [(0, .first), (1, .second)]),  -- BSC_rename
  (1522137941966847084555109, [(0, .first)]),  -- BSC_revoke
  (1522137941968010668684852, [(0, .first)]),  -- BSC_stat64
  (1522137941968010668697203, [(0, .first)]),  -- BSC_statfs
  (1522137941970184105979499, [(0, .first)]),  -- BSC_unlink
  (1522137941970209825711475, [(0, .first)]),  -- BSC_utimes
  (389667313139293958759868275, [(0, .first)]),  -- BSC_chflags
  (389667313140150538264142196, [(1, .first)]),  -- BSC_fstatat
  (389667313141839388124395060, [(0, .first)]),  -- BSC_lstat64
  (389667313142111998422704500, [(1, .first)]),  -- BSC_mkdirat
  (389667313143816280150208107, [(1, .first)]),  -- BSC_symlink
  (389667313144367135526841972, [(0, .first)]),  -- BSC_unmount
  (99754832163874021053309411700, [(1, .first)]),  -- BSC_fchmodat
  (99754832163874021062034219380, [(1, .first)]),  -- BSC_fchownat
  (99754832163946654838451106930, [(0, .first)])  -- BSC_getxattr
]

def pathTableB : List (Nat × List (Nat × PathSrc)) := [
  (99754832164594047216199364198, [(0, .first)]),  -- BSC_pathconf
  (99754832164671728863718634604, [(0, .first)]),  -- BSC_quotactl
  (99754832164739267396431867499, [(0, .first)]),  -- BSC_readlink
  (99754832164739281677214638452, [(1, .nth 0 0), (3, .nth 1 1)]),  -- BSC_renameat
  (99754832164811325050448275059, [(0, .first)]),  -- BSC_searchfs
  (99754832164811345966906242162, [(0, .first)]),  -- BSC_setxattr
  (99754832164815547183739909684, [(0, .first)]),  -- BSC_statfs64
  (99754832164887063792235672677, [(0, .first)]),  -- BSC_truncate
  (99754832164957976756165637221, [(0, .first)]),  -- BSC_undelete
  (99754832164957985569472471412, [(1, .first)]),  -- BSC_unlinkat
  (25537237033951603856046436868468, [(1, .first)]),  -- BSC_faccessat
  (25537237033952905675678822970932, [(1, .first)]),  -- BSC_fstatat64
  (25537237034062865303613625103474, [(0, .first)]),  -- BSC_listxattr
  (25537237034193143735924038525300, [(0, .nth 0 1), (2, .last)]),  -- BSC_symlinkat
  (6537532680738983198417567167246196, [(0, .nth 0 0), (1, .nth 1 1)]),  -- BSC_pivot_root
  (6537532680748352628092558868439412, [(1, .first)]),  -- BSC_readlinkat
  (1673608366253477701035875047699734900, [(1, .first), (3, .second)]),  -- BSC_clonefileat
  (1673608366257137240275009620991831924, [(2, .nth 0 0), (3, .nth 1 1)]),  -- BSC_fs_snapshot
  (1673608366258280439050162679405179764, [(0, .first)]),  -- BSC_getattrlist
  (1673608366269207977222342531547756398, [(1, .spawn)]),  -- BSC_posix_spawn
  (1673608366271578494948067883756057714, [(0, .first)]),  -- BSC_removexattr
  (1673608366272787548885538229501653876, [(0, .first)]),  -- BSC_setattrlist
  (428443741761523711815297838215235466337, [(0, .first), (1, .second)]),  -- BSC_exchangedata
  (428443741761807852014267044779570585972, [(2, .first)]),  -- BSC_fclonefileat
  (428443741765524099170168900525823585904, [(1, .nth 0 0), (3, .nth 1 1)]),  -- BSC_renameatx_np
  (109681597891102666853591461357497861038452, [(1, .first)]),  -- BSC_getattrlistat
  (109681597891739878415929266086402844747116, [(0, .first)]),  -- BSC_open_nocancel
  (109681597892053404803762633408620388442484, [(1, .first)]),  -- BSC_setattrlistat
  (7188093199391627393377371926391657489240125040, [(0, .first)]),  -- BSC_guarded_open_np
  (7188093199433064671868786273725280211238610284, [(1, .first)]),  -- BSC_openat_nocancel
  (120596192235019603541869923768397803315353182128795248, [(0, .first)]),  -- BSC_open_dprotected_np
  (2224607094410461501218490030761352009856422655469783644549483054816521840, [(0, .first)])  -- BSC_guarded_open_dprotected_np
]

def pathTable : List (Nat × List (Nat × PathSrc)) := pathTableA ++ pathTableB

abbrev decoders := Gen.Decoders.decoders

/-- REFLECTIVE (re-checked by the kernel against the regenerated decoders on every run): the table is exact. -/
theorem path_table_exact : lockstep decoders pathTable = true := by decide +kernel

/-- … its rows are well formed (`nth i n` has `i ≤ n`: the guard protects the index) and its keys distinct. -/
theorem path_table_wellFormed :
    pathTable.all (fun r => r.2.all fun x => x.2.wellFormed) = true ∧ (pathTable.map (·.1)).Nodup := by
  decide +kernel

def tailReads (d : Decoder) : Bool :=
  match d.shape with
  | some s => readsLookups (subst d.fields s.tail)
  | none => false

def fsgetpathKey : Nat := 25537237033952902020902422672488

/-- … every decoder with a lookup-reading parameter is shaped `name(p0, …)`, reads lookups (so `runGenerated`
    reassembles them), its name part reads none; the only decoder whose tail (result part) reads a lookup is
    `BSC_fsgetpath` (the RESULT path, shown as ` path: "<first lookup>"` when non-empty);
    and no translated decoder without a call shape reads lookups at all. -/
theorem path_decoders_misc :
    decoders.all (fun d =>
      ((pathParams d).isEmpty || usesLookups d) &&
      (match d.shape with
       | some s => !readsLookups (subst d.fields s.head)
       | none => !(d.supported && usesLookups d)) &&
      (!tailReads d || d.key == fsgetpathKey)) = true := by decide +kernel

/-- What a table entry MEANS, in any window whatsoever: the quoted parameter evaluates, without exception, to
    `"<path>"` where `<path>` is the path of the lookup the source names (`PathSrc.shown`; '' when absent). -/
theorem path_source_text (c : Ctx) (src : PathSrc) (hwf : src.wellFormed = true) :
    evalS c (quoted src.toExpr) = .ok ("\"" ++ src.shown c.win.lookups c.win.restFirst ++ "\"") :=
  evalS_quoted c src hwf

/-- EVERY parameter of EVERY generated decoder that reads a lookup at all (directly or in its condition) is
    listed in `pathTable` under the decoder's key at its position, is unconditional, and its text in ANY window
    is `"<the path its source denotes>"` — never an exception. -/
theorem every_path_param_listed (d : Decoder) (hd : d ∈ decoders) (s : Shape) (hs : d.shape = some s)
    (i : Nat) (c : Option Expr) (p : Expr) (hp : s.params[i]? = some (c, p))
    (hr : (readsLookups (subst d.fields p) || condReads d.fields c) = true) :
    ∃ l src, (d.key, l) ∈ pathTable ∧ (i, src) ∈ l ∧ c = none ∧
      ∀ (h : Host) (t : Tables) (w : Window),
        evalS (ctx h t w) (subst d.fields p) = .ok ("\"" ++ src.shown w.lookups w.restFirst ++ "\"") := by
  have hmem := mem_pathParamsFrom d.fields 0 s.params i c p hp hr
  rw [Nat.zero_add] at hmem
  have hpp : pathParams d = pathParamsFrom d.fields 0 s.params := by simp [pathParams, hs]
  rw [← hpp] at hmem
  have hne : (pathParams d).isEmpty = false := by
    cases h : pathParams d with
    | nil => rw [h] at hmem; cases hmem
    | cons _ _ => rfl
  obtain ⟨l, hl, hrow⟩ := lockstep_row_of_decoder decoders pathTable path_table_exact d hd hne
  rw [hrow, rowExprs, List.mem_map] at hmem
  obtain ⟨⟨i', src⟩, hx, heq⟩ := hmem
  simp only [Prod.mk.injEq] at heq
  obtain ⟨rfl, hc, hpe⟩ := heq
  have hwf : src.wellFormed = true := by
    have h1 := path_table_wellFormed.1
    rw [List.all_eq_true] at h1
    have h2 := h1 _ hl
    rw [List.all_eq_true] at h2
    exact h2 _ hx
  refine ⟨l, src, hl, hx, ?_, ?_⟩
  · cases c with
    | none => rfl
    | some c => cases hc
  · intro h t w
    rw [← hpe]
    exact evalS_quoted (ctx h t w) src hwf

/-- Conversely every row of the table belongs to a decoder of the generated table (no stale rows), and each
    of its entries is a parameter of that decoder at that position. -/
theorem every_row_is_a_decoder (r : Nat × List (Nat × PathSrc)) (hr : r ∈ pathTable) :
    ∃ d ∈ decoders, d.key = r.1 ∧ ∃ s, d.shape = some s ∧
      ∀ x ∈ r.2, ∃ p, s.params[x.1]? = some (none, p) ∧ subst d.fields p = quoted x.2.toExpr := by
  obtain ⟨d, hd, hk, hpp⟩ := lockstep_decoder_of_row decoders pathTable path_table_exact r hr
  refine ⟨d, hd, hk, ?_⟩
  cases hs : d.shape with
  | none =>
    have hrow : r.2 = [] := by
      have : pathParams d = [] := by simp [pathParams, hs]
      rw [this] at hpp
      cases h : r.2 with
      | nil => rfl
      | cons a b => rw [h] at hpp; simp [rowExprs] at hpp
    -- a row with no entries cannot have been consumed: the decoder's parameter list was non-empty
    exfalso
    have hall := path_table_exact
    have : (pathParams d).isEmpty = true := by simp [pathParams, hs]
    -- rows of `pathTable` are non-empty (checked below)
    have hne : pathTable.all (fun r => !r.2.isEmpty) = true := by decide +kernel
    rw [List.all_eq_true] at hne
    have := hne r hr
    simp [hrow] at this
  | some s =>
    refine ⟨s, rfl, ?_⟩
    intro x hx
    have hmem : (x.1, (none : Option Expr), quoted x.2.toExpr) ∈ pathParams d := by
      rw [hpp, rowExprs, List.mem_map]; exact ⟨x, hx, rfl⟩
    have hpp' : pathParams d = pathParamsFrom d.fields 0 s.params := by simp [pathParams, hs]
    rw [hpp'] at hmem
    obtain ⟨i, c, p, hi, hget, hc, hpe⟩ := of_mem_pathParamsFrom d.fields 0 s.params _ _ _ hmem
    rw [Nat.zero_add] at hi
    subst hi
    cases c with
    | none => exact ⟨p, hget, hpe.symm⟩
    | some c => cases hc

/-- `runGenerated` (the pipeline's use of a generated decoder) is `IR.render` on `mkWindow` of the window; for
    the decoders of the table the lookups are reassembled (`usesLookups d`, `path_decoders_misc`). -/
theorem runGenerated_is_render (env : Env) (tabs : Tabs) (d : Decoder) (events : List Kevent) (text : String)
    (h : runGenerated env tabs d events = .ok (.ok text)) :
    ∃ W, mkWindow env tabs events (usesLookups d) = .ok W ∧ IR.render env.host env.tables d W = .ok text := by
  unfold runGenerated runGeneratedObj at h
  cases hw : mkWindow env tabs events (usesLookups d) with
  | error e => simp [hw, bind, Except.bind, Except.map] at h
  | ok W =>
    refine ⟨W, rfl, ?_⟩
    simp only [hw, bind, Except.bind] at h
    unfold IR.render
    cases hf : evalFields { host := env.host, tables := env.tables, win := W } d.fields with
    | error e => simp [hf, Except.map] at h
    | ok fs =>
      simp only [hf, pure, Except.pure, Except.map, Except.ok.injEq] at h
      simp only [bind, Except.bind]
      cases he : eval { host := env.host, tables := env.tables, win := W, fields := fs } d.str with
      | error e => simp [he] at h
      | ok v => cases v <;> simp_all [pure, Except.pure]

/-- `syscall_shows_looked_up_paths_partial`: the two halves together.  In a syscall window whose lookup records
    are the kernel-encoded lookups `ls` (K5 proviso as in `syscall_paths_partial`), every lookup-reading
    parameter of every generated decoder renders as `"<dec pⱼ>"` for the lookup index `j` that `pathTable`
    lists for that decoder and position (`first` ↦ 0, `second` ↦ 1, `nth i n` ↦ i when there are more than `n`
    lookups, `last` ↦ the last, `spawn` ↦ 3 when there are ≥ 6 lookups, else 0; `""` when that lookup does not
    exist). -/
theorem syscall_shows_looked_up_paths_partial (env : Env) (tabs : Tabs) (events : List Kevent) (tid eid : Nat)
    (ls : List LookupSpec) (ss : List String) (hg : GoodSpecs ls) (hdc : Decoded env.dec ls ss)
    (hev : events.filter (isLookup env) = encodeLookups tid eid ls)
    (hk5 : ∀ l rest, ls = l :: rest →
      ∀ e ∈ encodeLookups tid eid rest, e ∉ lookupEvents tid eid l.ts l.vnode l.path)
    (d : Decoder) (hd : d ∈ decoders) (s : Shape) (hs : d.shape = some s)
    (i : Nat) (c : Option Expr) (p : Expr) (hp : s.params[i]? = some (c, p))
    (hr : (readsLookups (subst d.fields p) || condReads d.fields c) = true) :
    ∃ W l src, mkWindow env tabs events (usesLookups d) = .ok W ∧ (d.key, l) ∈ pathTable ∧ (i, src) ∈ l ∧
      evalS (ctx env.host env.tables W) (subst d.fields p) =
        .ok ("\"" ++ src.shown (lookupsOf ls ss) (lookupsOf ls ss)[1]? ++ "\"") := by
  obtain ⟨W, hW, hl, hrest, _⟩ := mkWindow_encoded env tabs events tid eid ls ss hg hdc hev hk5
  obtain ⟨l, src, hrow, hx, _, hev'⟩ := every_path_param_listed d hd s hs i c p hp hr
  have huse : usesLookups d = true := by
    have h1 := path_decoders_misc
    rw [List.all_eq_true] at h1
    have h2 := h1 d hd
    simp only [Bool.and_eq_true, Bool.or_eq_true] at h2
    rcases h2.1.1 with h3 | h3
    · exfalso
      have hmem := mem_pathParamsFrom d.fields 0 s.params i c p hp hr
      have hpp : pathParams d = pathParamsFrom d.fields 0 s.params := by simp [pathParams, hs]
      rw [← hpp] at hmem
      cases h : pathParams d with
      | nil => rw [h] at hmem; cases hmem
      | cons _ _ => rw [h] at h3; cases h3
    · exact h3
  refine ⟨W, l, src, by rw [huse]; exact hW, hrow, hx, ?_⟩
  rw [hev' env.host env.tables W, hl, hrest]

/-- Non-vacuity: `BSC_rename` is in the decoder table; its parameters 0 and 1 read lookups; the table lists
    lookup 0 and the second-phase lookup for them. -/
example : ∃ d ∈ decoders, d.key = 1522137941966846949420389 ∧ d.name = "BSC_rename" ∧
    pathParams d = rowExprs [(0, .first), (1, .second)] ∧
    pathTable.lookup d.key = some [(0, .first), (1, .second)] := by decide +kernel

example : PathSrc.shown (.nth 1 1) [⟨"/a", 1⟩, ⟨"/b", 2⟩] none = "/b" ∧
    PathSrc.shown .spawn [⟨"0", 1⟩, ⟨"1", 2⟩, ⟨"2", 2⟩, ⟨"/bin/ls", 2⟩, ⟨"4", 2⟩, ⟨"5", 2⟩] none = "/bin/ls" ∧
    PathSrc.shown .spawn [⟨"/bin/ls", 1⟩] none = "/bin/ls" ∧ PathSrc.shown .last [⟨"/a", 1⟩, ⟨"/b", 2⟩] none = "/b" ∧
    PathSrc.shown (.nth 0 1) [⟨"/a", 1⟩] none = "" := by decide

/-! ## 6. translation tie: the source text of `vnode_generator`, `parse_vnodes`, `parse_vnode`, interpreted, is the model

  `tools/gen_pyir_vn.py` translates the three methods of `pykdebugparser/traces_parser.py` into the Python-subset IR of
  `Model/PyIRVn` (`Gen/PyIRVn.lean`, on every run: pure `ast`, the values of `DgbFuncQual` reflected);
  `PyIRVn.runGenerator` / `runParseVnodes` / `runParseVnode` interpret them (a generator big-step: the vnodes it yields
  and the exception that ends it; `bytes.decode()` and `self.trace_codes` are parameters, as in `Model/Trace`).  So the
  theorems of §2–§4 about `vnodeGen` / `parseVnodes` (`vnodeGen_encode`, `lookup_one_trace`, `syscall_paths_partial`, …)
  are theorems about the translated source.

  Side condition `PyIRVn.HasWords events`: every record carries its argument words (`event.values[0]` exists) — what
  `from_kd_buf` always produces (four words) and what the encoders of `Spec/Reassembly` produce; the model type `Kevent`
  also has inhabitants with an empty `values`, where Python would raise IndexError and `vnodeGen` reads 0. -/

/-- The program generated from the source text is, node for node, the one the theorems below were proved for
    (`Spec/PyIRVnExpected`, quoting the Python), and the translator had nothing to report outside the method bodies. -/
theorem source_is_expected_ir :
    Gen.PyIRVn.vnodeGenerator = PyIRVn.Expected.vnodeGenerator ∧
    Gen.PyIRVn.parseVnodes = PyIRVn.Expected.parseVnodes ∧
    Gen.PyIRVn.parseVnode = PyIRVn.Expected.parseVnode ∧
    Gen.PyIRVn.notes = [] := by decide

theorem generated_prog_is_expected : Gen.PyIRVn.prog = PyIRVn.Expected.prog := by
  simp only [Gen.PyIRVn.prog, PyIRVn.Expected.prog, source_is_expected_ir.1, source_is_expected_ir.2.1,
    source_is_expected_ir.2.2.1]

/-- `list(TracesParser.vnode_generator(events))` of the SOURCE, interpreted on ANY list of records (with their
    argument words), for ANY `dec` (and whatever the code table): exactly `Trace.vnodeGen dec events` — the same vnodes
    (the same records in `ktraces`, the same vnode id, the same path) in the same order, or the same exception. -/
theorem vnode_generator_ir_eq_model (dec : Bytes → Except PyErr String) (codes : Nat → Option String)
    (events : List Kevent) (hw : PyIRVn.HasWords events) :
    PyIRVn.collect (PyIRVn.runGenerator Gen.PyIRVn.prog dec codes events) = vnodeGen dec events [] 0 [] := by
  rw [generated_prog_is_expected, PyIRVn.run_generator dec codes events hw, PyIRVn.collect_vnodeYields]

/-- … and as a GENERATOR (consumed lazily, `for v in vnode_generator(events)`): the vnodes yielded before the first
    exception of `dec`, then that exception — `PyIRVn.vnodeYields`, of which `vnodeGen` is the `list(…)`
    (`PyIRVn.collect_vnodeYields`). -/
theorem vnode_generator_ir_yields (dec : Bytes → Except PyErr String) (codes : Nat → Option String)
    (events : List Kevent) (hw : PyIRVn.HasWords events) :
    PyIRVn.runGenerator Gen.PyIRVn.prog dec codes events = PyIRVn.vnodeYields dec events [] 0 [] ∧
    PyIRVn.collect (PyIRVn.vnodeYields dec events [] 0 []) = vnodeGen dec events [] 0 [] := by
  rw [generated_prog_is_expected]
  exact ⟨PyIRVn.run_generator dec codes events hw, PyIRVn.collect_vnodeYields dec events [] 0 []⟩

/-- `parser.parse_vnodes(events)` of the source, interpreted in ANY environment on ANY window, is `Trace.parseVnodes`:
    the comprehension keeps exactly the records whose code the table names `VFS_LOOKUP`, the generator runs on them. -/
theorem parse_vnodes_ir_eq_model (env : Env) (events : List Kevent) (hw : PyIRVn.HasWords events) :
    PyIRVn.runParseVnodes Gen.PyIRVn.prog env.dec env.codes events = parseVnodes env events := by
  rw [generated_prog_is_expected]; exact PyIRVn.run_parseVnodes env events hw

/-- `parser.parse_vnode(events)` of the source is `Trace.parseVnode`: the first vnode; `Vnode([], 0, '')` when there is
    none — or when the `try` body raised an IndexError of its own (only an artificial `dec` can). -/
theorem parse_vnode_ir_eq_model (env : Env) (events : List Kevent) (hw : PyIRVn.HasWords events) :
    PyIRVn.runParseVnode Gen.PyIRVn.prog env.dec env.codes events = parseVnode env events := by
  rw [generated_prog_is_expected]; exact PyIRVn.run_parseVnode env events hw

/-- The `VFS_LOOKUP` handler of the model (`handle_vfs_lookup`: `parser.parse_vnode(events)` → `lookup("<path>"), vnode
    id: <id>`) written with `parseVnode`, for every `dec` that never raises IndexError (`bytes.decode()` raises
    UnicodeDecodeError only). -/
theorem vfs_lookup_is_parse_vnode (env : Env) (t : Tabs) (events : List Kevent)
    (hdec : ∀ b, env.dec b ≠ .error .indexError) :
    hVfsLookup env t events =
      if !hasStart (firstOf events) then .ok (none, t)
      else (parseVnode env events).map fun v =>
        (some (mk "VFS_LOOKUP" events s!"lookup(\"{v.path}\"), vnode id: {v.vnodeId}"), t) := by
  unfold hVfsLookup parseVnode
  by_cases hs : hasStart (firstOf events) = true
  · simp only [hs, Bool.not_true, Bool.false_eq_true, if_false]
    cases hp : parseVnodes env events with
    | ok l => cases l <;> rfl
    | error x =>
      have hx : x ≠ .indexError := by
        intro h
        obtain ⟨b, hb⟩ := PyIRVn.vnodeGen_error_from_dec env.dec _ _ _ _ x hp
        exact hdec b (h ▸ hb)
      cases x <;> first | rfl | exact absurd rfl hx
  · simp [hs]

/-- Records of the specification carry their words. -/
theorem hasWords_lookupEvents (tid eid : Nat) (ts : Nat → Nat) (vnode : Nat) (p : Bytes) :
    PyIRVn.HasWords (lookupEvents tid eid ts vnode p) := by
  intro e he
  have : ∀ (l : List Bytes) (i : Nat) (first : Bool), ∀ x ∈ tagFrom tid eid ts i first l, x.values ≠ [] := by
    intro l
    induction l with
    | nil => intro _ _ x hx; cases hx
    | cons c cs ih =>
      intro i first x hx
      cases cs with
      | nil =>
        simp only [tagFrom, List.mem_singleton] at hx
        subst hx; simp [mkEvent, words]
      | cons c' cs' =>
        simp only [tagFrom, List.mem_cons] at hx
        rcases hx with hx | hx
        · subst hx; simp [mkEvent, words]
        · exact ih (i + 1) false x (by simpa [List.mem_cons] using hx)
  exact this _ _ _ e he

/-- `vnodeGen_encode` read on the source: the translated `vnode_generator`, interpreted on the records of one
    kernel-encoded lookup (any NUL-free path of any length), yields exactly one vnode — those records, the vnode id of the
    first record, `dec` of exactly the path bytes — or raises what `dec` raises. -/
theorem source_vnode_generator_encode (dec : Bytes → Except PyErr String) (codes : Nat → Option String)
    (tid eid : Nat) (ts : Nat → Nat) (vnode : Nat) (p : Bytes) (hv : vnode < 2 ^ 64) (hp : NulFree p) :
    PyIRVn.collect (PyIRVn.runGenerator Gen.PyIRVn.prog dec codes (lookupEvents tid eid ts vnode p)) =
      (dec p).map fun s => [⟨lookupEvents tid eid ts vnode p, vnode, s⟩] := by
  rw [vnode_generator_ir_eq_model dec codes _ (hasWords_lookupEvents tid eid ts vnode p)]
  exact vnodeGen_encode dec tid eid ts vnode p hv hp

private instance exceptDecEq {ε α : Type} [DecidableEq ε] [DecidableEq α] : DecidableEq (Except ε α)
  | .ok a, .ok b => if h : a = b then isTrue (by rw [h]) else isFalse (by intro e; cases e; exact h rfl)
  | .error a, .error b => if h : a = b then isTrue (by rw [h]) else isFalse (by intro e; cases e; exact h rfl)
  | .ok _, .error _ => isFalse (by intro e; cases e)
  | .error _, .ok _ => isFalse (by intro e; cases e)

/-- a `dec` that rejects the byte 0xff (so that the exception path is exercised) -/
def pickyDec (b : Bytes) : Except PyErr String := if b.contains 255 then .error .unicodeError else asciiDec b

/-- Non-vacuity of `source_is_expected_ir` / `vnode_generator_ir_*`: the GENERATED generator on concrete records — a
    35-byte lookup (two records), a stray continuation record, a lookup whose path holds 0xff, a 24-byte lookup that is
    never reached — yields the first vnode (both records, vnode id, path) and ends with the decoder's exception;
    `list(…)` of it is the exception alone; the records carry their words. -/
example :
    let evs := lookupEvents 7 4 (tsFrom 10) 0x1122334455667788 path35 ++
      lookupEvents 7 4 (tsFrom 20) 6 [47, 255] ++ lookupEvents 7 4 (tsFrom 30) 9 (List.replicate 24 99)
    PyIRVn.HasWords evs ∧
    PyIRVn.runGenerator Gen.PyIRVn.prog pickyDec demoCodes evs =
      ([⟨lookupEvents 7 4 (tsFrom 10) 0x1122334455667788 path35, 0x1122334455667788,
          "/tmp/" ++ String.ofList (List.replicate 30 'a')⟩], some .unicodeError) ∧
    vnodeGen pickyDec evs [] 0 [] = .error .unicodeError := by decide

/-- … and without the bad lookup: two vnodes, no exception; a record without END at the end yields nothing more. -/
example :
    let evs := lookupEvents 7 4 (tsFrom 10) 5 path35 ++ lookupEvents 7 4 (tsFrom 30) 9 (List.replicate 24 99) ++
      [mkEvent 40 7 4 1 (toLE 8 3 ++ List.replicate 24 100)]
    ((PyIRVn.runGenerator Gen.PyIRVn.prog asciiDec demoCodes evs).1.map fun v => (v.ktraces.map (·.timestamp), v.vnodeId, v.path),
     (PyIRVn.runGenerator Gen.PyIRVn.prog asciiDec demoCodes evs).2) =
      ([([10, 11], 5, "/tmp/" ++ String.ofList (List.replicate 30 'a')), ([30], 9, String.ofList (List.replicate 24 'c'))],
       none) := by decide

/-- Non-vacuity of `parse_vnodes_ir_eq_model` / `parse_vnode_ir_eq_model`: a `BSC_rename` window (code 8) with two
    lookups (code 4) and an unrelated record in between, through the GENERATED `parse_vnodes` / `parse_vnode`: the
    non-lookup records are dropped, two vnodes, the first one; a window without lookups gives `Vnode([], 0, '')`. -/
example :
    let evs := mkEvent 1 7 8 1 zeros32 :: lookupEvents 7 4 (tsFrom 10) 5 path35 ++ [mkEvent 15 7 20 0 zeros32] ++
      lookupEvents 7 4 (tsFrom 20) 6 [47, 98] ++ [mkEvent 30 7 8 2 zeros32]
    PyIRVn.HasWords evs ∧
    (PyIRVn.runParseVnodes Gen.PyIRVn.prog demoEnv.dec demoEnv.codes evs).map
        (·.map fun v => (v.ktraces.map (·.timestamp), v.vnodeId, v.path)) =
      .ok [([10, 11], 5, "/tmp/" ++ String.ofList (List.replicate 30 'a')), ([20], 6, "/b")] ∧
    (PyIRVn.runParseVnode Gen.PyIRVn.prog demoEnv.dec demoEnv.codes evs).map
        (fun v => (v.ktraces.map (·.timestamp), v.vnodeId, v.path)) =
      .ok ([10, 11], 5, "/tmp/" ++ String.ofList (List.replicate 30 'a')) ∧
    PyIRVn.runParseVnode Gen.PyIRVn.prog demoEnv.dec demoEnv.codes [mkEvent 1 7 8 1 zeros32, mkEvent 30 7 8 2 zeros32] =
      .ok ⟨[], 0, ""⟩ := by decide

end KdVerif.C08
