import KdVerif.Proofs.Projection
/-
  C05 — per-thread results are invariant under interleaving of threads.

  THIS FILE HOLDS THE WINDOW-LEVEL HALF ONLY: the sequence of event windows delivered for a thread (their
  order and their event lists) depends only on that thread's own event sequence.  The other half of the
  property — rendered text of the decoders that read no cross-thread table, and the process names learned
  from a thread's own new-thread/exec record pairs (`learned_names_per_thread`, defect F2) — is added to
  this file by another slice (Model/Context, Model/TraceStrings).

  Subject: `Model/Pairing.step/run` (= `TracesParser.feed` / `feed_generator` up to `parse_event_list`);
  `domOf` (which codes use the trace-string/data table) is an arbitrary parameter.  A window "belongs to
  thread t" when its first event has thread id `t` (`ofThread`); by `window_single_thread` every event of a
  delivered window has the same thread id, so any other choice of representative gives the same notion.
-/
namespace KdVerif.C05
open KdVerif.Pairing

variable (domOf : Nat → Bool)

/-- FRAME.  Feeding an event of thread `e.tid` changes no table entry of any other thread, and (the tables
    holding, per key, events of the key's thread only — an invariant of every reachable state,
    `reachable_tidInv`) everything it delivers consists of events of thread `e.tid`. -/
theorem step_other_thread_frame (s : PState) (e : Kevent) :
    (∀ k, k.tid ≠ e.tid → (step domOf s e).1 k = s k) ∧
    (TidInv s → ∀ w, (step domOf s e).2 = some w → ∀ x ∈ w, x.tid = e.tid) :=
  Pairing.step_other_thread_frame domOf s e

/-- The invariant used by the frame lemma holds after every history. -/
theorem reachable_tidInv (h : List Kevent) : TidInv (stateAfter domOf h) := by
  induction h using snoc_induction with
  | nil => exact tidInv_empty
  | snoc h e ih => rw [stateAfter_snoc]; exact step_tidInv domOf _ _ ih

/-- A step of an event of thread `t` reads and writes entries of thread `t` only: from two table pairs
    that coincide on thread `t` it delivers the same window and leads to tables that still coincide on `t`. -/
theorem step_reads_own_thread_only (t : Nat) (s₁ s₂ : PState) (e : Kevent) (he : e.tid = t)
    (ha : Agree t s₁ s₂) :
    Agree t (step domOf s₁ e).1 (step domOf s₂ e).1 ∧ (step domOf s₁ e).2 = (step domOf s₂ e).2 :=
  step_agree domOf t s₁ s₂ e he ha

/-- Every event of a delivered window has the same thread id (and the window is not empty). -/
theorem window_single_thread (m : List Kevent) (w : List Kevent) (hw : w ∈ run domOf m) :
    w ≠ [] ∧ ∃ t, ∀ x ∈ w, x.tid = t :=
  run_window_tid domOf m w hw

/-- PROJECTION.  For every history `m` and thread `t`: the windows of thread `t` delivered while parsing `m`
    (in order, with their exact event lists) are the windows delivered when parsing `t`'s own events alone. -/
theorem projection_windows (m : List Kevent) (t : Nat) :
    (run domOf m).filter (ofThread t) = run domOf (m.filter fun e => e.tid == t) :=
  Pairing.projection_windows domOf m t

/-- INTERLEAVING INVARIANCE.  Two histories with the same per-thread subsequences (any two merges of the
    same per-thread programs, e.g. per-CPU buffers merged in different orders) deliver, for every thread,
    the same sequence of windows. -/
theorem interleaving_invariant_windows (m₁ m₂ : List Kevent)
    (hm : ∀ t, m₁.filter (fun e => e.tid == t) = m₂.filter (fun e => e.tid == t)) (t : Nat) :
    (run domOf m₁).filter (ofThread t) = (run domOf m₂).filter (ofThread t) := by
  rw [projection_windows, projection_windows, hm t]

/-- The same for the handler invocations (after the decodability gate of `parse_event_list`). -/
theorem interleaving_invariant_traces (dec : Nat → Bool) (m₁ m₂ : List Kevent)
    (hm : ∀ t, m₁.filter (fun e => e.tid == t) = m₂.filter (fun e => e.tid == t)) (t : Nat) :
    ((run domOf m₁).filter fun w => match w with | x :: _ => dec x.eventid | [] => false).filter (ofThread t)
      = ((run domOf m₂).filter fun w => match w with | x :: _ => dec x.eventid | [] => false).filter
          (ofThread t) := by
  have hc : ∀ (q : List Kevent → Bool) (l : List (List Kevent)),
      (l.filter q).filter (ofThread t) = (l.filter (ofThread t)).filter q := by
    intro q l; simp only [List.filter_filter, Bool.and_comm]
  rw [hc, hc, interleaving_invariant_windows domOf m₁ m₂ hm t]

/-! ### non-vacuity: two different merges of the same two per-thread programs -/

def ev (ts tid eid q : Nat) : Kevent :=
  { timestamp := ts, data := [], values := [], tid := tid, debugid := eid + q, eventid := eid, qual := q }

def progA : List Kevent := [ev 100 1 4 1, ev 101 1 12 0, ev 102 1 4 2, ev 103 1 4 2]
def progB : List Kevent := [ev 200 2 4 1, ev 201 2 4 1, ev 202 2 8 3, ev 203 2 4 2]
def sequential : List Kevent := progA ++ progB
def roundRobin : List Kevent :=
  [ev 200 2 4 1, ev 100 1 4 1, ev 201 2 4 1, ev 101 1 12 0, ev 202 2 8 3, ev 102 1 4 2, ev 203 2 4 2,
   ev 103 1 4 2]

example : ∀ t, sequential.filter (fun e => e.tid == t) = roundRobin.filter (fun e => e.tid == t) := by
  intro t
  by_cases h1 : t = 1
  · subst h1; decide
  · by_cases h2 : t = 2
    · subst h2; decide
    · have h1' : (1 == t) = false := by simp; omega
      have h2' : (2 == t) = false := by simp; omega
      simp [sequential, roundRobin, progA, progB, ev, h1', h2']

example : sequential ≠ roundRobin ∧
    ((run (fun _ => false) roundRobin).filter (ofThread 1)).map (List.map (·.timestamp))
      = [[101], [100, 101, 102]] ∧
    ((run (fun _ => false) sequential).filter (ofThread 1)).map (List.map (·.timestamp))
      = [[101], [100, 101, 102]] ∧
    ((run (fun _ => false) roundRobin).filter (ofThread 2)).map (List.map (·.timestamp))
      = [[202], [201, 202, 203]] := by decide

end KdVerif.C05
