import KdVerif.Model.Pairing
import KdVerif.Gen.Unicode
/-
  L6: `trace_codes.from_trace_codes_text` and the places where a code table is consulted
  (`PyKdebugParser._format_kevent` name column, `TracesParser.feed` table choice,
  `TracesParser.parse_event_list` gate).

    {int(s[0], 16): s[1] for s in map(lambda l: l.split(), codes_text.splitlines())}

  Python `str.splitlines()`, `str.split()` (no argument) and `int(s, 16)` are modelled over lists of
  code points (`List Char`).  The three Unicode classes involved (white space, line boundaries,
  non-ASCII decimal digits) are tables reflected from the running interpreter (`Gen/Unicode.lean`,
  validated against the interpreter for every code point by the check).  Lean's `Char` has no
  surrogates: a text with lone surrogates is outside the model (the driver answers `unsupported`).
-/
namespace KdVerif.TraceCodes

/-! ### Unicode classes -/

def isSpaceCp (n : Nat) : Bool := Gen.Unicode.whitespace.contains n
def isBreakCp (n : Nat) : Bool := Gen.Unicode.lineBreaks.contains n

/-- Value of a non-ASCII decimal digit (`Py_UNICODE_TODECIMAL`), from the reflected runs. -/
def decimalCp (n : Nat) : Option Nat :=
  Gen.Unicode.decimalRuns.findSome? fun r =>
    if r.1 ≤ n ∧ n < r.1 + r.2.2 then some (r.2.1 + (n - r.1)) else none

/-- `c.isspace()` — the separator class of `str.split()`. -/
def isSpace (c : Char) : Bool := isSpaceCp c.toNat
/-- Line boundary of `str.splitlines()` (the pair "\r\n" is handled by `linesFrom`). -/
def isBreak (c : Char) : Bool := isBreakCp c.toNat

/-! ### `str.splitlines()` -/

/-- Lines of the rest of a text.  `skipLF` = the previous character was a `\r` that ended a line,
    so a `\n` right here belongs to that boundary.  A text never yields a trailing empty line. -/
def linesFrom : Bool → List Char → List (List Char)
  | _, [] => []
  | skipLF, c :: cs =>
    if skipLF && c == '\n' then linesFrom false cs
    else if isBreak c then [] :: linesFrom (c == '\r') cs
    else match linesFrom false cs with
      | [] => [[c]]
      | l :: ls => (c :: l) :: ls

def splitLines (s : List Char) : List (List Char) := linesFrom false s

/-! ### `str.split()` -/

def pushTok (t : List Char) (ts : List (List Char)) : List (List Char) :=
  if t.isEmpty then ts else t :: ts

/-- (characters of the token that starts at the head – empty if the head is white space or the text is
    empty, the tokens after it). -/
def splitAux : List Char → List Char × List (List Char)
  | [] => ([], [])
  | c :: cs =>
    let r := splitAux cs
    if isSpace c then ([], pushTok r.1 r.2) else (c :: r.1, r.2)

/-- `s.split()`: maximal runs of non-white-space characters. -/
def splitWs (s : List Char) : List (List Char) :=
  let r := splitAux s
  pushTok r.1 r.2

/-! ### `int(s, 16)` -/

/-- `_PyUnicode_TransformDecimalAndSpaceToASCII`: code points below 127 are kept, other white space
    becomes a blank, other decimal digits their ASCII digit, anything else `?` (never valid). -/
def xform (c : Char) : Char :=
  if c.toNat < 127 then c
  else if isSpace c then ' '
  else match decimalCp c.toNat with
    | some d => Char.ofNat (48 + d)
    | none => '?'

/-- `Py_ISSPACE`: the blanks `PyLong_FromString` skips on both sides (not 0x1c–0x1f). -/
def cSpace (c : Char) : Bool := c == ' ' || (9 ≤ c.toNat && c.toNat ≤ 13)

def stripSign : List Char → Bool × List Char
  | [] => (false, [])
  | c :: r => if c == '+' then (false, r) else if c == '-' then (true, r) else (false, c :: r)

/-- Optional `0x`/`0X`, after which one underscore is tolerated. -/
def stripPrefix : List Char → List Char
  | z :: x :: r =>
    if z == '0' && (x == 'x' || x == 'X') then
      match r with
      | [] => []
      | u :: r' => if u == '_' then r' else u :: r'
    else z :: x :: r
  | s => s

/-- Digits with single underscores between them: value and the unread rest; `none` = syntax error
    (doubled or trailing underscore). -/
def scanDigits : Nat → Bool → List Char → Option (Nat × List Char)
  | acc, prevUs, [] => if prevUs then none else some (acc, [])
  | acc, prevUs, c :: cs =>
    if c == '_' then (if prevUs then none else scanDigits acc true cs)
    else match hexVal c with
      | some d => scanDigits (acc * 16 + d) false cs
      | none => if prevUs then none else some (acc, c :: cs)

/-- After sign and prefix: the digit string and the trailing blanks up to the end. -/
def parseBody (neg : Bool) (s2 : List Char) : Except PyErr Int :=
  match s2 with
  | [] => .error .valueError
  | c :: _ =>
    if (hexVal c).isSome then          -- no leading underscore, no empty digit string
      match scanDigits 0 false s2 with
      | none => .error .valueError
      | some (v, rest) =>
        if rest.all cSpace then .ok (if neg then - (v : Int) else (v : Int)) else .error .valueError
    else .error .valueError

/-- `int(s, 16)` for a `str`. -/
def pyInt16 (s : List Char) : Except PyErr Int :=
  let sg := stripSign ((s.map xform).dropWhile cSpace)
  parseBody sg.1 (stripPrefix sg.2)

/-! ### The dict -/

/-- A Python dict `int -> str` as an association list in insertion order, keys distinct. -/
abbrev Table := List (Int × String)

/-- `d[k] = v`: an existing key keeps its position and gets the new value. -/
def Table.insert : Table → Int → String → Table
  | [], k, v => [(k, v)]
  | (k', v') :: r, k, v => if k' = k then (k', v) :: r else (k', v') :: Table.insert r k v

/-- `d.get(k)` / `k in d`. -/
def Table.get? : Table → Int → Option String
  | [], _ => none
  | (k', v') :: r, k => if k' = k then some v' else Table.get? r k

def Table.keys (t : Table) : List Int := t.map (·.1)

/-- One element of the comprehension: `int(s[0], 16)` is evaluated before `s[1]`. -/
def parseLine (l : List Char) : Except PyErr (Int × String) :=
  match splitWs l with
  | [] => .error .indexError
  | t0 :: rest =>
    match pyInt16 t0 with
    | .error e => .error e
    | .ok k =>
      match rest with
      | [] => .error .indexError
      | t1 :: _ => .ok (k, String.ofList t1)

def parseLines : Table → List (List Char) → Except PyErr Table
  | t, [] => .ok t
  | t, l :: ls =>
    match parseLine l with
    | .error e => .error e
    | .ok kv => parseLines (t.insert kv.1 kv.2) ls

/-- `from_trace_codes_text` over code points. -/
def parseCodesL (text : List Char) : Except PyErr Table := parseLines [] (splitLines text)

def parseCodes (text : String) : Except PyErr Table := parseCodesL text.toList

/-! ### Consumers of a table -/

/-- `_format_kevent`: `codes[eid] + ' (' + hex(eid) + ')'`, or bare `hex(eid)` for an id not in the table. -/
def nameColumn (codes : Table) (eid : Nat) : String :=
  match codes.get? eid with
  | some n => n ++ " (" ++ pyHex eid ++ ")"
  | none => pyHex eid

/-- `f'{s:<n}'`. -/
def padRight (n : Nat) (s : String) : String := s ++ String.ofList (List.replicate (n - s.length) ' ')

/-- The formatted line when only `show_name` is on. -/
def formatNameOnly (codes : Table) (e : Kevent) : String := padRight 58 (nameColumn codes e.eventid)

/-- `feed`: the event goes to `on_going_traces` iff `trace_codes[eid]` exists and is a key of
    `trace_handlers` (parameter `traceNames`). -/
def domOf (codes : Table) (traceNames : String → Bool) (eid : Nat) : Bool :=
  match codes.get? eid with
  | some n => traceNames n
  | none => false

/-- `parse_event_list`: the handler name invoked on the window (with the window), `none` for "returns
    None before any handler".  `events[0]` on an empty list would raise. -/
def gate (codes : Table) (handlers : String → Bool) (w : List Kevent) :
    Except PyErr (Option (String × List Kevent)) :=
  match w with
  | [] => .error .indexError
  | e :: _ =>
    match codes.get? e.eventid with
    | none => .ok none
    | some n => if handlers n then .ok (some (n, w)) else .ok none

def gateOut (codes : Table) (handlers : String → Bool) :
    Option (List Kevent) → Except PyErr (Option (String × List Kevent))
  | none => .ok none
  | some w => gate codes handlers w

/-- Per fed event: which handler `TracesParser.feed` ends up calling, on which window. -/
def decodedFrom (codes : Table) (handlers traceNames : String → Bool) (s : Pairing.PState) (h : List Kevent) :
    List (Except PyErr (Option (String × List Kevent))) :=
  (Pairing.outputs (domOf codes traceNames) s h).map (gateOut codes handlers)

def decoded (codes : Table) (handlers traceNames : String → Bool) (h : List Kevent) :=
  decodedFrom codes handlers traceNames Pairing.PState.empty h

end KdVerif.TraceCodes
