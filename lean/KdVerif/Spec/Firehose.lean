/-
  Specification of the firehose trace-point identifier word, written from the documented layout
  (Apple `firehose_tracepoint_id_u`: `uint8 _namespace; uint8 _type; uint16 _flags; uint32 _code`, little
  endian, with `_firehose_tracepoint_flags_base_*`: has_current_aid 0x0001, pc_style mask 0x000e,
  has_unique_pid 0x0010, has_large_offset 0x0020; the upper byte of `_flags` carries the
  namespace-specific flags).  Independent of the decoder model and of construct.
-/
namespace KdVerif.Spec.Firehose

/-- The fields of an identifier as plain numbers / booleans. -/
structure Id where
  ns : Nat
  type_ : Nat
  hasLargeOffset : Bool
  hasUniquePid : Bool
  pcStyle : Nat
  hasCurrentAid : Bool
  flags : Nat
  code : Nat
  deriving DecidableEq, Repr, Inhabited

def b2n (b : Bool) : Nat := if b then 1 else 0

/-- Byte 2: has_current_aid | pc_style << 1 | has_unique_pid << 4 | has_large_offset << 5. -/
def baseFlags (t : Id) : Nat :=
  b2n t.hasCurrentAid + 2 * t.pcStyle + 16 * b2n t.hasUniquePid + 32 * b2n t.hasLargeOffset

/-- The 64-bit word: byte 0 namespace, byte 1 type, byte 2 base flags, byte 3 namespace flags,
    bytes 4..7 the code (little endian). -/
def packId (t : Id) : Nat :=
  t.ns + 2 ^ 8 * t.type_ + 2 ^ 16 * baseFlags t + 2 ^ 24 * t.flags + 2 ^ 32 * t.code

end KdVerif.Spec.Firehose
