"""C02 — a version-2 dump yields exactly its records, in order, and its thread map."""
import io
import json

from .. import core
from ..core import run_section
from .. import containers as ct

MODULE = 'KdVerif.Props.C02'
NAMESPACE = 'KdVerif.C02'
TRUSTED = ['construct 2.10 primitives re-implemented in Model/Construct.lean from construct/core.py (GreedyRange, Const, '
           'Padding, FixedSized+CString, Array, FormatField) and io.BytesIO in Model/Reader.lean; tied by the sections '
           'v2, v2-malformed, v2-seq, v2-seq-failed, v2-kevents (events, tables and outcome kind must agree; the read counters are compared in C06); '
           'histories on one PyKdebugParser and dumps longer than the reader\'s blocks are judged on the code alone (v2-seq-api, v2-seq-traces, v2-blocks)',
           'file grammar Spec/ContainerV2.encodeV2 (diffed byte for byte against the harness encoder, section encv2)',
           'from_kd_buf as proved in C01 (decode_eq_spec / decode_rejects_other_lengths)']
from .. import rdir as _rdir  # noqa: E402
from .. import cnir as _cnir  # noqa: E402
TRUSTED = TRUSTED + [_rdir.TRUSTED, _cnir.TRUSTED]
ASSUMPTIONS = ['bytes objects hold values 0..255 (IsBytes)',
               'thread names are modelled as their UTF-8 bytes (str.decode is injective on valid UTF-8); UTF-8 validity is '
               'Model/Construct.validUtf8, tied to CPython by section utf8',
               'K1: a first record whose first byte is 0 is outside v2_events_partial (known finding, reproduced every run)']

K1_SIG = 'v2:first-record-leading-zero'

NAME_ALPHABET = ['a', 'b', 'Z', '0', '_', '.', ' ', 'é', 'ß', 'я', '中', '€', '𝄞', '😀', '\x7f', '\x01']


def gen_name(rng):
    """UTF-8 bytes of a name of 0..19 bytes, NUL-free."""
    target = rng.choice([0, 1, 2, 5, 10, 17, 18, 19, 19, rng.randrange(20)])
    s = b''
    for _ in range(40):
        c = rng.choice(NAME_ALPHABET).encode('utf-8')
        if len(s) + len(c) <= target:
            s += c
    return s


def gen_record(rng, first=None):
    style = rng.randrange(4)
    if style == 0:
        r = bytearray(rng.randbytes(64))
    elif style == 1:
        r = bytearray(64)
        r[rng.randrange(64)] = rng.randrange(1, 256)
    elif style == 2:
        r = bytearray(b'\xff' * 64)
    else:
        from ..impl import record_args
        r = bytearray(record_args(rng.randrange(1 << 40), [rng.randrange(1 << 64) for _ in range(4)],
                                  rng.choice([0, 1, 0x1234, (1 << 64) - 1]), rng.randrange(1 << 32), rng.randrange(16)))
    if first is None and rng.random() < 0.12:
        # a record that BEGINS with (or carries at a word boundary) one of the byte strings the reader source mentions — a
        # magic, a tag, a marker: it is still a record (never the first one: a leading zero byte is known finding K1)
        from .. import mined
        consts = mined.bytes_constants(['pykdebugparser/kd_buf_parser.py'])
        if consts:
            k = rng.choice(consts)
            off = rng.choice([0, 0, 0, 8, 40, 48])
            r[off:off + len(k)] = k[:64 - off]
            r = r[:64]
    if first == 'nonzero' and r[0] == 0:
        r[0] = rng.randrange(1, 256)
    if first == 'zero':
        r[0] = 0
    return bytes(r)


PADS = [0, 0, 0, 1, 2, 7, 8, 63, 64, 65, 127, 128, 129, 4096 - 288, 4096]


def gen_file(rng, k1=False, small=False):
    nthreads = rng.choice([0, 0, 1, 2, 3, 5, 8, 13, 21, 40, rng.randrange(41)])
    if small:
        nthreads = min(nthreads, 3)
    tids = [rng.choice([0, 1, 2, 7, 0x1234, (1 << 64) - 1, rng.randrange(1 << 64)]) for _ in range(6)]
    pids = [rng.choice([0, 1, 5, 99, (1 << 32) - 1, rng.randrange(1 << 32)]) for _ in range(4)]
    threads = []
    for _ in range(nthreads):
        dup = rng.random() < 0.5
        threads.append([rng.choice(tids) if dup else rng.randrange(1 << 64),
                        rng.choice(pids) if rng.random() < 0.6 else rng.randrange(1 << 32), gen_name(rng).hex()])
    nrec = rng.choice([0, 1, 1, 2, 3, 7, 20, 50, rng.randrange(51)])
    if small:
        nrec = min(nrec, 4)
    if k1:
        nrec = max(nrec, 1)
    pad = rng.choice(PADS)
    if small:
        pad = rng.choice([0, 1, 3, 64])
    recs = []
    for i in range(nrec):
        recs.append(gen_record(rng, first=('zero' if k1 else 'nonzero') if i == 0 else None).hex())
    if k1 and rng.random() < 0.3:           # an all-zero first record (dropped silently), maybe a second one
        recs[0] = (b'\x00' * 64).hex()
        if len(recs) > 2 and rng.random() < 0.3:
            recs[1] = (b'\x00' * rng.choice([1, 8, 63, 64]) + b'\xff' * 64)[:64].hex()
    return {'threads': threads, 'pad': pad, 'recs': recs, 'is64': rng.choice([0, 1, 1, 7]),
            'tick': rng.choice([24000000, 0, 1, (1 << 64) - 1])}


V2_HEADER = 0x120            # magic .. tick + Padding(0x100): where the thread map starts


def offset_sizes(tier):
    """Sizes a v2 layout is aimed at: the page sizes a kernel aligns to, and — on a changed source or in the thorough tier —
    every integer in [128, 2^17] the reader source mentions (mined, see tools/kdv/mined.py)."""
    from .. import mined
    out = [4096, 16384]
    if tier != 'quick' or mined.changed_files():
        rel = 'pykdebugparser/kd_buf_parser.py'
        out += [v for v in mined.int_constants([rel]).get(rel, []) if 128 <= v <= (1 << 17)]
    return list(dict.fromkeys(out))


def gen_file_at_offset(rng, size):
    """A V2File whose zero filler ends (= whose first record starts) just before / at / just after file offset `size`, or whose
    filler is about `size` bytes long."""
    f = gen_file(rng, small=True)
    f['recs'] = [gen_record(rng, first='nonzero' if i == 0 else None).hex() for i in range(rng.choice([1, 2, 3, 5]))]
    used = V2_HEADER + 32 * len(f['threads'])
    d = rng.choice([-65, -64, -1, 0, 1, 63, 64, 65, 128])
    f['pad'] = max(0, (size - used + d) if rng.random() < 0.6 else size + d)
    return f


def gen_prior(rng):
    if rng.random() < 0.3:
        return {'tp': [], 'pn': []}
    tp = [[rng.choice([0, 1, 2, 7, 0x1234, rng.randrange(1 << 64)]), rng.randrange(1 << 32)] for _ in range(rng.randrange(5))]
    pn = [[rng.choice([0, 1, 5, 99, rng.randrange(1 << 32)]), rng.choice(['old', 'stale', 'é', ''])] for _ in range(rng.randrange(5))]
    return {'tp': [list(x) for x in dict(map(tuple, tp)).items()], 'pn': [list(x) for x in dict(map(tuple, pn)).items()]}


def file_bytes(f):
    return ct.enc_v2([(t[0], t[1], bytes.fromhex(t[2])) + ((bytes.fromhex(t[3]),) if len(t) > 3 else ()) for t in f['threads']], f['pad'],
                     [bytes.fromhex(r) for r in f['recs']], f['is64'], f['tick'])


def prior_dicts(p):
    return {k: v for k, v in p['tp']}, {k: v for k, v in p['pn']}


# ---------------------------------------------------------------------------------------- expected (oracle side)

def expected_events(f):
    out = []
    for rh in f['recs']:
        r = bytes.fromhex(rh)
        dbg = int.from_bytes(r[48:52], 'little')
        out.append('E%d:%s:%d:%d:%d:%d' % (int.from_bytes(r[0:8], 'little'), r[8:40].hex(),
                                           int.from_bytes(r[40:48], 'little'), dbg, dbg - dbg % 4, dbg % 4))
    return out


def expected_tables(f):
    tp, pn = {}, {}
    for tid, pid, nh in (t[:3] for t in f["threads"]):
        tp[tid] = pid
        pn[pid] = bytes.fromhex(nh).decode('utf-8')
    return ct.show_tables(tp, pn)


def split_answer(ans):
    """'<outcome> n=<n> [<outs>] tp=… pn=… …' -> (outcome, [outs], 'tp=… pn=…')."""
    outcome, rest = ans.split(' ', 1)
    l, r = rest.index('['), rest.index(']')
    outs = rest[l + 1:r].split() if r > l + 1 else []
    tail = rest[r + 2:].split(' ')
    return outcome, outs, ' '.join(tail[0:2])


def oracle_file(f, ans, k1):
    """The property on one parse answer (independent of the model)."""
    try:
        outcome, outs, tables = split_answer(ans)
    except Exception:
        return ('v2:unparsable-answer', ans[:200])
    exp = expected_events(f)
    sig = None
    if outcome != 'done':
        sig = ('v2:raises', 'a well-formed v2 dump raised ' + outcome)
    elif len(outs) != len(exp):
        sig = ('v2:event-count', 'expected %d events, got %d' % (len(exp), len(outs)))
    elif outs != exp:
        i = next(i for i, (a, b) in enumerate(zip(outs, exp)) if a != b)
        sig = ('v2:event-%d-differs' % min(i, 1), 'event %d is not the decoding of record %d' % (i, i))
    elif tables != expected_tables(f):
        sig = ('v2:tables', 'tables after the parse are not the file\'s thread map: ' + tables[:200])
    if sig and k1:
        return (K1_SIG, 'v2 dump whose first record begins with a zero byte: the zero-padding skipper eats the head of '
                        'the record (%s)' % sig[0])
    return sig


# ---------------------------------------------------------------------------------------- sections

def line_v2(c):
    tp, pn = prior_dicts(c['prior'])
    a, b = ct.prior_args(tp, pn)
    return 'parsen %s %s - %s' % (a, b, c['hex'] or '-')


def impl_v2(c):
    tp, pn = prior_dicts(c['prior'])
    return ct.show_run(ct.run_impl(bytes.fromhex(c['hex']), tp, pn, budget=20 * len(c['hex']) + 2000), reads=False)


def mk_case(f, prior):
    return {'file': f, 'prior': prior, 'hex': file_bytes(f).hex()}


def malformed(rng, n):
    out = []
    for _ in range(n):
        f = gen_file(rng, small=rng.random() < 0.7)
        b = bytearray(file_bytes(f))
        kind = rng.randrange(9)
        if kind == 0:      # truncated anywhere
            b = b[:rng.randrange(len(b) + 1)]
        elif kind == 1:    # thread count larger / smaller than the entries present
            b[4:8] = rng.choice([len(f['threads']) + 1, max(len(f['threads']) - 1, 0), 1000, 0xffffffff]).to_bytes(4, 'little')
        elif kind == 2 and f['threads']:    # a name without terminator
            i = rng.randrange(len(f['threads']))
            off = 288 + 32 * i + 12
            b[off:off + 20] = bytes(rng.randrange(1, 128) for _ in range(20))
        elif kind == 3 and f['threads']:    # invalid UTF-8 in a name
            i = rng.randrange(len(f['threads']))
            off = 288 + 32 * i + 12
            bad = rng.choice([b'\xff', b'\xc0\x80', b'\xed\xa0\x80', b'\xf4\x90\x80\x80', b'\xe0\x80\x80', b'\xc3', b'\x80',
                              b'\xf0\x80\x80\x80', b'\xe2\x82', b'\xf8\x88\x80\x80\x80'])
            b[off:off + 20] = (bad + b'\x00' * 20)[:20]
        elif kind == 4:    # partial last record
            b += rng.randbytes(rng.randrange(1, 64))
        elif kind == 5:    # unknown magic / short file
            b = bytearray(rng.choice([b'', b'\x00', b'\x00\x02', b'\x00\x02\xaa', b'\x00\x04\xaa\x55', b'\x00\x02\xaa\x54',
                                      rng.randbytes(4)]) + bytes(b[4:rng.randrange(4, len(b) + 1)]))
        elif kind == 6:    # junk after a name's terminator, junk in header padding (must be ignored)
            for off in list(range(8, 20)) + list(range(32, 288)):
                if rng.random() < 0.2:
                    b[off] = rng.randrange(256)
            for i in range(len(f['threads'])):
                nl = len(bytes.fromhex(f['threads'][i][2]))
                for off in range(288 + 32 * i + 12 + nl + 1, 288 + 32 * i + 32):
                    b[off] = rng.randrange(256)
        elif kind == 7:    # random byte flips
            for _ in range(rng.randrange(1, 6)):
                b[rng.randrange(len(b))] = rng.randrange(256)
        else:              # pure noise behind the magic
            b = bytearray(ct.V2_MAGIC + rng.randbytes(rng.randrange(0, 400)))
        out.append({'prior': gen_prior(rng), 'hex': bytes(b).hex(), 'kind': kind})
    return out


def line_seq(c):
    tp, pn = prior_dicts(c['prior'])
    a, b = ct.prior_args(tp, pn)
    return 'parseseqn %s %s - %s' % (a, b, ' '.join(h or '-' for h in c['hexes']))


def impl_seq(c):
    from pykdebugparser.kd_buf_parser import KdBufParser
    tp, pn = prior_dicts(c['prior'])
    kp = KdBufParser(tp, pn)
    outs = []
    for h in c['hexes']:
        outs.append(ct.show_run(ct.run_impl(bytes.fromhex(h), tp, pn, kp=kp), reads=False))
    return ' || '.join(outs)


def oracle_seq(c, ans):
    parts = ans.split(' || ')
    if len(parts) != len(c['files']):
        return ('v2:seq-shape', ans[:200])
    for i, (f, a) in enumerate(zip(c['files'], parts)):
        if f is None:               # a dump that is not well-formed (cut, garbage): only what FOLLOWS it is judged
            continue
        r = oracle_file(f, a, False)
        if r:
            before = [k for k in c.get('kinds', [])[:i] if k != 'good']
            return (r[0] + '@seq', 'in a sequence of parses sharing one parser object (parse %d of %d%s): %s'
                    % (i + 1, len(parts), ', after a parse that ended in an exception: ' + '/'.join(before) if before else '', r[1]))
    return None


# ---------------------------------------------------------------------------------------- histories with failed parses

BAD_KINDS = ['cut-record', 'cut-record', 'cut-record', 'cut-header', 'cut-threadmap', 'partial-tail', 'garbage', 'magic-only']


def bad_dump(rng, kind):
    """bytes of a dump whose parse ends in an exception (consumed up to it)."""
    f = gen_file(rng, small=True)
    if kind in ('cut-record', 'partial-tail') and not f['recs']:
        f['recs'] = [gen_record(rng, 'nonzero').hex() for _ in range(rng.randrange(1, 4))]
    if kind == 'cut-threadmap' and not f['threads']:
        f['threads'] = [[7, 7, b'x'.hex()]]
    b = file_bytes(f)
    p0 = len(b) - 64 * len(f['recs'])
    if kind == 'cut-record':        # the dump ends inside a record (any record, any byte)
        return b[:p0 + 64 * rng.randrange(len(f['recs'])) + rng.choice([1, 7, 8, 17, 32, 51, 52, 63, rng.randrange(1, 64)])]
    if kind == 'partial-tail':      # complete records, then 1..63 more bytes
        return b + rng.randbytes(rng.randrange(1, 64))
    if kind == 'cut-header':
        return b[:rng.randrange(4, 288)]
    if kind == 'cut-threadmap':
        return b[:288 + rng.randrange(1, 32 * len(f['threads']))]
    if kind == 'magic-only':
        return b[:4]
    return rng.choice([b'', b'\x00', b'\x00\x02\xaa', b'\x00\x04\xaa\x55', rng.randbytes(4)]) + rng.randbytes(rng.randrange(0, 90))


def gen_history(rng, small=True):
    """2..6 parses for ONE object: well-formed dumps and dumps that end in an exception, at least one well-formed dump behind
    a failed one.  -> (files: description | None per step, hexes, kinds)"""
    while True:
        kinds = [rng.choice(['good', 'good'] + BAD_KINDS[:rng.choice([3, len(BAD_KINDS)])]) for _ in range(rng.randrange(2, 7))]
        if any(a != 'good' and 'good' in kinds[i + 1:] for i, a in enumerate(kinds)):
            break
    files, hexes = [], []
    for k in kinds:
        if k == 'good':
            f = gen_file(rng, small=small)
            files.append(f)
            hexes.append(file_bytes(f).hex())
        else:
            files.append(None)
            hexes.append(bad_dump(rng, k).hex())
    return files, hexes, kinds


def consume_kevents(p, data):
    evs, err = [], None
    try:
        for e in p.kevents(io.BytesIO(data)):
            evs.append(e)
    except Exception as e:
        err = e
    return evs, err


def oracle_api_history(c):
    """ONE PyKdebugParser serves every request of the history through kevents(); each well-formed dump must deliver exactly
    its records and leave exactly its thread map, whatever was parsed (or failed to parse) before."""
    from pykdebugparser.pykdebugparser import PyKdebugParser
    p = PyKdebugParser()
    tp, pn = prior_dicts(c['prior'])
    p.threads_pids.update(tp)
    p.pids_names.update(pn)
    for i, (f, h) in enumerate(zip(c['files'], c['hexes'])):
        evs, err = consume_kevents(p, bytes.fromhex(h))
        if f is None:
            continue
        ans = '%s n=%d [%s] %s' % (ct.show_err(err), len(evs), ' '.join(ct.show_ev(e) for e in evs),
                                    ct.show_tables(p.threads_pids, p.pids_names))
        r = oracle_file(f, ans, False)
        if r is None and [ct.ev_key(e) for e in evs] != [ct.dec_rec(bytes.fromhex(x)) for x in f['recs']]:
            r = ('v2:event-values', 'the values of an event are not the four arguments of its record')
        if r:
            before = [k for k in c['kinds'][:i] if k != 'good']
            return (r[0] + '@api-seq', 'request %d of %d on ONE PyKdebugParser (kevents)%s: %s'
                    % (i + 1, len(c['files']), ', after a request that ended in an exception: ' + '/'.join(before) if before else '', r[1]),
                    dict(c, files=c['files'][:i + 1], hexes=c['hexes'][:i + 1], kinds=c['kinds'][:i + 1]))
    return None


def oracle_lazy_requests(c):
    """kevents() is lazy: a caller may hold several requests on ONE PyKdebugParser before reading any of them.  Whatever the
    order in which they are read (one after the other in any order, or alternately), each request delivers exactly its dump's
    records, and when all have been read the tables are exactly the thread map of the dump whose reading STARTED last — never
    a mixture of several dumps' maps."""
    from pykdebugparser.pykdebugparser import PyKdebugParser
    p = PyKdebugParser()
    tp, pn = prior_dicts(c['prior'])
    p.threads_pids.update(tp)
    p.pids_names.update(pn)
    gens = [p.kevents(io.BytesIO(bytes.fromhex(h))) for h in c['hexes']]      # all requests made before any is read
    got = [[] for _ in gens]
    last_started = None
    try:
        if c['order'] == 'alternate':
            live = list(range(len(gens)))
            started = set()
            while live:
                for i in list(live):
                    try:
                        got[i].append(next(gens[i]))
                    except StopIteration:
                        live.remove(i)
                    if i not in started:
                        started.add(i)
                        last_started = i
        else:
            for i in c['order']:
                last_started = i
                got[i] = list(gens[i])
    except Exception as e:
        return ('v2:raises@lazy', 'well-formed dumps read through requests made in advance raised ' + core.err_name(e), c)
    for i, (f, evs) in enumerate(zip(c['files'], got)):
        if [ct.ev_key(e) for e in evs] != [ct.dec_rec(bytes.fromhex(x)) for x in f['recs']]:
            return ('v2:events@lazy', 'request %d of %d (all made before any was read, order %s) does not deliver exactly its '
                    'dump\'s records' % (i + 1, len(gens), c['order']), c)
    have = ct.show_tables(p.threads_pids, p.pids_names)
    want = expected_tables(c['files'][last_started])
    if have != want:
        return ('v2:tables@lazy', '%d requests made on ONE PyKdebugParser before any was read, read in order %s: the tables are %s, '
                'the thread map of the dump read last (request %d) is %s' % (len(gens), c['order'], have[:160], last_started + 1,
                                                                           want[:160]), c)
    return None


def gen_trace_history(rng):
    """steps for formatted_traces on ONE PyKdebugParser: realistic dumps (pipeline.e2e_case), some cut inside a record."""
    from .. import pipeline as PL
    while True:
        kinds = [rng.choice(['good', 'good', 'cut-record', 'cut-record', 'cut-header']) for _ in range(rng.randrange(2, 5))]
        if any(a != 'good' and 'good' in kinds[i + 1:] for i, a in enumerate(kinds)):
            break
    steps = []
    bits = ''.join(rng.choice('01') for _ in range(6))
    for k in kinds:
        e = PL.e2e_case(rng, cut=None, plain=1.0)
        data = bytes.fromhex(e['whole'])
        nrec = (len(data) - e['hdr']) // 64
        if k == 'cut-record' and nrec:
            data = data[:e['hdr'] + 64 * rng.randrange(nrec) + rng.randrange(1, 64)]
        elif k != 'good':
            data, k = data[:rng.randrange(4, min(e['hdr'], 288))], 'cut-header'
        steps.append({'kind': k, 'hex': data.hex(), 'codes': e['codes']})
    return {'steps': steps, 'bits': bits}


def oracle_trace_history(c):
    """formatted_traces of every well-formed dump on the ONE used object == on a fresh object (lines and final exception)."""
    from .. import pipeline as PL
    cfg = dict(PL.E2E_CONFIGS[0], bits=c['bits'])

    def run(p, st):
        lines, err = [], '-'
        try:
            for ln in p.formatted_traces(io.BytesIO(bytes.fromhex(st['hex'])), {int(k): v for k, v in st['codes'].items()}):
                lines.append(ln)
        except Exception as e:
            err = PL.e2e_err_name(e)
        return lines, err
    used = PL.e2e_parser(cfg)
    for i, st in enumerate(c['steps']):
        got = run(used, st)
        if st['kind'] != 'good':
            continue
        want = run(PL.e2e_parser(cfg), st)
        if got != want:
            return ('v2:traces-residue@api-seq', 'request %d of %d on ONE PyKdebugParser (formatted_traces, earlier requests: %s): '
                    '%d lines, exception %s; a fresh object gives %d lines, exception %s'
                    % (i + 1, len(c['steps']), '/'.join(s_['kind'] for s_ in c['steps'][:i]) or '-', len(got[0]), got[1],
                       len(want[0]), want[1]), dict(c, steps=c['steps'][:i + 1]))
    return None


# ---------------------------------------------------------------------------------------- dumps longer than the reader's blocks

def block_case_set(rng, tier, sizes):
    """For every block size B the reader may work with: a history on ONE object — a dump with more than 2B bytes of records
    (B > 2 MiB: more than B), the same dump cut inside a record behind B (consumed to its exception), a small dump, the big
    dump again."""
    cases = []
    for B, origin in sizes:
        n = (2 * B if B <= (2 << 20) else B) // 64 + 9
        for api in (0, 1):
            big = {'v': 2, 'seed': rng.randrange(1 << 30), 'threads': rng.randrange(0, 4), 'pad': rng.choice([0, 0, 3, 64]), 'n': n}
            small = {'v': 2, 'seed': rng.randrange(1 << 30), 'threads': rng.randrange(0, 4), 'pad': rng.choice([0, 1]),
                     'n': rng.randrange(1, 5)}
            cut = B + 64 * rng.randrange(0, 4) + rng.randrange(1, 64)        # counted from the start of the record area
            cases.append({'B': B, 'origin': origin, 'api': api,
                          'steps': [[big, None], [big, cut], [small, None], [big, None]]})
    return cases


def oracle_blocks(c):
    from pykdebugparser.kd_buf_parser import KdBufParser
    from pykdebugparser.pykdebugparser import PyKdebugParser
    tp, pn = {7: 7}, {7: 'stale'}
    if c['api']:
        p = PyKdebugParser()
        p.threads_pids.update(tp)
        p.pids_names.update(pn)
        tp, pn = p.threads_pids, p.pids_names
        parse = p.kevents
    else:
        parse = KdBufParser(tp, pn).parse
    for i, (rc, cut) in enumerate(c['steps']):
        data, info = ct.big_bytes(rc)
        if cut is not None:
            data = data[:info['p0'] + cut]
        evs, err = [], [None]

        def go():
            try:
                for e in parse(io.BytesIO(data)):
                    evs.append(e)
            except Exception as x:
                err[0] = x
        ct.guarded(go, 180)
        if isinstance(err[0], ct.Watchdog):
            return ('v2:hang@blocks', 'parse %d of the history does not return' % (i + 1))
        if cut is not None:
            continue
        r = ct.judge_whole(info, evs, err[0], ct.show_tables(tp, pn), 'v2 dump')
        if r:
            return ('v2:%s@blocks' % r[0], 'parse %d of %d on ONE %s (%d records; earlier: %s): %s; block size aimed at %d (%s)'
                    % (i + 1, len(c['steps']), 'PyKdebugParser (kevents)' if c['api'] else 'KdBufParser', rc['n'],
                       ', '.join('%d records%s' % (r_['n'], '' if k is None else ' cut %d bytes into the record area' % k)
                                 for r_, k in c['steps'][:i]) or '-', r[1], c['B'], c['origin']),
                    dict(c, steps=c['steps'][:i + 1]))
    return None


def line_kev(c):
    tp, pn = prior_dicts(c['prior'])
    a, b = ct.prior_args(tp, pn)
    return 'kevents %s %s - %s' % (a, b, c['hex'] or '-')


def impl_kev(c):
    from pykdebugparser.pykdebugparser import PyKdebugParser
    tp, pn = prior_dicts(c['prior'])
    p = PyKdebugParser()
    p.threads_pids.update(tp)
    p.pids_names.update(pn)
    evs, err = [], None
    try:
        for e in p.kevents(io.BytesIO(bytes.fromhex(c['hex']))):
            evs.append(e)
    except Exception as e:
        err = e
    return '%s n=%d [%s] %s' % (ct.show_err(err), len(evs), ' '.join(ct.show_ev(e) for e in evs),
                                ct.show_tables(p.threads_pids, p.pids_names))


def oracle_kev(c, ans):
    r = oracle_file(c['file'], ans, False)
    return (r[0] + '@kevents', r[1]) if r else None


def line_enc(f):
    th = ','.join('%d:%d:%s' % (t[0], t[1], t[2]) + (':' + t[3] if len(t) > 3 else '') for t in f['threads']) or '-'
    return 'encv2 %d %d %d %s %s' % (f['is64'], f['tick'], f['pad'], th, ''.join(f['recs']) or '-')


UTF8_FIXED = [b'', b'a', b'\x7f', b'\x80', b'\xbf', b'\xc0\x80', b'\xc1\xbf', b'\xc2\x80', b'\xdf\xbf', b'\xc2', b'\xc2\x7f',
              b'\xe0\x9f\xbf', b'\xe0\xa0\x80', b'\xe0\xbf\xbf', b'\xe1\x80\x80', b'\xec\xbf\xbf', b'\xed\x9f\xbf',
              b'\xed\xa0\x80', b'\xed\xbf\xbf', b'\xee\x80\x80', b'\xef\xbf\xbf', b'\xf0\x8f\xbf\xbf', b'\xf0\x90\x80\x80',
              b'\xf1\x80\x80\x80', b'\xf3\xbf\xbf\xbf', b'\xf4\x8f\xbf\xbf', b'\xf4\x90\x80\x80', b'\xf5\x80\x80\x80',
              b'\xf8\x88\x80\x80\x80', b'\xff', b'\xfe', b'\xe2\x82', b'\xe2\x82\xac', b'\xe2\x82\xac\x80', b'a\xe2\x82\xacb',
              b'\xf0\x9d\x84\x9e', b'\xf0\x9d\x84', b'\xf0\x9d', b'\xf0']


def utf8_cases(rng, n):
    cases = [b.hex() for b in UTF8_FIXED]
    for a in range(0x80, 0x100):                 # every lead byte with 0..3 boundary continuations
        for tail in (b'', b'\x80', b'\xbf', b'\x80\x80', b'\xbf\xbf', b'\x9f\x80', b'\xa0\x80', b'\x8f\x80\x80',
                     b'\x90\x80\x80', b'\x80\x80\x80', b'\xbf\xbf\xbf', b'\x7f', b'\xc0'):
            cases.append((bytes([a]) + tail).hex())
    for _ in range(n):
        k = rng.randrange(1, 8)
        if rng.random() < 0.5:
            s = ''.join(rng.choice(NAME_ALPHABET) for _ in range(k)).encode('utf-8')
            if rng.random() < 0.5 and s:
                i = rng.randrange(len(s))
                s = s[:i] + bytes([rng.randrange(256)]) + s[i + 1:]
        else:
            s = bytes(rng.choice([0x41, 0x80, 0xbf, 0xc2, 0xe0, 0xed, 0xf0, 0xf4, 0x9f, 0xa0, 0x8f, 0x90, rng.randrange(256)])
                      for _ in range(k))
        cases.append(s.hex())
    return cases


def impl_utf8(h):
    try:
        bytes.fromhex(h).decode('utf8')
        return 'ok 1'
    except UnicodeDecodeError:
        return 'ok 0'


def decl_translation_tie(rep):
    """`decl_source_is_expected_ir` through the driver (`cnircheck`): the construct declarations translated from the source are
    the ones `kd_threadmap_decl_eq_model` / `kd_header_v2_decl_eq_model` are proved for."""
    from .. import cnir
    return cnir.enable(rep)


def correspondence(rep, rng, tier):
    from .. import rdir
    decl_ok = decl_translation_tie(rep)
    rdir.enable(rep)
    quick = tier == 'quick'
    if decl_ok:
        from .. import cnir
        cnir.section_decl_ir(rep, rng, lambda g: file_bytes(gen_file(g, small=g.random() < 0.7))[4:], 300 if quick else 6000)
    from .. import pipeline as _PL
    _PL.section_e2e(rep, rng, tier, n=(120 if quick else 3000), plain=0.7)
    n_main = 500 if quick else 8000
    main = [mk_case(gen_file(rng), gen_prior(rng)) for _ in range(n_main)]
    run_section(rep, 'v2', main, line_v2, impl_v2,
                oracle_fn=lambda c, got: oracle_file(c['file'], got, False),
                nontrivial_fn=lambda c, got: len(c['file']['recs']) > 1 and len(c['file']['threads']) > 0,
                kind_fn=lambda c, got: 'thr%s-pad%s-rec%s' % (min(len(c['file']['threads']), 2), min(c['file']['pad'], 2),
                                                            min(len(c['file']['recs']), 2)),
                rule='generated V2Files (0-40 threads incl. duplicate tids/pids, names 0..19 bytes incl. multi-byte UTF-8, '
                     'pad in {0,1,2,7,8,63,64,65,127..129,3808,4096}, 0-50 records, first record byte non-zero), parsed by '
                     'KdBufParser(tp, pn).parse(CountingReader) with polluted prior tables; full answer compared (events, '
                     'tables, outcome); oracle: events == records decoded with int.from_bytes, tables == dict '
                     'of the thread list; non-trivial = >1 record and >0 threads')
    offs = []
    for size in offset_sizes(tier):
        offs += [mk_case(gen_file_at_offset(rng, size), gen_prior(rng)) for _ in range(6 if quick else 40)]
    run_section(rep, 'v2-offsets', offs, line_v2, impl_v2,
                oracle_fn=lambda c, got: oracle_file(c['file'], got, False),
                nontrivial_fn=lambda c, got: c['file']['pad'] > 1000,
                kind_fn=lambda c, got: 'pad%d' % (c['file']['pad'].bit_length()),
                rule='V2Files whose zero filler ends within 65 bytes of a file offset the kernel aligns to (4096, 16384) or '
                     'that the reader source mentions (mined integers in [128, 2^17]; on a changed source / thorough tier), or '
                     'whose filler has about that length; same comparison and oracle as section v2')
    k1 = [mk_case(gen_file(rng, k1=True), gen_prior(rng)) for _ in range(150 if quick else 2000)]
    run_section(rep, 'v2-k1', k1, line_v2, impl_v2,
                oracle_fn=lambda c, got: oracle_file(c['file'], got, True),
                kind_fn=lambda c, got: got.split(' ', 1)[0],
                rule='finding stream K1 only: first record begins with a zero byte; model and code must still agree '
                     '(the model reproduces the defect), the oracle reports signature ' + K1_SIG)
    junk = []
    for _ in range(150 if quick else 4000):
        f = gen_file(rng, small=rng.random() < 0.5)
        if f['threads']:
            f['threads'] = ct.add_junk(rng, f['threads'])
            junk.append(mk_case(f, gen_prior(rng)))
    run_section(rep, 'v2-junk', junk, line_v2, impl_v2, oracle_fn=lambda c, got: oracle_file(c['file'], got, False),
                nontrivial_fn=lambda c, got: any(len(t) > 3 for t in c['file']['threads']),
                rule='generated V2Files whose 20-byte command fields hold bytes BEHIND the name\'s terminator (reused kernel '
                     'slots: random bytes, text, further NULs, 0xff): the name is the C string, the rest is not part of it; same '
                     'comparison and oracle as section v2')
    mal = malformed(rng, 600 if quick else 10000)
    run_section(rep, 'v2-malformed', mal, line_v2, impl_v2,
                kind_fn=lambda c, got: 'k%d-%s' % (c['kind'], got.split(' ', 1)[0]),
                rule='malformed stream (truncations, wrong thread count, names without NUL / with invalid UTF-8, partial '
                     'last record, unknown or short magic, junk in ignored bytes, byte flips, noise): outcome kind, events '
                     'before the error and tables must agree')
    seqs = []
    for _ in range(150 if quick else 2500):
        fs = [gen_file(rng, small=True) for _ in range(rng.randrange(2, 5))]
        seqs.append({'files': fs, 'prior': gen_prior(rng), 'hexes': [file_bytes(f).hex() for f in fs]})
    run_section(rep, 'v2-seq', seqs, line_seq, impl_seq, oracle_fn=oracle_seq,
                rule='2-4 successive parses on ONE KdBufParser sharing polluted dicts: after each parse the tables are '
                     'exactly that file\'s thread map (no residue)')
    hist = []
    for _ in range(150 if quick else 3000):
        fs, hexes, kinds = gen_history(rng)
        hist.append({'files': fs, 'prior': gen_prior(rng), 'hexes': hexes, 'kinds': kinds})
    run_section(rep, 'v2-seq-failed', hist, line_seq, impl_seq, oracle_fn=oracle_seq,
                nontrivial_fn=lambda c, got: True,
                kind_fn=lambda c, got: 'after-' + next(k for k in c['kinds'] if k != 'good'),
                rule='2-6 successive parses on ONE KdBufParser, each consumed to its end or to its exception: well-formed dumps '
                     'mixed with dumps cut inside a record (any byte of any record) / inside the header / inside the thread map, '
                     'dumps with a partial trailing record, a bare magic, garbage; at least one well-formed dump follows a failed '
                     'parse; every answer compared with the model; oracle: every well-formed dump of the history delivers exactly '
                     'its records and leaves exactly its thread map (no residue of an earlier parse, failed ones included)')
    api_hist = []
    for _ in range(150 if quick else 3000):
        fs, hexes, kinds = gen_history(rng)
        api_hist.append({'files': fs, 'prior': gen_prior(rng), 'hexes': hexes, 'kinds': kinds})
    lazy = []
    for _ in range(120 if quick else 2500):
        fs = [gen_file(rng, small=True) for _ in range(rng.randrange(2, 4))]
        order = rng.choice(['alternate', list(range(len(fs))), list(reversed(range(len(fs)))), rng.sample(range(len(fs)), len(fs))])
        lazy.append({'files': fs, 'prior': gen_prior(rng), 'hexes': [file_bytes(f).hex() for f in fs], 'order': order})
    core.run_code_section(rep, 'v2-lazy-requests', lazy, oracle_lazy_requests,
                          kind_fn=lambda c: c['order'] if isinstance(c['order'], str) else 'sequential',
                          rule='code-only section: 2-3 kevents() requests made on ONE PyKdebugParser BEFORE any is read, then read '
                               'one after the other in every order or alternately: each delivers exactly its records, and the tables '
                               'end as exactly the thread map of the dump whose reading started last (never a mixture)')
    core.run_code_section(rep, 'v2-seq-api', api_hist, oracle_api_history,
                          kind_fn=lambda c: 'after-' + next(k for k in c['kinds'] if k != 'good'),
                          rule='code-only section: the same histories as v2-seq-failed as successive kevents() requests on ONE '
                               'PyKdebugParser (each iterated to its end or its exception); every well-formed dump: events (all '
                               'fields incl. values) == its records decoded with int.from_bytes, tables == its thread map')
    tr_hist = [gen_trace_history(rng) for _ in range(60 if quick else 1200)]
    core.run_code_section(rep, 'v2-seq-traces', tr_hist, oracle_trace_history,
                          kind_fn=lambda c: 'after-' + next(s_['kind'] for s_ in c['steps'] if s_['kind'] != 'good'),
                          rule='code-only section: formatted_traces() requests on ONE PyKdebugParser over realistic dumps (system '
                               'calls, lookups, thread names), some cut inside a record or the header; for every well-formed dump '
                               'the lines and the final exception equal those of a fresh PyKdebugParser')
    from .. import readprobe
    sizes = readprobe.block_sizes(tier, version=2)
    rep.notes.append(readprobe.describe(tier))
    core.run_code_section(rep, 'v2-blocks', block_case_set(rng, tier, sizes), oracle_blocks,
                          kind_fn=lambda c: ('api' if c['api'] else 'parser') + ':' + c['origin'].split(':')[0],
                          rule='code-only section (inputs too long for a protocol line): for every block size B the reader may '
                               'work with (request sizes recorded from the real reader, tools/kdv/readprobe.py; integer constants '
                               'of its source and their products with 64; thorough tier / changed source: 2^9..2^20) a history on '
                               'ONE KdBufParser and on ONE PyKdebugParser: a dump with more than 2B bytes of records, the same dump '
                               'cut inside a record behind B (consumed to its exception), a small dump, the big dump again; every '
                               'well-formed dump: all fields of the events == its records decoded, tables == its thread map')
    kev = [mk_case(gen_file(rng, small=rng.random() < 0.5), gen_prior(rng)) for _ in range(200 if quick else 3000)]
    run_section(rep, 'v2-kevents', kev, line_kev, impl_kev, oracle_fn=oracle_kev,
                rule='the same through PyKdebugParser().kevents(BytesIO) with pre-polluted parser tables')
    encs = [gen_file(rng, small=rng.random() < 0.5) for _ in range(200 if quick else 3000)]
    for f in encs[::2]:
        f['threads'] = ct.add_junk(rng, f['threads'])
    run_section(rep, 'encv2', encs, line_enc, lambda f: file_bytes(f).hex(),
                rule='Lean Spec.encodeV2 output == the harness\'s own Python encoder, byte for byte (every second file with bytes behind the names\' terminators)')
    u8 = utf8_cases(rng, 500 if quick else 20000)
    run_section(rep, 'utf8', u8, lambda h: 'utf8 ' + (h or '-'), impl_utf8,
                rule='Model/Construct.validUtf8 == CPython bytes.decode("utf8") succeeds (every lead byte x boundary '
                     'continuations, fixed boundary vectors, random)')


def replay(path):
    with open(path) as fd:
        r = json.load(fd)
    rp = r['replay']
    sec, case = rp['section'], rp['case']
    if sec == 'end-to-end':
        from .. import pipeline as _PL
        return _PL.replay_e2e(case, 'C02', path)
    code_only = {'v2-lazy-requests': oracle_lazy_requests, 'v2-seq-api': oracle_api_history, 'v2-seq-traces': oracle_trace_history, 'v2-blocks': oracle_blocks}
    if sec in code_only:
        if sec == 'v2-blocks':
            print('history on ONE %s:' % ('PyKdebugParser (kevents)' if case['api'] else 'KdBufParser'), case['steps'])
        elif sec == 'v2-lazy-requests':
            print('%d kevents() requests made on ONE PyKdebugParser before any is read; read in order %s' % (len(case['hexes']), case['order']))
        elif sec == 'v2-seq-api':
            print('history on ONE PyKdebugParser (kevents):', list(zip(case['kinds'], [h[:160] for h in case['hexes']])))
        else:
            print('history on ONE PyKdebugParser (formatted_traces):', [(s_['kind'], s_['hex'][:160]) for s_ in case['steps']])
        res = code_only[sec](case)
        if res:
            print('failing:', res[:2])
            print(f'VIOLATION property=C02 replay={path}')
            return 1
        print('no violation on this input')
        return 0
    fns = {'v2': (line_v2, impl_v2, lambda c, g: oracle_file(c['file'], g, False)),
           'v2-seq-failed': (line_seq, impl_seq, oracle_seq),
           'v2-junk': (line_v2, impl_v2, lambda c, g: oracle_file(c['file'], g, False)),
           'v2-offsets': (line_v2, impl_v2, lambda c, g: oracle_file(c['file'], g, False)),
           'v2-k1': (line_v2, impl_v2, lambda c, g: oracle_file(c['file'], g, True)),
           'v2-malformed': (line_v2, impl_v2, None), 'v2-seq': (line_seq, impl_seq, oracle_seq),
           'v2-kevents': (line_kev, impl_kev, oracle_kev)}
    if sec not in fns:
        print('replay: section %s has no oracle' % sec)
        return 0
    line_fn, impl_fn, orc = fns[sec]
    try:
        got = impl_fn(case)
    except Exception as e:
        got = 'err ' + core.err_name(e)
    model = core.drive([line_fn(case)])[0]
    print('impl :', got[:3000])
    print('model:', model[:3000])
    res = orc(case, got) if orc else None
    if res and not core.Findings().known('C02', res[0]):
        print('failing:', res)
        print(f'VIOLATION property=C02 replay={path}')
        return 1
    return 0


LEVEL_TEXT = ('Lean theorems over the reader/construct model of parse_v2 for ALL well-formed v2 files (any thread map, padding '
              'length, record list) and ANY prior tables: v2_events_partial (events = records decoded, in order, exactly m), '
              'v2_tables (+ v2_tables_seq, v2_lookup_last_wins: tables = the file\'s thread map, later key wins, no residue), '
              'v2_pad_eats_record (negative witness for K1); composed with C01 and the layers behind the container: '
              'e2e_dump_of_encoded (what traces()/formatted_traces work on = the file\'s thread map and the decodings of its '
              'records, no container exception), e2e_threadmap_of_encoded (thread map half without the K1 hypothesis), '
              'e2e_lines_of_encoded (lines of the file\'s bytes = line builder over traces of thread map + decoded records, '
              'only the trace layer\'s exception); the model is tied to the code by differential runs on generated '
              'files, malformed files, parse sequences (incl. histories in which earlier parses ended in an exception) and the public kevents() '
              'entry point; code-only oracles over histories on one PyKdebugParser and over dumps longer than every block size the reader '
              'requests (read-size probing, tools/kdv/readprobe.py).'
              " TRANSLATION TIE: the source text of parse / parse_v2 / parse_v3 (whole, incl. the additional-data blocks and the log loop) / seek_until / set_thread_map is translated on every run (tools/gen_pyir_rd.py, pure ast) into the Python-subset IR of Model/PyIRRd (statements over the model's reader: read, while/for/break/raise/yield, bytes slices and comparisons, construct parsers as primitives; big-step interpreter); source_is_expected_ir: the generated program is the one of Spec/PyIRRdExpected; parse_is_interpreted_source: for EVERY byte string and prior state the model's parse IS that program run by the interpreter, with the same read calls; per piece: set_thread_map_ir_eq_model, parse_dispatch_ir_eq_model, parse_v2_ir_eq_model."
              " DECLARATIONS: the construct declarations kd_threadmap / kd_header_v2 themselves (module-level Struct(...) expressions) are translated too (tools/gen_pyir_cn.py -> Gen/PyIRCn, deep embedding Model/PyIRCn.Con with the interpreter Con.parse over the model's reader monad and the combinators of Model/Construct): decl_source_is_expected_ir, kd_threadmap_decl_eq_model, kd_header_v2_decl_eq_model (for EVERY reader state the interpreted declaration = threadEntry / headerV2: same value, exception, position, read counters, incl. the greedy zero padding and its rewind), parse_v2_rests_on_declarations (parseV2 with its primitive replaced by the interpreted kd_header_v2); section decl-ir runs the generated declarations against the real construct objects.")
LEVEL_NOTE = ('Partial: v2_events_partial carries the hypothesis "no records, or first record byte != 0" — without it the real '
              'code loses or misaligns records (known finding K1, reproduced on model and code every run). Trusted: Lean kernel, '
              'Model/Construct + Model/Reader as models of construct/BytesIO (diffed, not verified), Spec.encodeV2 as the meaning '
              'of "version-2 dump".'
              ' The hand model of the readers is no longer trusted by itself: it is proved equal to the interpreted source (trusted instead: translator tools/gen_pyir_rd.py and interpreter Model/PyIRRd, both tested against CPython by the sections *-ir; the construct parsers, plistlib.loads and OsLogEvent.from_raw_log_event as primitives / parameters).'
              ' The construct parser kd_header_v2 is no longer a primitive by fiat: its declaration is translated and proved equal to headerV2 (trusted instead: translator tools/gen_pyir_cn.py, Con.parse as the way construct composes its classes, and ONE combinator of Model/Construct per construct class — Padding(0x100) vs Padding(0xfc), field order, Int32ul vs Int64ul, FixedSized(0x14, …) are read off the source).')
TECHNIQUE = 'Lean 4 proof (parser/encoder round trip) + differential correspondence + translation validation (source text -> IR, proved equal to the model)'
