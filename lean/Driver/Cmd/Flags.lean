import Driver.Util
import KdVerif.Model.Flags
import KdVerif.Gen.Flags
open KdVerif
namespace Driver.Flags

def showNames (l : List EnumMember) : String :=
  if l.isEmpty then "ok -" else "ok " ++ ",".intercalate (l.map (·.name))

/-- `flags <site> <word>` : the names one flag comprehension of the source shows for the word
    (site = `<module>.<function>` as listed by `sites`). -/
def cmdFlags : Cmd
  | [f, v] =>
    match Gen.Flags.sites.find? (·.func = f), v.toNat? with
    | some s, some x => showNames (s.eval x)
    | none, some _ => "err NoSuchSite"
    | _, _ => "bad-op"
  | _ => "bad-op"

/-- `openflags <word>` : serialize_open_flags. -/
def cmdOpen : Cmd
  | [v] =>
    match v.toNat? with
    | some x => showNames (serializeOpenFlags Gen.Flags.openAcc Gen.Flags.openAccElse Gen.Flags.openShown x)
    | none => "bad-op"
  | _ => "bad-op"

/-- `statflags <word>` : serialize_stat_flags. -/
def cmdStat : Cmd
  | [v] =>
    match v.toNat? with
    | some x => showNames (serializeStatFlags Gen.Flags.statIter Gen.Flags.statTypeMask Gen.Flags.statFieldMask x)
    | none => "bad-op"
  | _ => "bad-op"

/-- `ioctl <request word>` : `ok <direction text, hex> <group> <number> <length>` | `err KeyError`. -/
def cmdIoctl : Cmd
  | [v] =>
    match v.toNat? with
    | some w =>
      match splitIoctl Gen.Flags.iocParams Gen.Flags.iocLayout w with
      | .ok p => s!"ok {hexOfString p.dir} {p.group} {p.num} {p.len}"
      | .error e => s!"err {e.name}"
    | none => "bad-op"
  | _ => "bad-op"

def zeroText : ZeroCase → String
  | .none => "-"
  | .wordZero z => "word:" ++ z.name
  | .emptyResult z => "empty:" ++ z.name

/-- `sites` : the comprehension sites the translator found, `func:enum:iteration:zero-case`. -/
def cmdSites : Cmd
  | [] => "ok " ++ ";".intercalate (Gen.Flags.sites.map fun s =>
      s!"{s.func}:{s.enum.name}:{s.src.name}:{zeroText s.zero}")
  | _ => "bad-op"

def commands : List (String × Cmd) :=
  [("flags", cmdFlags), ("openflags", cmdOpen), ("statflags", cmdStat), ("ioctl", cmdIoctl), ("sites", cmdSites)]

end Driver.Flags
