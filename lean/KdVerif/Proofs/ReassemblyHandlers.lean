import KdVerif.Proofs.ReassemblyRun
/-
  C08 lemmas, part 3: the three reassembling handlers (`VFS_LOOKUP`, `TRACE_STRING_GLOBAL`,
  `TRACE_STRING_THREADNAME(_PREV)`) on kernel-encoded records, and their `Reasm` instances.
-/
namespace KdVerif.Reassembly
open KdVerif.Trace KdVerif.Pairing

/-! ### the loops on encoded texts -/

theorem vnodeGen_lookupEvents (dec : Bytes → Except PyErr String) (tid eid : Nat) (ts : Nat → Nat)
    (vnode : Nat) (p : Bytes) (hv : vnode < 2 ^ 64) (hp : NulFree p) (rest : List Kevent) :
    vnodeGen dec (lookupEvents tid eid ts vnode p ++ rest) [] 0 [] =
      (do let s ← dec p
          let more ← vnodeGen dec rest [] 0 []
          pure (⟨lookupEvents tid eid ts vnode p, vnode, s⟩ :: more)) := by
  obtain ⟨c, cs, h1, h2, h3⟩ := chunks_join_nulFree (toLE 8 vnode) p (by simp [toLE_length]) hp
  rw [toLE_length] at h2 h3
  simp only [lookupEvents, encodeLookup, h1]
  rw [vnodeGen_chunks, h3, h2, leNat_toLE, Nat.mod_eq_of_lt (by simpa using hv)]

theorem globalLoop_globalStringEvents (tid eid : Nat) (ts : Nat → Nat) (debugid strId : Nat) (s : Bytes)
    (hd : debugid < 2 ^ 64) (hi : strId < 2 ^ 64) (rest : List Kevent) :
    ∃ vstr, globalLoop eid (globalStringEvents tid eid ts debugid strId s ++ rest) 0 0 [] [] =
        (debugid, strId, vstr, globalStringEvents tid eid ts debugid strId s) ∧ stripNul vstr = stripNul s := by
  obtain ⟨c, cs, h1, h2, h3⟩ := chunks_join (toLE 8 debugid ++ toLE 8 strId) s (by simp [toLE_length])
  simp only [List.length_append, toLE_length] at h2 h3
  simp only [globalStringEvents, encodeGlobalString, h1]
  rw [globalLoop_chunks]
  have e1 : c.take 8 = toLE 8 debugid := by
    have := congrArg (List.take 8) h2
    rw [List.take_take] at this
    simpa [toLE_length] using this
  have e2 : (c.drop 8).take 8 = toLE 8 strId := by
    have := congrArg (List.drop 8) h2
    rw [List.drop_take] at this
    simpa [toLE_length] using this
  refine ⟨_, ?_, h3⟩
  rw [e1, e2, leNat_toLE, leNat_toLE, Nat.mod_eq_of_lt (by simpa using hd), Nat.mod_eq_of_lt (by simpa using hi)]

theorem dataOf_threadNameEvents (tid eid : Nat) (ts : Nat → Nat) (s : Bytes) :
    stripNul (dataOf (threadNameEvents tid eid ts s)) = stripNul s := by
  obtain ⟨c, cs, h1, _, h3⟩ := chunks_join [] s (by simp)
  simp only [threadNameEvents, encodeThreadName, chunkEvents, dataOf_tagFrom, h1]
  simpa using h3

/-- On any window whose first record has code `eid` and whose records of code `eid` are the name's records. -/
theorem joinData_threadNameEvents (tid eid : Nat) (ts : Nat → Nat) (s : Bytes) (w : List Kevent)
    (hfirst : (firstOf w).eventid = eid)
    (hw : w.filter (fun e => e.eventid == eid) = threadNameEvents tid eid ts s) :
    stripNul (joinData w) = stripNul s := by
  rw [joinData_eq, hfirst, hw, dataOf_threadNameEvents]

/-! ### `Reasm` instances -/

/-- "the code is named `name`" -/
def namedB (env : Env) (name : String) (eid : Nat) : Bool := env.codes eid == some name

theorem hasStart_of_qual0 (m : Kevent) (h : m.qual = 0) : hasStart m = false := by simp [hasStart, h]
theorem hasStart_of_qual1 (m : Kevent) (h : m.qual = 1) : hasStart m = true := by simp [hasStart, h]
theorem hasStart_of_qual3 (m : Kevent) (h : m.qual = 3) : hasStart m = true := by simp [hasStart, h]

theorem chunkEvents_head_start (tid eid : Nat) (ts : Nat → Nat) (c : Bytes) (cs : List Bytes) :
    ∃ y ys, chunkEvents tid eid ts (c :: cs) = y :: ys ∧ hasStart y = true := by
  rcases chunkEvents_shape tid eid ts c cs with ⟨e, h, hq⟩ | ⟨c0, mids, cn, h, hq, _, _⟩
  · exact ⟨e, [], h, hasStart_of_qual3 e hq⟩
  · exact ⟨c0, mids ++ [cn], by simpa using h, hasStart_of_qual1 c0 hq⟩

/-- The first record of a window whose `B`-records are `y :: ys` and whose first record is a `B`-record
    is `y`. -/
theorem first_of_filter (B : Kevent → Bool) (w : List Kevent) (x y : Kevent) (xs ys : List Kevent)
    (hw : w = x :: xs) (hx : B x = true) (hf : w.filter B = y :: ys) : x = y := by
  subst hw
  simp only [List.filter_cons, hx, if_true, List.cons.injEq] at hf
  exact hf.1

theorem handle_vfsLookup (env : Env) (tabs : Tabs) (w : List Kevent) :
    handle env tabs "VFS_LOOKUP" w = hVfsLookup env tabs w := by
  rw [Composite.handle_unfold]; simp only [handleWith]

theorem handle_stringGlobal (env : Env) (tabs : Tabs) (w : List Kevent) :
    handle env tabs "TRACE_STRING_GLOBAL" w = hStringGlobal env tabs w := by
  rw [Composite.handle_unfold]; simp only [handleWith]

theorem handle_threadname (env : Env) (tabs : Tabs) (w : List Kevent) :
    handle env tabs "TRACE_STRING_THREADNAME" w =
      hStringThreadname "TRACE_STRING_THREADNAME" "New thread name: " env tabs w := by
  rw [Composite.handle_unfold]; simp only [handleWith]

theorem handle_threadnamePrev (env : Env) (tabs : Tabs) (w : List Kevent) :
    handle env tabs "TRACE_STRING_THREADNAME_PREV" w =
      hStringThreadname "TRACE_STRING_THREADNAME_PREV" "Thread terminated name: " env tabs w := by
  rw [Composite.handle_unfold]; simp only [handleWith]

theorem parseEventList_named (env : Env) (tabs : Tabs) (name : String) (x : Kevent) (xs : List Kevent)
    (hc : env.codes x.eventid = some name) (hh : isHandled env name = true) :
    parseEventList env tabs (x :: xs) = handle env tabs name (x :: xs) := by
  rw [Composite.parseEventList_unfold, Composite.handle_unfold]
  simp [parseEventListWith, hc, hh]

theorem isLookup_eq (env : Env) : isLookup env = fun x => namedB env "VFS_LOOKUP" x.eventid := rfl

theorem domOf_named (env : Env) (name : String) (x : Nat) (h : namedB env name x = true) :
    env.domOf x = traceDomainNames.contains name := by
  simp only [namedB, beq_iff_eq] at h
  simp [Env.domOf, h]

theorem splitChunks_cons (hdr s : Bytes) : ∃ c cs, splitChunks hdr s = c :: cs := ⟨_, _, rfl⟩

theorem lookupEvents_head_start (t eid : Nat) (ts : Nat → Nat) (vnode : Nat) (p : Bytes) :
    ∃ y ys, lookupEvents t eid ts vnode p = y :: ys ∧ hasStart y = true := by
  obtain ⟨c, cs, h⟩ := splitChunks_cons (toLE 8 vnode) p
  simp only [lookupEvents, encodeLookup, h]
  exact chunkEvents_head_start t eid ts c cs

theorem hVfsLookup_encoded (env : Env) (tabs : Tabs) (t eid : Nat) (ts : Nat → Nat) (vnode : Nat) (p : Bytes)
    (hv : vnode < 2 ^ 64) (hp : NulFree p) (str : String) (hdec : env.dec p = .ok str)
    (w : List Kevent) (hw : w.filter (isLookup env) = lookupEvents t eid ts vnode p)
    (hfirst : isLookup env (firstOf w) = true) (hne : w ≠ []) :
    hVfsLookup env tabs w =
      .ok (some (mk "VFS_LOOKUP" w s!"lookup(\"{str}\"), vnode id: {vnode}"), tabs) := by
  obtain ⟨y', ys', hall, hst⟩ := lookupEvents_head_start t eid ts vnode p
  cases w with
  | nil => exact absurd rfl hne
  | cons y ys =>
    have hy : y = y' := first_of_filter (isLookup env) _ y y' ys ys' rfl hfirst (by rw [hw, hall])
    have hpv : parseVnodes env (y :: ys) = .ok [⟨lookupEvents t eid ts vnode p, vnode, str⟩] := by
      unfold parseVnodes
      rw [hw]
      have := vnodeGen_lookupEvents env.dec t eid ts vnode p hv hp []
      rw [List.append_nil] at this
      rw [this, hdec]
      rfl
    unfold hVfsLookup
    have hs : hasStart (firstOf (y :: ys)) = true := by rw [hy]; exact hst
    simp only [hs, Bool.not_true, Bool.false_eq_true, if_false, hpv, bind, Except.bind, pure, Except.pure]

theorem reasm_lookup (env : Env) (t eid : Nat) (hcode : env.codes eid = some "VFS_LOOKUP")
    (ts : Nat → Nat) (vnode : Nat) (p : Bytes) (hv : vnode < 2 ^ 64) (hp : NulFree p)
    (str : String) (hdec : env.dec p = .ok str) :
    Reasm env t (namedB env "VFS_LOOKUP") ⟨false, t, eid⟩ (lookupEvents t eid ts vnode p)
      (fun tr => tr.name = "VFS_LOOKUP" ∧ tr.text = .ok s!"lookup(\"{str}\"), vnode id: {vnode}" ∧
        tr.events.filter (isLookup env) = lookupEvents t eid ts vnode p) := by
  have hB : namedB env "VFS_LOOKUP" eid = true := by simp [namedB, hcode]
  refine ⟨rfl, hB, ?_, ?_, ?_⟩
  · intro x hx
    rw [domOf_named env _ x hx]; show _ = false; decide
  · intro tabs m hk hq
    have hm : m.eventid = eid := congrArg Key.eid hk
    rw [parseEventList_named env tabs "VFS_LOOKUP" m [] (by rw [hm, hcode]) (by simp [isHandled, handNames])]
    rw [handle_vfsLookup]
    simp [hVfsLookup, firstOf, hasStart_of_qual0 m hq]
  · intro tabs w hw hg
    obtain ⟨⟨y, ys, rfl, hy⟩, _⟩ := hg
    simp only at hy
    rw [parseEventList_named env tabs "VFS_LOOKUP" y ys (by rw [hy, hcode]) (by simp [isHandled, handNames])]
    have hf : isLookup env (firstOf (y :: ys)) = true := by
      simp [isLookup, Env.nameOf, firstOf, hy, hcode]
    refine ⟨mk "VFS_LOOKUP" (y :: ys) s!"lookup(\"{str}\"), vnode id: {vnode}", tabs, ?_, rfl, rfl, hw⟩
    rw [handle_vfsLookup]
    exact hVfsLookup_encoded env tabs t eid ts vnode p hv hp str hdec _ hw hf (by simp)


/-! ### global strings and thread names -/

/-- "the code is `eid`" -/
def ownB (eid : Nat) (x : Nat) : Bool := x == eid

theorem globalStringEvents_head_start (t eid : Nat) (ts : Nat → Nat) (debugid strId : Nat) (s : Bytes) :
    ∃ y ys, globalStringEvents t eid ts debugid strId s = y :: ys ∧ hasStart y = true := by
  obtain ⟨c, cs, hsp⟩ := splitChunks_cons (toLE 8 debugid ++ toLE 8 strId) s
  simp only [globalStringEvents, encodeGlobalString, hsp]
  exact chunkEvents_head_start t eid ts c cs

theorem threadNameEvents_head_start (t eid : Nat) (ts : Nat → Nat) (s : Bytes) :
    ∃ y ys, threadNameEvents t eid ts s = y :: ys ∧ hasStart y = true ∧ y.tid = t := by
  obtain ⟨c, cs, hsp⟩ := splitChunks_cons [] s
  obtain ⟨y, ys, hall, hst⟩ := chunkEvents_head_start t eid ts c cs
  have := tagFrom_tid_eid t eid ts (c :: cs) 0 true y (by
    have : chunkEvents t eid ts (c :: cs) = tagFrom t eid ts 0 true (c :: cs) := rfl
    rw [← this, hall]; simp)
  exact ⟨y, ys, by simp only [threadNameEvents, encodeThreadName, hsp, hall], hst, this.1⟩

/-- `handle_trace_string_global` on ANY window that begins with a record of code `eid` and whose records of code
    `eid` are exactly the records of one encoded string (records of other codes anywhere in between). -/
theorem hStringGlobal_encoded (env : Env) (tabs : Tabs) (t eid : Nat) (ts : Nat → Nat) (debugid strId : Nat)
    (s : Bytes) (hd : debugid < 2 ^ 64) (hi : strId < 2 ^ 64) (hs : NulFree s) (str : String)
    (hdec : env.dec s = .ok str) (w : List Kevent) (hne : w ≠ []) (hfirst : (firstOf w).eventid = eid)
    (hw : w.filter (fun e => e.eventid == eid) = globalStringEvents t eid ts debugid strId s) :
    hStringGlobal env tabs w =
      .ok (some (mk "TRACE_STRING_GLOBAL" (globalStringEvents t eid ts debugid strId s)
              s!"New global string: \"{str}\", id: {strId}"),
           if str ≠ "" then { tabs with globalStrings := tabs.globalStrings.set strId str } else tabs) := by
  obtain ⟨y', ys', hall, hst⟩ := globalStringEvents_head_start t eid ts debugid strId s
  obtain ⟨vstr, hgl, hv⟩ := globalLoop_globalStringEvents t eid ts debugid strId s hd hi []
  rw [List.append_nil] at hgl
  cases w with
  | nil => exact absurd rfl hne
  | cons y ys =>
    have hy : y = y' := first_of_filter (fun e => e.eventid == eid) _ y y' ys ys' rfl
      (by simpa [firstOf] using hfirst) (by rw [hw, hall])
    have hfs : hasStart (firstOf (y :: ys)) = true := by rw [hy]; exact hst
    unfold hStringGlobal
    rw [hfirst, globalLoop_filter, hw]
    simp only [hfs, Bool.not_true, Bool.false_eq_true, if_false, hgl, hv, stripNul_of_nulFree s hs, hdec]

/-- `handle_trace_string_threadname(_prev)` on any such window: the trace keeps the whole window as ktraces, the
    name is exactly the encoded one. -/
theorem hStringThreadname_encoded (env : Env) (tabs : Tabs) (key label : String) (t eid : Nat) (ts : Nat → Nat)
    (s : Bytes) (hs : NulFree s) (str : String) (hdec : env.dec s = .ok str)
    (w : List Kevent) (hne : w ≠ []) (hfirst : (firstOf w).eventid = eid)
    (hw : w.filter (fun e => e.eventid == eid) = threadNameEvents t eid ts s) :
    hStringThreadname key label env tabs w =
      .ok (some (mk key w (label ++ str)), { tabs with tidsNames := tabs.tidsNames.set t str }) := by
  obtain ⟨y', ys', hall, hst, htid'⟩ := threadNameEvents_head_start t eid ts s
  cases w with
  | nil => exact absurd rfl hne
  | cons y ys =>
    have hy : y = y' := first_of_filter (fun e => e.eventid == eid) _ y y' ys ys' rfl
      (by simpa [firstOf] using hfirst) (by rw [hw, hall])
    have hfs : hasStart (firstOf (y :: ys)) = true := by rw [hy]; exact hst
    have htid : (firstOf (y :: ys)).tid = t := by rw [hy]; exact htid'
    unfold hStringThreadname
    simp only [hfs, Bool.not_true, Bool.false_eq_true, if_false,
      joinData_threadNameEvents t eid ts s (y :: ys) hfirst hw,
      stripNul_of_nulFree s hs, hdec, htid, bind, Except.bind, pure, Except.pure]

theorem reasm_globalString (env : Env) (t eid : Nat) (hcode : env.codes eid = some "TRACE_STRING_GLOBAL")
    (ts : Nat → Nat) (debugid strId : Nat) (s : Bytes) (hd : debugid < 2 ^ 64) (hi : strId < 2 ^ 64)
    (hs : NulFree s) (str : String) (hdec : env.dec s = .ok str) :
    Reasm env t (ownB eid) ⟨true, t, eid⟩ (globalStringEvents t eid ts debugid strId s)
      (fun tr => tr.name = "TRACE_STRING_GLOBAL" ∧
        tr.text = .ok s!"New global string: \"{str}\", id: {strId}" ∧
        tr.events = globalStringEvents t eid ts debugid strId s) := by
  have hdom : env.domOf eid = true := by simp [Env.domOf, hcode, traceDomainNames]
  refine ⟨rfl, by simp [ownB], ?_, ?_, ?_⟩
  · intro x hx
    simp only [ownB, beq_iff_eq] at hx
    rw [hx]; exact hdom
  · intro tabs m hk hq
    have hm : m.eventid = eid := congrArg Pairing.Key.eid hk
    rw [parseEventList_named env tabs "TRACE_STRING_GLOBAL" m [] (by rw [hm, hcode])
      (by simp [isHandled, handNames, traceDomainNames])]
    rw [handle_stringGlobal]
    simp [hStringGlobal, firstOf, hasStart_of_qual0 m hq]
  · intro tabs w hw hg
    obtain ⟨⟨y, ys, hyw, hy⟩, _⟩ := hg
    simp only at hy
    have h' := hStringGlobal_encoded env tabs t eid ts debugid strId s hd hi hs str hdec w
      (by rw [hyw]; simp) (by rw [hyw]; exact hy) hw
    rw [hyw, parseEventList_named env tabs "TRACE_STRING_GLOBAL" y ys (by rw [hy, hcode])
      (by simp [isHandled, handNames, traceDomainNames]), ← hyw]
    have h2 : handle env tabs "TRACE_STRING_GLOBAL" w = hStringGlobal env tabs w := handle_stringGlobal env tabs w
    exact ⟨_, _, h2.trans h', rfl, rfl, rfl⟩

theorem reasm_threadName (env : Env) (t eid : Nat) (prev : Bool)
    (hcode : env.codes eid = some (if prev then "TRACE_STRING_THREADNAME_PREV" else "TRACE_STRING_THREADNAME"))
    (ts : Nat → Nat) (s : Bytes) (hs : NulFree s) (str : String) (hdec : env.dec s = .ok str) :
    Reasm env t (ownB eid) ⟨true, t, eid⟩ (threadNameEvents t eid ts s)
      (fun tr => tr.name = (if prev then "TRACE_STRING_THREADNAME_PREV" else "TRACE_STRING_THREADNAME") ∧
        tr.text = .ok ((if prev then "Thread terminated name: " else "New thread name: ") ++ str) ∧
        tr.events.filter (fun e => e.eventid == eid) = threadNameEvents t eid ts s) := by
  have hdom : env.domOf eid = true := by cases prev <;> simp [Env.domOf, hcode, traceDomainNames]
  refine ⟨rfl, by simp [ownB], ?_, ?_, ?_⟩
  · intro x hx
    simp only [ownB, beq_iff_eq] at hx
    rw [hx]; exact hdom
  · intro tabs m hk hq
    have hm : m.eventid = eid := congrArg Pairing.Key.eid hk
    rw [parseEventList_named env tabs _ m [] (by rw [hm, hcode])
      (by cases prev <;> simp [isHandled, handNames, traceDomainNames])]
    cases prev
    · simp only [Bool.false_eq_true, if_false]; rw [handle_threadname]
      simp [hStringThreadname, firstOf, hasStart_of_qual0 m hq]
    · simp only [if_true]; rw [handle_threadnamePrev]
      simp [hStringThreadname, firstOf, hasStart_of_qual0 m hq]
  · intro tabs w hw hg
    obtain ⟨⟨y, ys, hyw, hy⟩, _⟩ := hg
    simp only at hy
    have hne : w ≠ [] := by rw [hyw]; simp
    have hfirst : (firstOf w).eventid = eid := by rw [hyw]; exact hy
    rw [hyw, parseEventList_named env tabs _ y ys (by rw [hy, hcode])
      (by cases prev <;> simp [isHandled, handNames, traceDomainNames]), ← hyw]
    cases prev
    · have h' := hStringThreadname_encoded env tabs "TRACE_STRING_THREADNAME" "New thread name: " t eid ts s hs str
        hdec w hne hfirst hw
      have h2 : handle env tabs "TRACE_STRING_THREADNAME" w =
          hStringThreadname "TRACE_STRING_THREADNAME" "New thread name: " env tabs w := handle_threadname env tabs w
      exact ⟨_, _, h2.trans h', rfl, rfl, hw⟩
    · have h' := hStringThreadname_encoded env tabs "TRACE_STRING_THREADNAME_PREV" "Thread terminated name: " t eid ts s
        hs str hdec w hne hfirst hw
      have h2 : handle env tabs "TRACE_STRING_THREADNAME_PREV" w =
          hStringThreadname "TRACE_STRING_THREADNAME_PREV" "Thread terminated name: " env tabs w :=
        handle_threadnamePrev env tabs w
      exact ⟨_, _, h2.trans h', rfl, rfl, hw⟩

end KdVerif.Reassembly
