"""Translator of the path reassembly code: pykdebugparser/traces_parser.py (pure `ast`; the only thing read from the
running package is the value of each `DgbFuncQual` member) -> lean/KdVerif/Gen/PyIRVn.lean, one term of the IR of
lean/KdVerif/Model/PyIRVn.lean per method: the static generator `TracesParser.vnode_generator(events)`,
`parse_vnodes(self, events)` and `parse_vnode(self, events)`.

The methods are SYMBOLICALLY EVALUATED into a normal form, so that harmless rewrites give the same term:
  * a local whose every assignment is a plain `name = <pure expression>` (built from other locals, record attributes,
    `b[k:]` slices, `&`, literals, `DgbFuncQual.X.value`: nothing that can raise or make a new mutable object) merely names
    that expression and is inlined (`data = event.data`, `qual = event.func_qualifier`, `start = DgbFuncQual.DBG_FUNC_START.value`).
    Checked: a variable the expression reads is not rebound between the definition and a use, and a loop body does not
    re-define it (otherwise the use becomes `.unsupported`);
  * a temporary that is assigned once and read once, by the very next statement, before anything else in that statement
    that can raise or call (`text = path.replace(…)` / `yield Vnode(l, v, text.decode())`,
    `vnodes = self.parse_vnodes(events)` / `return vnodes[0]`) is inlined: the order of evaluation does not change;
  * `path += x` and `path = path + x` are both `assign path (add path x)`;
  * `not` / `or` / `and` / `!=` in an `if` condition are resolved into (nested) `if`s: a conditional is always
    `ite c a b`, never `ite (not c) b a`; `a & <literal>` and `a == <literal>` keep the literal on the right;
  * the statements that follow an `if` are pushed into both of its branches; falling off the end is `return None`;
  * `DgbFuncQual.X.value` is replaced by the value of the enum member;
  * variables are numbered: parameters (after `self`) first, then the other locals (loop and comprehension variables
    included) in source order of their first binding.
Everything else — any statement or expression outside the subset of Model/PyIRVn — becomes an explicit
`.unsupported "<source text>"` node (or an entry of `notes` when it is outside the method bodies): never a guess."""
import ast
import os

METHODS = [('vnode_generator', 'vnodeGenerator'), ('parse_vnodes', 'parseVnodes'), ('parse_vnode', 'parseVnode')]
METH_TAG = {py: '.' + f for py, f in METHODS}
FIELDS = {'func_qualifier': '.funcQualifier', 'values': '.values', 'data': '.data', 'eventid': '.eventid'}
EXCEPTIONS = {'IndexError': '.indexError', 'KeyError': '.keyError', 'ValueError': '.valueError',
              'AttributeError': '.attributeError', 'TypeError': '.typeError', 'UnicodeDecodeError': '.unicodeError',
              'UnicodeError': '.unicodeError'}
VNODE_FIELDS = ['ktraces', 'vnode_id', 'path']
LITERALS = ('none', 'bool', 'int', 'bytes', 'str')


def subexprs(e):
    yield e
    for x in e[1:]:
        if isinstance(x, tuple):
            yield from subexprs(x)


def is_pure(e):
    """No exception, no new mutable object, no effect: the value only changes when one of its variables is rebound."""
    k = e[0]
    if k in LITERALS or k == 'var':
        return True
    if k in ('field', 'sliceFrom'):
        return is_pure(e[2] if k == 'field' else e[1])
    if k == 'band':
        return is_pure(e[1]) and is_pure(e[2])
    return False


RAISING = ('index', 'decode', 'call', 'list', 'listComp', 'unsupported', 'not', 'or', 'and')
HEADS = {'ret': 1, 'ite': 1, 'assign': 2, 'append': 2, 'forIn': 2, 'yield': 1}


def first_effect(x, target):
    """Walking `x` in evaluation order: 'hit' when `target` (an object, by identity) is met before any operation that can
    raise or call, 'other' when such an operation comes first, None when neither occurs."""
    if x is target:
        return 'hit'
    if x[0] == 'listComp':
        r = first_effect(x[2], target)
        if r:
            return r
        return 'other'                      # the condition runs once per element
    for c in x[1:]:
        if isinstance(c, tuple):
            r = first_effect(c, target)
            if r:
                return r
    return 'other' if x[0] in RAISING else None


def count_obj(x, target):
    if x is target:
        return 1
    return sum(count_obj(c, target) for c in x[1:] if isinstance(c, tuple))


def impure_kind(e):
    """`e` holds an operation that is not a pure one (whatever its `.unsupported` parts turn out to be)"""
    if e[0] == 'unsupported':
        return False
    if e[0] not in LITERALS + ('var', 'field', 'sliceFrom', 'band'):
        return True
    return any(impure_kind(x) for x in e[1:] if isinstance(x, tuple))


class Restart(Exception):
    pass


class Env:
    def __init__(self, m=None):
        self.m = dict(m or {})

    def copy(self):
        return Env(self.m)

    def stale_readers(self, name):
        for k, v in list(self.m.items()):
            if k != name and v != ('var', k) and any(x == ('var', name) for x in subexprs(v)):
                self.m[k] = ('unsupported', 'stale alias %s (its variable %s was rebound)' % (k, name))

    def rebind(self, name):
        """`name` gets a new value: it is a variable from now on, and every alias that reads it is stale."""
        self.stale_readers(name)
        self.m[name] = ('var', name)


def stored_names(stmts):
    out = []
    for st in stmts:
        for n in ast.walk(st):
            if isinstance(n, ast.Name) and isinstance(n.ctx, (ast.Store, ast.Del)) and n.id not in out:
                out.append(n.id)
    return out


class FnTranslator:
    def __init__(self, src, fn, mod):
        self.src, self.fn, self.mod = src, fn, mod
        self.has_self = False
        self.not_alias = set()
        self.order = []

    def text(self, node):
        t = ast.get_source_segment(self.src, node) or ast.dump(node)
        return ' '.join(t.split())[:200]

    def unsup(self, node, why=''):
        return ('unsupported', self.text(node) + (('   # ' + why) if why else ''))

    def module_name(self, n, env, kind):
        """is the Name node `n` the module-level object `kind` (not shadowed by a local)?"""
        return isinstance(n, ast.Name) and n.id not in env.m and self.mod.get(n.id) == kind

    def is_self(self, n, env):
        return self.has_self and isinstance(n, ast.Name) and n.id == 'self' and 'self' not in env.m

    # ---- expressions
    def expr(self, n, env):
        if isinstance(n, ast.Constant):
            v = n.value
            if v is None:
                return ('none',)
            if isinstance(v, bool):
                return ('bool', v)
            if isinstance(v, int) and v >= 0:
                return ('int', v)
            if isinstance(v, bytes):
                return ('bytes', v)
            if isinstance(v, str):
                return ('str', v)
            return self.unsup(n)
        if isinstance(n, ast.Name):
            if n.id in env.m:
                return env.m[n.id]
            return self.unsup(n)
        if isinstance(n, ast.Attribute):
            if n.attr == 'value' and isinstance(n.value, ast.Attribute) and self.module_name(n.value.value, env, 'DgbFuncQual'):
                val = self.mod['quals'].get(n.value.attr)
                if isinstance(val, int) and not isinstance(val, bool) and val >= 0:
                    return ('int', val)
                return self.unsup(n, 'no such member / not a non-negative int')
            if n.attr in FIELDS and not self.is_self(n.value, env):
                return ('field', FIELDS[n.attr], self.expr(n.value, env))
            return self.unsup(n)
        if isinstance(n, ast.BinOp) and isinstance(n.op, (ast.BitAnd, ast.Add)):
            a, b = self.expr(n.left, env), self.expr(n.right, env)
            if isinstance(n.op, ast.Add):
                return ('add', a, b)
            if a[0] == 'int' and b[0] != 'int' and is_pure(b):
                a, b = b, a
            return ('band', a, b)
        if isinstance(n, ast.Compare) and len(n.ops) == 1 and isinstance(n.ops[0], (ast.Eq, ast.NotEq)):
            a, b = self.expr(n.left, env), self.expr(n.comparators[0], env)
            if a[0] in LITERALS and b[0] not in LITERALS:
                a, b = b, a             # `==` on None / str / int is symmetric and the literal cannot raise
            e = ('eq', a, b)
            return e if isinstance(n.ops[0], ast.Eq) else ('not', e)
        if isinstance(n, ast.Subscript):
            s = n.slice
            if isinstance(s, ast.Slice):
                if s.upper is None and s.step is None and isinstance(s.lower, ast.Constant) \
                        and isinstance(s.lower.value, int) and not isinstance(s.lower.value, bool) and s.lower.value >= 0:
                    return ('sliceFrom', self.expr(n.value, env), s.lower.value)
                return self.unsup(n)
            if isinstance(s, ast.Tuple):
                return self.unsup(n)
            return ('index', self.expr(n.value, env), self.expr(s, env))
        if isinstance(n, ast.Call):
            return self.call(n, env)
        if isinstance(n, ast.List) and not n.elts:
            return ('emptyList',)
        if isinstance(n, ast.ListComp):
            return self.listcomp(n, env)
        if isinstance(n, ast.UnaryOp) and isinstance(n.op, ast.Not):
            return ('not', self.expr(n.operand, env))
        if isinstance(n, ast.BoolOp):
            vals = [self.expr(v, env) for v in n.values]
            out = vals[-1]
            for v in reversed(vals[:-1]):
                out = ('or' if isinstance(n.op, ast.Or) else 'and', v, out)
            return out
        return self.unsup(n)

    def call(self, n, env):
        if n.keywords or any(isinstance(a, ast.Starred) for a in n.args):
            return self.unsup(n)
        f, args = n.func, n.args
        if isinstance(f, ast.Name):
            if self.module_name(f, env, 'Vnode') and len(args) == 3:
                return ('mkVnode',) + tuple(self.expr(a, env) for a in args)
            if f.id == 'list' and f.id not in env.m and 'list' not in self.mod and len(args) == 1:
                return ('list', self.expr(args[0], env))
            return self.unsup(n)
        if isinstance(f, ast.Attribute):
            if f.attr == 'replace' and len(args) == 2 and all(isinstance(a, ast.Constant) and isinstance(a.value, bytes)
                                                              for a in args):
                return ('replace', self.expr(f.value, env), args[0].value, args[1].value)
            if f.attr == 'decode' and not args:
                return ('decode', self.expr(f.value, env))
            if f.attr == 'get' and len(args) == 1 and isinstance(f.value, ast.Attribute) and f.value.attr == 'trace_codes' \
                    and self.is_self(f.value.value, env):
                return ('codeGet', self.expr(args[0], env))
            if f.attr in METH_TAG and len(args) == 1 and (
                    self.is_self(f.value, env)
                    or (f.attr in self.mod['static'] and self.module_name(f.value, env, 'TracesParser'))):
                return ('call', METH_TAG[f.attr], self.expr(args[0], env))
        return self.unsup(n)

    def listcomp(self, n, env):
        if len(n.generators) != 1:
            return self.unsup(n)
        g = n.generators[0]
        if g.is_async or not isinstance(g.target, ast.Name) or len(g.ifs) > 1 or not isinstance(n.elt, ast.Name) \
                or n.elt.id != g.target.id or g.target.id in env.m or g.target.id == 'self':
            return self.unsup(n)
        it = self.expr(g.iter, env)
        inner = env.copy()
        self.bind(g.target.id, inner)
        cond = self.expr(g.ifs[0], inner) if g.ifs else ('bool', True)
        return ('listComp', g.target.id, it, cond)

    # ---- statements
    def cond(self, c, env, then_fn, else_fn):
        if c[0] == 'not':
            return self.cond(c[1], env, else_fn, then_fn)
        if c[0] == 'or':
            return self.cond(c[1], env, then_fn, lambda e: self.cond(c[2], e, then_fn, else_fn))
        if c[0] == 'and':
            return self.cond(c[1], env, lambda e: self.cond(c[2], e, then_fn, else_fn), else_fn)
        return ('ite', c, then_fn(env.copy()), else_fn(env.copy()))

    def bind(self, name, env):
        if name not in self.order:
            self.order.append(name)
        env.rebind(name)

    def enter_block(self, stmts, env):
        """A loop body / try body may run after, or instead of, what the translator has seen so far: an alias one of its
        statements re-defines, or that reads a variable one of them rebinds, is not a fixed expression inside it."""
        for name in stored_names(stmts):
            if name in env.m and env.m[name] != ('var', name):
                env.m[name] = ('unsupported', 'alias %s is re-defined in a loop / try body' % name)
            env.stale_readers(name)

    def leave_block(self, stmts, env):
        for name in stored_names(stmts):
            if name in env.m and env.m[name] != ('var', name):
                env.m[name] = ('unsupported', 'alias %s was re-defined in a loop / try body' % name)
            elif name in self.order:
                env.rebind(name)

    def assign(self, name, e, env, nxt, st):
        if name == 'self' or name in self.mod.get('reserved', ()):
            return self.unsup(st)
        params = [a.arg for a in self.fn.args.args]
        if is_pure(e) and name not in params and name not in self.not_alias and name in self.candidates:
            env.stale_readers(name)
            env.m[name] = e
            return nxt(env)
        if name in self.single_use and name not in params and not is_pure(e) and not has_unsupported(e):
            # `t = E` then a statement that reads `t` once, first: E is evaluated at the same moment either way
            env2 = env.copy()
            env2.stale_readers(name)
            env2.m[name] = e
            follow = nxt(env2)
            head = follow[HEADS[follow[0]]] if follow[0] in HEADS else None
            if head is not None and first_effect(head, e) == 'hit' and count_obj(follow, e) == 1:
                return follow
            self.single_use.discard(name)
            raise Restart()
        if name in self.candidates and name not in self.not_alias and impure_kind(e):
            self.not_alias.add(name)            # one of its assignments is not a pure expression: it is a variable
            raise Restart()
        self.bind(name, env)
        return ('assign', name, e, nxt(env))

    def block(self, stmts, env, kont):
        """Translate `stmts` followed by whatever `kont(env)` gives (the rest of the enclosing block)."""
        if not stmts:
            return kont(env)
        st, rest = stmts[0], stmts[1:]
        nxt = lambda e: self.block(rest, e, kont)  # noqa: E731
        if isinstance(st, ast.Pass) or (isinstance(st, ast.Expr) and isinstance(st.value, ast.Constant)
                                        and isinstance(st.value.value, str)):
            return nxt(env)
        if isinstance(st, ast.Return):
            return ('ret', ('none',) if st.value is None else self.expr(st.value, env))
        if isinstance(st, ast.If):
            return self.cond(self.expr(st.test, env), env,
                             lambda e: self.block(st.body, e, nxt), lambda e: self.block(st.orelse, e, nxt))
        if isinstance(st, ast.For):
            if not isinstance(st.target, ast.Name) or st.orelse or st.target.id == 'self':
                return self.unsup(st)
            it = self.expr(st.iter, env)
            self.enter_block([st], env)
            benv = env.copy()
            self.bind(st.target.id, benv)
            body = self.block(st.body, benv, lambda e: ('done',))
            self.leave_block([st], env)
            return ('forIn', st.target.id, it, body, nxt(env))
        if isinstance(st, ast.Try):
            if len(st.handlers) != 1 or st.orelse or st.finalbody:
                return self.unsup(st)
            h = st.handlers[0]
            if h.name is not None or not isinstance(h.type, ast.Name) or h.type.id not in EXCEPTIONS or h.type.id in env.m \
                    or h.type.id in self.mod:
                return self.unsup(st)
            self.enter_block(st.body + h.body, env)
            body = self.block(st.body, env.copy(), lambda e: ('done',))
            handler = self.block(h.body, env.copy(), lambda e: ('done',))
            self.leave_block(st.body + h.body, env)
            return ('tryExcept', body, EXCEPTIONS[h.type.id], handler, nxt(env))
        if isinstance(st, ast.Expr) and isinstance(st.value, ast.Yield):
            e = ('none',) if st.value.value is None else self.expr(st.value.value, env)
            return ('yield', e, nxt(env))
        if isinstance(st, ast.Expr) and isinstance(st.value, ast.Call) and isinstance(st.value.func, ast.Attribute) \
                and st.value.func.attr == 'append' and len(st.value.args) == 1 and not st.value.keywords \
                and not isinstance(st.value.args[0], ast.Starred):
            lst, x = self.expr(st.value.func.value, env), self.expr(st.value.args[0], env)
            if lst[0] != 'var':
                return self.unsup(st, 'append to something that is not a local')
            return ('append', lst[1], x, nxt(env))
        if isinstance(st, ast.Assign) and len(st.targets) == 1 and isinstance(st.targets[0], ast.Name):
            return self.assign(st.targets[0].id, self.expr(st.value, env), env, nxt, st)
        if isinstance(st, ast.AugAssign) and isinstance(st.target, ast.Name) and isinstance(st.op, ast.Add):
            cur = env.m.get(st.target.id, self.unsup(st.target))
            return self.assign(st.target.id, ('add', cur, self.expr(st.value, env)), env, nxt, st)
        return self.unsup(st)

    def translate(self):
        fn, a = self.fn, self.fn.args
        if a.vararg or a.kwarg or a.kwonlyargs or a.defaults or a.posonlyargs or not a.args:
            return 0, False, ('unsupported', 'signature of ' + fn.name)
        decos = [d.id if isinstance(d, ast.Name) else '?' for d in fn.decorator_list]
        if decos == ['staticmethod'] and 'staticmethod' not in self.mod:
            params = [x.arg for x in a.args]
        elif not decos and a.args[0].arg == 'self':
            self.has_self = True
            params = [x.arg for x in a.args[1:]]
        else:
            return 0, False, ('unsupported', 'signature / decorators of ' + fn.name)
        inner = [n for st in fn.body for n in ast.walk(st)]
        if any(isinstance(n, (ast.FunctionDef, ast.AsyncFunctionDef, ast.Lambda, ast.ClassDef, ast.Global, ast.Nonlocal,
                              ast.YieldFrom, ast.Await, ast.NamedExpr)) for n in inner):
            return len(params), False, ('unsupported', 'nested definition / global / yield from in ' + fn.name)
        is_gen = any(isinstance(n, ast.Yield) for n in inner)
        # alias candidates: names whose every store is a plain `name = value`
        plain, other = {}, set()
        for st in inner:
            if isinstance(st, ast.Assign) and len(st.targets) == 1 and isinstance(st.targets[0], ast.Name):
                plain[st.targets[0].id] = plain.get(st.targets[0].id, 0) + 1
        for n in inner:
            if isinstance(n, ast.Name) and isinstance(n.ctx, (ast.Store, ast.Del)):
                other.add(n.id)
        counts = {}
        for n in inner:
            if isinstance(n, ast.Name) and isinstance(n.ctx, (ast.Store, ast.Del)):
                counts[n.id] = counts.get(n.id, 0) + 1
        self.candidates = {n for n in other if counts[n] == plain.get(n, 0) and n not in params}
        loads = {}
        for n in inner:
            if isinstance(n, ast.Name) and isinstance(n.ctx, ast.Load):
                loads[n.id] = loads.get(n.id, 0) + 1
        self.single_use = {n for n in self.candidates if counts[n] == 1 and loads.get(n, 0) == 1}
        while True:
            self.order = []
            try:
                body = self.block(fn.body, Env({p: ('var', p) for p in params}), lambda e: ('ret', ('none',)))
                break
            except Restart:
                continue
        body = sanitize(body)
        used = {x[1] for x in walk_vars(body)}
        names = params + [n for n in self.order if n in used and n not in params]
        return len(params), is_gen, rename(body, {n: i for i, n in enumerate(names)})


BINDERS = ('assign', 'append', 'forIn', 'listComp')


def walk_vars(s):
    """all ('var', name) nodes and binder names of a term"""
    if not isinstance(s, tuple):
        return
    if s[0] == 'var':
        yield s
        return
    if s[0] == 'unsupported':
        return
    if s[0] in BINDERS:
        yield ('var', s[1])
    for x in s[1:]:
        if isinstance(x, tuple):
            yield from walk_vars(x)


def rename(s, num):
    if not isinstance(s, tuple) or s[0] == 'unsupported':
        return s
    if s[0] == 'var':
        return ('var', num[s[1]])
    if s[0] in BINDERS:
        return (s[0], num[s[1]]) + tuple(rename(x, num) for x in s[2:])
    return (s[0],) + tuple(rename(x, num) for x in s[1:])


def sanitize(s):
    """`not` / `or` / `and` outside an `if` condition are not expressions of the IR"""
    if not isinstance(s, tuple) or s[0] == 'unsupported':
        return s
    if s[0] in ('not', 'or', 'and'):
        return ('unsupported', 'boolean operator outside an if condition: ' + s[0])
    return (s[0],) + tuple(sanitize(x) for x in s[1:])


def has_unsupported(s):
    return isinstance(s, tuple) and (s[0] == 'unsupported' or any(has_unsupported(x) for x in s[1:]))


# ------------------------------------------------------------------------------------------------------------
# Lean syntax
# ------------------------------------------------------------------------------------------------------------

def lean(s, lean_str):
    k = s[0]
    if k == 'unsupported':
        return '(.unsupported %s)' % lean_str(s[1])
    if k in ('none', 'emptyList', 'done'):
        return '.' + k
    if k == 'bool':
        return '(.bool %s)' % ('true' if s[1] else 'false')
    if k == 'bytes':
        return '(.bytes [%s])' % ', '.join(str(b) for b in s[1])
    if k == 'str':
        return '(.str %s)' % lean_str(s[1])
    if k == 'replace':
        return '(.replace %s [%s] [%s])' % (lean(s[1], lean_str), ', '.join(str(b) for b in s[2]),
                                            ', '.join(str(b) for b in s[3]))
    parts = []
    for x in s[1:]:
        parts.append(lean(x, lean_str) if isinstance(x, tuple) else str(x))
    return '(.%s %s)' % (k, ' '.join(parts))


# ------------------------------------------------------------------------------------------------------------

def enum_values_ast(kevent_src, cls_name):
    """NAME -> int of `class <cls_name>(enum.Enum)` read from the class body (fallback when the package cannot be imported)."""
    for node in ast.parse(kevent_src).body:
        if isinstance(node, ast.ClassDef) and node.name == cls_name:
            out = {}
            for st in node.body:
                if isinstance(st, ast.Assign) and len(st.targets) == 1 and isinstance(st.targets[0], ast.Name) \
                        and isinstance(st.value, ast.Constant) and isinstance(st.value.value, int):
                    out[st.targets[0].id] = st.value.value
            return out
    return {}


def reflect_quals(repo, notes):
    """The VALUES of the members of pykdebugparser.kevent.DgbFuncQual, read from the imported module (tools/translate.py
    has the repository at the head of sys.path); the class body as a fallback."""
    try:
        import importlib
        mod = importlib.import_module('pykdebugparser.kevent')
        if os.path.realpath(os.path.dirname(os.path.dirname(mod.__file__))) != os.path.realpath(repo):
            raise ImportError('pykdebugparser imported from elsewhere: ' + mod.__file__)
        return {name: m.value for name, m in mod.DgbFuncQual.__members__.items()}
    except Exception as e:  # noqa: BLE001
        try:
            with open(os.path.join(repo, 'pykdebugparser', 'kevent.py')) as fd:
                vals = enum_values_ast(fd.read(), 'DgbFuncQual')
        except OSError:
            vals = {}
        if not vals:
            notes.append('DgbFuncQual could not be reflected (%s)' % type(e).__name__)
        return vals


def translate_source(repo, quals=None):
    """-> (methods: {lean name: (params, is_gen, body)}, notes: [str])"""
    notes = []
    with open(os.path.join(repo, 'pykdebugparser', 'traces_parser.py')) as fd:
        src = fd.read()
    if quals is None:
        quals = reflect_quals(repo, notes)
    tree = ast.parse(src)
    mod = {'quals': quals, 'static': set()}
    stores = {}
    for node in tree.body:
        if isinstance(node, ast.ImportFrom):
            for al in node.names:
                nm = al.asname or al.name
                stores[nm] = stores.get(nm, 0) + 1
                if node.module == 'pykdebugparser.kevent' and al.name == 'DgbFuncQual' and node.level == 0:
                    mod[nm] = 'DgbFuncQual'
                else:
                    mod.setdefault(nm, 'other')
        elif isinstance(node, ast.Import):
            for al in node.names:
                nm = (al.asname or al.name).split('.')[0]
                stores[nm] = stores.get(nm, 0) + 1
                mod.setdefault(nm, 'other')
        elif isinstance(node, (ast.FunctionDef, ast.AsyncFunctionDef, ast.ClassDef)):
            stores[node.name] = stores.get(node.name, 0) + 1
            mod[node.name] = 'TracesParser' if isinstance(node, ast.ClassDef) and node.name == 'TracesParser' else 'other'
        else:
            for t in ast.walk(node):
                if isinstance(t, ast.Name) and isinstance(t.ctx, (ast.Store, ast.Del)):
                    stores[t.id] = stores.get(t.id, 0) + 1
                    mod.setdefault(t.id, 'other')
            if isinstance(node, ast.Assign) and len(node.targets) == 1 and isinstance(node.targets[0], ast.Name):
                v = node.value
                if isinstance(v, ast.Call) and isinstance(v.func, ast.Name) and v.func.id == 'namedtuple' and len(v.args) == 2 \
                        and not v.keywords and isinstance(v.args[1], ast.List) \
                        and [getattr(e, 'value', None) for e in v.args[1].elts] == VNODE_FIELDS \
                        and node.targets[0].id == 'Vnode':
                    mod['Vnode'] = 'Vnode'
    for nm, kind in list(mod.items()):
        if kind in ('DgbFuncQual', 'Vnode', 'TracesParser') and stores.get(nm, 0) != 1:
            notes.append('module-level name %s is bound %d times' % (nm, stores.get(nm, 0)))
            mod[nm] = 'other'
    if 'DgbFuncQual' not in mod.values():
        notes.append('DgbFuncQual is not imported from pykdebugparser.kevent')
    if mod.get('Vnode') != 'Vnode':
        notes.append("Vnode = namedtuple('Vnode', %r) not found" % VNODE_FIELDS)
    if mod.get('namedtuple') != 'other' or not any(
            isinstance(n, ast.ImportFrom) and n.module == 'collections' and any(a.name == 'namedtuple' and not a.asname for a in n.names)
            for n in tree.body):
        notes.append('namedtuple is not collections.namedtuple')
    cls = next((n for n in tree.body if isinstance(n, ast.ClassDef) and n.name == 'TracesParser'), None)
    methods = {}
    fns = {}
    if cls is None:
        notes.append('class TracesParser not found')
    else:
        if cls.bases or cls.decorator_list or cls.keywords:
            notes.append('class TracesParser has bases / decorators')
        for n in cls.body:
            if isinstance(n, (ast.FunctionDef, ast.AsyncFunctionDef)):
                if n.name in fns:
                    notes.append('method %s defined twice' % n.name)
                fns[n.name] = n
            elif isinstance(n, ast.Assign):
                for t in n.targets:
                    if isinstance(t, ast.Name) and t.id in METH_TAG:
                        notes.append('class attribute %s assigned in the class body' % t.id)
        for py in METH_TAG:
            f = fns.get(py)
            if isinstance(f, ast.FunctionDef) and [d.id if isinstance(d, ast.Name) else '?' for d in f.decorator_list] == ['staticmethod']:
                mod['static'].add(py)
        # self.trace_codes: bound once, in __init__, to a constructor parameter (the harness passes a dict int -> str)
        init = fns.get('__init__')
        st_codes = [n for n in ast.walk(cls) if isinstance(n, ast.Attribute) and isinstance(n.ctx, (ast.Store, ast.Del))
                    and n.attr == 'trace_codes']
        ok = False
        if init is not None and len(st_codes) == 1:
            for st in init.body:
                if isinstance(st, ast.Assign) and len(st.targets) == 1 and st.targets[0] is st_codes[0] \
                        and isinstance(st.targets[0].value, ast.Name) and st.targets[0].value.id == 'self' \
                        and isinstance(st.value, ast.Name) and st.value.id in [a.arg for a in init.args.args[1:]]:
                    ok = True
        if not ok:
            notes.append('self.trace_codes is not bound exactly once, in __init__, to a constructor parameter')
        for n in ast.walk(cls):
            if isinstance(n, ast.Attribute) and isinstance(n.ctx, (ast.Store, ast.Del)) and n.attr in METH_TAG:
                notes.append('attribute %s is assigned' % n.attr)
    for py, field in METHODS:
        f = fns.get(py)
        if not isinstance(f, ast.FunctionDef):
            methods[field] = (0, False, ('unsupported', 'method %s not found' % py))
            continue
        methods[field] = FnTranslator(src, f, mod).translate()
    return methods, notes


def generate(repo, write_if_changed, lean_str):
    methods, notes = translate_source(repo)
    L = ['import KdVerif.Model.PyIRVn', 'namespace KdVerif.Gen.PyIRVn', 'open KdVerif.PyIRVn', '',
         '/-! `TracesParser.vnode_generator` / `parse_vnodes` / `parse_vnode` of pykdebugparser/traces_parser.py, symbolically',
         '    evaluated from the source text into the IR of `Model/PyIRVn` (tools/gen_pyir_vn.py). -/', '']
    for _py, field in METHODS:
        params, is_gen, body = methods[field]
        L.append('def %s : FnDef := { params := %d, isGen := %s, body :=\n  %s }\n'
                 % (field, params, 'true' if is_gen else 'false', lean(body, lean_str)))
    L.append('def prog : Prog := { vnodeGenerator := vnodeGenerator, parseVnodes := parseVnodes, parseVnode := parseVnode }\n')
    L.append('/-- What the translator could not express outside the method bodies (must be empty). -/')
    L.append('def notes : List String := [' + ', '.join(lean_str(n) for n in notes) + ']\n')
    L += ['end KdVerif.Gen.PyIRVn', '']
    return write_if_changed('PyIRVn.lean', '\n'.join(L))
