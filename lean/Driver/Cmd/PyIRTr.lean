import Driver.Cmd.Trace
import KdVerif.Model.PyIRTr
import KdVerif.Gen.PyIRTr
import KdVerif.Spec.PyIRTrExpected
/-
  Commands for the translation tie of the ten context-table handlers of trace_handlers/trace.py (C05; C07 / C08 / C14
  rest on the same handlers): the program GENERATED from the source (`Gen/PyIRTr`) run by the interpreter of
  `Model/PyIRTr`.

  trircheck                          `same` | `differs <parts>` (`C05.source_is_expected_ir`)
  tracesir <codes> <record hex>…     the command `traces` of Driver/Cmd/Trace with the ten `trace.py` handlers replaced by
                                     the interpreted generated ones (`PyIRTr.runVia Gen.PyIRTr.prog` instead of `Trace.run`)
  traceswir <codes> <record hex>…    `tracesw` likewise; the tagged `pids_names` assignments are read off the tables of the
                                     interpreted run (what each `feed` prepended), not off `Model/TraceWrites`
  `unsupported` when the translation contains a node outside the IR.
-/
open KdVerif KdVerif.Trace
namespace Driver.PyIRTr
open Driver.Trace KdVerif.PyIRTr

def unsupported : Bool := Gen.PyIRTr.prog.hasUnsupported || !Gen.PyIRTr.notes.isEmpty

def cmdCheck : Cmd := fun _ =>
  let g := Gen.PyIRTr.prog
  let x := KdVerif.PyIRTr.Expected.prog
  let clsDiff := (g.classes.zip x.classes).filterMap fun (a, b) => if a = b then none else some ("class " ++ a.name)
  let funDiff := (g.funs.zip x.funs).filterMap fun (a, b) => if a = b then none else some a.name
  let d : List String :=
    clsDiff ++ (if g.classes.length = x.classes.length then [] else ["classes"]) ++
    funDiff ++ (if g.funs.length = x.funs.length then [] else ["functions"]) ++
    (if g.handlers = x.handlers then [] else ["handlers"]) ++
    (if Gen.PyIRTr.notes.isEmpty then [] else ["notes"])
  if g = x && Gen.PyIRTr.notes.isEmpty then "same" else
    "differs " ++ ",".intercalate (if d.isEmpty then ["program"] else d) ++ (if unsupported then " unsupported" else "")

def showRun (outs : List TraceOut) (err : Option PyErr) (sf : PState) : String :=
  let e := match err with | some x => x.name | none => "-"
  let t := sf.tabs
  "ok " ++ (if outs.isEmpty then "-" else " ".intercalate (outs.map showTrace)) ++ s!" ;err={e} ;tp={showNatDict t.threadsPids} ;pn={showStrDict t.pidsNames} ;tn={showStrDict t.tidsNames} ;gs={showStrDict t.globalStrings}"

/-- `tracesir <codes> <record hex>…` -/
def cmdTraces : Cmd
  | codes :: recs =>
    if unsupported then "unsupported" else
    match parseCodes codes, parseRecs recs with
    | some cs, some es =>
      let (outs, err, sf) := runVia Gen.PyIRTr.prog (mkEnv cs) { pairing := Pairing.PState.empty, tabs := {} } es
      showRun outs err sf
    | _, _ => "bad-op"
  | _ => "bad-op"

/-- the `pids_names` assignments of the interpreted run, oldest first, tagged with the thread of the event whose `feed`
    made them (`Dict.set` prepends: what a `feed` added is the new front of the table) -/
def taughtVia (env : Env) : PState → List Kevent → List (Nat × Nat × String)
  | _, [] => []
  | s, e :: es =>
    match feedVia Gen.PyIRTr.prog env s e with
    | .error _ => []
    | .ok (_, s') =>
      let added := (s'.tabs.pidsNames.take (s'.tabs.pidsNames.length - s.tabs.pidsNames.length)).reverse
      added.map (fun (k, v) => (e.tid, k, v)) ++ taughtVia env s' es

/-- `traceswir <codes> <record hex>…` -/
def cmdTracesW : Cmd
  | codes :: recs =>
    if unsupported then "unsupported" else
    match parseCodes codes, parseRecs recs with
    | some cs, some es =>
      let tw := taughtVia (mkEnv cs) { pairing := Pairing.PState.empty, tabs := {} } es
      let w := if tw.isEmpty then "-" else ",".intercalate (tw.map fun (t, k, v) => s!"{t}:{k}:{hexOfString v}")
      cmdTraces (codes :: recs) ++ s!" ;tw={w}"
    | _, _ => "bad-op"
  | _ => "bad-op"

def commands : List (String × Cmd) :=
  [("trircheck", cmdCheck), ("tracesir", cmdTraces), ("traceswir", cmdTracesW)]

end Driver.PyIRTr
