import KdVerif.Model.TraceWrites
import KdVerif.Model.Format
import KdVerif.Spec.Pairing
/-
  C14 (process-column half): the process a dump DECLARES for a thread at a point of the stream.

  `declaredTables env threadMap prefix` is a plain left fold over the prefix, event by event, whose accumulator
  holds only the two lookup tables and the per-thread pending new-thread / exec records.  Which event list an
  event hands to its handler is taken from the DECLARATIVE, history-based pairing specification
  (`Spec/Pairing.emitSpec`: "the records since the last START of the same thread and code"), never from the
  pairing tables of the state machine.  Nothing here refers to `Trace.feed` / `Trace.handle`.

  `Props/C14.tables_are_fold` proves that the tables of the real pipeline model (`Trace.run`) after the prefix
  are exactly this fold.  Core Lean only.
-/
namespace KdVerif.Declared
open KdVerif.Trace

/-- The thread map of the dump header, in file order: `(tid, pid, process name)`. -/
abbrev ThreadMap := List (Nat × Nat × String)

/-- What the dump has declared so far. -/
structure Decl where
  threadsPids : Dict Nat := []
  pidsNames : Dict String := []
  pendingNewthread : Dict Nat := []     -- per thread: pid of its last new-thread data record
  pendingExec : Dict Nat := []          -- per thread: pid of its last exec data record
  deriving Repr, Inhabited

/-- `KdBufParser.set_thread_map`: both tables cleared, then `threads_pids[tid] = pid; pids_names[pid] = name`
    entry by entry (a later entry for the same key wins: the association lists hold the newest binding first). -/
def Decl.ofMap (tm : ThreadMap) : Decl :=
  { threadsPids := (tm.map fun e => (e.1, e.2.1)).reverse, pidsNames := (tm.map fun e => (e.2.1, e.2.2)).reverse }

/-- The context tables a fresh `TracesParser` starts from inside `PyKdebugParser.traces`. -/
def mapTabs (tm : ThreadMap) : Tabs :=
  { threadsPids := (Decl.ofMap tm).threadsPids, pidsNames := (Decl.ofMap tm).pidsNames }

/-- The sampler record carries thread information (`SAMPLER_TH_INFO in to_sampler_action(args[0])`). -/
def samplesThreadInfo (env : Env) (e : Kevent) : Bool :=
  (enumNamesOf env "SamplerAction" (arg e 0)).contains "SAMPLER_TH_INFO"

/-- What the event list `w` (first record `x`) declares when it is delivered to the handler registered for `name`. -/
def declareNamed (env : Env) (d : Decl) (name : String) (x : Kevent) (w : List Kevent) : Decl :=
  match name with
  | "TRACE_DATA_NEWTHREAD" =>          -- threads_pids[new tid] = pid; remembered for the name string of this thread
    { d with threadsPids := d.threadsPids.set (arg x 0) (arg x 1),
             pendingNewthread := d.pendingNewthread.set x.tid (arg x 1) }
  | "TRACE_STRING_NEWTHREAD" =>        -- the name string of the same thread teaches pids_names[pid]
    match env.dec (stripNul x.data), d.pendingNewthread.get x.tid with
    | .ok n, some pid => { d with pidsNames := d.pidsNames.set pid n }
    | _, _ => d
  | "TRACE_DATA_EXEC" => { d with pendingExec := d.pendingExec.set x.tid (arg x 0) }
  | "TRACE_STRING_EXEC" =>
    match env.dec (stripNul x.data), d.pendingExec.get x.tid with
    | .ok n, some pid => { d with pidsNames := d.pidsNames.set pid n }
    | _, _ => d
  | "TRACE_DATA_THREAD_TERMINATE_PID" => { d with threadsPids := d.threadsPids.set x.tid (arg x 0) }
  | "PERF_THD_Data" => { d with threadsPids := d.threadsPids.set (arg x 1) (arg x 0) }
  | "PERF_Event" =>                    -- a sampler window: its first thread-info record, when thread info was sampled
    if samplesThreadInfo env x then
      match w.filter (namedIs env "PERF_THD_Data") with
      | s :: _ => { d with threadsPids := d.threadsPids.set (arg s 1) (arg s 0) }
      | [] => d
    else d
  | _ => d

/-- What a delivered event list declares (its first record selects the handler, as `parse_event_list` does). -/
def declare (env : Env) (d : Decl) (w : List Kevent) : Decl :=
  match w with
  | [] => d
  | x :: _ =>
    match env.codes x.eventid with
    | some name => declareNamed env d name x w
    | none => d

/-- One event `e` arriving after history `h`. -/
def declStep (env : Env) (d : Decl) (p : List Kevent × Kevent) : Decl :=
  match Pairing.emitSpec env.domOf p.1 p.2 with
  | some w => declare env d w
  | none => d

/-- **declaredTables.**  The thread map superseded, in stream order, by the new-thread records, exec pairs,
    terminate-pid records and sampler thread-info records of the prefix that are delivered to their handler. -/
def declaredTables (env : Env) (tm : ThreadMap) (pre : List Kevent) : Decl :=
  (Pairing.annotFrom [] pre).foldl (declStep env) (Decl.ofMap tm)

/-- The part of the parser's context tables the declaration is about. -/
def Decl.ofTabs (t : Tabs) : Decl :=
  { threadsPids := t.threadsPids, pidsNames := t.pidsNames, pendingNewthread := t.pendingNewthread,
    pendingExec := t.pendingExec }

/-- The formatter's view of the two lookup tables (its pids are Python ints; `-1` is its "absent" marker). -/
def fmtTables (tp : Dict Nat) (pn : Dict String) : Format.Tables :=
  { threadsPids := tp.map fun e => (e.1, (e.2 : Int)), pidsNames := pn.map fun e => ((e.1 : Int), e.2) }

/-- The process column the property demands: `name(pid)` for the declared pid, `Error: tid N` for a thread the
    dump never declared. -/
def processSpec (d : Decl) (tid : Nat) : String :=
  match d.threadsPids.get tid with
  | some pid => (d.pidsNames.get pid).getD "" ++ "(" ++ toString pid ++ ")"
  | none => "Error: tid " ++ toString tid

/-- `formatted_traces` up to the body: for every yielded trace its first record's timestamp, its thread and the
    process text `_format_process` computes FROM THE TABLES AS THEY ARE WHEN THE TRACE IS YIELDED (the `map` over
    the generator formats each trace before the next event is fed). -/
def traceProcessColumns (env : Env) (tm : ThreadMap) (m : List Kevent) : List (Nat × Nat × String) :=
  (runAnnot env { pairing := Pairing.PState.empty, tabs := mapTabs tm } m).map fun p =>
    ((firstOf p.1.events).timestamp, p.1.tid, Format.formatProcess (fmtTables p.2.threadsPids p.2.pidsNames) p.1.tid)

end KdVerif.Declared
