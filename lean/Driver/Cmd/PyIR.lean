import Driver.Util
import KdVerif.Model.PyIR
import KdVerif.Gen.PyIR
import KdVerif.Spec.PyIRExpected
import KdVerif.Model.PyIRCs
import KdVerif.Gen.PyIRCs
import KdVerif.Spec.PyIRCsExpected
open KdVerif
namespace Driver.PyIR
open KdVerif.PyIR

/-- `eid:name:t:h` — an entry of `trace_codes` (`name` = number of the trace name), `t` = 1 iff the name is in
    `trace_handlers`, `h` = 1 iff the name is in `self.handlers`. -/
def parseCode (s : String) : Option (Nat × Nat × Bool × Bool) :=
  match (s.splitOn ":").mapM String.toNat? with
  | some [eid, n, t, h] => some (eid, n, t != 0, h != 0)
  | _ => none

def parseCodes (s : String) : Option (List (Nat × Nat × Bool × Bool)) :=
  if s = "-" then some [] else (s.splitOn ",").mapM parseCode

def cfgOf (cs : List (Nat × Nat × Bool × Bool)) : Cfg :=
  { codes := fun eid => (cs.find? fun c => c.1 == eid).map (·.2.1)
    isTraceName := fun n => cs.any fun c => c.2.1 == n && c.2.2.1
    hasHandler := fun n => cs.any fun c => c.2.1 == n && c.2.2.2 }

def unsupported : Bool := Gen.PyIR.prog.hasUnsupported || !Gen.PyIR.notes.isEmpty

/-- One event's answer in the format of `pairg`: `-` (parse_event_list not called, `None` returned), the window
    handed to `parse_event_list` as timestamps, `*` appended when `None` came back; anything else is made visible. -/
def showEvent (before : Nat) (r : Val) (w' : World) : String :=
  let ts (l : List Kevent) := natListC (l.map (·.timestamp))
  match w'.calls.drop before, r with
  | [], .none => "-"
  | [], _ => "?unseen"
  | [l], .none => ts l ++ "*"
  | [l], .result _ v => if v = l then ts l else ts v ++ "!=" ++ ts l
  | [_], _ => "?value"
  | _, _ => "?multi"

def runShow (cfg : Cfg) : World → List Kevent → Except PyErr (List String)
  | _, [] => .ok []
  | w, e :: es =>
    match feed Gen.PyIR.prog cfg w e with
    | .error x => .error x
    | .ok (r, w') =>
      match runShow cfg w' es with
      | .ok rest => .ok (showEvent w.calls.length r w' :: rest)
      | .error x => .error x

/-- `pyir <codes> <record hex>…` : the program GENERATED from traces_parser.py (`Gen/PyIR`), run by the
    interpreter of `Model/PyIR` from empty tables; per event the answer of `pairg`.  `unsupported` when the
    translation contains a node outside the IR. -/
def cmdPyIR : Cmd
  | codes :: recs =>
    if unsupported then "unsupported" else
    match parseCodes codes, parseRecs recs with
    | some cs, some es =>
      match runShow (cfgOf cs) World.empty es with
      | .ok parts => "ok " ++ ";".intercalate parts
      | .error x => "err " ++ x.name
    | _, _ => "bad-op"
  | _ => "bad-op"

/-- `pyircheck` : is the generated program the expected one (`C04.source_is_expected_ir`)?  `same`, or `differs`
    followed by the parts that differ. -/
def cmdCheck : Cmd := fun _ =>
  let g := Gen.PyIR.prog
  let x := KdVerif.PyIR.Expected.prog
  let d : List String :=
    (if g.feed = x.feed then [] else ["feed"]) ++
    (if g.parseEventList = x.parseEventList then [] else ["parse_event_list"]) ++
    (if g.feedStart = x.feedStart then [] else ["_feed_start_event"]) ++
    (if g.feedEnd = x.feedEnd then [] else ["_feed_end_event"]) ++
    (if g.feedSingle = x.feedSingle then [] else ["_feed_single_event"]) ++
    (if g.actions = x.actions then [] else ["qualifiers_actions"]) ++
    (if Gen.PyIR.notes.isEmpty then [] else ["notes"])
  if d.isEmpty then "same" else
    "differs " ++ ",".intercalate d ++ (if unsupported then " unsupported" else "")

/-! ### callstacks_parser.py -/

def csUnsupported : Bool :=
  Gen.PyIRCs.insertImage.body.hasUnsupported || Gen.PyIRCs.frameLoop.body.hasUnsupported || !Gen.PyIRCs.notes.isEmpty

def parseAnn (s : String) : Option (Nat × Bytes) :=
  match s.splitOn ":" with
  | [a, u] => do let n ← a.toNat?; let b ← ofHex u; pure (n, b)
  | _ => none

def parseAnns (s : String) : Option (List (Nat × Bytes)) :=
  if s = "-" then some [] else (s.splitOn ",").mapM parseAnn

def showFrameV (f : PyIRCs.FrameV) : String :=
  match f.uuid, f.offset with
  | none, none => s!"{f.address}"
  | some u, some o => s!"{f.address}:{toHex u}:{o}"
  | _, _ => s!"{f.address}:?"

def csInsertAll (st : Callstacks.Images) : List (Nat × Bytes) → Except PyErr Callstacks.Images
  | [] => .ok st
  | (a, u) :: rest =>
    match PyIRCs.run Gen.PyIRCs.insertImage [.int a, .uuid u] st with
    | .ok (.none, st') => csInsertAll st' rest
    | .ok _ => .error .unmodelled
    | .error e => .error e

/-- `csir <addr:uuidhex,… or -> <frame,… or ->` : the GENERATED `insert_image` run for every announcement from two
    empty lists, then the GENERATED frame loop on the frames; answer `ok <addresses>|<uuids>|<frames>`. -/
def cmdCsIR : Cmd
  | [anns, frs] =>
    if csUnsupported then "unsupported" else
    match parseAnns anns, parseNatList frs with
    | some as, some fs =>
      match csInsertAll Callstacks.Images.empty as with
      | .error e => "err " ++ e.name
      | .ok st =>
        match PyIRCs.run Gen.PyIRCs.frameLoop [.sample fs] st with
        | .ok (.frames l, st') =>
          "ok " ++ natListC st'.addrs ++ "|" ++ ",".intercalate (st'.uuids.map toHex) ++ "|" ++
            ",".intercalate (l.map showFrameV)
        | .ok _ => "err Unmodelled"
        | .error e => "err " ++ e.name
    | _, _ => "bad-op"
  | _ => "bad-op"

/-- `csircheck` : are the generated blocks the expected ones (`C15.source_is_expected_ir`)? -/
def cmdCsCheck : Cmd := fun _ =>
  let d : List String :=
    (if Gen.PyIRCs.insertImage = KdVerif.PyIRCs.Expected.insertImage then [] else ["insert_image"]) ++
    (if Gen.PyIRCs.frameLoop = KdVerif.PyIRCs.Expected.frameLoop then [] else ["feed_generator-frame-loop"]) ++
    (if Gen.PyIRCs.notes.isEmpty then [] else ["notes"])
  if d.isEmpty then "same" else "differs " ++ ",".intercalate d ++ (if csUnsupported then " unsupported" else "")

def commands : List (String × Cmd) :=
  [("pyir", cmdPyIR), ("pyircheck", cmdCheck), ("csir", cmdCsIR), ("csircheck", cmdCsCheck)]

end Driver.PyIR
