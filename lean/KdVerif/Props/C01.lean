import KdVerif.Model.Kevent
import KdVerif.Gen.Consts
import KdVerif.Proofs.Bytes
/-
  C01 — every 64-byte kd_buf record decodes exactly and totally.
  `fromKdBuf` is `from_kd_buf` instantiated with the constants reflected from the
  repository (`Gen/Consts.lean`); a changed format string or mask changes these
  theorems' subject and they are re-checked.
-/
namespace KdVerif

def fromKdBuf (r : Bytes) : Except PyErr Kevent :=
  decodeWith Gen.Consts.kdBufFormat Gen.Consts.eventidMask Gen.Consts.funcMask r

/-- The specification: each output is the little-endian reading of its own byte range. -/
def specDecode (r : Bytes) : Kevent :=
  let data := (r.drop 8).take 32
  let dbg := leNat ((r.drop 48).take 4)
  { timestamp := leNat (r.take 8)
    data := data
    values := [leNat (data.take 8), leNat ((data.drop 8).take 8),
               leNat ((data.drop 16).take 8), leNat ((data.drop 24).take 8)]
    tid := leNat ((r.drop 40).take 8)
    debugid := dbg
    eventid := dbg - dbg % 4
    qual := dbg % 4 }

namespace C01

/-- The body of `from_kd_buf`, symbolically evaluated from the source on every run, is exactly the shape the
    model `decodeWith` implements: tuple positions, the two masks, the second unpack of the argument bytes,
    the constructor's argument order.  Any other statement in the function (a fast path, a conditional, a
    different position) makes this fail and triggers the failing-input search. -/
theorem source_shape_is_model_shape :
    Gen.Consts.keventShape = expectedShape Gen.Consts.eventidMask Gen.Consts.funcMask := by decide

theorem debugid_lt (r : Bytes) (hb : IsBytes r) : leNat ((r.drop 48).take 4) < 2 ^ 32 := by
  have := leNat_lt ((r.drop 48).take 4) ((hb.drop 48).take 4)
  have hl : ((r.drop 48).take 4).length ≤ 4 := by simp; omega
  calc leNat _ < 256 ^ ((r.drop 48).take 4).length := this
    _ ≤ 256 ^ 4 := Nat.pow_le_pow_right (by decide) hl
    _ = 2 ^ 32 := by decide

/-- Totality and exact field extraction, for every 64-byte record (all 2^512 of them):
    timestamp, 32 argument bytes, thread id and debug id are the record's little-endian
    fields, the four values are the words of the argument bytes, the event id is the debug id
    with its two low bits cleared and the qualifier is those two bits. -/
theorem decode_eq_spec (r : Bytes) (hlen : r.length = 64) (hb : IsBytes r) :
    fromKdBuf r = .ok (specDecode r) := by
  have h32 : ((r.drop 8).take 32).length = 32 := by simp [hlen]
  have hm := and_fffffffc _ (debugid_lt r hb)
  have hq := and_three (leNat ((r.drop 48).take 4))
  simp only [fromKdBuf, decodeWith, structUnpack, calcsize, Gen.Consts.kdBufFormat, List.map,
    FieldSpec.size, List.sum_cons, List.sum_nil, hlen, unpackAux, argsFormat]
  simp only [Nat.reduceAdd, if_true, List.drop_drop, h32, specDecode, Gen.Consts.eventidMask,
    Gen.Consts.funcMask, hm, hq]

theorem decode_total (r : Bytes) (hlen : r.length = 64) (hb : IsBytes r) :
    ∃ e, fromKdBuf r = .ok e := ⟨_, decode_eq_spec r hlen hb⟩

/-- Wrong-sized buffers are rejected (the container readers rely on this for partial records). -/
theorem decode_rejects_other_lengths (r : Bytes) (hlen : r.length ≠ 64) :
    fromKdBuf r = .error .structError := by
  simp [fromKdBuf, decodeWith, structUnpack, calcsize, Gen.Consts.kdBufFormat, FieldSpec.size, hlen]

/-- The qualifier is always 0..3. -/
theorem qualifier_range (r : Bytes) : (specDecode r).qual < 4 := by
  simp only [specDecode]; omega

/-- id + qualifier = id ||| qualifier = debug id, and they share no bit. -/
theorem reassemble (r : Bytes) :
    let e := specDecode r
    e.eventid + e.qual = e.debugid ∧ e.eventid ||| e.qual = e.debugid ∧ e.eventid &&& e.qual = 0 := by
  simp only [specDecode]
  generalize leNat ((r.drop 48).take 4) = d
  have e1 : d - d % 4 = (d >>> 2) <<< 2 := by
    rw [Nat.shiftLeft_eq, Nat.shiftRight_eq_div_pow]; omega
  have hlt : d % 4 < 2 ^ 2 := by omega
  refine ⟨by omega, ?_, ?_⟩
  · rw [e1, ← Nat.shiftLeft_add_eq_or_of_lt hlt, ← e1]; omega
  · rw [e1]
    apply Nat.eq_of_testBit_eq
    intro i
    rw [Nat.testBit_and, Nat.testBit_shiftLeft, Nat.zero_testBit]
    by_cases hi : 2 ≤ i
    · have : (d % 4).testBit i = false :=
        Nat.testBit_lt_two_pow (Nat.lt_of_lt_of_le hlt (Nat.pow_le_pow_right (by decide) hi))
      simp [this]
    · simp [hi]

/-- The first 52 bytes of the record can be rebuilt from the event. -/
theorem rebuild52 (r : Bytes) (hlen : r.length = 64) (hb : IsBytes r) :
    let e := specDecode r
    toLE 8 e.timestamp ++ e.data ++ toLE 8 e.tid ++ toLE 4 e.debugid = r.take 52 := by
  simp only [specDecode]
  have l1 : (r.take 8).length = 8 := by simp [hlen]
  have l3 : ((r.drop 40).take 8).length = 8 := by simp [hlen]
  have l4 : ((r.drop 48).take 4).length = 4 := by simp [hlen]
  have t1 := toLE_leNat (r.take 8) (hb.take 8)
  have t3 := toLE_leNat ((r.drop 40).take 8) ((hb.drop 40).take 8)
  have t4 := toLE_leNat ((r.drop 48).take 4) ((hb.drop 48).take 4)
  rw [l1] at t1; rw [l3] at t3; rw [l4] at t4
  rw [t1, t3, t4]
  have : r.take 52 = r.take 8 ++ (r.drop 8).take 32 ++ (r.drop 40).take 8 ++ (r.drop 48).take 4 := by
    have a : r.take 52 = r.take 48 ++ (r.drop 48).take 4 := by
      rw [show 52 = 48 + 4 from rfl, List.take_add]
    have b : r.take 48 = r.take 40 ++ (r.drop 40).take 8 := by
      rw [show 48 = 40 + 8 from rfl, List.take_add]
    have c : r.take 40 = r.take 8 ++ (r.drop 8).take 32 := by
      rw [show 40 = 8 + 32 from rfl, List.take_add]
    rw [a, b, c]
  rw [this]

/-- No output field depends on any byte outside its own field. -/
theorem noninterference (r r' : Bytes) :
    (r.take 8 = r'.take 8 → (specDecode r).timestamp = (specDecode r').timestamp) ∧
    ((r.drop 8).take 32 = (r'.drop 8).take 32 →
        (specDecode r).data = (specDecode r').data ∧ (specDecode r).values = (specDecode r').values) ∧
    ((r.drop 40).take 8 = (r'.drop 40).take 8 → (specDecode r).tid = (specDecode r').tid) ∧
    ((r.drop 48).take 4 = (r'.drop 48).take 4 →
        (specDecode r).debugid = (specDecode r').debugid ∧ (specDecode r).eventid = (specDecode r').eventid
        ∧ (specDecode r).qual = (specDecode r').qual) := by
  refine ⟨?_, ?_, ?_, ?_⟩ <;> intro h <;> simp [specDecode, h]

/-- In particular bytes 52..63 (cpu id and the unused word) influence nothing. -/
theorem tail_irrelevant (r r' : Bytes) (h : r.take 52 = r'.take 52) : specDecode r = specDecode r' := by
  have a : r.take 8 = r'.take 8 := by
    have := congrArg (List.take 8) h; simpa [List.take_take] using this
  have b : (r.drop 8).take 32 = (r'.drop 8).take 32 := by
    have := congrArg (fun l => (l.drop 8)) (congrArg (List.take 40) h)
    simpa [List.take_take, List.drop_take] using this
  have c : (r.drop 40).take 8 = (r'.drop 40).take 8 := by
    have := congrArg (fun l => (l.drop 40)) (congrArg (List.take 48) h)
    simpa [List.take_take, List.drop_take] using this
  have d : (r.drop 48).take 4 = (r'.drop 48).take 4 := by
    have := congrArg (fun l => (l.drop 48)) h
    simpa [List.drop_take] using this
  simp [specDecode, a, b, c, d]

/-- Non-vacuity: a concrete non-trivial record meets the hypotheses and decodes as specified. -/
example : fromKdBuf (List.range 64) = .ok (specDecode (List.range 64)) :=
  decode_eq_spec _ (by simp) (by intro b hb; simp at hb; omega)

example : (specDecode (List.range 64)).debugid = 0x33323130 ∧ (specDecode (List.range 64)).qual = 0
    ∧ (specDecode (List.replicate 64 255)).qual = 3
    ∧ (specDecode (List.replicate 64 255)).eventid = 0xfffffffc := by decide

end C01
end KdVerif
