import KdVerif.Model.TraceCodes
/-
  Specification side of C19: the grammar of a code-table text (what a line "hex-id name [anything]"
  is, character by character) and the mapping such a text denotes.  Core Lean only.
-/
namespace KdVerif.TraceCodes

/-- How the id is prefixed: nothing, `0x` or `0X`. -/
inductive PrefixStyle
  | none | lower | upper
  deriving DecidableEq, Repr

def PrefixStyle.chars : PrefixStyle → List Char
  | .none => []
  | .lower => ['0', 'x']
  | .upper => ['0', 'X']

/-- Line terminator: any single boundary character, or the pair "\r\n". -/
inductive Term
  | single (c : Char)
  | crlf
  deriving DecidableEq, Repr

def Term.chars : Term → List Char
  | .single c => [c]
  | .crlf => ['\r', '\n']

def Term.ok : Term → Bool
  | .single c => isBreak c
  | .crlf => true

/-- Hex digit `d` (0..15) in the chosen case. -/
def digitChar (up : Bool) (d : Nat) : Char :=
  if d < 10 then Char.ofNat (48 + d) else if up then Char.ofNat (55 + d) else Char.ofNat (87 + d)

def hexDigitsAux : Nat → Nat → List Nat
  | 0, _ => []
  | fuel + 1, n => if n < 16 then [n] else hexDigitsAux fuel (n / 16) ++ [n % 16]

/-- Base-16 digits of `n`, most significant first, no leading zero (`[0]` for 0). -/
def hexDigitsNat (n : Nat) : List Nat := hexDigitsAux (n + 1) n

/-- One line of a table text. -/
structure Entry where
  id : Nat
  name : String
  pfx : PrefixStyle
  /-- case of the i-th digit character (mixed case allowed) -/
  upper : Nat → Bool
  /-- leading zeros before the digits of `id` -/
  zeros : Nat
  /-- blanks before the id -/
  lead : List Char
  /-- blanks between id and name -/
  sep : List Char
  /-- what follows the name: nothing, or blanks and a comment -/
  trail : List Char
  term : Term

def Entry.digitValues (e : Entry) : List Nat := List.replicate e.zeros 0 ++ hexDigitsNat e.id

def Entry.digits (e : Entry) : List Char := e.digitValues.mapIdx fun i d => digitChar (e.upper i) d

def Entry.token (e : Entry) : List Char := e.pfx.chars ++ e.digits

def Entry.line (e : Entry) : List Char :=
  e.lead ++ (e.token ++ (e.sep ++ (e.name.toList ++ e.trail)))

/-- A blank: white space that does not end the line. -/
def isBlank (c : Char) : Bool := isSpace c && !isBreak c

/-- Side conditions of the grammar (all decidable on a concrete entry). -/
structure Entry.WF (e : Entry) : Prop where
  name_ne : e.name.toList ≠ []
  name_nospace : ∀ c ∈ e.name.toList, isSpace c = false
  lead_blank : ∀ c ∈ e.lead, isBlank c = true
  sep_ne : e.sep ≠ []
  sep_blank : ∀ c ∈ e.sep, isBlank c = true
  trail_nobreak : ∀ c ∈ e.trail, isBreak c = false
  trail_head : ∀ c, e.trail.head? = some c → isSpace c = true
  term_ok : e.term.ok = true

/-- The text: every line followed by its terminator. -/
def renderLines (es : List Entry) : List Char := es.flatMap fun e => e.line ++ e.term.chars

/-- The mapping the lines denote: entries inserted in order, a repeated id overwritten. -/
def lastWins (es : List Entry) : Table := es.foldl (fun t e => t.insert e.id e.name) []

/-- Name of the last entry with id `k`, if any (later entries are consulted first). -/
def lastName : List Entry → Int → Option String
  | [], _ => none
  | e :: es, k =>
    match lastName es k with
    | some n => some n
    | none => if (e.id : Int) = k then some e.name else none

end KdVerif.TraceCodes
