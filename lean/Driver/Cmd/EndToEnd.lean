import Driver.Util
import Driver.Cmd.Trace
import Driver.Cmd.Filters
import Driver.Cmd.Container
import KdVerif.Model.EndToEnd
open KdVerif KdVerif.Trace KdVerif.TracePipeline
namespace Driver.EndToEnd

def bit (s : String) (i : Nat) : Bool := (s.toList.getD i '0') == '1'

def run (codes tid cls subs proc sh pl file : String) : String :=
    match Driver.Trace.parseCodes codes, Driver.Filters.optNat tid, parseNatList cls, parseNatList subs,
          Driver.Filters.optText proc, Driver.Container.parsePlists pl, ofHex (unDash file) with
    | some cs, some tid, some cls, some subs, some proc, some tbl, some bytes =>
      let env := Driver.Trace.mkEnv cs
      let obj : Obj := { cfg := { filterTid := tid, filterClass := cls, filterSubclass := subs, filterProcess := proc } }
      let show_ : Format.Show := { timestamp := bit sh 0, name := bit sh 1, funcQual := bit sh 2, tid := bit sh 3,
                                   process := bit sh 4, args := bit sh 5 }
      let (lines, err) := EndToEnd.formattedTraces env obj show_ (Driver.Container.plistOf tbl) bytes
      "ok " ++ (if lines.isEmpty then "-" else " ".intercalate (lines.map hexOfString)) ++
        s!" ;err={match err with | some e => e.name | none => "-"}"
    | _, _, _, _, _, _, _ => "bad-op"

/-- `e2e <codes> <tid|N> <classes> <subclasses> <process hex|N> <show bits: timestamp name funcqual tid process args>
    [<plists>] <file hex>` : the lines of `formatted_traces(BytesIO(file), codes)` (colour off) and the exception that
    ended them.  `plists`: the property lists of a version-3 dump as the container commands take them
    (`Driver/Cmd/Container.lean`: what `plistlib.loads` gives for each payload that loads); absent = `-`. -/
def cmdE2E : Cmd
  | [codes, tid, cls, subs, proc, sh, file] => run codes tid cls subs proc sh "-" file
  | [codes, tid, cls, subs, proc, sh, pl, file] => run codes tid cls subs proc sh pl file
  | _ => "bad-op"

def commands : List (String × Cmd) := [("e2e", cmdE2E)]

end Driver.EndToEnd
