"""C10 — syscall results: errors take precedence and come only from the END record."""
import errno
import re

from .. import core
from .. import decoders as D
from .C09 import find_base

MODULE = 'KdVerif.Props.C10'
NAMESPACE = 'KdVerif.C10'
TRUSTED = ['tools/gen_decoders.py inlines serialize_result / handle_pipe into every decoder (validated by the '
           'correspondence section `decoders`)', 'the exempt list of 15 syscall names is the property\'s own (Props/C10.exempt)']
ASSUMPTIONS = ['errno names come from the host table (that they should be Darwin\'s is C18)']
LEVEL_TEXT = ('Lean theorems over the regenerated decoder IR: kernel-checked that every non-exempt BSD decoder ends in a '
              'result part built from the shared error expression and a success text reading only END word 1 (pipe: 1,2); '
              'semantic lemmas result_error / result_success / success_text_from_return_word / tail_depends_only_on_end hold '
              'for all END and START records.')
LEVEL_NOTE = 'Trusted: Lean kernel, AST translator (validated differentially), IR.eval, the exempt list.'
TECHNIQUE = 'Lean 4 proof: reflective decide over regenerated decoder IR + semantic lemmas; differential correspondence'

EXEMPT = {'BSC_getpid', 'BSC_getuid', 'BSC_geteuid', 'BSC_getppid', 'BSC_getegid', 'BSC_getgid', 'BSC_getpgrp', 'BSC_umask',
          'BSC_sync', 'BSC_sys_getdtablesize', 'BSC_getlogin', 'BSC_execve', 'BSC_vfork', 'BSC_bsdthread_create',
          'BSC_abort_with_payload'}
ERR_WORDS = [1, 2, 13, 35, 45, 106, 9999, (1 << 32) + 5, (1 << 64) - 1]
# small NEGATIVE error numbers as the kernel may leave them in the word (xnu's pseudo errors ERESTART -1, EJUSTRETURN -2, … -7),
# sign-extended to 64 bits, as a 32-bit word, and with other high bits: non-zero words, so errors
ERR_WORDS += [(1 << 64) - k for k in (2, 3, 5, 7)] + [(1 << 32) - k for k in (1, 2, 5)] + [(0x100 << 32) + (1 << 32) - 2, 1 << 32,
                                                                                            1 << 63, 0x80000000]


def bsd_names(only_supported=True):
    from pykdebugparser.trace_handlers.bsd import handlers
    sup = set(D.supported_names())
    return [n for n in handlers if n in sup or not only_supported]


def render(name, start, end, lookups):
    c = {'name': name, 'start': start, 'end': end, 'tid': 5, 'lookups': lookups, 'gs': {}, 'tp': {}, 'tn': {}}
    try:
        return D.text_of(D.impl_fn(c))
    except Exception as e:
        return None


def renderings(v):
    out = {str(v), hex(v), str(bool(v)), str(v & 0xffffffff)}
    if v >= 1 << 63:
        out.add(str(v - (1 << 64)))
    return out


def result_oracle(name):
    lookups = [['/p/one', 11], ['/q/two', 22], ['/r/three', 33], ['/s/4', 44], ['/t/5', 55], ['/u/6', 66]]
    base = find_base(name, lookups, [0, 9, 0, 0])
    if base is None:
        return None
    ok_text = render(name, base, [0, 0x51f3, 0x6a2d, 0x7b1c], lookups)
    sp_ok = D.split_call(ok_text)
    if sp_ok is None:
        return ('result:%s:not-call-shaped' % name, ok_text, {'start': base})
    call = ok_text[:len(ok_text) - len(sp_ok[2])]
    # error word non-zero: exactly "errno: NAME(code)" / "errno: code", no success value
    for e in ERR_WORDS:
        for ret in (0x51f3, 0, 77):
            t = render(name, base, [e, ret, 0x6a2d, 0x7b1c], lookups)
            if t is None or not t.startswith(call):
                return ('result:%s:call-depends-on-end' % name, 'call part changed with the END record: %r' % t,
                        {'start': base, 'end': [e, ret]})
            tail = t[len(call):]
            exp = 'errno: %s(%d)' % (errno.errorcode[e], e) if e in errno.errorcode else 'errno: %d' % e
            m = re.fullmatch(r', ' + re.escape(exp) + r'( path: ".*")?', tail)
            if not m:
                return ('result:%s:error-not-reported' % name,
                        'error word %d, return word %d: result part is %r, expected %r' % (e, ret, tail, ', ' + exp),
                        {'start': base, 'end': [e, ret, 0x6a2d, 0x7b1c], 'text': t})
    # error word zero: no errno; numbers shown are renderings of END word 1 (pipe: 1 and 2)
    for ret in (0x51f3, 0, 1, (1 << 64) - 2):
        end = [0, ret, 0x6a2d, 0x7b1c]
        t = render(name, base, end, lookups)
        if t is None or not t.startswith(call):
            return ('result:%s:call-depends-on-end' % name, 'call part changed with the END record: %r' % t,
                    {'start': base, 'end': end})
        tail = t[len(call):]
        if 'errno' in tail:
            return ('result:%s:errno-on-success' % name, 'error word 0 but result part is %r' % tail,
                    {'start': base, 'end': end, 'text': t})
        allowed = renderings(ret) | (renderings(end[2]) if name == 'BSC_pipe' else set())
        shown = re.sub(r'"[^"]*"', '', tail)
        for tok in re.findall(r'-?0x[0-9a-f]+|-?\d+|True|False', shown):
            if tok not in allowed:
                return ('result:%s:success-value-not-return-word' % name,
                        'result part %r shows %s, END return word is %d' % (tail, tok, ret),
                        {'start': base, 'end': end, 'text': t})
    # the result part does not depend on the START record
    base_tail = render(name, base, [2, 5, 0, 0], lookups)[len(call):]
    for k in range(4):
        s2 = list(base)
        for alt in (base[k] + 0x1111, 1, 2, 3, 0):
            s2[k] = alt
            t = render(name, s2, [2, 5, 0, 0], lookups)
            if t is not None:
                break
        if t is None:
            continue
        sp = D.split_call(t)
        if sp is None or not t.endswith(base_tail) or sp[2] != base_tail:
            return ('result:%s:result-depends-on-start' % name, 'result part %r became %r when START word %d changed'
                    % (base_tail, sp[2] if sp else t, k), {'start': base, 'start2': s2})
    return None


def forms_of(tok, v):
    """Which renderings of the return word `v` the token can be."""
    f = set()
    if tok == str(v):
        f.add('dec')
    if tok == hex(v):
        f.add('hex')
    if tok == str(bool(v)):
        f.add('bool')
    if tok == str(v - (1 << 64) if v >= 1 << 63 else v):
        f.add('signed64')
    if tok == str(v & 0xffffffff):
        f.add('mask32')
    return f


def history_search(rep, rng, tier):
    """Results must not depend on what was decoded before (the result part depends only on the END record):
    render every decoder for several return words, in alternating decoder orders inside ONE process, and require
    that each decoder renders its return word in one consistent form."""
    sec = rep.section('result-history')
    sec['rule'] = ('failing-input search on the real code: all non-exempt BSD decoders x return words rendered in one '
                   'process in alternating decoder order; a decoder whose rendering form (decimal / hex / signed / bool) '
                   'changes with what was decoded earlier depends on more than its END record')
    lookups = [['/p/one', 11], ['/q/two', 22], ['/r/three', 33], ['/s/4', 44], ['/t/5', 55], ['/u/6', 66]]
    names = [n for n in bsd_names(only_supported=False) if n not in EXEMPT and n != 'BSC_pipe']
    bases = {}
    for n in names:
        b = find_base(n, lookups, [0, 9, 0, 0])
        if b is not None:
            bases[n] = b
    seen = {n: [] for n in bases}

    def observe(n, v):
        t = render(n, bases[n], [0, v, 0x6a2d, 0x7b1c], lookups)
        sec['cases'] += 1
        if t is None:
            return
        sp = D.split_call(t)
        if sp is None:
            return
        shown = re.sub(r'"[^"]*"', '', sp[2])
        toks = re.findall(r'-?0x[0-9a-f]+|-?\d+|True|False', shown)
        if toks:
            seen[n].append((v, toks[0], t))

    # pass 1: every decoder renders a return word nobody rendered before (its own form shows)
    salt = rng.randrange(1 << 20, 1 << 30) * 1024
    own = {}
    for i, n in enumerate(bases):
        own[n] = salt + i
        observe(n, own[n])
    special = [n for n, obs in seen.items() if obs and 'dec' not in forms_of(obs[0][1], obs[0][0])]
    plain = [n for n, obs in seen.items() if obs and 'dec' in forms_of(obs[0][1], obs[0][0])]
    # pass 2: every decoder renders the words first rendered by decoders of ANOTHER form (and a few of its own kind)
    for n in bases:
        others = [m for m in special if m != n] + ([m for m in rng.sample(plain, min(4, len(plain))) if m != n])
        for m in others:
            observe(n, own[m])
    # pass 3: the wrap-around word in both orders
    for n in (list(bases) + list(reversed(list(bases)))):
        observe(n, (1 << 64) - 1 - (0 if n in special else 1))
    for n, obs in seen.items():
        if not obs:
            continue
        common = None
        for v, tok, t in obs:
            f = forms_of(tok, v)
            common = f if common is None else common & f
        if not common:
            sec['distinct_nontrivial'] += 0
            rep.add_failure('result:%s:depends-on-history' % n,
                            'decoder %s renders its return word inconsistently within one process: %s'
                            % (n, [(v, tok) for v, tok, _ in obs]),
                            {'section': 'result-history', 'decoder': n, 'start': bases[n], 'observations': obs})
        else:
            sec['distinct_nontrivial'] += 1


def tail_violation(name, call, end, t):
    """The property on ONE rendering `t` of decoder `name` whose END record is `end` (stateless statement)."""
    e, ret = end[0], end[1]
    if t is None or not t.startswith(call):
        return 'call part changed with the END record: %r' % (t,)
    tail = t[len(call):]
    if e != 0:
        exp = 'errno: %s(%d)' % (errno.errorcode[e], e) if e in errno.errorcode else 'errno: %d' % e
        if not re.fullmatch(r', ' + re.escape(exp) + r'( path: ".*")?', tail):
            return 'error word %d, return word %d: result part is %r, expected %r' % (e, ret, tail, ', ' + exp)
        return None
    if 'errno' in tail:
        return 'error word 0 (return word %#x) but result part is %r' % (ret, tail)
    allowed = renderings(ret) | (renderings(end[2]) if name == 'BSC_pipe' else set())
    shown = re.sub(r'"[^"]*"', '', tail)
    for tok in re.findall(r'-?0x[0-9a-f]+|-?\d+|True|False', shown):
        if tok not in allowed:
            return 'result part %r shows %s, END return word is %d (%#x)' % (tail, tok, ret, ret)
    return None


def collision_pairs(rng):
    """Pairs of (error word, return word) that a careless memo / packing / hashing of the two END words would confuse."""
    out = []
    for e in (2, 3, 12, 22, 29, 35):
        for r in (0, 0x4000, 77, rng.randrange(1, 1 << 20)):
            out += [((e, r), (0, (e << 32) | r)), ((0, (e << 32) | r + 1), (e, r + 1)),
                    ((e, r), (0, (e << 16) | (r & 0xffff))), ((e, r), (0, (e << 8) | (r & 0xff))),
                    ((e, r), (r, e)) if r else ((e, 5), (5, e)),
                    ((e, r), (e + (1 << 32), r)), ((e, r), (e, r + (1 << 32))), ((e, r), (e, r | (1 << 63))),
                    ((e, r), (0, e + r)), ((e, r), (0, e ^ r)), ((e, r), (e ^ r, 0)), ((0, r + e), (e, r)),
                    ((e, r), (0, int('%d%d' % (e, r)))), ((int('%d%d' % (e, r // 10 + 1)), r % 10), (e, int('%d%d' % (r // 10 + 1, r % 10))))]
    out += [((0, 0), (0, 1 << 32)), ((0, 1), (0, (1 << 64) - 1)), ((1, 0), (0, 1)), ((0, 0), (1 << 32, 0)), ((1 << 32, 7), (0, 7)),
            ((0, 7), (1 << 63, 7)), ((0, (1 << 63)), (0, 0)), ((0, -1 % (1 << 64)), (1, 0))]
    return out


def collision_search(rep, rng, tier):
    """The result part of a trace is a function of ITS END record: it may not be taken over from another END record seen
    earlier in the process whose two words merely pack / add / concatenate to the same thing."""
    sec = rep.section('result-collisions')
    sec['rule'] = ('failing-input search on the real code: for one decoder per distinct result shape (success label x format), and '
                   'for pairs of decoders of different shapes, END records are rendered in ONE process in pairs whose (error, return) '
                   'words collide under packing (e<<32|r, e<<16|r, e<<8|r), swapping, 32/63-bit truncation, sum, xor and decimal '
                   'concatenation; every rendering is checked against the stateless statement of the property')
    lookups = [['/p/one', 11], ['/q/two', 22], ['/r/three', 33], ['/s/4', 44], ['/t/5', 55], ['/u/6', 66]]
    names = [n for n in bsd_names(only_supported=False) if n not in EXEMPT]
    shapes = {}
    for n in names:
        b = find_base(n, lookups, [0, 9, 0, 0])
        if b is None:
            continue
        t = render(n, b, [0, 0x51f3, 0x6a2d, 0x7b1c], lookups)
        sp = D.split_call(t) if t else None
        if sp is None:
            continue
        key = re.sub(r'"[^"]*"', '""', sp[2]).replace(hex(0x51f3), 'H').replace(str(0x51f3), 'D')
        shapes.setdefault(key, []).append((n, b, t[:len(t) - len(sp[2])]))
    reps = [v[0] for v in shapes.values()] + [v[-1] for v in shapes.values() if len(v) > 1]
    if tier == 'quick' and len(reps) > 24:
        reps = reps[:12] + rng.sample(reps[12:], 12)
    pairs = collision_pairs(rng)
    bad = set()
    for (n, b, call) in reps:
        for a, c in pairs:
            for (e, r) in (a, c):
                if not (0 <= e < 1 << 64 and 0 <= r < 1 << 64):
                    continue
                end = [e, r, 0x6a2d, 0x7b1c]
                sec['cases'] += 1
                v = tail_violation(n, call, end, render(n, b, end, lookups))
                if v and n not in bad:
                    bad.add(n)
                    rep.add_failure('result:%s:follows-an-earlier-end-record' % n,
                                    'after END (error, return) = %s had been rendered in the same process, END %s of %s: %s'
                                    % (a if (e, r) == c else c, (e, r), n, v),
                                    {'section': 'result-collisions', 'decoder': n, 'start': b, 'pair': [list(a), list(c)]})
        if n not in bad:
            sec['distinct_nontrivial'] += 1
    # END records that differ ONLY in a word other than the error / return words (the second descriptor of pipe, anything a
    # decoder shows from words 2 and 3): [E1, E2, E1] back to back, every rendering against the stateless statement
    for (n, b, call) in reps:
        for k in (2, 3):
            for (e, r) in ((0, 5), (0, 0x51f3), (13, 5)):
                e1 = [e, r, 0x6a2d, 0x7b1c]
                e2 = list(e1)
                e2[k] = e1[k] + 1
                for end in (e1, e2, e1):
                    sec['cases'] += 1
                    v = tail_violation(n, call, end, render(n, b, end, lookups))
                    if v and n not in bad:
                        bad.add(n)
                        rep.add_failure('result:%s:follows-an-earlier-end-record' % n,
                                        'END records of %s that differ only in word %d, rendered back to back (%s then %s then %s): %s'
                                        % (n, k, e1, e2, e1, v),
                                        {'section': 'result-collisions', 'decoder': n, 'start': b, 'ends': [e1, e2, e1],
                                         'pair': [[e, r], [e, r]]})
    # the same END record through decoders of different shapes, back to back
    for i in range(len(reps) - 1):
        (n1, b1, c1), (n2, b2, c2) = reps[i], reps[i + 1]
        for e, r in ((0, 0x7001 + i), (13, 0x7001 + i), (0, (13 << 32) | (0x7001 + i))):
            for (n, b, call) in ((n1, b1, c1), (n2, b2, c2), (n1, b1, c1)):
                end = [e, r, 0x6a2d, 0x7b1c]
                sec['cases'] += 1
                v = tail_violation(n, call, end, render(n, b, end, lookups))
                if v and n not in bad:
                    bad.add(n)
                    rep.add_failure('result:%s:follows-an-earlier-end-record' % n,
                                    'END %s rendered by %s and %s back to back: %s' % ((e, r), n1, n2, v),
                                    {'section': 'result-collisions', 'decoder': n, 'start': b, 'pair': [[e, r], [e, r]],
                                     'other': n2 if n == n1 else n1})


IND_ENDS = [[0, 0xfffffffc, 0, 0], [0, (1 << 64) - 4, 0, 0], [0, 0x51f3, 0x6a2d, 0x7b1c], [0, 0, 0, 0], [35, 0xffffffff, 0, 0],
            [0, 0x80000000, 1, 2]]


def tail_of(name, start, end, lookups):
    t = render(name, start, end, lookups)
    sp = D.split_call(t) if t is not None else None
    return None if sp is None else sp[2]


def start_independence(rep, rng, tier):
    """The result part is a function of the END record alone — for EVERY START record: each single bit of each START word
    set / cleared against the base window, under END records of every kind (success with a return word that is negative as
    int32 / int64, plain success, zero, an error).  A decoder whose START record switches the result's interpretation (a flag
    bit selecting 'errno in the return value', a mode word selecting signedness) fails it."""
    sec = rep.section('start-independence')
    names = [n for n in bsd_names(only_supported=False) if n not in EXEMPT]
    nbits = 10 if tier == 'quick' else 64
    sec['rule'] = ('failing-input search on the real code: every non-exempt BSD decoder x each START word x %s single bits '
                   'flipped against a decodable base window x %d END records (negative-as-int32 / int64 return words, zero, '
                   'plain, an error): the result part must be the one of the base window' % (
                       'all 64' if nbits == 64 else '%d random (all 64 when the source changed)' % nbits, len(IND_ENDS)))
    lookups = [['/p/one', 11], ['/q/two', 22], ['/r/three', 33], ['/s/4', 44], ['/t/5', 55], ['/u/6', 66]]
    for n in names:
        base = find_base(n, lookups, [0, 9, 0, 0])
        if base is None:
            continue
        want = [tail_of(n, base, e, lookups) for e in IND_ENDS]
        hit = None
        for k in range(4):
            for b in (range(64) if nbits == 64 else sorted(rng.sample(range(64), nbits) + [24 + k])):
                s2 = list(base)
                s2[k] = base[k] ^ (1 << b)
                for e, w in zip(IND_ENDS, want):
                    if w is None:
                        continue
                    sec['cases'] += 1
                    got = tail_of(n, s2, e, lookups)
                    if got is None:
                        continue
                    sec['distinct_nontrivial'] += 1
                    if got != w:
                        hit = (k, b, s2, e, w, got)
                        break
                if hit:
                    break
            if hit:
                break
        if hit:
            k, b, s2, e, w, got = hit
            rep.add_failure('result:%s:result-depends-on-start' % n,
                            'END record (error=%d, return=%#x): result part %r became %r when bit %d of START word %d changed '
                            '(%#x -> %#x)' % (e[0], e[1], w, got, b, k, base[k], s2[k]),
                            {'section': 'start-independence', 'decoder': n, 'start': base, 'start2': s2, 'end': e})


def replay_start_independence(rp, path):
    lookups = [['/p/one', 11], ['/q/two', 22], ['/r/three', 33], ['/s/4', 44], ['/t/5', 55], ['/u/6', 66]]
    a = render(rp['decoder'], rp['start'], rp['end'], lookups)
    b = render(rp['decoder'], rp['start2'], rp['end'], lookups)
    print('START %s END %s -> %s' % (rp['start'], rp['end'], a))
    print('START %s END %s -> %s' % (rp['start2'], rp['end'], b))
    ta, tb = tail_of(rp['decoder'], rp['start'], rp['end'], lookups), tail_of(rp['decoder'], rp['start2'], rp['end'], lookups)
    if ta != tb:
        print('result parts differ: %r vs %r' % (ta, tb))
        print(f'VIOLATION property=C10 replay={path}')
        return 1
    print('no violation on this input')
    return 0


def correspondence(rep, rng, tier):
    names = bsd_names()
    D.section_decoders(rep, rng, tier, names=names, name='decoders-bsd')
    sec = rep.section('results')
    sec['rule'] = ('failing-input search on the real code: every non-exempt BSD decoder x error words %s x return words; '
                   'error => exactly errno text and no success value; zero => no errno and only renderings of the return '
                   'word; result independent of START, call independent of END' % ERR_WORDS)
    for n in bsd_names(only_supported=False):      # the search runs on every registered decoder, translated or not
        if n in EXEMPT:
            continue
        sec['cases'] += 1
        sec['distinct_nontrivial'] += 1
        r = result_oracle(n)
        if r:
            rep.add_failure(r[0], r[1], {'section': 'results', 'decoder': n, 'case': r[2]})
    sec['dist'] = {'bsd_decoders': len(names), 'exempt_present': len([n for n in names if n in EXEMPT])}
    _matching(rep, rng, tier)
    history_search(rep, rng, tier)
    collision_search(rep, rng, tier)
    start_independence(rep, rng, tier)
    from .. import tsorder
    tsorder.section(rep, rng, tier, 'C10')


def _matching(rep, rng, tier):
    from .. import pipeline as P
    P.matching_search(rep, rng, tier, 'C10')
    # the result part depends only on the END record: no record between START and END may change it
    P.window_content_search(rep, rng, tier, 'C10', [n for n in bsd_names(only_supported=False) if n not in EXEMPT])


def replay(path):
    import json
    with open(path) as fd:
        r = json.load(fd)
    rp = r.get('replay') or {}
    if 'section' not in rp and 'case' not in rp:
        print('nothing to replay (no failing input was recorded):', r.get('no_longer_checks'))
        return 1
    if rp.get('section') in ('window-content', 'matching-records'):
        from .. import pipeline as P
        rc = P.replay_search(rp, 'C10', path)
        if rc is not None:
            return rc
    if rp.get('section') == 'timestamp-order':
        from .. import tsorder
        bad, lines = tsorder.replay(rp)
        print('\n'.join(lines))
        if bad:
            print(f'VIOLATION property=C10 replay={path}')
        return 1 if bad else 0
    if rp.get('section') == 'start-independence':
        return replay_start_independence(rp, path)
    if rp.get('section') == 'result-collisions':
        lookups = [['/p/one', 11], ['/q/two', 22], ['/r/three', 33], ['/s/4', 44], ['/t/5', 55], ['/u/6', 66]]
        n, b = rp['decoder'], rp['start']
        t0 = render(n, b, [0, 0x51f3, 0x6a2d, 0x7b1c], lookups)
        call = t0[:len(t0) - len(D.split_call(t0)[2])]
        bad = 0
        for end in (rp.get('ends') or [[e, r, 0x6a2d, 0x7b1c] for e, r in rp['pair'] + rp['pair'][:1]]):
            e, r = end[0], end[1]
            t = render(n, b, end, lookups)
            v = tail_violation(n, call, end, t)
            print('END (error=%d, return=%#x) ->' % (e, r), t, '' if not v else '<- ' + v)
            bad += bool(v)
        if bad:
            print(f'VIOLATION property=C10 replay={path}')
            return 1
        print('no violation on this input')
        return 0
    if rp.get('section') == 'results':
        res = result_oracle(rp['decoder'])
        print('oracle:', res)
        if res:
            print(f'VIOLATION property=C10 replay={path}')
            return 1
        return 0
    c = rp['case']
    got = D.impl_fn(c)
    model = core.drive([D.line(c)])[0]
    print('impl :', D.text_of(got))
    print('model:', D.text_of(model))
    return 0 if got == model else 1
