import Driver.Util
import KdVerif.Model.Format
import KdVerif.Gen.Enums
open KdVerif KdVerif.Format
namespace Driver.Format

def okText (s : String) : String := "ok " ++ hexOfString s
def okTexts (l : List String) : String := "ok " ++ " ".intercalate (l.map hexOfString)

/-- Six characters `0`/`1`: show_timestamp, show_name, show_func_qual, show_tid, show_process, show_args. -/
def parseShow (s : String) : Option Show :=
  match s.toList.map (· == '1') with
  | [a, b, c, d, e, f] => if s.toList.all (fun ch => ch == '0' || ch == '1') then some ⟨a, b, c, d, e, f⟩ else none
  | _ => none

/-- Thread map entries `tid:pid:namehex;…` in file order (`tid:pid` = the pid gets no name).
    `set_thread_map` assigns `threads_pids[tid] = pid; pids_names[pid] = name` entry by entry, so a
    later entry supersedes an earlier one: the association lists hold the entries newest first. -/
def parseTables (s : String) : Option Tables :=
  if s = "-" then some {} else do
    let es ← (s.splitOn ";").mapM fun e =>
      match e.splitOn ":" with
      | [tid, pid, name] => do
        let tid ← tid.toNat?
        let pid ← pid.toInt?
        let name ← stringOfHex name
        pure (tid, pid, some name)
      | [tid, pid] => do
        let tid ← tid.toNat?
        let pid ← pid.toInt?
        pure (tid, pid, none)
      | _ => none
    pure { threadsPids := es.reverse.map (fun (t, p, _) => (t, p)),
           pidsNames := es.reverse.filterMap (fun (_, p, n) => n.map (fun n => (p, n))) }

/-- Trace-code entries `eventid:namehex;…` (keys distinct). -/
def parseCodes (s : String) : Option (List (Nat × String)) :=
  if s = "-" then some [] else
    (s.splitOn ";").mapM fun e =>
      match e.splitOn ":" with
      | [eid, name] => do
        let eid ← eid.toNat?
        let name ← stringOfHex name
        pure (eid, name)
      | _ => none

def cmdBrepr : Cmd
  | [h] => match ofHex (unDash h) with
    | some bs => okText (bytesRepr bs)
    | none => "bad-op"
  | _ => "bad-op"

def cmdPad (f : Nat → String → String) : Cmd
  | [w, h] => match w.toNat?, stringOfHex h with
    | some w, some s => okText (f w s)
    | _, _ => "bad-op"
  | _ => "bad-op"

def cmdNum (f : Nat → String) : Cmd
  | [n] => match n.toNat? with
    | some n => okText (f n)
    | none => "bad-op"
  | _ => "bad-op"

/-- `fmtk <show bits> <thread map> <codes> <record hex>…` : the event line of each record. -/
def cmdFmtK : Cmd
  | bits :: tmap :: codes :: recs =>
    match parseShow bits, parseTables tmap, parseCodes codes, parseRecs recs with
    | some sh, some t, some codes, some es => okTexts (es.map (formatKevent sh Gen.Enums.DgbFuncQual codes t))
    | _, _, _, _ => "bad-op"
  | _ => "bad-op"

/-- `fmtkf <tid|N> <filter_class> <filter_subclass> <show bits> <thread map> <codes> <record hex>…` :
    `formatted_kevents` with the filters set (what the `kevents` command of the tool prints). -/
def cmdFmtKF : Cmd
  | tid :: cls :: subs :: bits :: tmap :: codes :: recs =>
    let tid? : Option (Option Nat) := if tid = "N" then some none else tid.toNat?.map some
    match tid?, parseNatList cls, parseNatList subs, parseShow bits, parseTables tmap, parseCodes codes, parseRecs recs with
    | some tid, some cls, some subs, some sh, some t, some codes, some es =>
      let cfg : Filters.Cfg := { filterTid := tid, filterClass := cls, filterSubclass := subs }
      okTexts (formattedKevents cfg sh Gen.Enums.DgbFuncQual codes t (es.map Filters.Item.event))
    | _, _, _, _, _, _, _ => "bad-op"
  | _ => "bad-op"

/-- `fmtq <show bits> <qualifier>`: an event line for an arbitrary (also out-of-range) qualifier. -/
def cmdFmtQ : Cmd
  | [bits, q] =>
    match parseShow bits, q.toNat? with
    | some sh, some q =>
      okText (formatKevent sh Gen.Enums.DgbFuncQual [] {}
        { timestamp := 1, data := [], values := [], tid := 2, debugid := 0, eventid := 0, qual := q })
    | _, _ => "bad-op"
  | _ => "bad-op"

def parseTrace (s : String) : Option TraceRec :=
  match s.splitOn ":" with
  | [ts, tid, body] => do
    let ts ← ts.toNat?
    let tid ← tid.toNat?
    let body ← stringOfHex body
    pure ⟨ts, tid, body⟩
  | _ => none

/-- `fmtt <show bits> <thread map> <timestamp:tid:bodyhex>…` : trace lines, colour off. -/
def cmdFmtT : Cmd
  | bits :: tmap :: trs =>
    match parseShow bits, parseTables tmap, trs.mapM parseTrace with
    | some sh, some t, some trs => okTexts (trs.map (formatTrace sh Colour.off t))
    | _, _, _ => "bad-op"
  | _ => "bad-op"

def parseFrame (s : String) : Option Frame :=
  match s.splitOn "/" with
  | [a] => do let a ← a.toNat?; pure ⟨a, none, 0⟩
  | [a, u, o] => do
    let a ← a.toNat?
    let u ← stringOfHex u
    let o ← o.toNat?
    pure ⟨a, some u, o⟩
  | _ => none

/-- `fmtc <show bits> <thread map> <timestamp> <tid> <frame>…`, frame = `addr` | `addr/uuidhex/offset`. -/
def cmdFmtC : Cmd
  | bits :: tmap :: ts :: tid :: frames =>
    match parseShow bits, parseTables tmap, ts.toNat?, tid.toNat?, frames.mapM parseFrame with
    | some sh, some t, some ts, some tid, some fs => okText (formatCallstack sh t ⟨ts, tid, fs⟩)
    | _, _, _, _, _ => "bad-op"
  | _ => "bad-op"

/-- `fmtl <colour 0|1> <thread map> <time text hex> <tid> <pid> <process hex> <message hex>`;
    colour 1 = termcolor's escape sequences. -/
def cmdFmtL : Cmd
  | [col, tmap, time, tid, pid, proc, msg] =>
    match parseTables tmap, stringOfHex time, tid.toNat?, pid.toInt?, stringOfHex proc, stringOfHex msg with
    | some t, some time, some tid, some pid, some proc, some msg =>
      okText (formatLog (if col = "1" then Colour.termcolor else Colour.off) t time ⟨tid, proc, pid, msg⟩)
    | _, _, _, _, _, _ => "bad-op"
  | _ => "bad-op"

def commands : List (String × Cmd) :=
  [("brepr", cmdBrepr), ("padr", cmdPad padRight), ("padl", cmdPad padLeft),
   ("hex016", cmdNum hex016), ("pyhex", cmdNum pyHex), ("pystr", cmdNum toString),
   ("fmtk", cmdFmtK), ("fmtkf", cmdFmtKF), ("fmtq", cmdFmtQ), ("fmtt", cmdFmtT), ("fmtc", cmdFmtC), ("fmtl", cmdFmtL)]

end Driver.Format
