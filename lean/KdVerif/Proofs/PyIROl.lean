import KdVerif.Spec.PyIROlExpected
/-
  The expected IR of `parse_decomposed_segment`, `parse_decomposed` and `parse_trace_identifier`
  (`Spec/PyIROlExpected`), run by the interpreter of `Model/PyIROl`, is `OsLog.parseSegment`, `OsLog.parseDecomposed`,
  `OsLog.parseTraceIdentifier` of the hand model — for EVERY `PVal` argument and every string table: same value, same
  exception.
-/
set_option linter.unusedSimpArgs false
set_option linter.unusedVariables false
namespace KdVerif.PyIROl
open KdVerif.OsLog Expr Stmt

/-! ### plumbing -/

@[simp] theorem andThen_ok {α β : Type} (a : α) (f : α → Except PyErr β) : (Except.ok a >>=? f) = f a := rfl
@[simp] theorem andThen_error {α β : Type} (e : PyErr) (f : α → Except PyErr β) :
    ((Except.error e : Except PyErr α) >>=? f) = .error e := rfl

@[simp] theorem truthy_bool (b : Bool) : truthy (.bool b) = b := rfl

theorem Locals.set_same (l : Locals) (i : Nat) (v : Val) : (l.set i v) i = some v := by simp [Locals.set]
theorem Locals.set_other (l : Locals) (i j : Nat) (v : Val) (h : j ≠ i) : (l.set i v) j = l j := by
  simp [Locals.set, h]
theorem Locals.set_set (l : Locals) (i : Nat) (a b : Val) : (l.set i a).set i b = l.set i b := by
  funext j; by_cases h : j = i <;> simp [Locals.set, h]
theorem Locals.set_self (l : Locals) (i : Nat) (v : Val) (h : l i = some v) : l.set i v = l := by
  funext j; by_cases hj : j = i
  · subst hj; simp [Locals.set, h]
  · simp [Locals.set, hj]

theorem dset_fresh (d : Dict) (k : String) (x : PVal) (h : d.lookup k = Option.none) : dset d k x = d ++ [(k, x)] := by
  induction d with
  | nil => rfl
  | cons p r ih =>
    obtain ⟨k', y⟩ := p
    by_cases hk : k = k'
    · subst hk; simp [List.lookup] at h
    · have hk' : (k == k') = false := by simpa using hk
      have hk'' : (k' == k) = false := by simpa using fun h' : k' = k => hk h'.symm
      have hr : r.lookup k = Option.none := by simpa [List.lookup, hk'] using h
      simp [dset, hk'', ih hr]

/-- what an optional key contributes: nothing, or one entry under `name` -/
def Frag (f : Dict) (name : String) : Prop := f = [] ∨ ∃ x, f = [(name, x)]

theorem Frag.lookup_ne {f : Dict} {name k : String} (h : Frag f name) (hk : k ≠ name) : f.lookup k = Option.none := by
  rcases h with rfl | ⟨x, rfl⟩
  · rfl
  · have : (k == name) = false := by simpa using hk
    simp [List.lookup, this]

theorem optKey_frag {v : PVal} {k name : String} {g : PVal → Except PyErr Dict} {f : Dict}
    (hg : ∀ x r, g x = .ok r → Frag r name) (h : optKey v k g [] = .ok f) : Frag f name := by
  unfold optKey at h
  cases hc : contains k v with
  | error e => simp [hc] at h
  | ok c =>
    cases c with
    | false => simp [hc] at h; exact .inl h
    | true =>
      cases hs : subscr v k with
      | error e => simp [hc, hs] at h
      | ok x => simp [hc, hs] at h; exact hg x f h

theorem frag_of_bind {name : String} {m : Except PyErr PVal} {r : Dict}
    (h : (m >>=? fun y => .ok [(name, y)]) = .ok r) : Frag r name := by
  cases m with
  | error e => simp at h
  | ok y => simp at h; exact .inr ⟨y, h.symm⟩

theorem lookup_append_none {l₁ l₂ : Dict} {k : String} (h₁ : l₁.lookup k = Option.none)
    (h₂ : l₂.lookup k = Option.none) : (l₁ ++ l₂).lookup k = Option.none := by
  simp [List.lookup_append, h₁, h₂]

theorem lookup_single_ne {k name : String} {x : PVal} (h : k ≠ name) :
    ([(name, x)] : Dict).lookup k = Option.none := by
  have : (k == name) = false := by simpa using h
  simp [List.lookup, this]

theorem optKey_str_frag {S : Strings} {v : PVal} {k name : String} {f : Dict}
    (h : optKey v k (strField S name) [] = .ok f) : Frag f name :=
  optKey_frag (fun _ _ hr => frag_of_bind hr) h
theorem optKey_plain_frag {v : PVal} {k name : String} {f : Dict}
    (h : optKey v k (plainField name) [] = .ok f) : Frag f name :=
  optKey_frag (fun x r hr => .inr ⟨x, by simpa [plainField] using hr.symm⟩) h
theorem optKey_tokens_frag {S : Strings} {v : PVal} {f : Dict}
    (h : optKey v "t" (parseTokens S) [] = .ok f) : Frag f "tokens" := by
  refine optKey_frag (fun x r hr => ?_) h
  unfold parseTokens at hr
  cases ht : truthy x with
  | false => simp [ht] at hr; exact .inl hr
  | true =>
    simp only [ht, if_true] at hr
    cases hi : iter x with
    | error e => simp [hi] at hr
    | ok xs =>
      cases hm : mapE (strIndex S) xs with
      | error e => simp [hi, hm] at hr
      | ok ys => simp [hi, hm] at hr; exact .inr ⟨_, hr.symm⟩

/-! ### the recurring blocks -/

section blocks
variable (cx : Ctx) (loc : Locals)

theorem exec_seq (a b : Stmt) : exec cx (seq a b) loc =
    match exec cx a loc with
    | .ok (.normal loc') => exec cx b loc'
    | r => r := rfl

theorem exec_assign_dictEmpty (v : Nat) : exec cx (assign v dictEmpty) loc = .ok (.normal (loc.set v (.pv (.dict [])))) := rfl

/-- a block whose base expression raises, raises -/
theorem exec_optStr_err {B : Expr} {e : PyErr} (v : Nat) (name k : String) (hB : eval cx loc B = .error e) :
    exec cx (Expected.optStr v name B k) loc = .error e := by
  simp [Expected.optStr, exec, eval, hB]

theorem exec_optPlain_err {B : Expr} {e : PyErr} (v : Nat) (name k : String) (hB : eval cx loc B = .error e) :
    exec cx (Expected.optPlain v name B k) loc = .error e := by
  simp [Expected.optPlain, exec, eval, hB]

/-- `if 'k' in B: v['name'] = log_strings[B['k']]` is `optKey b k (strField S name) []` appended to `v` -/
theorem exec_optStr {B : Expr} {b : PVal} {v : Nat} {d : Dict} (name k : String)
    (hB : eval cx loc B = .ok (.pv b)) (hT : loc 1 = some .table) (hv : loc v = some (.pv (.dict d)))
    (hk : d.lookup name = Option.none) :
    exec cx (Expected.optStr v name B k) loc =
      match optKey b k (strField cx.S name) [] with
      | .error e => .error e
      | .ok f => .ok (.normal (loc.set v (.pv (.dict (d ++ f))))) := by
  unfold optKey
  cases hc : contains k b with
  | error e => simp [Expected.optStr, exec, eval, hB, asP, hc]
  | ok c =>
    cases c with
    | false => simp [Expected.optStr, exec, eval, hB, asP, hc, Locals.set_self _ _ _ hv]
    | true =>
      cases hs : subscr b k with
      | error e => simp [Expected.optStr, exec, eval, hB, asP, hc, hs, hT]
      | ok x =>
        cases hi : strIndex cx.S x with
        | error e => simp [Expected.optStr, exec, eval, hB, asP, hc, hs, hT, hi, strField]
        | ok s =>
          simp [Expected.optStr, exec, eval, hB, asP, hc, hs, hT, hi, strField, Val.store, hv,
            dset_fresh _ _ _ hk]

theorem exec_optPlain {B : Expr} {b : PVal} {v : Nat} {d : Dict} (name k : String)
    (hB : eval cx loc B = .ok (.pv b)) (hv : loc v = some (.pv (.dict d))) (hk : d.lookup name = Option.none) :
    exec cx (Expected.optPlain v name B k) loc =
      match optKey b k (plainField name) [] with
      | .error e => .error e
      | .ok f => .ok (.normal (loc.set v (.pv (.dict (d ++ f))))) := by
  unfold optKey
  cases hc : contains k b with
  | error e => simp [Expected.optPlain, exec, eval, hB, asP, hc]
  | ok c =>
    cases c with
    | false => simp [Expected.optPlain, exec, eval, hB, asP, hc, Locals.set_self _ _ _ hv]
    | true =>
      cases hs : subscr b k with
      | error e => simp [Expected.optPlain, exec, eval, hB, asP, hc, hs]
      | ok x =>
        simp [Expected.optPlain, exec, eval, hB, asP, hc, hs, plainField, Val.store, hv, dset_fresh _ _ _ hk]


theorem store_pv (m : Except PyErr PVal) : ((m >>=? fun r => .ok (Val.pv r)) >>=? Val.store) = m := by
  cases m <;> rfl

/-- the comprehension element `log_strings[token]` is `strIndex S` -/
theorem comp_strAt (hT : loc 1 = some .table) (v : Nat) (hv : v ≠ 1) :
    (fun x => eval cx (loc.set v (.pv x)) (strAt (var 1) (var v)) >>=? Val.store) = strIndex cx.S := by
  funext x
  have h1 : (loc.set v (.pv x)) 1 = some .table := by rw [Locals.set_other _ _ _ _ (Ne.symm hv)]; exact hT
  simp only [eval, h1, Locals.set_same, andThen_ok, asP]
  exact store_pv _

theorem exec_ite (c : Expr) (t e : Stmt) : exec cx (ite c t e) loc =
    eval cx loc c >>=? asP >>=? fun p => if truthy p then exec cx t loc else exec cx e loc := rfl

theorem exec_skip : exec cx skip loc = .ok (.normal loc) := rfl

theorem eval_listComp (v : Nat) (elem it : Expr) : eval cx loc (listComp v elem it) =
    eval cx loc it >>=? asP >>=? iter >>=? fun xs =>
      mapE (fun x => eval cx (loc.set v (.pv x)) elem >>=? Val.store) xs >>=? fun ys => .ok (.pv (.list ys)) := rfl

theorem exec_setKey (v : Nat) (k : String) (e : Expr) : exec cx (setKey v k e) loc =
    eval cx loc e >>=? Val.store >>=? fun p =>
      match loc v with
      | some (.pv (.dict kv)) => .ok (.normal (loc.set v (.pv (.dict (dset kv k p)))))
      | some (.pv _) => .error .typeError
      | _ => .error .unmodelled := rfl

/-- `v['tokens'] = [log_strings[token] for token in <it>]` -/
theorem exec_setTokens {it : Expr} {t : PVal} {d : Dict} (hI : eval cx loc it = .ok (.pv t)) (hT : loc 1 = some .table)
    (hv : loc 3 = some (.pv (.dict d))) (hk : d.lookup "tokens" = Option.none) :
    exec cx (setKey 3 "tokens" (listComp 4 (strAt (var 1) (var 4)) it)) loc =
      match iter t >>=? fun xs => mapE (strIndex cx.S) xs with
      | .error e => .error e
      | .ok ys => .ok (.normal (loc.set 3 (.pv (.dict (d ++ [("tokens", .list ys)]))))) := by
  rw [exec_setKey, eval_listComp, comp_strAt cx loc hT 4 (by decide), hI]
  cases hi : iter t with
  | error e => simp [asP, hi]
  | ok xs =>
    cases hm : mapE (strIndex cx.S) xs with
    | error e => simp [asP, hi, hm]
    | ok ys => simp [asP, hi, hm, Val.store, hv, dset_fresh _ _ _ hk]

/-- `if 't' in B and B['t']: v['tokens'] = [log_strings[token] for token in B['t']]` is
    `optKey p "t" (parseTokens S) []` -/
theorem exec_tokens {p : PVal} {d : Dict} (hB : eval cx loc Expected.segP = .ok (.pv p)) (hT : loc 1 = some .table)
    (hv : loc 3 = some (.pv (.dict d))) (hk : d.lookup "tokens" = Option.none) :
    exec cx Expected.tokensBlock loc =
      match optKey p "t" (parseTokens cx.S) [] with
      | .error e => .error e
      | .ok f => .ok (.normal (loc.set 3 (.pv (.dict (d ++ f))))) := by
  unfold optKey
  rw [Expected.tokensBlock, exec_ite, exec_skip]
  cases hc : contains "t" p with
  | error e => simp [eval, hB, asP, hc]
  | ok c =>
    cases c with
    | false => simp [eval, hB, asP, hc, Locals.set_self _ _ _ hv]
    | true =>
      cases hs : subscr p "t" with
      | error e => simp [eval, hB, asP, hc, hs]
      | ok t =>
        have hI : eval cx loc (key Expected.segP "t") = .ok (.pv t) := by simp [eval, hB, asP, hs]
        cases ht : truthy t with
        | false => simp [eval, hB, asP, hc, hs, ht, parseTokens, Locals.set_self _ _ _ hv]
        | true =>
          rw [exec_setTokens cx loc hI hT hv hk]
          cases hi : iter t with
          | error e => simp [eval, hB, asP, hc, hs, ht, parseTokens, hi]
          | ok xs =>
            cases hm : mapE (strIndex cx.S) xs with
            | error e => simp [eval, hB, asP, hc, hs, ht, parseTokens, hi, hm]
            | ok ys => simp [eval, hB, asP, hc, hs, ht, parseTokens, hi, hm]

/-- `v['name'] = B['k']` (mandatory key) -/
theorem exec_setKey_key {B : Expr} {b : PVal} {v : Nat} {d : Dict} (name k : String)
    (hB : eval cx loc B = .ok (.pv b)) (hv : loc v = some (.pv (.dict d))) (hk : d.lookup name = Option.none) :
    exec cx (setKey v name (key B k)) loc =
      match subscr b k with
      | .error e => .error e
      | .ok x => .ok (.normal (loc.set v (.pv (.dict (d ++ [(name, x)]))))) := by
  cases hs : subscr b k with
  | error e => simp [exec, eval, hB, asP, hs]
  | ok x => simp [exec, eval, hB, asP, hs, Val.store, hv, dset_fresh _ _ _ hk]

/-- `w['name'] = v` for two local dicts -/
theorem exec_setKey_var {v w : Nat} {d : Dict} {r : PVal} (name : String)
    (hv : loc v = some (.pv r)) (hw : loc w = some (.pv (.dict d))) (hk : d.lookup name = Option.none) :
    exec cx (setKey w name (var v)) loc = .ok (.normal (loc.set w (.pv (.dict (d ++ [(name, r)]))))) := by
  simp [exec, eval, hv, Val.store, hw, dset_fresh _ _ _ hk]


/-! ### `parse_decomposed_segment` -/

/-- the frame of `parse_decomposed_segment`: v0 = `segment`, v1 = `log_strings` -/
structure SegFrame (loc : Locals) (seg : PVal) : Prop where
  h0 : loc 0 = some (.pv seg)
  h1 : loc 1 = some .table

theorem SegFrame.set {loc : Locals} {seg : PVal} (h : SegFrame loc seg) (v : Nat) (x : Val) (hv : 2 ≤ v) :
    SegFrame (loc.set v x) seg :=
  ⟨by rw [Locals.set_other _ _ _ _ (by omega)]; exact h.h0, by rw [Locals.set_other _ _ _ _ (by omega)]; exact h.h1⟩

theorem eval_segKey {seg : PVal} (hf : SegFrame loc seg) (k : String) :
    eval cx loc (key (var 0) k) = (subscr seg k >>=? fun r => .ok (.pv r)) := by
  simp [eval, hf.h0, asP]

theorem exec_placeholderTail {seg p : PVal} {l d : Dict} (hf : SegFrame loc seg) (hp : subscr seg "p" = .ok p)
    (h2 : loc 2 = some (.pv (.dict l))) (hl : l.lookup "placeholder" = Option.none)
    (h3 : loc 3 = some (.pv (.dict d))) (hw : d.lookup "width" = Option.none)
    (hpr : d.lookup "precision" = Option.none) :
    exec cx Expected.placeholderTail loc =
      match subscr p "w" >>=? fun w => subscr p "p" >>=? fun pr =>
              Except.ok (PVal.dict (d ++ [("width", w), ("precision", pr)])) with
      | .error e => .error e
      | .ok r => .ok (.normal ((loc.set 3 (.pv r)).set 2 (.pv (.dict (l ++ [("placeholder", r)]))))) := by
  have hB : ∀ x, eval cx (loc.set 3 x) Expected.segP = .ok (.pv p) := fun x => by
    rw [Expected.segP, eval_segKey cx _ (hf.set 3 x (by omega)), hp]; rfl
  have hB0 : eval cx loc Expected.segP = .ok (.pv p) := by rw [Expected.segP, eval_segKey cx _ hf, hp]; rfl
  rw [Expected.placeholderTail, exec_seq, exec_setKey_key cx loc "width" "w" hB0 h3 hw]
  cases h1 : subscr p "w" with
  | error e => rfl
  | ok w =>
    simp only [andThen_ok]
    rw [exec_seq, exec_setKey_key cx _ "precision" "p" (hB _) (Locals.set_same _ _ _)
      (lookup_append_none hpr (lookup_single_ne (by decide)))]
    cases h2' : subscr p "p" with
    | error e => rfl
    | ok pr =>
      simp only [andThen_ok, Locals.set_set]
      rw [exec_setKey_var cx _ "placeholder" (Locals.set_same _ _ _)
        (by rw [Locals.set_other _ _ _ _ (by decide)]; exact h2) hl]
      simp [List.append_assoc]

theorem exec_placeholderBlock {seg p : PVal} {l : Dict} (hf : SegFrame loc seg) (hp : subscr seg "p" = .ok p)
    (h2 : loc 2 = some (.pv (.dict l))) (hl : l.lookup "placeholder" = Option.none) :
    exec cx Expected.placeholderBlock loc =
      match parsePlaceholder cx.S p with
      | .error e => .error e
      | .ok r => .ok (.normal ((loc.set 3 (.pv r)).set 2 (.pv (.dict (l ++ [("placeholder", r)]))))) := by
  have hB : ∀ x, eval cx (loc.set 3 x) Expected.segP = .ok (.pv p) := fun x => by
    rw [Expected.segP, eval_segKey cx _ (hf.set 3 x (by omega)), hp]; rfl
  have hT : ∀ x, (loc.set 3 x) 1 = some .table := fun x => (hf.set 3 x (by omega)).h1
  unfold parsePlaceholder
  rw [Expected.placeholderBlock, exec_seq, exec_assign_dictEmpty]
  simp only []
  rw [exec_seq, exec_optStr cx _ "raw_string" "rs" (hB _) (hT _) (Locals.set_same _ _ _) rfl]
  cases h1 : optKey p "rs" (strField cx.S "raw_string") [] with
  | error e => rfl
  | ok a1 =>
    have f1 := optKey_str_frag h1
    simp only [andThen_ok, Locals.set_set, List.nil_append]
    rw [exec_seq, exec_tokens cx _ (hB _) (hT _) (Locals.set_same _ _ _) (f1.lookup_ne (by decide))]
    cases h2' : optKey p "t" (parseTokens cx.S) [] with
    | error e => rfl
    | ok a2 =>
      have f2 := optKey_tokens_frag h2'
      simp only [andThen_ok, Locals.set_set]
      rw [exec_seq, exec_optStr cx _ "type_namespace" "tn" (hB _) (hT _) (Locals.set_same _ _ _)
        (lookup_append_none (f1.lookup_ne (by decide)) (f2.lookup_ne (by decide)))]
      cases h3 : optKey p "tn" (strField cx.S "type_namespace") [] with
      | error e => rfl
      | ok a3 =>
        have f3 := optKey_str_frag h3
        simp only [andThen_ok, Locals.set_set]
        rw [exec_seq, exec_optStr cx _ "type" "ty" (hB _) (hT _) (Locals.set_same _ _ _)
          (lookup_append_none (lookup_append_none (f1.lookup_ne (by decide)) (f2.lookup_ne (by decide)))
            (f3.lookup_ne (by decide)))]
        cases h4 : optKey p "ty" (strField cx.S "type") [] with
        | error e => rfl
        | ok a4 =>
          have f4 := optKey_str_frag h4
          simp only [andThen_ok, Locals.set_set]
          have hfr : ∀ k, k ≠ "raw_string" → k ≠ "tokens" → k ≠ "type_namespace" → k ≠ "type" →
              (a1 ++ a2 ++ a3 ++ a4).lookup k = Option.none := fun k n1 n2 n3 n4 =>
            lookup_append_none (lookup_append_none (lookup_append_none (f1.lookup_ne n1) (f2.lookup_ne n2))
              (f3.lookup_ne n3)) (f4.lookup_ne n4)
          rw [exec_placeholderTail cx _ (hf.set 3 _ (by omega)) hp
            (by rw [Locals.set_other _ _ _ _ (by decide)]; exact h2) hl (Locals.set_same _ _ _)
            (hfr _ (by decide) (by decide) (by decide) (by decide))
            (hfr _ (by decide) (by decide) (by decide) (by decide))]
          simp only [Locals.set_set]


/-- `v.get('name') == n` on a local dict is the model's `getEq` -/
theorem eval_getEq {v : Nat} {D : Dict} (hv : loc v = some (.pv (.dict D))) (name : String) (n : Int) :
    eval cx loc (eqInt (get (var v) name) n) = .ok (.pv (.bool (getEq D name n))) := by
  cases hl : D.lookup name with
  | none => simp [eval, hv, asP, getEq, hl, pyEqInt, numOf]
  | some x => simp [eval, hv, asP, getEq, hl]

theorem getEq_append_left {l₁ l₂ : Dict} {k : String} (n : Int) (h : l₁.lookup k = Option.none) :
    getEq (l₁ ++ l₂) k n = getEq l₂ k n := by
  simp [getEq, List.lookup_append, h]

theorem getEq_append_right {l₁ l₂ : Dict} {k : String} (n : Int) (h : l₂.lookup k = Option.none) :
    getEq (l₁ ++ l₂) k n = getEq l₁ k n := by
  cases hl : l₁.lookup k <;> simp [getEq, List.lookup_append, h, hl]

/-- `if parsed_arg.get('category') == 1: <sc>; <st>` -/
theorem exec_scalarBlock {seg a : PVal} {D : Dict} (hf : SegFrame loc seg) (ha : subscr seg "a" = .ok a)
    (h5 : loc 5 = some (.pv (.dict D))) (hsc : D.lookup "scalar_category" = Option.none)
    (hst : D.lookup "scalar_type" = Option.none) :
    exec cx Expected.scalarBlock loc =
      match (if getEq D "category" 1 then
               optKey a "sc" (plainField "scalar_category") [] >>=? fun c1 =>
               optKey a "st" (plainField "scalar_type") [] >>=? fun c2 => Except.ok (c1 ++ c2)
             else Except.ok []) with
      | .error e => .error e
      | .ok b4 => .ok (.normal (loc.set 5 (.pv (.dict (D ++ b4))))) := by
  have hA : ∀ x, eval cx (loc.set 5 x) Expected.segA = .ok (.pv a) := fun x => by
    rw [Expected.segA, eval_segKey cx _ (hf.set 5 x (by omega)), ha]; rfl
  have hA0 : eval cx loc Expected.segA = .ok (.pv a) := by rw [Expected.segA, eval_segKey cx _ hf, ha]; rfl
  rw [Expected.scalarBlock, exec_ite, eval_getEq cx loc h5, exec_skip]
  cases hg : getEq D "category" 1 with
  | false => simp [asP, Locals.set_self _ _ _ h5]
  | true =>
    simp only [andThen_ok, asP, truthy_bool, if_true]
    rw [exec_seq, exec_optPlain cx loc "scalar_category" "sc" hA0 h5 hsc]
    cases h1 : optKey a "sc" (plainField "scalar_category") [] with
    | error e => rfl
    | ok c1 =>
      have f1 := optKey_plain_frag h1
      simp only [andThen_ok]
      rw [exec_optPlain cx _ "scalar_type" "st" (hA _) (Locals.set_same _ _ _)
        (lookup_append_none hst (f1.lookup_ne (by decide)))]
      cases h2 : optKey a "st" (plainField "scalar_type") [] with
      | error e => rfl
      | ok c2 => simp [Locals.set_set, List.append_assoc]

/-- `if 'availability' not in parsed_arg or parsed_arg['availability'] == 3: if 'or' in …: …` -/
theorem exec_objectBlock {seg a : PVal} {D : Dict} (hf : SegFrame loc seg) (ha : subscr seg "a" = .ok a)
    (h5 : loc 5 = some (.pv (.dict D))) (hor : D.lookup "object_representation" = Option.none) :
    exec cx Expected.objectBlock loc =
      match (if (D.lookup "availability").isNone || getEq D "availability" 3 then
               optKey a "or" (fun v => if getEq D "category" 2 then strField cx.S "object_representation" v
                                       else plainField "object_representation" v) []
             else Except.ok []) with
      | .error e => .error e
      | .ok b5 => .ok (.normal (loc.set 5 (.pv (.dict (D ++ b5))))) := by
  have hA0 : eval cx loc Expected.segA = .ok (.pv a) := by rw [Expected.segA, eval_segKey cx _ hf, ha]; rfl
  have hT := hf.h1
  have hcond : eval cx loc (or (not (hasKey "availability" (var 5))) (eqInt (key (var 5) "availability") 3)) =
      .ok (.pv (.bool ((D.lookup "availability").isNone || getEq D "availability" 3))) := by
    cases hl : D.lookup "availability" with
    | none => simp [eval, h5, asP, contains, hl]
    | some x => simp [eval, h5, asP, contains, subscr, hl, getEq]
  rw [Expected.objectBlock, exec_ite, hcond, exec_skip]
  cases hc : ((D.lookup "availability").isNone || getEq D "availability" 3) with
  | false => simp [asP, Locals.set_self _ _ _ h5]
  | true =>
    simp only [andThen_ok, asP, truthy_bool, if_true]
    rw [exec_ite, exec_skip, exec_ite, eval_getEq cx loc h5]
    unfold optKey
    cases hk : contains "or" a with
    | error e => simp [eval, hA0, asP, hk]
    | ok c =>
      cases c with
      | false => simp [eval, hA0, asP, hk, Locals.set_self _ _ _ h5]
      | true =>
        cases hs : subscr a "or" with
        | error e =>
          cases hg : getEq D "category" 2 <;> simp [eval, exec, hA0, asP, hk, hs, hT, hg]
        | ok x =>
          cases hg : getEq D "category" 2 with
          | false =>
            simp [eval, exec, hA0, asP, hk, hs, hg, plainField, Val.store, h5, dset_fresh _ _ _ hor]
          | true =>
            cases hi : strIndex cx.S x with
            | error e => simp [eval, exec, hA0, asP, hk, hs, hg, hT, hi, strField]
            | ok r =>
              simp [eval, exec, hA0, asP, hk, hs, hg, hT, hi, strField, Val.store, h5, dset_fresh _ _ _ hor]


theorem scalar_frag {a : PVal} {c : Bool} {b4 : Dict}
    (h : (if c then
            optKey a "sc" (plainField "scalar_category") [] >>=? fun c1 =>
            optKey a "st" (plainField "scalar_type") [] >>=? fun c2 => Except.ok (c1 ++ c2)
          else Except.ok []) = .ok b4) (k : String) (h1 : k ≠ "scalar_category") (h2 : k ≠ "scalar_type") :
    b4.lookup k = Option.none := by
  cases c with
  | false => simp at h; subst h; rfl
  | true =>
    simp only [if_true] at h
    cases e1 : optKey a "sc" (plainField "scalar_category") [] with
    | error e => simp [e1] at h
    | ok c1 =>
      cases e2 : optKey a "st" (plainField "scalar_type") [] with
      | error e => simp [e1, e2] at h
      | ok c2 =>
        simp [e1, e2] at h; subst h
        exact lookup_append_none ((optKey_plain_frag e1).lookup_ne h1) ((optKey_plain_frag e2).lookup_ne h2)

theorem frag_isNone {f : Dict} {name : String} (h : Frag f name) : (f.lookup name).isNone = f.isEmpty := by
  rcases h with rfl | ⟨x, rfl⟩ <;> simp [List.lookup]

theorem exec_argBlock {seg a : PVal} {l : Dict} (hf : SegFrame loc seg) (ha : subscr seg "a" = .ok a)
    (h2 : loc 2 = some (.pv (.dict l))) (hl : l.lookup "arg" = Option.none) :
    exec cx Expected.argBlock loc =
      match parseArg cx.S a with
      | .error e => .error e
      | .ok r => .ok (.normal ((loc.set 5 (.pv r)).set 2 (.pv (.dict (l ++ [("arg", r)]))))) := by
  have hA : ∀ x, eval cx (loc.set 5 x) Expected.segA = .ok (.pv a) := fun x => by
    rw [Expected.segA, eval_segKey cx _ (hf.set 5 x (by omega)), ha]; rfl
  unfold parseArg
  rw [Expected.argBlock, exec_seq, exec_assign_dictEmpty]
  simp only []
  rw [exec_seq, exec_optPlain cx _ "availability" "a" (hA _) (Locals.set_same _ _ _) rfl]
  cases e1 : optKey a "a" (plainField "availability") [] with
  | error e => rfl
  | ok b1 =>
    have f1 := optKey_plain_frag e1
    simp only [andThen_ok, Locals.set_set, List.nil_append]
    rw [exec_seq, exec_optPlain cx _ "privacy" "p" (hA _) (Locals.set_same _ _ _) (f1.lookup_ne (by decide))]
    cases e2 : optKey a "p" (plainField "privacy") [] with
    | error e => rfl
    | ok b2 =>
      have f2 := optKey_plain_frag e2
      simp only [andThen_ok, Locals.set_set]
      rw [exec_seq, exec_optPlain cx _ "category" "c" (hA _) (Locals.set_same _ _ _)
        (lookup_append_none (f1.lookup_ne (by decide)) (f2.lookup_ne (by decide)))]
      cases e3 : optKey a "c" (plainField "category") [] with
      | error e => rfl
      | ok b3 =>
        have f3 := optKey_plain_frag e3
        simp only [andThen_ok, Locals.set_set]
        have h123 : ∀ k, k ≠ "availability" → k ≠ "privacy" → k ≠ "category" →
            (b1 ++ b2 ++ b3).lookup k = Option.none := fun k n1 n2 n3 =>
          lookup_append_none (lookup_append_none (f1.lookup_ne n1) (f2.lookup_ne n2)) (f3.lookup_ne n3)
        have h12c : (b1 ++ b2).lookup "category" = Option.none :=
          lookup_append_none (f1.lookup_ne (by decide)) (f2.lookup_ne (by decide))
        rw [exec_seq, exec_scalarBlock cx _ (hf.set 5 _ (by omega)) ha (Locals.set_same _ _ _)
          (h123 _ (by decide) (by decide) (by decide)) (h123 _ (by decide) (by decide) (by decide)),
          getEq_append_left 1 h12c]
        cases e4 : (if getEq b3 "category" 1 then
                      optKey a "sc" (plainField "scalar_category") [] >>=? fun c1 =>
                      optKey a "st" (plainField "scalar_type") [] >>=? fun c2 => Except.ok (c1 ++ c2)
                    else Except.ok []) with
        | error e => rfl
        | ok b4 =>
          have f4 := scalar_frag e4
          simp only [andThen_ok, Locals.set_set]
          have hav : (b1 ++ b2 ++ b3 ++ b4).lookup "availability" = b1.lookup "availability" := by
            simp [List.lookup_append, f2.lookup_ne (k := "availability") (by decide),
              f3.lookup_ne (k := "availability") (by decide), f4 "availability" (by decide) (by decide)]
          have hga : getEq (b1 ++ b2 ++ b3 ++ b4) "availability" 3 = getEq b1 "availability" 3 := by
            rw [getEq_append_right 3 (f4 _ (by decide) (by decide)), getEq_append_right 3 (f3.lookup_ne (by decide)),
              getEq_append_right 3 (f2.lookup_ne (by decide))]
          have hgc : getEq (b1 ++ b2 ++ b3 ++ b4) "category" 2 = getEq b3 "category" 2 := by
            rw [getEq_append_right 2 (f4 _ (by decide) (by decide)), getEq_append_left 2 h12c]
          rw [exec_seq, exec_objectBlock cx _ (hf.set 5 _ (by omega)) ha (Locals.set_same _ _ _)
            (lookup_append_none (h123 _ (by decide) (by decide) (by decide)) (f4 _ (by decide) (by decide))),
            hav, frag_isNone f1, hga, hgc]
          cases e5 : (if b1.isEmpty || getEq b1 "availability" 3 then
                        optKey a "or" (fun v => if getEq b3 "category" 2 then strField cx.S "object_representation" v
                                                else plainField "object_representation" v) []
                      else Except.ok []) with
          | error e => rfl
          | ok b5 =>
            simp only [andThen_ok, Locals.set_set]
            rw [exec_setKey_var cx _ "arg" (Locals.set_same _ _ _)
              (by rw [Locals.set_other _ _ _ _ (by decide)]; exact h2) hl]


theorem exec_placeholderBlock_err {seg : PVal} {e : PyErr} (hf : SegFrame loc seg) (hp : subscr seg "p" = .error e) :
    exec cx Expected.placeholderBlock loc = .error e := by
  rw [Expected.placeholderBlock, exec_seq, exec_assign_dictEmpty]
  simp only []
  rw [exec_seq, exec_optStr_err cx _ 3 "raw_string" "rs"
    (by rw [Expected.segP, eval_segKey cx _ (hf.set 3 _ (by omega)), hp]; rfl)]

theorem exec_argBlock_err {seg : PVal} {e : PyErr} (hf : SegFrame loc seg) (ha : subscr seg "a" = .error e) :
    exec cx Expected.argBlock loc = .error e := by
  rw [Expected.argBlock, exec_seq, exec_assign_dictEmpty]
  simp only []
  rw [exec_seq, exec_optPlain_err cx _ 5 "availability" "a"
    (by rw [Expected.segA, eval_segKey cx _ (hf.set 5 _ (by omega)), ha]; rfl)]

/-- `if 'p' in segment: …placeholderBlock…` -/
theorem exec_guardP {seg : PVal} {l : Dict} (hf : SegFrame loc seg) (h2 : loc 2 = some (.pv (.dict l)))
    (hl : l.lookup "placeholder" = Option.none) :
    match optKey seg "p" (fun v => parsePlaceholder cx.S v >>=? fun r => .ok [("placeholder", r)]) [] with
    | .error e => exec cx (ite (hasKey "p" (var 0)) Expected.placeholderBlock skip) loc = .error e
    | .ok f => ∃ loc', exec cx (ite (hasKey "p" (var 0)) Expected.placeholderBlock skip) loc = .ok (.normal loc') ∧
        SegFrame loc' seg ∧ loc' 2 = some (.pv (.dict (l ++ f))) := by
  unfold optKey
  rw [exec_ite, exec_skip]
  cases hc : contains "p" seg with
  | error e => simp [eval, hf.h0, asP, hc]
  | ok c =>
    cases c with
    | false => simpa [eval, hf.h0, asP, hc] using ⟨hf, h2⟩
    | true =>
      cases hp : subscr seg "p" with
      | error e => simp [eval, hf.h0, asP, hc, exec_placeholderBlock_err cx loc hf hp]
      | ok p =>
        have := exec_placeholderBlock cx loc hf hp h2 hl
        cases hr : parsePlaceholder cx.S p with
        | error e => simp [eval, hf.h0, asP, hc, this, hr]
        | ok r =>
          simp only [eval, hf.h0, asP, hc, this, hr, andThen_ok, truthy_bool, if_true]
          exact ⟨_, rfl, (hf.set 3 _ (by omega)).set 2 _ (by omega), Locals.set_same _ _ _⟩

/-- `if 'a' in segment: …argBlock…` -/
theorem exec_guardA {seg : PVal} {l : Dict} (hf : SegFrame loc seg) (h2 : loc 2 = some (.pv (.dict l)))
    (hl : l.lookup "arg" = Option.none) :
    match optKey seg "a" (fun v => parseArg cx.S v >>=? fun r => .ok [("arg", r)]) [] with
    | .error e => exec cx (ite (hasKey "a" (var 0)) Expected.argBlock skip) loc = .error e
    | .ok f => ∃ loc', exec cx (ite (hasKey "a" (var 0)) Expected.argBlock skip) loc = .ok (.normal loc') ∧
        SegFrame loc' seg ∧ loc' 2 = some (.pv (.dict (l ++ f))) := by
  unfold optKey
  rw [exec_ite, exec_skip]
  cases hc : contains "a" seg with
  | error e => simp [eval, hf.h0, asP, hc]
  | ok c =>
    cases c with
    | false => simpa [eval, hf.h0, asP, hc] using ⟨hf, h2⟩
    | true =>
      cases hp : subscr seg "a" with
      | error e => simp [eval, hf.h0, asP, hc, exec_argBlock_err cx loc hf hp]
      | ok a =>
        have := exec_argBlock cx loc hf hp h2 hl
        cases hr : parseArg cx.S a with
        | error e => simp [eval, hf.h0, asP, hc, this, hr]
        | ok r =>
          simp only [eval, hf.h0, asP, hc, this, hr, andThen_ok, truthy_bool, if_true]
          exact ⟨_, rfl, (hf.set 5 _ (by omega)).set 2 _ (by omega), Locals.set_same _ _ _⟩

/-- the body of `parse_decomposed_segment` in a frame with `segment` and `log_strings` -/
theorem exec_segmentBody {seg : PVal} (hf : SegFrame loc seg) :
    exec cx Expected.segmentBody loc =
      match parseSegment cx.S seg with
      | .error e => .error e
      | .ok r => .ok (.ret r) := by
  unfold parseSegment
  have hf2 := hf.set 2 (.pv (.dict [])) (by omega)
  rw [Expected.segmentBody, exec_seq, exec_assign_dictEmpty]
  simp only []
  have hv0 : eval cx (loc.set 2 (.pv (.dict []))) (var 0) = .ok (.pv seg) := by simp [eval, hf2.h0]
  rw [exec_seq, exec_optStr cx _ "literal_prefix" "lp" hv0 hf2.h1 (Locals.set_same _ _ _) rfl]
  cases e1 : optKey seg "lp" (strField cx.S "literal_prefix") [] with
  | error e => rfl
  | ok l =>
    have f1 := optKey_str_frag e1
    simp only [andThen_ok, Locals.set_set, List.nil_append]
    have hfl := hf.set 2 (.pv (.dict l)) (by omega)
    have gp := exec_guardP cx _ hfl (Locals.set_same _ _ _) (f1.lookup_ne (by decide))
    rw [exec_seq]
    cases e2 : optKey seg "p" (fun v => parsePlaceholder cx.S v >>=? fun r => .ok [("placeholder", r)]) [] with
    | error e => rw [e2] at gp; simp only [] at gp; rw [gp]; rfl
    | ok p =>
      rw [e2] at gp
      obtain ⟨loc', hx, hf', h2'⟩ := gp
      have f2 : Frag p "placeholder" := optKey_frag (fun _ _ hr => frag_of_bind hr) e2
      rw [hx]
      simp only [andThen_ok]
      have ga := exec_guardA cx loc' hf' h2'
        (lookup_append_none (f1.lookup_ne (by decide)) (f2.lookup_ne (by decide)))
      rw [exec_seq]
      cases e3 : optKey seg "a" (fun v => parseArg cx.S v >>=? fun r => .ok [("arg", r)]) [] with
      | error e => rw [e3] at ga; simp only [] at ga; rw [ga]; rfl
      | ok a =>
        rw [e3] at ga
        obtain ⟨loc'', hx', hf'', h2''⟩ := ga
        rw [hx']
        simp [exec, eval, h2'', Val.store]

end blocks

/-! ### the methods, called -/

section methods
variable (T : IdTables) (S : Strings)

/-- **`parse_decomposed_segment`, interpreted, is `parseSegment`** — whatever the calls of other methods mean (it makes
    none) -/
theorem runBody_segment (call : String → List Val → Except PyErr PVal) (P : Program) (seg : PVal) :
    runBody ⟨T, S, P, call⟩ Expected.parseDecomposedSegment [.pv seg, .table] = parseSegment S seg := by
  have hf : SegFrame (Locals.ofArgs [.pv seg, .table]) seg := ⟨rfl, rfl⟩
  have := exec_segmentBody ⟨T, S, P, call⟩ _ hf
  simp only [runBody, Expected.parseDecomposedSegment, List.length_cons, List.length_nil, this]
  cases parseSegment S seg <;> rfl


/-- the comprehension element `cls.parse_decomposed_segment(seg, log_strings)` is the callee on the element -/
theorem comp_call (cx : Ctx) (loc : Locals) (hT : loc 1 = some .table) :
    (fun x => eval cx (loc.set 3 (.pv x)) (call2 "parse_decomposed_segment" (var 3) (var 1)) >>=? Val.store) =
      fun x => cx.call "parse_decomposed_segment" [.pv x, .table] := by
  funext x
  have h1 : (loc.set 3 (.pv x)) 1 = some .table := by rw [Locals.set_other _ _ _ _ (by decide)]; exact hT
  simp only [eval, h1, Locals.set_same, andThen_ok]
  exact store_pv _

theorem subscr_head (k : String) (x : PVal) (r : Dict) : subscr (.dict ((k, x) :: r)) k = .ok x := by
  simp [subscr, List.lookup]

theorem exec_assign (cx : Ctx) (loc : Locals) (v : Nat) (e : Expr) :
    exec cx (assign v e) loc = eval cx loc e >>=? fun x => .ok (.normal (loc.set v x)) := rfl

theorem exec_ret (cx : Ctx) (loc : Locals) (e : Expr) :
    exec cx (ret e) loc = eval cx loc e >>=? Val.store >>=? fun p => .ok (.ret p) := rfl

/-- `{'k1': decomposed['a'], 'k2': decomposed['b']}` -/
theorem eval_display2 (cx : Ctx) (loc : Locals) {dm : PVal} (hf : SegFrame loc dm) (k1 k2 a b : String)
    (hne : (k1 == k2) = false) :
    eval cx loc (dictAdd (dictAdd dictEmpty k1 (key (var 0) a)) k2 (key (var 0) b)) =
      (subscr dm a >>=? fun x => subscr dm b >>=? fun y => .ok (.pv (.dict [(k1, x), (k2, y)]))) := by
  rw [eval, eval, eval_segKey cx loc hf, eval_segKey cx loc hf]
  cases h1 : subscr dm a with
  | error e => simp [eval]
  | ok x =>
    cases h2 : subscr dm b with
    | error e => simp [eval, Val.store]
    | ok y => simp [eval, Val.store, dset, hne]

/-- the body of `parse_decomposed` in a frame with `decomposed` and `log_strings`, given that the method it calls is
    `parseSegment` -/
theorem exec_decomposedBody (cx : Ctx) (loc : Locals) {dm : PVal} (hf : SegFrame loc dm)
    (hcall : ∀ seg, cx.call "parse_decomposed_segment" [.pv seg, .table] = parseSegment cx.S seg) :
    exec cx Expected.decomposedBody loc =
      match OsLog.parseDecomposed cx.S dm with
      | .error e => .error e
      | .ok r => .ok (.ret r) := by
  unfold OsLog.parseDecomposed
  rw [Expected.decomposedBody, exec_seq, exec_assign, eval_display2 cx loc hf _ _ _ _ (by decide)]
  cases h1 : subscr dm "pc" with
  | error e => rfl
  | ok pc =>
    cases h2 : subscr dm "s" with
    | error e => rfl
    | ok st =>
      simp only [andThen_ok]
      have hf2 := hf.set 2 (.pv (.dict [("placeholder_count", pc), ("state", st)])) (by omega)
      have hv2 : eval cx (loc.set 2 (.pv (.dict [("placeholder_count", pc), ("state", st)]))) (var 2) =
          .ok (.pv (.dict [("placeholder_count", pc), ("state", st)])) := by simp [eval, Locals.set_same]
      have hcond : eval cx (loc.set 2 (.pv (.dict [("placeholder_count", pc), ("state", st)])))
          (Expr.not (key (var 2) "placeholder_count")) = .ok (.pv (.bool (!truthy pc))) := by
        rw [eval, eval, hv2]; simp [asP, subscr_head]
      rw [exec_seq, exec_ite, hcond, exec_skip, exec_ret, hv2]
      cases ht : truthy pc with
      | false => simp [asP, Val.store]
      | true =>
        simp only [andThen_ok, asP, truthy_bool, Bool.not_true, Bool.false_eq_true, if_false]
        rw [exec_seq, exec_setKey, eval_listComp, eval_segKey cx _ hf2, comp_call cx _ hf2.h1]
        have hc : (fun x => cx.call "parse_decomposed_segment" [.pv x, .table]) = parseSegment cx.S :=
          funext hcall
        rw [hc]
        cases h3 : subscr dm "seg" with
        | error e => rfl
        | ok sg =>
          simp only [andThen_ok, asP]
          cases h4 : iter sg with
          | error e => rfl
          | ok segs =>
            simp only [andThen_ok]
            cases h5 : mapE (parseSegment cx.S) segs with
            | error e => rfl
            | ok outs =>
              simp only [andThen_ok, Val.store, Locals.set_same]
              rw [exec_ret]
              simp [eval, Locals.set_same, Val.store, dset]

/-- **`parse_decomposed`, interpreted, is `parseDecomposed`** — given that the method it calls is `parseSegment` -/
theorem runBody_decomposed (call : String → List Val → Except PyErr PVal) (P : Program)
    (hcall : ∀ seg, call "parse_decomposed_segment" [.pv seg, .table] = parseSegment S seg) (dm : PVal) :
    runBody ⟨T, S, P, call⟩ Expected.parseDecomposed [.pv dm, .table] = OsLog.parseDecomposed S dm := by
  have hf : SegFrame (Locals.ofArgs [.pv dm, .table]) dm := ⟨rfl, rfl⟩
  have := exec_decomposedBody ⟨T, S, P, call⟩ _ hf hcall
  simp only [runBody, Expected.parseDecomposed, List.length_cons, List.length_nil, this]
  cases OsLog.parseDecomposed S dm <;> rfl

theorem findFun_segment : findFun Expected.prog "parse_decomposed_segment" = some Expected.parseDecomposedSegment := by
  decide
theorem findFun_decomposed : findFun Expected.prog "parse_decomposed" = some Expected.parseDecomposed := by decide
theorem findFun_traceId : findFun Expected.prog "parse_trace_identifier" = some Expected.parseTraceIdentifier := by
  decide

/-- a call of `parse_decomposed_segment` at any nesting level that is left -/
theorem callLevel_segment (d : Nat) (seg : PVal) :
    callLevel T S Expected.prog (d + 1) "parse_decomposed_segment" [.pv seg, .table] = parseSegment S seg := by
  rw [callLevel, findFun_segment]
  exact runBody_segment T S _ _ seg

/-- the two methods through `run` on the expected program (three methods, so nesting up to three) -/
theorem run_segment (seg : PVal) :
    run T S Expected.prog "parse_decomposed_segment" [.pv seg, .table] = parseSegment S seg :=
  callLevel_segment T S 2 seg

theorem run_decomposed (dm : PVal) :
    run T S Expected.prog "parse_decomposed" [.pv dm, .table] = OsLog.parseDecomposed S dm := by
  show callLevel T S Expected.prog 3 _ _ = _
  rw [callLevel, findFun_decomposed]
  exact runBody_decomposed T S _ _ (fun seg => callLevel_segment T S 1 seg) dm

end methods

end KdVerif.PyIROl

/-! ### `parse_trace_identifier` -/

namespace KdVerif.PyIROl
open KdVerif.OsLog

/-- the leaves `parse_trace_identifier` reads from the parsed container -/
def idIntLeaves : List String := ["namespace", "type_", "trace_flags.pc_style", "flags", "code"]
def idFlagLeaves : List String :=
  ["trace_flags.has_large_offset", "trace_flags.has_unique_pid", "trace_flags.has_current_aid"]

/-- **What the refinement proof of `parse_trace_identifier` needs from the REFLECTED tables** (decidable; `C16` proves it
    of the generated tables by `decide`): the three enum classes the source names are the ones reflected under
    `nsEnum` / `pcEnum` / `signpostType`; the namespace class is a plain `Enum` that has a member `signpost` whose value is
    the reflected `signpost`; the signpost type class is a flag class; the reflected layout of `firehose_tracepoint_id`
    yields the leaves the method reads, `Flag`s exactly for the three booleans, and `trace_flags` is a nested struct (not
    a leaf). -/
def Coherent (T : IdTables) : Prop :=
  T.nsEnum.cls.name = "FirehoseTracepointNamespace" ∧ T.nsEnum.kind = .plain ∧
  T.pcEnum.cls.name = "FirehoseTracepointFlagsPcStyle" ∧
  T.signpostType.cls.name = "FirehoseTracepointSignpostType" ∧ T.signpostType.kind ≠ .plain ∧
  (T.nsEnum.cls.members.find? (·.name == "signpost")).isSome = true ∧
  T.signpost = (T.nsEnum.cls.members.find? (·.name == "signpost")).map (·.value) ∧
  (∀ n ∈ idIntLeaves ++ idFlagLeaves, n ∈ layoutKeys T.layout) ∧
  "trace_flags" ∉ layoutKeys T.layout ∧ (layoutGroups T.layout).contains "trace_flags" = true ∧
  (∀ n ∈ idFlagLeaves, (layoutFlags T.layout).contains n = true) ∧
  (∀ n ∈ idIntLeaves, (layoutFlags T.layout).contains n = false)

instance (T : IdTables) : Decidable (Coherent T) := by unfold Coherent; infer_instance

/-! #### the parse yields the layout's leaves -/

theorem parseBits_keys : ∀ (bfs : List BitField) (bs : List Nat) (r : List (String × Nat)),
    parseBits bfs bs = .ok r → r.map (·.1) = bitKeys bfs
  | [], bs, r, h => by simp [parseBits] at h; subst h; rfl
  | .pad n :: fs, bs, r, h => by
    unfold parseBits at h
    split at h
    · cases h
    · exact parseBits_keys fs _ r h
  | .flag nm :: fs, bs, r, h => by
    unfold parseBits at h
    cases bs with
    | nil => cases h
    | cons b rest =>
      simp only [] at h
      cases hr : parseBits fs rest with
      | error e => simp [hr] at h
      | ok r' => simp [hr] at h; subst h; simp [bitKeys, parseBits_keys fs rest r' hr]
  | .uint nm n :: fs, bs, r, h => by
    unfold parseBits at h
    split at h
    · cases h
    · cases hr : parseBits fs (bs.drop n) with
      | error e => simp [hr] at h
      | ok r' => simp [hr] at h; subst h; simp [bitKeys, parseBits_keys fs _ r' hr]
  | .unsupported _ :: _, bs, r, h => by simp [parseBits] at h

theorem parseLayout_keys : ∀ (L : List LField) (bs : Bytes) (r : List (String × Nat)),
    parseLayout L bs = .ok r → r.map (·.1) = layoutKeys L
  | [], bs, r, h => by simp [parseLayout] at h; subst h; rfl
  | .uint nm sz le :: fs, bs, r, h => by
    unfold parseLayout at h
    split at h
    · cases h
    · simp only [] at h
      cases hr : parseLayout fs (bs.drop sz) with
      | error e => simp [hr] at h
      | ok r' => simp [hr] at h; subst h; simp [layoutKeys, parseLayout_keys fs _ r' hr]
  | .bits _ bfs :: fs, bs, r, h => by
    unfold parseLayout at h
    simp only [] at h
    split at h
    · cases h
    · cases hb : parseBits bfs ((bs.take (bitWidth bfs / 8)).flatMap (bitsMSB 8)) with
      | error e => simp [hb] at h
      | ok rb =>
        cases hr : parseLayout fs (bs.drop (bitWidth bfs / 8)) with
        | error e => simp [hb, hr] at h
        | ok r' =>
          simp [hb, hr] at h; subst h
          simp [layoutKeys, parseBits_keys bfs _ rb hb, parseLayout_keys fs _ r' hr]
  | .unsupported _ :: _, bs, r, h => by simp [parseLayout] at h

theorem parseWordP_keys {T : IdTables} {v : PVal} {fs : List (String × Nat)} (h : parseWordP T v = .ok fs) :
    fs.map (·.1) = layoutKeys T.layout := by
  unfold parseWordP at h
  cases hn : numOf v with
  | none => simp [hn] at h
  | some n =>
    simp only [hn] at h
    split at h
    · cases h
    · split at h
      · exact parseLayout_keys _ _ _ h
      · cases h

theorem lookup_of_mem_keys {fs : List (String × Nat)} {n : String} (h : n ∈ fs.map (·.1)) :
    ∃ x, fs.lookup n = some x := by
  induction fs with
  | nil => simp at h
  | cons p r ih =>
    obtain ⟨k, y⟩ := p
    by_cases hk : n = k
    · subst hk; exact ⟨y, by simp [List.lookup]⟩
    · have hk' : (n == k) = false := by simpa using hk
      have : n ∈ r.map (·.1) := by simpa [hk] using h
      obtain ⟨x, hx⟩ := ih this
      exact ⟨x, by simp [List.lookup, hk', hx]⟩

theorem lookup_none_of_not_mem_keys {fs : List (String × Nat)} {n : String} (h : n ∉ fs.map (·.1)) :
    fs.lookup n = Option.none := by
  induction fs with
  | nil => rfl
  | cons p r ih =>
    obtain ⟨k, y⟩ := p
    have hk : n ≠ k := fun e => h (by simp [e])
    have hk' : (n == k) = false := by simpa using hk
    have : n ∉ r.map (·.1) := fun e => h (by simp [e])
    simp [List.lookup, hk', ih this]

/-- `parse_trace_identifier` of the model, with the parse step named -/
theorem parseTraceIdentifier_eq (T : IdTables) (v : PVal) :
    parseTraceIdentifier T v = (parseWordP T v >>=? decodeFields T >>=? fun t => .ok t.toPVal) := by
  unfold parseTraceIdentifier parseWordP decodeId
  cases hn : numOf v with
  | none => rfl
  | some n =>
    simp only []
    by_cases h0 : n < 0
    · simp [h0]
    · by_cases h1 : n.toNat < 256 ^ T.wordSize <;> simp [h0, h1]

/-! #### the pieces of the body -/

section traceid
variable (cx : Ctx) (loc : Locals)

theorem ofValue_value {e : EnumDef} {x : Int} {m : EnumMember} (h : e.ofValue x = some m) : m.value = x := by
  have := List.find?_some h
  simpa using this

theorem enumCall_plain {r : EnumRef} (hk : r.kind = .plain) (x : Nat) :
    enumCall r x = match r.cls.ofValue x with
      | some m => .ok (.member r.cls.name m.name m.value)
      | Option.none => .error .valueError := by
  unfold enumCall; rw [hk]; rfl

theorem enumCall_flagKind {r : EnumRef} (hk : r.kind ≠ .plain) {x : Nat} {e : EnumVal} (h : enumCall r x = .ok e) :
    e = .flags r.cls.name x := by
  unfold enumCall at h
  cases hkind : r.kind with
  | plain => exact absurd hkind hk
  | keepFlag => simp [hkind] at h; exact h.symm
  | strictFlag =>
    simp only [hkind] at h
    split at h
    · simp at h; exact h.symm
    · cases h

theorem callEnum_nat (r : EnumRef) (n : Nat) : callEnum r (.int (n : Int)) = (enumCall r n >>=? fun e => .ok (.ev e)) := by
  simp [callEnum]

section coherent
variable {T : IdTables} (hc : Coherent T)
include hc

theorem classOf_ns : classOf T "FirehoseTracepointNamespace" = some T.nsEnum := by
  obtain ⟨h1, _⟩ := hc
  simp [classOf, List.find?, h1]

theorem classOf_pc : classOf T "FirehoseTracepointFlagsPcStyle" = some T.pcEnum := by
  obtain ⟨h1, _, h3, _⟩ := hc
  simp [classOf, List.find?, h1, h3]

theorem classOf_sp : classOf T "FirehoseTracepointSignpostType" = some T.signpostType := by
  obtain ⟨h1, _, h3, h4, _⟩ := hc
  simp [classOf, List.find?, h1, h3, h4]

end coherent

/-- the frame of `parse_trace_identifier` after its first statement: v1 = the parsed container -/
structure IdFrame (T : IdTables) (loc : Locals) (fs : List (String × Nat)) : Prop where
  h1 : loc 1 = some (.con "" fs)
  grp : fs.lookup "trace_flags" = Option.none
  grpL : (layoutGroups T.layout).contains "trace_flags" = true

theorem IdFrame.set {T : IdTables} {loc : Locals} {fs : List (String × Nat)} (h : IdFrame T loc fs) (v : Nat) (x : Val)
    (hv : 2 ≤ v) : IdFrame T (loc.set v x) fs :=
  ⟨by rw [Locals.set_other _ _ _ _ (by omega)]; exact h.h1, h.grp, h.grpL⟩

theorem eval_leaf_int {fs : List (String × Nat)} (hf : IdFrame cx.T loc fs) {name : String} {n : Nat}
    (hl : fs.lookup name = some n) (hi : (layoutFlags cx.T.layout).contains name = false) :
    eval cx loc (.attr (.var 1) name) = .ok (.pv (.int n)) := by
  have hi' : name ∉ layoutFlags cx.T.layout := by simpa using hi
  simp [eval, hf.h1, conAttr, hl, hi']

theorem eval_sub_int {fs : List (String × Nat)} (hf : IdFrame cx.T loc fs) (name : String) {full : String} {n : Nat}
    (hfull : "trace_flags." ++ name = full) (hl : fs.lookup full = some n)
    (hi : (layoutFlags cx.T.layout).contains full = false) :
    eval cx loc (Expected.idFlag name) = .ok (.pv (.int n)) := by
  subst hfull
  have hi' : "trace_flags." ++ name ∉ layoutFlags cx.T.layout := by simpa using hi
  have hg : "trace_flags" ∈ layoutGroups cx.T.layout := by simpa using hf.grpL
  simp [Expected.idFlag, eval, hf.h1, conAttr, hf.grp, hg, hl, hi']

theorem eval_sub_flag {fs : List (String × Nat)} (hf : IdFrame cx.T loc fs) (name : String) {full : String} {n : Nat}
    (hfull : "trace_flags." ++ name = full) (hl : fs.lookup full = some n)
    (hi : (layoutFlags cx.T.layout).contains full = true) :
    eval cx loc (Expected.idFlag name) = .ok (.pv (.bool (n != 0))) := by
  subst hfull
  have hi' : "trace_flags." ++ name ∈ layoutFlags cx.T.layout := by simpa using hi
  have hg : "trace_flags" ∈ layoutGroups cx.T.layout := by simpa using hf.grpL
  simp [Expected.idFlag, eval, hf.h1, conAttr, hf.grp, hg, hl, hi']

/-- the model's `type_` (the middle of `decodeFields`), for namespace value `a` and type byte `t` -/
def modelType (T : IdTables) (a t : Nat) : Except PyErr EnumVal :=
  match T.types.lookup (a : Int) with
  | some r => OsLog.enumCall r t
  | Option.none =>
    if T.signpost = some (a : Int) then
      OsLog.enumCall T.signpostType (t &&& 0xc0) >>=? fun _ =>
      OsLog.enumCall T.signpostType (t &&& 0x3f) >>=? fun _ =>
      .ok (.flags T.signpostType.cls.name ((t &&& 0xc0) ||| (t &&& 0x3f)))
    else .ok (.raw t)

theorem exec_typeBlock (hc : Coherent cx.T) {fs : List (String × Nat)} (hf : IdFrame cx.T loc fs) {a t : Nat}
    (ht : fs.lookup "type_" = some t) (hti : (layoutFlags cx.T.layout).contains "type_" = false) {m : EnumMember}
    (hm : cx.T.nsEnum.cls.ofValue a = some m)
    (h2 : loc 2 = some (.ev (.member cx.T.nsEnum.cls.name m.name m.value))) :
    match modelType cx.T a t with
    | .error e => exec cx Expected.typeBlock loc = .error e
    | .ok ty => ∃ tv, exec cx Expected.typeBlock loc = .ok (.normal (loc.set 3 tv)) ∧ tv.store = .ok ty.toPVal := by
  have hmv : m.value = (a : Int) := ofValue_value hm
  have hty : eval cx loc Expected.idType = .ok (.pv (.int t)) := eval_leaf_int cx loc hf ht hti
  have hin : eval cx loc (.inTable (.var 2) "tracepoint_types") =
      .ok (.pv (.bool (cx.T.types.lookup (a : Int)).isSome)) := by
    simp [eval, tableOf, h2, tableLookup, hmv]
  unfold modelType
  rw [Expected.typeBlock, exec_ite, hin]
  cases hl : cx.T.types.lookup (a : Int) with
  | some r =>
    have hcall : eval cx loc (.tableCall "tracepoint_types" (.var 2) Expected.idType) =
        (OsLog.enumCall r t >>=? fun e => .ok (.ev e)) := by
      simp [eval, tableOf, h2, tableLookup, hmv, hl, hty, asP, callEnum_nat]
    simp only [andThen_ok, asP, truthy_bool, Option.isSome_some, if_true]
    rw [exec_assign, hcall]
    cases he : OsLog.enumCall r t with
    | error e => rfl
    | ok ty => exact ⟨.ev ty, rfl, rfl⟩
  | none =>
    have hcls := classOf_sp hc
    obtain ⟨h1, _, _, _, hk, hsp, hsv, _⟩ := hc
    obtain ⟨ms, hms⟩ := Option.isSome_iff_exists.mp hsp
    have hmem : eval cx loc (.isMember (.var 2) "FirehoseTracepointNamespace" "signpost") =
        .ok (.pv (.bool (m.value == ms.value))) := by
      simp [eval, h2, classOf, List.find?, h1, hms]
    simp only [andThen_ok, asP, truthy_bool, Option.isSome_none, Bool.false_eq_true, if_false]
    rw [exec_ite, hmem, hsv, hms, hmv]
    by_cases hv : ms.value = (a : Int)
    · have hb : ((a : Int) == ms.value) = true := by simp [hv]
      simp only [andThen_ok, asP, truthy_bool, hb, if_true, Option.map_some, hv]
      have hband : ∀ msk : Nat, eval cx loc (.enumCall "FirehoseTracepointSignpostType" (.band Expected.idType msk)) =
          (OsLog.enumCall cx.T.signpostType (t &&& msk) >>=? fun e => .ok (.ev e)) := fun msk => by
        simp [eval, hcls, hty, asP, callEnum_nat]
      rw [exec_assign, eval, hband, hband]
      cases e1 : OsLog.enumCall cx.T.signpostType (t &&& 0xc0) with
      | error e => simp
      | ok v1 =>
        have := enumCall_flagKind hk e1; subst this
        cases e2 : OsLog.enumCall cx.T.signpostType (t &&& 0x3f) with
        | error e => simp
        | ok v2 =>
          have := enumCall_flagKind hk e2; subst this
          simp only [andThen_ok, beq_self_eq_true, if_true]
          exact ⟨_, rfl, rfl⟩
    · have hb : ((a : Int) == ms.value) = false := by simpa using fun h => hv h.symm
      have hne : ¬ (some ms.value = some (a : Int)) := by simpa using hv
      simp only [andThen_ok, asP, truthy_bool, hb, Bool.false_eq_true, if_false, Option.map_some, hne]
      rw [exec_assign, hty]
      exact ⟨_, rfl, rfl⟩


/-- the model's `flags` (the end of `decodeFields`) -/
def modelFlags (T : IdTables) (a fl : Nat) : Except PyErr EnumVal :=
  match T.flags.lookup (a : Int) with
  | some r => OsLog.enumCall r fl
  | Option.none => .ok EnumVal.none

/-- `decodeFields` on a container whose leaves are known -/
theorem decodeFields_eq (T : IdTables) {fs : List (String × Nat)} {a t lo up pcv aid fl code : Nat}
    (h1 : fs.lookup "namespace" = some a) (h2 : fs.lookup "type_" = some t)
    (h3 : fs.lookup "trace_flags.has_large_offset" = some lo) (h4 : fs.lookup "trace_flags.has_unique_pid" = some up)
    (h5 : fs.lookup "trace_flags.pc_style" = some pcv) (h6 : fs.lookup "trace_flags.has_current_aid" = some aid)
    (h7 : fs.lookup "flags" = some fl) (h8 : fs.lookup "code" = some code) :
    decodeFields T fs =
      (OsLog.enumCall T.nsEnum a >>=? fun ns => modelType T a t >>=? fun ty =>
       OsLog.enumCall T.pcEnum pcv >>=? fun pc => modelFlags T a fl >>=? fun f =>
       .ok { ns := ns, type_ := ty, hasLargeOffset := lo != 0, hasUniquePid := up != 0, pcStyle := pc,
             hasCurrentAid := aid != 0, flags := f, code := code }) := by
  unfold decodeFields modelType modelFlags
  simp only [OsLog.attr, h1, h2, h3, h4, h5, h6, h7, h8, andThen_ok]
  cases OsLog.enumCall T.nsEnum a with
  | error e => rfl
  | ok ns =>
    simp only [andThen_ok]
    cases T.types.lookup (a : Int) with
    | some r => cases T.flags.lookup (a : Int) <;> rfl
    | none =>
      by_cases hs : T.signpost = some (a : Int)
      · cases T.flags.lookup (a : Int) <;> simp only [hs, if_true] <;> rfl
      · cases T.flags.lookup (a : Int) <;> simp only [hs, if_false] <;> rfl

theorem eval_tableCall (tbl : String) (k x : Expr) : eval cx loc (.tableCall tbl k x) =
    match tableOf cx.T tbl with
    | Option.none => .error .unmodelled
    | some entries =>
      eval cx loc k >>=? fun kv => tableLookup cx.T entries kv >>=? fun r =>
      match r with
      | Option.none => .error .keyError
      | some r => eval cx loc x >>=? asP >>=? callEnum r := rfl

theorem eval_ifExp (c a b : Expr) : eval cx loc (.ifExp c a b) =
    eval cx loc c >>=? asP >>=? fun p => if truthy p then eval cx loc a else eval cx loc b := rfl

theorem eval_dictAdd (d : Expr) (k : String) (v : Expr) : eval cx loc (.dictAdd d k v) =
    eval cx loc d >>=? fun dv =>
    match dv with
    | .pv (.dict kv) => eval cx loc v >>=? fun x => x.store >>=? fun p => .ok (.pv (.dict (dset kv k p)))
    | _ => .error .unmodelled := rfl

theorem eval_enumCall (cls : String) (e : Expr) : eval cx loc (.enumCall cls e) =
    match classOf cx.T cls with
    | Option.none => .error .unmodelled
    | some r => eval cx loc e >>=? asP >>=? callEnum r := rfl

theorem tableOf_types (T : IdTables) : tableOf T "tracepoint_types" = some T.types := rfl
theorem tableOf_flags (T : IdTables) : tableOf T "tracepoint_flags" = some T.flags := rfl

/-- the eight keywords of `TraceIdentifier(…)` are pairwise distinct: the display is the list -/
theorem dset_kw (x1 x2 x3 x4 x5 x6 x7 x8 : PVal) :
    dset (dset (dset (dset (dset (dset (dset (dset [] "namespace" x1) "type_" x2) "has_large_offset" x3)
      "has_unique_pid" x4) "pc_style" x5) "has_current_aid" x6) "flags" x7) "code" x8 =
    [("namespace", x1), ("type_", x2), ("has_large_offset", x3), ("has_unique_pid", x4), ("pc_style", x5),
     ("has_current_aid", x6), ("flags", x7), ("code", x8)] := by rfl

/-- … and they are the fields of the dataclass, in order -/
theorem construct_kw (x1 x2 x3 x4 x5 x6 x7 x8 : PVal) :
    OsLog.construct (Expected.clsTraceIdentifier.fields.map fun f => ⟨f, Option.none⟩)
      [("namespace", x1), ("type_", x2), ("has_large_offset", x3), ("has_unique_pid", x4), ("pc_style", x5),
       ("has_current_aid", x6), ("flags", x7), ("code", x8)] =
    .ok [("namespace", x1), ("type_", x2), ("has_large_offset", x3), ("has_unique_pid", x4), ("pc_style", x5),
       ("has_current_aid", x6), ("flags", x7), ("code", x8)] := by rfl

/-- what `flags=… if … else None` evaluates to, for the model's flags value -/
def flagVal : EnumVal → Val
  | .none => .pv PVal.none
  | e => .ev e

theorem flagVal_store (f : EnumVal) : (flagVal f).store = .ok f.toPVal := by cases f <;> rfl

theorem flagVal_of_enumCall {r : EnumRef} {x : Nat} {f : EnumVal} (h : OsLog.enumCall r x = .ok f) :
    flagVal f = .ev f := by
  cases f with
  | none =>
    unfold OsLog.enumCall at h
    cases hk : r.kind with
    | plain => simp only [hk] at h; split at h <;> simp at h
    | keepFlag => simp [hk] at h
    | strictFlag => simp only [hk] at h; split at h <;> simp at h
  | _ => rfl

/-- the keyword arguments of `TraceIdentifier(…)` -/
theorem eval_idKeywords (hc : Coherent cx.T) {fs : List (String × Nat)} (hf : IdFrame cx.T loc fs)
    {a lo up pcv aid fl code : Nat} {m : EnumMember} {tv : Val} {ty : PVal}
    (hm : cx.T.nsEnum.cls.ofValue a = some m)
    (h2 : loc 2 = some (.ev (.member cx.T.nsEnum.cls.name m.name m.value)))
    (h3 : loc 3 = some tv) (hs : tv.store = .ok ty)
    (l3 : fs.lookup "trace_flags.has_large_offset" = some lo) (l4 : fs.lookup "trace_flags.has_unique_pid" = some up)
    (l5 : fs.lookup "trace_flags.pc_style" = some pcv) (l6 : fs.lookup "trace_flags.has_current_aid" = some aid)
    (l7 : fs.lookup "flags" = some fl) (l8 : fs.lookup "code" = some code) :
    eval cx loc Expected.idKeywords =
      (OsLog.enumCall cx.T.pcEnum pcv >>=? fun pc => modelFlags cx.T a fl >>=? fun f =>
        .ok (.pv (.dict [("namespace", .enum cx.T.nsEnum.cls.name m.name), ("type_", ty),
          ("has_large_offset", .bool (lo != 0)), ("has_unique_pid", .bool (up != 0)), ("pc_style", pc.toPVal),
          ("has_current_aid", .bool (aid != 0)), ("flags", f.toPVal), ("code", .int code)]))) := by
  have hmv : m.value = (a : Int) := ofValue_value hm
  have hpc := classOf_pc hc
  obtain ⟨_, _, _, _, _, _, _, _, _, _, hfl, hil⟩ := hc
  have e3 := eval_sub_flag cx loc hf "has_large_offset" (by decide) l3 (hfl _ (by decide))
  have e4 := eval_sub_flag cx loc hf "has_unique_pid" (by decide) l4 (hfl _ (by decide))
  have e5 := eval_sub_int cx loc hf "pc_style" (by decide) l5 (hil _ (by decide))
  have e6 := eval_sub_flag cx loc hf "has_current_aid" (by decide) l6 (hfl _ (by decide))
  have e7 := eval_leaf_int cx loc hf l7 (hil _ (by decide))
  have e8 := eval_leaf_int cx loc hf l8 (hil _ (by decide))
  have hv2 : eval cx loc (.var 2) = .ok (.ev (.member cx.T.nsEnum.cls.name m.name m.value)) := by simp [eval, h2]
  have hv3 : eval cx loc (.var 3) = .ok tv := by simp [eval, h3]
  have hin : eval cx loc (.inTable (.var 2) "tracepoint_flags") =
      .ok (.pv (.bool (cx.T.flags.lookup (a : Int)).isSome)) := by
    simp [eval, tableOf, h2, tableLookup, hmv]
  have hflags : eval cx loc (.ifExp (.inTable (.var 2) "tracepoint_flags")
      (.tableCall "tracepoint_flags" (.var 2) (.attr (.var 1) "flags")) .none) =
      (modelFlags cx.T a fl >>=? fun f => .ok (flagVal f)) := by
    rw [eval_ifExp, hin]
    unfold modelFlags
    cases hl : cx.T.flags.lookup (a : Int) with
    | none => simp [asP, eval, flagVal]
    | some r =>
      simp only [andThen_ok, asP, truthy_bool, Option.isSome_some, if_true]
      rw [eval_tableCall, hv2, e7, tableOf_flags]
      simp only [andThen_ok, tableLookup, beq_self_eq_true, hmv, hl, if_true, asP, callEnum_nat]
      cases he : OsLog.enumCall r fl with
      | error e => rfl
      | ok f => simp only [andThen_ok, flagVal_of_enumCall he]
  have hd0 : eval cx loc .dictEmpty = .ok (.pv (.dict [])) := rfl
  unfold Expected.idKeywords
  have sp : ∀ v : PVal, (Val.pv v).store = .ok v := fun _ => rfl
  have se : ∀ e : EnumVal, (Val.ev e).store = .ok e.toPVal := fun _ => rfl
  simp only [eval_dictAdd, hd0, hv2, hv3, hs, e3, e4, e5, e6, e8, hflags, eval_enumCall, hpc, asP, callEnum_nat,
    sp, se, andThen_ok]
  cases OsLog.enumCall cx.T.pcEnum pcv with
  | error e => rfl
  | ok pc =>
    simp only [andThen_ok, se]
    cases hmf : modelFlags cx.T a fl with
    | error e => rfl
    | ok f => simp only [andThen_ok, flagVal_store, dset_kw]; rfl


theorem exec_retConstruct {kvs : Dict} {cd : ClassDef} (cls : String) (kw : Expr)
    (hP : findClass cx.P cls = some cd) (hk : eval cx loc kw = .ok (.pv (.dict kvs))) :
    exec cx (.ret (.construct cls kw)) loc =
      (OsLog.construct (cd.fields.map fun f => ⟨f, Option.none⟩) kvs >>=? fun fs => .ok (.ret (.obj cls fs))) := by
  rw [exec_ret, eval, hP]
  simp only [hk, andThen_ok]
  cases OsLog.construct (cd.fields.map fun f => ⟨f, Option.none⟩) kvs <;> rfl

/-- the body of `parse_trace_identifier` in a frame with its argument, on coherent tables and a program that holds the
    expected dataclass -/
theorem exec_traceIdBody (hc : Coherent cx.T)
    (hP : findClass cx.P "TraceIdentifier" = some Expected.clsTraceIdentifier) {v : PVal}
    (h0 : loc 0 = some (.pv v)) :
    exec cx Expected.traceIdBody loc =
      match parseTraceIdentifier cx.T v with
      | .error e => .error e
      | .ok r => .ok (.ret r) := by
  rw [parseTraceIdentifier_eq, Expected.traceIdBody, exec_seq, exec_assign]
  have hpw : eval cx loc (.parseWord "firehose_tracepoint_id" "Int64ul" (.var 0)) =
      (parseWordP cx.T v >>=? fun fs => .ok (.con "" fs)) := by
    simp [eval, h0, asP]
  rw [hpw]
  cases hw : parseWordP cx.T v with
  | error e => rfl
  | ok fs =>
    simp only [andThen_ok]
    have hkeys := parseWordP_keys hw
    have hc' := hc
    obtain ⟨_, hplain, _, _, _, _, _, hleaves, hgrp, hgrpL, _, hil⟩ := hc'
    have lk : ∀ n, n ∈ idIntLeaves ++ idFlagLeaves → ∃ x, fs.lookup n = some x := fun n hn =>
      lookup_of_mem_keys (by rw [hkeys]; exact hleaves n hn)
    obtain ⟨a, l1⟩ := lk "namespace" (by decide)
    obtain ⟨t, l2⟩ := lk "type_" (by decide)
    obtain ⟨lo, l3⟩ := lk "trace_flags.has_large_offset" (by decide)
    obtain ⟨up, l4⟩ := lk "trace_flags.has_unique_pid" (by decide)
    obtain ⟨pcv, l5⟩ := lk "trace_flags.pc_style" (by decide)
    obtain ⟨aid, l6⟩ := lk "trace_flags.has_current_aid" (by decide)
    obtain ⟨fl, l7⟩ := lk "flags" (by decide)
    obtain ⟨code, l8⟩ := lk "code" (by decide)
    have hf1 : IdFrame cx.T (loc.set 1 (.con "" fs)) fs :=
      ⟨Locals.set_same _ _ _, lookup_none_of_not_mem_keys (by rw [hkeys]; exact hgrp), hgrpL⟩
    rw [decodeFields_eq cx.T l1 l2 l3 l4 l5 l6 l7 l8, exec_seq, exec_assign, eval_enumCall, classOf_ns hc,
      eval_leaf_int cx _ hf1 l1 (hil _ (by decide))]
    simp only [andThen_ok, asP, callEnum_nat]
    rw [enumCall_plain hplain]
    cases hm : cx.T.nsEnum.cls.ofValue (a : Int) with
    | none => rfl
    | some m =>
      simp only [andThen_ok]
      have hf2 := hf1.set 2 (.ev (.member cx.T.nsEnum.cls.name m.name m.value)) (by omega)
      have tb := exec_typeBlock cx _ hc hf2 l2 (hil _ (by decide)) hm (Locals.set_same _ _ _)
      rw [exec_seq]
      cases hty : modelType cx.T a t with
      | error e => rw [hty] at tb; simp only [] at tb; rw [tb]; rfl
      | ok ty =>
        rw [hty] at tb
        obtain ⟨tv, hx, hst⟩ := tb
        rw [hx]
        simp only [andThen_ok]
        have hf3 := hf2.set 3 tv (by omega)
        have hk := eval_idKeywords cx _ hc hf3 hm
          (by rw [Locals.set_other _ _ _ _ (by decide)]; exact Locals.set_same _ _ _) (Locals.set_same _ _ _) hst
          l3 l4 l5 l6 l7 l8
        cases hpc : OsLog.enumCall cx.T.pcEnum pcv with
        | error e =>
          rw [hpc] at hk
          simp only [andThen_error] at hk
          rw [exec_ret, eval, hP]; simp only [hk, andThen_error]
        | ok pc =>
          cases hmf : modelFlags cx.T a fl with
          | error e =>
            rw [hpc, hmf] at hk
            simp only [andThen_ok, andThen_error] at hk
            rw [exec_ret, eval, hP]; simp only [hk, andThen_error, andThen_ok]
          | ok f =>
            rw [hpc, hmf] at hk
            simp only [andThen_ok] at hk
            rw [exec_retConstruct cx _ "TraceIdentifier" _ hP hk, construct_kw]
            rfl

end traceid

section methods
variable (S : Strings)

theorem findClass_traceIdentifier : findClass Expected.prog "TraceIdentifier" = some Expected.clsTraceIdentifier := by
  decide

/-- **`parse_trace_identifier`, interpreted, is `parseTraceIdentifier`** — on coherent reflected tables, whatever the
    string table and the calls of other methods (it makes none) -/
theorem run_traceId {T : IdTables} (hc : Coherent T) (v : PVal) :
    run T S Expected.prog "parse_trace_identifier" [.pv v] = parseTraceIdentifier T v := by
  show callLevel T S Expected.prog 3 _ _ = _
  rw [callLevel, findFun_traceId]
  have := exec_traceIdBody ⟨T, S, Expected.prog, callLevel T S Expected.prog 2⟩ (Locals.ofArgs [.pv v]) hc
    findClass_traceIdentifier (v := v) rfl
  simp only [runBody, Expected.parseTraceIdentifier, List.length_cons, List.length_nil, this]
  cases parseTraceIdentifier T v <;> rfl

end methods

end KdVerif.PyIROl
