import Driver.Util
import Driver.Cmd.Filters
import Driver.Cmd.Trace
import Driver.Cmd.TracePipeline
import KdVerif.Model.PyIRFl
import KdVerif.Gen.PyIRFl
import KdVerif.Spec.PyIRFlExpected
import KdVerif.Model.TracePipeline
open KdVerif KdVerif.Filters
namespace Driver.PyIRFl
open KdVerif.PyIRFl

/-- the GENERATED program cannot be run: a node outside the IR, or a note of the translator -/
def unsupported : Bool := Gen.PyIRFl.prog.hasUnsupported || !Gen.PyIRFl.notes.isEmpty

def showItem : Item → String
  | .event e => Driver.Filters.showEvent e
  | .log l => Driver.Filters.showLog l

/-- `flir <tid|N> <filter_class argument: N | - | csv> <filter_class> <filter_subclass> <process hex|N> <item>…` :
    the line format and the answer of `filter`, computed by the interpreter of `Model/PyIRFl` on the `kevents` /
    `os_log_events` GENERATED from pykdebugparser.py (`Gen/PyIRFl`).  `unsupported` when the translation contains a
    node outside the IR. -/
def cmdFlIR : Cmd
  | tid :: fcArg :: cls :: subs :: proc :: items =>
    if unsupported then "unsupported" else
    match Driver.Filters.optNat tid, Driver.Filters.optNatList fcArg, parseNatList cls, parseNatList subs,
          Driver.Filters.optText proc, items.mapM Driver.Filters.parseItem with
    | some tid, some fcArg, some cls, some subs, some proc, some items =>
      let cfg : Cfg := { filterTid := tid, filterClass := cls, filterSubclass := subs, filterProcess := proc }
      match runKevents Gen.PyIRFl.prog cfg fcArg items, runOsLogEvents Gen.PyIRFl.prog cfg items with
      | .ok evs, .ok lgs => "ok " ++ " ".intercalate (evs.map showItem) ++ " | " ++ " ".intercalate (lgs.map showItem)
      | .error e, _ => "err " ++ e.name
      | _, .error e => "err " ++ e.name
    | _, _, _, _, _, _ => "bad-op"
  | _ => "bad-op"

/-- `flallow <filter_class argument: N | - | csv> <filter_class> <filter_subclass> <event id>` : the GENERATED
    `_is_eventid_allowed`. -/
def cmdAllow : Cmd
  | [fcArg, cls, subs, eid] =>
    if unsupported then "unsupported" else
    match Driver.Filters.optNatList fcArg, parseNatList cls, parseNatList subs, eid.toNat? with
    | some fcArg, some cls, some subs, some eid =>
      match runIsEventidAllowed Gen.PyIRFl.prog { filterClass := cls, filterSubclass := subs } eid fcArg with
      | .ok (.bool b) => if b then "ok 1" else "ok 0"
      | .ok _ => "err Unmodelled"
      | .error e => "err " ++ e.name
    | _, _, _, _ => "bad-op"
  | _ => "bad-op"

/-- `flircheck` : are the generated blocks the expected ones (`C12.source_is_expected_ir`,
    `C13.source_is_expected_ir`)?  `same`, or `differs` followed by the methods that differ. -/
def cmdCheck : Cmd := fun _ =>
  let g := Gen.PyIRFl.prog
  let x := KdVerif.PyIRFl.Expected.prog
  let d : List String :=
    (if g.isEventidAllowed = x.isEventidAllowed then [] else ["_is_eventid_allowed"]) ++
    (if g.kevents = x.kevents then [] else ["kevents"]) ++
    (if g.osLogEvents = x.osLogEvents then [] else ["os_log_events"]) ++
    (if g.traces = x.traces then [] else ["traces"]) ++
    (if g.filterProcessCallback = x.filterProcessCallback then [] else ["_filter_process_callback"]) ++
    (if Gen.PyIRFl.notes.isEmpty then [] else ["notes"])
  if d.isEmpty then "same" else "differs " ++ ",".intercalate d ++ (if unsupported then " unsupported" else "")

/-! ### `traces()` through the generated IR: the requests of `tpipe` -/

open KdVerif.Trace KdVerif.TracePipeline

def irView (p : TraceOut × Tabs) : Kevent × Tables := (firstOf p.1.events, ⟨p.2.threadsPids, p.2.pidsNames⟩)

/-- `TracePipeline.traces` with everything `traces()` itself decides taken from the GENERATED `traces` / `kevents`:
    the class list handed to `kevents`, the events fed to the `TracesParser` model, the post-filter stages, the
    parser's filter attributes afterwards. -/
def tracesIR (env : Trace.Env) (obj : Obj) (d : Dump) : Except PyErr (TracesResult × Obj) :=
  match runTraces irView Gen.PyIRFl.prog obj.cfg true [] with
  | .error e => .error e
  | .ok plan =>
    match runKevents Gen.PyIRFl.prog obj.cfg plan.classArg (d.events.map Item.event) with
    | .error e => .error e
    | .ok fed =>
      let evs := fed.filterMap asEvent
      let r := Trace.run env (startState d) evs
      match runTraces irView Gen.PyIRFl.prog obj.cfg true (runAnnot env (startState d) evs) with
      | .error e => .error e
      | .ok res =>
        .ok ({ traces := res.out, err := r.2.1 },
             { obj with cfg := res.cfgAfter, threadsPids := r.2.2.tabs.threadsPids, pidsNames := r.2.2.tabs.pidsNames })

def keventsIR (obj : Obj) (d : Dump) : Except PyErr (List Kevent × Obj) :=
  match runKevents Gen.PyIRFl.prog obj.cfg none (d.events.map Item.event) with
  | .error e => .error e
  | .ok l =>
    .ok (l.filterMap asEvent,
         { obj with threadsPids := (Declared.mapTabs d.threadMap).threadsPids, pidsNames := (Declared.mapTabs d.threadMap).pidsNames })

/-- `TracePipeline.callstacks` over `tracesIR`. -/
def callstacksIR (env : Trace.Env) (obj : Obj) (d : Dump) : Except PyErr (CallstacksResult × Obj) :=
  let obj1 := { obj with images := Callstacks.Images.empty }
  match tracesIR env obj1 d with
  | .error e => .error e
  | .ok (tr, obj2) =>
    let (cs, err, imgs) := callstackFeed obj1.images (tr.traces.map (·.1))
    .ok ({ callstacks := cs, err := match err with | some e => some e | none => tr.err }, { obj2 with images := imgs })

def doRequest (env : Trace.Env) (obj : Obj) (d : Dump) (c : Char) : Option (Except PyErr (String × Obj)) :=
  open Driver.TracePipeline in
  if c = 't' then
    some ((tracesIR env obj d).map fun (r, obj') =>
      ("T " ++ listOr (r.traces.map fun p => Driver.Trace.showTrace p.1) ++ " !" ++ errName r.err, obj'))
  else if c = 'c' then
    some ((callstacksIR env obj d).map fun (r, obj') =>
      ("C " ++ listOr (r.callstacks.map showCallstack) ++ " !" ++ errName r.err, obj'))
  else if c = 'k' then
    some ((keventsIR obj d).map fun (r, obj') => ("K " ++ listOr (r.map Driver.Filters.showEvent) ++ " !-", obj'))
  else none

def doAll (env : Trace.Env) (d : Dump) : Obj → List Char → Option (Except PyErr (List String × Obj))
  | obj, [] => some (.ok ([], obj))
  | obj, c :: cs =>
    match doRequest env obj d c with
    | none => none
    | some (.error e) => some (.error e)
    | some (.ok (s, obj')) =>
      match doAll env d obj' cs with
      | none => none
      | some (.error e) => some (.error e)
      | some (.ok (ss, objf)) => some (.ok (s :: ss, objf))

/-- `tpipeir …` : the line format and the answer of `tpipe`, with `traces()` / `kevents()` run through the GENERATED IR
    (`tracesIR`); `unsupported` when the translation contains a node outside the IR. -/
def cmdTpipeIR : Cmd
  | codes :: tmap :: tid :: cls :: subs :: proc :: reqs :: recs =>
    if unsupported then "unsupported" else
    open Driver.TracePipeline in
    match Driver.Trace.parseCodes codes, Driver.Trace.parseThreadMap tmap, Driver.Filters.optNat tid, parseNatList cls,
          parseNatList subs, Driver.Filters.optText proc, parseRecs recs with
    | some cs, some tm, some tid, some cls, some subs, some proc, some es =>
      let env := Driver.Trace.mkEnv cs
      let obj : Obj := { cfg := { filterTid := tid, filterClass := cls, filterSubclass := subs, filterProcess := proc } }
      match doAll env { threadMap := tm, events := es } obj reqs.toList with
      | some (.ok (outs, objf)) =>
        "ok " ++ " # ".intercalate outs ++
          s!" ;tid={showOptNat objf.cfg.filterTid} ;fc={csv objf.cfg.filterClass} ;fs={csv objf.cfg.filterSubclass} ;proc={showOptText objf.cfg.filterProcess} ;img={objf.images.addrs.length}"
      | some (.error e) => "err " ++ e.name
      | none => "bad-op"
    | _, _, _, _, _, _, _ => "bad-op"
  | _ => "bad-op"

def commands : List (String × Cmd) :=
  [("flir", cmdFlIR), ("flallow", cmdAllow), ("flircheck", cmdCheck), ("tpipeir", cmdTpipeIR)]

end Driver.PyIRFl
