import KdVerif.Model.Trace
import KdVerif.Spec.Reassembly
import KdVerif.Proofs.Bytes
/-
  C08 lemmas, part 1: chunk arithmetic (`chunks_join`) and the three reassembly loops on encoded records.
-/
namespace KdVerif.Reassembly
open KdVerif.Trace

/-! ### bytes -/

theorem stripNul_append (a b : Bytes) : stripNul (a ++ b) = stripNul a ++ stripNul b := by
  simp [stripNul]

theorem stripNul_replicate_zero (n : Nat) : stripNul (List.replicate n 0) = [] := by
  simp [stripNul]

theorem stripNul_of_nulFree (p : Bytes) (h : NulFree p) : stripNul p = p := by
  simp only [stripNul, List.filter_eq_self, decide_eq_true_eq]
  exact h

/-- `stripNul (p ++ zeros) = p` for NUL-free `p`. -/
theorem stripNul_padTo (n : Nat) (p : Bytes) : stripNul (padTo n p) = stripNul p := by
  simp [padTo, stripNul_append, stripNul_replicate_zero]

theorem NulFree.take {p : Bytes} (h : NulFree p) (n : Nat) : NulFree (p.take n) :=
  fun b hb => h b (List.mem_of_mem_take hb)

theorem NulFree.drop {p : Bytes} (h : NulFree p) (n : Nat) : NulFree (p.drop n) :=
  fun b hb => h b (List.mem_of_mem_drop hb)

/-- Concatenating the 32-byte chunks and stripping the NULs gives back the bytes (minus their NULs). -/
theorem chunks32_join (fuel : Nat) (b : Bytes) (h : b.length ≤ fuel) :
    stripNul (chunks32 fuel b).flatten = stripNul b := by
  induction fuel generalizing b with
  | zero =>
    have : b = [] := List.eq_nil_of_length_eq_zero (by omega)
    subst this; rfl
  | succ n ih =>
    unfold chunks32
    by_cases hb : b.length = 0
    · have : b = [] := List.eq_nil_of_length_eq_zero hb
      subst this; rfl
    · simp only [hb, if_false, List.flatten_cons, stripNul_append, stripNul_padTo]
      rw [ih (b.drop 32) (by simp; omega), ← stripNul_append, List.take_append_drop]

/-- `chunks_join`: the payloads of a split text, header removed, concatenated, NULs stripped = the text. -/
theorem chunks_join (hdr s : Bytes) (_hh : hdr.length ≤ 32) :
    ∃ c cs, splitChunks hdr s = c :: cs ∧ c.take hdr.length = hdr ∧
      stripNul (c.drop hdr.length ++ cs.flatten) = stripNul s := by
  refine ⟨_, _, rfl, by simp, ?_⟩
  rw [List.drop_left, stripNul_append, stripNul_padTo, chunks32_join _ _ (by simp), ← stripNul_append,
    List.take_append_drop]

theorem chunks_join_nulFree (hdr s : Bytes) (hh : hdr.length ≤ 32) (hs : NulFree s) :
    ∃ c cs, splitChunks hdr s = c :: cs ∧ c.take hdr.length = hdr ∧
      stripNul (c.drop hdr.length ++ cs.flatten) = s := by
  obtain ⟨c, cs, h1, h2, h3⟩ := chunks_join hdr s hh
  exact ⟨c, cs, h1, h2, by rw [h3, stripNul_of_nulFree s hs]⟩

/-- Every payload is exactly 32 bytes (so it is a record's argument area). -/
theorem chunks32_length (fuel : Nat) (b : Bytes) : ∀ c ∈ chunks32 fuel b, c.length = 32 := by
  induction fuel generalizing b with
  | zero => intro c hc; simp [chunks32] at hc
  | succ n ih =>
    intro c hc
    unfold chunks32 at hc
    by_cases hb : b.length = 0
    · simp [hb] at hc
    · simp only [hb, if_false, List.mem_cons] at hc
      rcases hc with rfl | hc
      · simp [padTo]; omega
      · exact ih _ c hc

theorem splitChunks_length (hdr s : Bytes) (hh : hdr.length ≤ 32) : ∀ c ∈ splitChunks hdr s, c.length = 32 := by
  intro c hc
  simp only [splitChunks, List.mem_cons] at hc
  rcases hc with rfl | hc
  · simp [padTo]; omega
  · exact chunks32_length _ _ c hc

/-! ### qualifier bits of the four qualifier values -/

theorem mkEvent_bits (ts tid eid : Nat) (d : Bytes) :
    hasStart (mkEvent ts tid eid 0 d) = false ∧ hasEnd (mkEvent ts tid eid 0 d) = false ∧
    hasStart (mkEvent ts tid eid 1 d) = true ∧ hasEnd (mkEvent ts tid eid 1 d) = false ∧
    hasStart (mkEvent ts tid eid 2 d) = false ∧ hasEnd (mkEvent ts tid eid 2 d) = true ∧
    hasStart (mkEvent ts tid eid 3 d) = true ∧ hasEnd (mkEvent ts tid eid 3 d) = true := by
  simp [hasStart, hasEnd, mkEvent]

/-! ### `vnode_generator` -/

theorem vnodeGen_cons_mid (dec : Bytes → Except PyErr String) (e : Kevent) (rest : List Kevent)
    (path : Bytes) (vid : Nat) (evs : List Kevent) (hs : hasStart e = false) (he : hasEnd e = false) :
    vnodeGen dec (e :: rest) path vid evs = vnodeGen dec rest (path ++ e.data) vid (evs ++ [e]) := by
  simp [vnodeGen, hs, he]

theorem vnodeGen_cons_start (dec : Bytes → Except PyErr String) (e : Kevent) (rest : List Kevent)
    (path : Bytes) (vid : Nat) (evs : List Kevent) (hs : hasStart e = true) (he : hasEnd e = false) :
    vnodeGen dec (e :: rest) path vid evs =
      vnodeGen dec rest (path ++ e.data.drop 8) ((e.values[0]?).getD 0) (evs ++ [e]) := by
  simp [vnodeGen, hs, he]

theorem vnodeGen_cons_end (dec : Bytes → Except PyErr String) (e : Kevent) (rest : List Kevent)
    (path : Bytes) (vid : Nat) (evs : List Kevent) (hs : hasStart e = false) (he : hasEnd e = true) :
    vnodeGen dec (e :: rest) path vid evs =
      (do let s ← dec (stripNul (path ++ e.data))
          let more ← vnodeGen dec rest [] 0 []
          pure (⟨evs ++ [e], vid, s⟩ :: more)) := by
  simp [vnodeGen, hs, he]

theorem vnodeGen_cons_all (dec : Bytes → Except PyErr String) (e : Kevent) (rest : List Kevent)
    (path : Bytes) (vid : Nat) (evs : List Kevent) (hs : hasStart e = true) (he : hasEnd e = true) :
    vnodeGen dec (e :: rest) path vid evs =
      (do let s ← dec (stripNul (path ++ e.data.drop 8))
          let more ← vnodeGen dec rest [] 0 []
          pure (⟨evs ++ [e], (e.values[0]?).getD 0, s⟩ :: more)) := by
  simp [vnodeGen, hs, he]

/-- Continuation records `i, i+1, …` up to the END record, then whatever follows. -/
theorem vnodeGen_tail (dec : Bytes → Except PyErr String) (tid eid : Nat) (ts : Nat → Nat)
    (cs : List Bytes) (hne : cs ≠ []) (i : Nat) (rest : List Kevent) (path : Bytes) (vid : Nat)
    (evs : List Kevent) :
    vnodeGen dec (tagFrom tid eid ts i false cs ++ rest) path vid evs =
      (do let s ← dec (stripNul (path ++ cs.flatten))
          let more ← vnodeGen dec rest [] 0 []
          pure (⟨evs ++ tagFrom tid eid ts i false cs, vid, s⟩ :: more)) := by
  induction cs generalizing i path evs with
  | nil => exact absurd rfl hne
  | cons c cs ih =>
    cases cs with
    | nil =>
      have hb := mkEvent_bits (ts i) tid eid c
      simp only [tagFrom, List.cons_append, List.nil_append, Bool.false_eq_true, if_false, Nat.zero_add]
      rw [vnodeGen_cons_end dec _ _ _ _ _ hb.2.2.2.2.1 hb.2.2.2.2.2.1]
      simp [mkEvent]
    | cons c' cs =>
      have hb := mkEvent_bits (ts i) tid eid c
      simp only [tagFrom, List.cons_append, Bool.false_eq_true, if_false]
      rw [vnodeGen_cons_mid dec _ _ _ _ _ hb.1 hb.2.1, ih (by simp)]
      simp [mkEvent, List.append_assoc]

/-- One encoded text (any header length handled by the caller: the first record contributes
    `data[8:]`), followed by anything. -/
theorem vnodeGen_chunks (dec : Bytes → Except PyErr String) (tid eid : Nat) (ts : Nat → Nat)
    (c : Bytes) (cs : List Bytes) (rest : List Kevent) :
    vnodeGen dec (chunkEvents tid eid ts (c :: cs) ++ rest) [] 0 [] =
      (do let s ← dec (stripNul (c.drop 8 ++ cs.flatten))
          let more ← vnodeGen dec rest [] 0 []
          pure (⟨chunkEvents tid eid ts (c :: cs), leNat (c.take 8), s⟩ :: more)) := by
  cases cs with
  | nil =>
    have hb := mkEvent_bits (ts 0) tid eid c
    simp only [chunkEvents, tagFrom, if_true, List.cons_append, List.nil_append]
    rw [vnodeGen_cons_all dec _ _ _ _ _ hb.2.2.2.2.2.2.1 hb.2.2.2.2.2.2.2]
    simp [mkEvent, words]
  | cons c' cs =>
    have hb := mkEvent_bits (ts 0) tid eid c
    simp only [chunkEvents, tagFrom, if_true, List.cons_append]
    rw [vnodeGen_cons_start dec _ _ _ _ _ hb.2.2.1 hb.2.2.2.1, vnodeGen_tail dec tid eid ts _ (by simp)]
    simp [mkEvent, words]

/-! ### the `TRACE_STRING_GLOBAL` loop -/

theorem globalLoop_cons_skip (own : Nat) (e : Kevent) (rest : List Kevent) (dbg sid : Nat) (vstr : Bytes)
    (evs : List Kevent) (hown : e.eventid ≠ own) :
    globalLoop own (e :: rest) dbg sid vstr evs = globalLoop own rest dbg sid vstr evs := by
  simp [globalLoop, hown]

theorem globalLoop_cons_mid (own : Nat) (e : Kevent) (rest : List Kevent) (dbg sid : Nat) (vstr : Bytes)
    (evs : List Kevent) (hown : e.eventid = own) (hs : hasStart e = false) (he : hasEnd e = false) :
    globalLoop own (e :: rest) dbg sid vstr evs = globalLoop own rest dbg sid (vstr ++ e.data) (evs ++ [e]) := by
  simp [globalLoop, hs, he, hown]

theorem globalLoop_cons_start (own : Nat) (e : Kevent) (rest : List Kevent) (dbg sid : Nat) (vstr : Bytes)
    (evs : List Kevent) (hown : e.eventid = own) (hs : hasStart e = true) (he : hasEnd e = false) :
    globalLoop own (e :: rest) dbg sid vstr evs =
      globalLoop own rest (arg e 0) (arg e 1) (vstr ++ e.data.drop 16) (evs ++ [e]) := by
  simp [globalLoop, hs, he, hown]

theorem globalLoop_cons_end (own : Nat) (e : Kevent) (rest : List Kevent) (dbg sid : Nat) (vstr : Bytes)
    (evs : List Kevent) (hown : e.eventid = own) (hs : hasStart e = false) (he : hasEnd e = true) :
    globalLoop own (e :: rest) dbg sid vstr evs = (dbg, sid, vstr ++ e.data, evs ++ [e]) := by
  simp [globalLoop, hs, he, hown]

theorem globalLoop_cons_all (own : Nat) (e : Kevent) (rest : List Kevent) (dbg sid : Nat) (vstr : Bytes)
    (evs : List Kevent) (hown : e.eventid = own) (hs : hasStart e = true) (he : hasEnd e = true) :
    globalLoop own (e :: rest) dbg sid vstr evs = (arg e 0, arg e 1, vstr ++ e.data.drop 16, evs ++ [e]) := by
  simp [globalLoop, hs, he, hown]

/-- Records of another code are invisible to the loop. -/
theorem globalLoop_filter (own : Nat) (l : List Kevent) (dbg sid : Nat) (vstr : Bytes) (evs : List Kevent) :
    globalLoop own l dbg sid vstr evs =
      globalLoop own (l.filter fun e => e.eventid == own) dbg sid vstr evs := by
  induction l generalizing dbg sid vstr evs with
  | nil => rfl
  | cons e rest ih =>
    by_cases hown : e.eventid = own
    · have hf : (e :: rest).filter (fun e => e.eventid == own) = e :: rest.filter (fun e => e.eventid == own) := by
        simp [hown]
      rw [hf]
      unfold globalLoop
      simp only [hown, ne_eq, not_true_eq_false, if_false]
      by_cases he : hasEnd e = true
      · simp [he]
      · simp only [he, Bool.false_eq_true, if_false]
        exact ih _ _ _ _
    · have hf : (e :: rest).filter (fun e => e.eventid == own) = rest.filter (fun e => e.eventid == own) := by
        simp [hown]
      rw [hf, globalLoop_cons_skip own e rest _ _ _ _ hown]
      exact ih _ _ _ _

theorem globalLoop_tail (tid eid : Nat) (ts : Nat → Nat) (cs : List Bytes) (hne : cs ≠ []) (i : Nat)
    (rest : List Kevent) (dbg sid : Nat) (vstr : Bytes) (evs : List Kevent) :
    globalLoop eid (tagFrom tid eid ts i false cs ++ rest) dbg sid vstr evs =
      (dbg, sid, vstr ++ cs.flatten, evs ++ tagFrom tid eid ts i false cs) := by
  induction cs generalizing i vstr evs with
  | nil => exact absurd rfl hne
  | cons c cs ih =>
    cases cs with
    | nil =>
      have hb := mkEvent_bits (ts i) tid eid c
      simp only [tagFrom, List.cons_append, List.nil_append, Bool.false_eq_true, if_false, Nat.zero_add]
      rw [globalLoop_cons_end eid _ _ _ _ _ _ rfl hb.2.2.2.2.1 hb.2.2.2.2.2.1]
      simp [mkEvent]
    | cons c' cs =>
      have hb := mkEvent_bits (ts i) tid eid c
      simp only [tagFrom, List.cons_append, Bool.false_eq_true, if_false]
      rw [globalLoop_cons_mid eid _ _ _ _ _ _ rfl hb.1 hb.2.1, ih (by simp)]
      simp [mkEvent, List.append_assoc]

theorem globalLoop_chunks (tid eid : Nat) (ts : Nat → Nat) (c : Bytes) (cs : List Bytes) (rest : List Kevent) :
    globalLoop eid (chunkEvents tid eid ts (c :: cs) ++ rest) 0 0 [] [] =
      (leNat (c.take 8), leNat ((c.drop 8).take 8), c.drop 16 ++ cs.flatten, chunkEvents tid eid ts (c :: cs)) := by
  cases cs with
  | nil =>
    have hb := mkEvent_bits (ts 0) tid eid c
    simp only [chunkEvents, tagFrom, if_true, List.cons_append, List.nil_append]
    rw [globalLoop_cons_all eid _ _ _ _ _ _ rfl hb.2.2.2.2.2.2.1 hb.2.2.2.2.2.2.2]
    simp [mkEvent, words, arg]
  | cons c' cs =>
    have hb := mkEvent_bits (ts 0) tid eid c
    simp only [chunkEvents, tagFrom, if_true, List.cons_append]
    rw [globalLoop_cons_start eid _ _ _ _ _ _ rfl hb.2.2.1 hb.2.2.2.1, globalLoop_tail tid eid ts _ (by simp)]
    simp [mkEvent, words, arg]

/-! ### thread names: `b''.join(e.data for e in events if e.eventid == events[0].eventid)` -/

/-- all payloads of a record list, joined -/
def dataOf (l : List Kevent) : Bytes := (l.map (·.data)).flatten

theorem joinData_eq (w : List Kevent) :
    joinData w = dataOf (w.filter fun e => e.eventid == (firstOf w).eventid) := rfl

theorem dataOf_tagFrom (tid eid : Nat) (ts : Nat → Nat) (cs : List Bytes) (i : Nat) (first : Bool) :
    dataOf (tagFrom tid eid ts i first cs) = cs.flatten := by
  induction cs generalizing i first with
  | nil => rfl
  | cons c cs ih =>
    cases cs with
    | nil => simp [tagFrom, dataOf, mkEvent]
    | cons c' cs =>
      have := ih (i + 1) false
      simp only [dataOf] at this
      simp [tagFrom, dataOf, mkEvent, this]

/-! ### shape of the record list -/

theorem tagFrom_length (tid eid : Nat) (ts : Nat → Nat) (cs : List Bytes) (i : Nat) (first : Bool) :
    (tagFrom tid eid ts i first cs).length = cs.length := by
  induction cs generalizing i first with
  | nil => rfl
  | cons c cs ih =>
    cases cs with
    | nil => rfl
    | cons c' cs => simp only [tagFrom, List.length_cons, ih (i + 1) false]

theorem tagFrom_tid_eid (tid eid : Nat) (ts : Nat → Nat) (cs : List Bytes) (i : Nat) (first : Bool) :
    ∀ e ∈ tagFrom tid eid ts i first cs, e.tid = tid ∧ e.eventid = eid := by
  induction cs generalizing i first with
  | nil => intro e he; simp [tagFrom] at he
  | cons c cs ih =>
    cases cs with
    | nil => intro e he; simp only [tagFrom, List.mem_singleton] at he; subst he; exact ⟨rfl, rfl⟩
    | cons c' cs =>
      intro e he
      simp only [tagFrom, List.mem_cons] at he
      rcases he with rfl | he
      · exact ⟨rfl, rfl⟩
      · exact ih (i + 1) false e (by simpa [tagFrom] using he)

/-- Continuation records: NONE-qualified ones, then one END-qualified record. -/
theorem tagFrom_false_shape (tid eid : Nat) (ts : Nat → Nat) (cs : List Bytes) (hne : cs ≠ []) (i : Nat) :
    ∃ mids cn, tagFrom tid eid ts i false cs = mids ++ [cn] ∧ (∀ m ∈ mids, m.qual = 0) ∧ cn.qual = 2 := by
  induction cs generalizing i with
  | nil => exact absurd rfl hne
  | cons c cs ih =>
    cases cs with
    | nil => exact ⟨[], _, rfl, by simp, rfl⟩
    | cons c' cs =>
      obtain ⟨mids, cn, h, hm, hc⟩ := ih (by simp) (i + 1)
      refine ⟨mkEvent (ts i) tid eid 0 c :: mids, cn, ?_, ?_, hc⟩
      · simp only [tagFrom, Bool.false_eq_true, if_false, List.cons_append, h]
      · intro m hm'
        simp only [List.mem_cons] at hm'
        rcases hm' with rfl | hm'
        · rfl
        · exact hm m hm'

/-- The records of one text: a single record qualified START|END, or START, NONEs, END. -/
theorem chunkEvents_shape (tid eid : Nat) (ts : Nat → Nat) (c : Bytes) (cs : List Bytes) :
    (∃ e, chunkEvents tid eid ts (c :: cs) = [e] ∧ e.qual = 3) ∨
    (∃ c0 mids cn, chunkEvents tid eid ts (c :: cs) = c0 :: mids ++ [cn] ∧ c0.qual = 1 ∧
      (∀ m ∈ mids, m.qual = 0) ∧ cn.qual = 2) := by
  cases cs with
  | nil => exact Or.inl ⟨_, rfl, rfl⟩
  | cons c' cs =>
    obtain ⟨mids, cn, h, hm, hc⟩ := tagFrom_false_shape tid eid ts (c' :: cs) (by simp) 1
    exact Or.inr ⟨mkEvent (ts 0) tid eid 1 c, mids, cn,
      by simp only [chunkEvents, tagFrom, if_true, h, List.cons_append], rfl, hm, hc⟩

end KdVerif.Reassembly
