import KdVerif.Model.Format
/-
  The Python subset of the LINE BUILDERS of `PyKdebugParser` (`pykdebugparser/pykdebugparser.py`) as a deep embedding
  with a big-step interpreter — the companion of `Model/PyIR` (pairing, C04), `Model/PyIRCs` (callstacks, C15),
  `Model/PyIRRd` (readers, C02/C03/C06) and `Model/PyIRTc` (trace codes, C19) for C14:

    * `_format_timestamp`  (the tick branch; the wall-clock branch behind it is the opaque statement `.wallClock`)
    * `_format_process`
    * `_format_kevent`
    * `_format_trace`
    * `_format_callstack`
    * `_format_log`

  `tools/gen_pyir_fm.py` translates the source text into terms of this IR (`Gen/PyIRFm.lean`) on every run;
  `Props/C14` proves that the translated methods, run by this interpreter, ARE `Format.formatTimestamp /
  formatProcess / formatKevent / formatTrace / formatCallstack / formatLog` — for every setting of the switches, every
  colour machinery, every pair of tables and every argument.

  Values are Python values: `str`, `int` (unbounded, signed), `bool`, `None`, `bytes`, a local list of `str`, and the
  argument objects of the builders as the records of `Model/Format` (`Kevent`, `TraceRec`, `Callstack`, `Frame`,
  `LogRec` + the opaque `strftime` text).  Format specifications are the functions of `Model/Format`
  (`padRight`, `padLeft`, `hex016`, `bytesRepr`, `pyHex`, `spaces`: diffed against CPython by section
  `format-primitives`).  `highlight(…).strip()` and `colored(…)` are the abstract operations of `Format.Colour`;
  `DgbFuncQual(q).name` is a lookup in the reflected enum (`EnumDef.ofValue`, `ValueError` when absent);
  `self._format_timestamp(x)` / `self._format_process(x)` are CALLS answered by `Callees` — `Program.callees` answers
  them by interpreting the translated callee.  `str(uuid)` is the opaque text the model's `Frame.uuid` holds.

  Outside the modelled behaviour: `.error .unmodelled` (the wall-clock branch of `_format_timestamp`, a negative number
  under `hex()` / `:016x`, any operation on a value of another type than the builders use).  Core Lean only.
-/
namespace KdVerif.PyIRFm
open KdVerif.Format
open KdVerif.Filters (LogRec)

/-- the six `self.show_*` switches -/
inductive ShowAttr
  | timestamp | name | funcQual | tid | process | args
  deriving DecidableEq, Repr

/-- the five wall-clock attributes `_format_timestamp` tests for `None` -/
inductive TimeAttr
  | machAbsoluteTime | numer | denom | usecsSinceEpoch | timezone
  deriving DecidableEq, Repr

/-- attributes of the argument objects -/
inductive Attr
  | tid | timestamp | eventid | funcQualifier | data          -- `event.*` (`tid`, `timestamp` also of a ktrace / callstack)
  | frames                                                      -- `callstack.frames`
  | uuid | offset | address                                     -- `frame.*`
  | process | threadIdentifier | composedMessage                -- `os_log.*`
  deriving DecidableEq, Repr

/-- a format specification of a replacement field -/
inductive Spec
  | plain                               -- `{e}`
  | left (w : Nat)                      -- `{e:<w}`
  | right (w : Nat)                     -- `{e:>w}`
  | hex016                              -- `{e:016x}`
  deriving DecidableEq, Repr

mutual
inductive Expr
  | lit (s : String)                    -- `'text'`
  | int (n : Int)                       -- an integer literal (`-1`)
  | none                                -- `None`
  | var (i : Nat)                       -- parameter / local
  | attr (e : Expr) (a : Attr)          -- `e.<a>`
  | ktrace0 (e : Expr)                  -- `e.ktraces[0]`
  | strftime (e : Expr) (fmt : String)  -- `e.unix_date.strftime(fmt)`
  | selfShow (s : ShowAttr)             -- `self.show_*`
  | selfColor                           -- `self.color`
  | tpGet (k d : Expr)                  -- `self.threads_pids.get(k, d)`
  | pnGet (k d : Expr)                  -- `self.pids_names.get(k, d)`
  | index (m k : Expr)                  -- `m[k]` (a trace-code map)
  | isIn (k m : Expr)                   -- `k in m` (a trace-code map)
  | qualName (e : Expr)                 -- `DgbFuncQual(e).name`
  | str (e : Expr)                      -- `str(e)`
  | hex (e : Expr)                      -- `hex(e)`
  | fstr (ps : Pieces)                  -- `f'…'`
  | cat (a b : Expr)                    -- `a + b`
  | rep (s n : Expr)                    -- `s * n`
  | join (sep l : Expr)                 -- `sep.join(l)`
  | ite (c a b : Expr)                  -- `a if c else b`
  | ne (a b : Expr)                     -- `a != b`
  | isNotNone (e : Expr)                -- `e is not None`
  | noneIn (l : List TimeAttr)          -- `None in (self.<a>, …)`
  | callTimestamp (e : Expr)            -- `self._format_timestamp(e)`
  | callProcess (e : Expr)              -- `self._format_process(e)`
  | highlightStrip (e : Expr)           -- `highlight(e, c_lexer, color_formatter).strip()`
  | colored (e : Expr) (c : String)     -- `colored(e, '<c>')`
  | list1 (e : Expr)                    -- `[e]`
  | unsupported (src : String)
  deriving DecidableEq, Repr
/-- the pieces of an f-string, left to right -/
inductive Pieces
  | nil
  | lit (s : String) (rest : Pieces)                -- literal text
  | fmt (sp : Spec) (e : Expr) (rest : Pieces)      -- `{e:<spec>}`
  deriving DecidableEq, Repr
end

inductive Stmt
  | skip
  | seq (a b : Stmt)
  | ret (e : Expr)                                  -- `return e`
  | assign (v : Nat) (e : Expr)                     -- `v = e`
  | append (v : Nat) (e : Expr)                     -- `v += e`
  | appendIf (v : Nat) (c e : Expr)                 -- `v += e if c else ''`  ≡  `if c: v += e`   (one normal form)
  | ite (c : Expr) (t e : Stmt)                     -- `if c: t else: e`
  | tryValueError (body handler : Stmt)             -- `try: body except ValueError: handler`
  | forEnum (i x : Nat) (it : Expr) (body : Stmt)   -- `for i, x in enumerate(it): body`
  | listAppend (v : Nat) (e : Expr)                 -- `v.append(e)`, `v` a local list
  | wallClock                                       -- the wall-clock branch of `_format_timestamp` (OUTSIDE the model)
  | unsupported (src : String)
  deriving DecidableEq, Repr

structure Method where
  params : Nat                          -- after `self`
  body : Stmt
  deriving DecidableEq, Repr

structure Program where
  formatTimestamp : Method
  formatProcess : Method
  formatKevent : Method
  formatTrace : Method
  formatCallstack : Method
  formatLog : Method
  deriving DecidableEq, Repr

/-! ### values -/

inductive Val
  | none
  | bool (b : Bool)
  | int (n : Int)
  | str (s : String)
  | bytes (b : Bytes)
  | strs (l : List String)              -- a local list of `str`
  | event (e : Kevent)
  | codes (m : List (Nat × String))     -- a trace-code map
  | trace (t : TraceRec)
  | ktrace (timestamp tid : Nat)        -- `trace.ktraces[0]`
  | callstack (c : Callstack)
  | frames (l : List Frame)
  | frame (f : Frame)
  | log (timeString : String) (l : LogRec)   -- an `OsLogEvent`; `timeString` = `unix_date.strftime('%Y-%m-%d %H:%M:%S.%f')`
  deriving Repr

abbrev Env := Nat → Option Val
def Env.set (env : Env) (i : Nat) (v : Val) : Env := fun j => if j = i then some v else env j
def Env.ofArgs (args : List Val) : Env := fun j => args[j]?

/-- which of the five wall-clock attributes are set (not `None`) -/
structure TimeSet where
  machAbsoluteTime : Bool := false
  numer : Bool := false
  denom : Bool := false
  usecsSinceEpoch : Bool := false
  timezone : Bool := false
  deriving DecidableEq, Repr, Inhabited

def TimeSet.get (t : TimeSet) : TimeAttr → Bool
  | .machAbsoluteTime => t.machAbsoluteTime | .numer => t.numer | .denom => t.denom
  | .usecsSinceEpoch => t.usecsSinceEpoch | .timezone => t.timezone

/-- at least one of the five is `None`: `_format_timestamp` takes its tick branch (the model's assumption) -/
def TimeSet.anyNone (t : TimeSet) : Bool :=
  !(t.machAbsoluteTime && t.numer && t.denom && t.usecsSinceEpoch && t.timezone)

/-- the object (`self`) and the reflected enum -/
structure Ctx where
  sh : Show
  col : Colour
  tabs : Tables
  qe : EnumDef                          -- `DgbFuncQual`
  time : TimeSet := {}

/-- the meaning of the two method calls -/
structure Callees where
  timestamp : Val → Except PyErr Val
  process : Val → Except PyErr Val

def Callees.none : Callees := ⟨fun _ => .error .unmodelled, fun _ => .error .unmodelled⟩

def showGet (sh : Show) : ShowAttr → Bool
  | .timestamp => sh.timestamp | .name => sh.name | .funcQual => sh.funcQual
  | .tid => sh.tid | .process => sh.process | .args => sh.args

/-- a Python int as a natural number -/
def asNat : Int → Option Nat
  | .ofNat n => some n
  | .negSucc _ => Option.none

/-- `d.get(k)` for a dict with natural keys and a Python int `k` -/
def lookupInt {β : Type} (tbl : List (Nat × β)) (k : Int) : Option β :=
  match asNat k with
  | some n => tbl.lookup n
  | Option.none => Option.none

/-- the `strftime` format `_format_log` uses (the model's `timeString` is the text for THIS format) -/
def logTimeFormat : String := "%Y-%m-%d %H:%M:%S.%f"

def getAttr : Val → Attr → Except PyErr Val
  | .event e, .tid => .ok (.int e.tid)
  | .event e, .timestamp => .ok (.int e.timestamp)
  | .event e, .eventid => .ok (.int e.eventid)
  | .event e, .funcQualifier => .ok (.int e.qual)
  | .event e, .data => .ok (.bytes e.data)
  | .ktrace ts _, .timestamp => .ok (.int ts)
  | .ktrace _ tid, .tid => .ok (.int tid)
  | .callstack c, .timestamp => .ok (.int c.timestamp)
  | .callstack c, .tid => .ok (.int c.tid)
  | .callstack c, .frames => .ok (.frames c.frames)
  | .frame f, .address => .ok (.int f.address)
  | .frame f, .uuid => .ok (match f.uuid with | some u => .str u | Option.none => .none)
  | .frame f, .offset => .ok (match f.uuid with | some _ => .int f.offset | Option.none => .none)
  | .log _ l, .process => .ok (.str l.process)
  | .log _ l, .threadIdentifier => .ok (.int l.threadIdentifier)
  | .log _ l, .composedMessage => .ok (.str l.message)
  | _, _ => .error .unmodelled

/-- `format(v, spec)` -/
def applySpec : Spec → Val → Except PyErr String
  | .plain, .str s => .ok s
  | .plain, .int k => .ok (toString k)
  | .plain, .none => .ok "None"
  | .plain, .bytes b => .ok (bytesRepr b)
  | .left w, .str s => .ok (padRight w s)
  | .left w, .int k => .ok (padRight w (toString k))
  | .left _, .none => .error .typeError
  | .left _, .bytes _ => .error .typeError
  | .right w, .str s => .ok (padLeft w s)
  | .right w, .int k => .ok (padLeft w (toString k))
  | .right _, .none => .error .typeError
  | .right _, .bytes _ => .error .typeError
  | .hex016, .int k => (match asNat k with | some n => .ok (hex016 n) | Option.none => .error .unmodelled)
  | _, _ => .error .unmodelled

/-- `str(v)` -/
def pyStr : Val → Except PyErr String
  | .trace t => .ok t.body              -- `str(trace)`: the opaque body text
  | v => applySpec .plain v

/-- truth value of a condition -/
def truthy : Val → Except PyErr Bool
  | .bool b => .ok b
  | .str s => .ok (decide (s ≠ ""))
  | .none => .ok false
  | .int n => .ok (decide (n ≠ 0))
  | _ => .error .unmodelled

/-- `s * n` for a `str` -/
def strRep (s : String) (n : Nat) : String := String.join (List.replicate n s)

mutual
def eval (cx : Ctx) (cal : Callees) (env : Env) : Expr → Except PyErr Val
  | .lit s => .ok (.str s)
  | .int n => .ok (.int n)
  | .none => .ok .none
  | .var i => match env i with | some v => .ok v | Option.none => .error .unmodelled
  | .attr e a => match eval cx cal env e with | .ok v => getAttr v a | .error x => .error x
  | .ktrace0 e =>
    match eval cx cal env e with
    | .ok (.trace t) => .ok (.ktrace t.timestamp t.tid)
    | .ok _ => .error .unmodelled
    | .error x => .error x
  | .strftime e fmt =>
    match eval cx cal env e with
    | .ok (.log ts _) => if fmt = logTimeFormat then .ok (.str ts) else .error .unmodelled
    | .ok _ => .error .unmodelled
    | .error x => .error x
  | .selfShow s => .ok (.bool (showGet cx.sh s))
  | .selfColor => .ok (.bool cx.col.on)
  | .tpGet k d =>
    match eval cx cal env k with
    | .error x => .error x
    | .ok kv =>
      match eval cx cal env d with
      | .error x => .error x
      | .ok dv =>
        match kv with
        | .int k => (match lookupInt cx.tabs.threadsPids k with | some p => .ok (.int p) | Option.none => .ok dv)
        | _ => .error .unmodelled
  | .pnGet k d =>
    match eval cx cal env k with
    | .error x => .error x
    | .ok kv =>
      match eval cx cal env d with
      | .error x => .error x
      | .ok dv =>
        match kv with
        | .int k => (match cx.tabs.pidsNames.lookup k with | some n => .ok (.str n) | Option.none => .ok dv)
        | _ => .error .unmodelled
  | .index m k =>
    match eval cx cal env m with
    | .error x => .error x
    | .ok mv =>
      match eval cx cal env k with
      | .error x => .error x
      | .ok kv =>
        match mv, kv with
        | .codes m, .int k => (match lookupInt m k with | some n => .ok (.str n) | Option.none => .error .keyError)
        | _, _ => .error .unmodelled
  | .isIn k m =>
    match eval cx cal env k with
    | .error x => .error x
    | .ok kv =>
      match eval cx cal env m with
      | .error x => .error x
      | .ok mv =>
        match kv, mv with
        | .int k, .codes m => .ok (.bool (lookupInt m k).isSome)
        | _, _ => .error .unmodelled
  | .qualName e =>
    match eval cx cal env e with
    | .ok (.int q) => (match cx.qe.ofValue q with | some m => .ok (.str m.name) | Option.none => .error .valueError)
    | .ok _ => .error .unmodelled
    | .error x => .error x
  | .str e =>
    match eval cx cal env e with
    | .ok v => (match pyStr v with | .ok s => .ok (.str s) | .error x => .error x)
    | .error x => .error x
  | .hex e =>
    match eval cx cal env e with
    | .ok (.int k) => (match asNat k with | some n => .ok (.str (pyHex n)) | Option.none => .error .unmodelled)
    | .ok _ => .error .unmodelled
    | .error x => .error x
  | .fstr ps => match evalPieces cx cal env ps with | .ok s => .ok (.str s) | .error x => .error x
  | .cat a b =>
    match eval cx cal env a with
    | .error x => .error x
    | .ok av =>
      match eval cx cal env b with
      | .error x => .error x
      | .ok bv => match av, bv with | .str x, .str y => .ok (.str (x ++ y)) | _, _ => .error .unmodelled
  | .rep s n =>
    match eval cx cal env s with
    | .error x => .error x
    | .ok sv =>
      match eval cx cal env n with
      | .error x => .error x
      | .ok nv => match sv, nv with | .str s, .int k => .ok (.str (strRep s k.toNat)) | _, _ => .error .unmodelled
  | .join sep l =>
    match eval cx cal env sep with
    | .error x => .error x
    | .ok sv =>
      match eval cx cal env l with
      | .error x => .error x
      | .ok lv => match sv, lv with | .str s, .strs l => .ok (.str (s.intercalate l)) | _, _ => .error .unmodelled
  | .ite c a b =>
    match eval cx cal env c with
    | .error x => .error x
    | .ok cv =>
      match truthy cv with
      | .error x => .error x
      | .ok true => eval cx cal env a
      | .ok false => eval cx cal env b
  | .ne a b =>
    match eval cx cal env a with
    | .error x => .error x
    | .ok av =>
      match eval cx cal env b with
      | .error x => .error x
      | .ok bv =>
        match av, bv with
        | .int x, .int y => .ok (.bool (decide (x ≠ y)))
        | .str x, .str y => .ok (.bool (decide (x ≠ y)))
        | _, _ => .error .unmodelled
  | .isNotNone e =>
    match eval cx cal env e with
    | .ok .none => .ok (.bool false)
    | .ok (.str _) => .ok (.bool true)
    | .ok (.int _) => .ok (.bool true)
    | .ok _ => .error .unmodelled
    | .error x => .error x
  | .noneIn l => .ok (.bool (l.any fun a => !cx.time.get a))
  | .callTimestamp e => match eval cx cal env e with | .ok v => cal.timestamp v | .error x => .error x
  | .callProcess e => match eval cx cal env e with | .ok v => cal.process v | .error x => .error x
  | .highlightStrip e =>
    match eval cx cal env e with
    | .ok (.str s) => .ok (.str (cx.col.hlTrace s))
    | .ok _ => .error .unmodelled
    | .error x => .error x
  | .colored e c =>
    match eval cx cal env e with
    | .ok (.str s) => .ok (.str (cx.col.colored s c))
    | .ok _ => .error .unmodelled
    | .error x => .error x
  | .list1 e =>
    match eval cx cal env e with
    | .ok (.str s) => .ok (.strs [s])
    | .ok _ => .error .unmodelled
    | .error x => .error x
  | .unsupported _ => .error .unmodelled
def evalPieces (cx : Ctx) (cal : Callees) (env : Env) : Pieces → Except PyErr String
  | .nil => .ok ""
  | .lit s rest => match evalPieces cx cal env rest with | .ok t => .ok (s ++ t) | .error x => .error x
  | .fmt sp e rest =>
    match eval cx cal env e with
    | .error x => .error x
    | .ok v =>
      match applySpec sp v with
      | .error x => .error x
      | .ok s => match evalPieces cx cal env rest with | .ok t => .ok (s ++ t) | .error x => .error x
end

/-- a condition: evaluated, then its truth value -/
def evalCond (cx : Ctx) (cal : Callees) (env : Env) (c : Expr) : Except PyErr Bool :=
  match eval cx cal env c with
  | .ok v => truthy v
  | .error x => .error x

inductive Signal
  | normal
  | ret (v : Val)
  | err (e : PyErr)

/-- `for i, x in enumerate(<frames>): body`, the index starting at `k` -/
def forEnumLoop (body : Env → Signal × Env) (i x : Nat) : Nat → List Frame → Env → Signal × Env
  | _, [], env => (.normal, env)
  | k, f :: fs, env =>
    match body ((env.set i (.int k)).set x (.frame f)) with
    | (.normal, env') => forEnumLoop body i x (k + 1) fs env'
    | r => r

/-- big-step execution; an exception keeps the environment of the moment it was raised (for `try`) -/
def exec (cx : Ctx) (cal : Callees) : Stmt → Env → Signal × Env
  | .skip, env => (.normal, env)
  | .seq a b, env =>
    match exec cx cal a env with
    | (.normal, env') => exec cx cal b env'
    | r => r
  | .ret e, env => match eval cx cal env e with | .ok v => (.ret v, env) | .error x => (.err x, env)
  | .assign v e, env => match eval cx cal env e with | .ok x => (.normal, env.set v x) | .error x => (.err x, env)
  | .append v e, env =>
    match env v with
    | some (.str cur) =>
      (match eval cx cal env e with
       | .ok (.str s) => (.normal, env.set v (.str (cur ++ s)))
       | .ok _ => (.err .unmodelled, env)
       | .error x => (.err x, env))
    | _ => (.err .unmodelled, env)
  | .appendIf v c e, env =>
    match env v with
    | some (.str cur) =>
      (match evalCond cx cal env c with
       | .error x => (.err x, env)
       | .ok false => (.normal, env)
       | .ok true =>
         match eval cx cal env e with
         | .ok (.str s) => (.normal, env.set v (.str (cur ++ s)))
         | .ok _ => (.err .unmodelled, env)
         | .error x => (.err x, env))
    | _ => (.err .unmodelled, env)
  | .ite c t e, env =>
    match evalCond cx cal env c with
    | .error x => (.err x, env)
    | .ok true => exec cx cal t env
    | .ok false => exec cx cal e env
  | .tryValueError body handler, env =>
    match exec cx cal body env with
    | (.err .valueError, env') => exec cx cal handler env'
    | r => r
  | .forEnum i x it body, env =>
    match eval cx cal env it with
    | .ok (.frames l) => forEnumLoop (fun env => exec cx cal body env) i x 0 l env
    | .ok _ => (.err .unmodelled, env)
    | .error e => (.err e, env)
  | .listAppend v e, env =>
    match env v with
    | some (.strs l) =>
      (match eval cx cal env e with
       | .ok (.str s) => (.normal, env.set v (.strs (l ++ [s])))
       | .ok _ => (.err .unmodelled, env)
       | .error x => (.err x, env))
    | _ => (.err .unmodelled, env)
  | .wallClock, env => (.err .unmodelled, env)
  | .unsupported _, env => (.err .unmodelled, env)

/-- Calling a method: its returned value (falling off the end: `None`). -/
def runMethod (cx : Ctx) (cal : Callees) (m : Method) (args : List Val) : Except PyErr Val :=
  if args.length ≠ m.params then .error .unmodelled
  else
    match exec cx cal m.body (Env.ofArgs args) with
    | (.ret v, _) => .ok v
    | (.normal, _) => .ok .none
    | (.err e, _) => .error e

/-- `self._format_timestamp` / `self._format_process` answered by the translated methods (which call nothing). -/
def Program.callees (p : Program) (cx : Ctx) : Callees :=
  { timestamp := fun v => runMethod cx Callees.none p.formatTimestamp [v]
    process := fun v => runMethod cx Callees.none p.formatProcess [v] }

/-- the builders return a `str` -/
def asStr : Except PyErr Val → Except PyErr String
  | .ok (.str s) => .ok s
  | .ok _ => .error .unmodelled
  | .error e => .error e

/-- `self._format_timestamp(ts)` -/
def runTimestamp (p : Program) (cx : Ctx) (ts : Nat) : Except PyErr String :=
  asStr (runMethod cx Callees.none p.formatTimestamp [.int ts])

/-- `self._format_process(tid)` -/
def runProcess (p : Program) (cx : Ctx) (tid : Nat) : Except PyErr String :=
  asStr (runMethod cx Callees.none p.formatProcess [.int tid])

/-- `self._format_kevent(event, trace_codes_map)` -/
def runKevent (p : Program) (cx : Ctx) (codes : List (Nat × String)) (e : Kevent) : Except PyErr String :=
  asStr (runMethod cx (p.callees cx) p.formatKevent [.event e, .codes codes])

/-- `self._format_trace(trace)` -/
def runTrace (p : Program) (cx : Ctx) (t : TraceRec) : Except PyErr String :=
  asStr (runMethod cx (p.callees cx) p.formatTrace [.trace t])

/-- `self._format_callstack(callstack)` -/
def runCallstack (p : Program) (cx : Ctx) (c : Callstack) : Except PyErr String :=
  asStr (runMethod cx (p.callees cx) p.formatCallstack [.callstack c])

/-- `self._format_log(os_log)` -/
def runLog (p : Program) (cx : Ctx) (timeString : String) (l : LogRec) : Except PyErr String :=
  asStr (runMethod cx (p.callees cx) p.formatLog [.log timeString l])

/-! ### does a term leave the subset? -/

mutual
def Expr.hasUnsupported : Expr → Bool
  | .unsupported _ => true
  | .lit _ | .int _ | .none | .var _ | .selfShow _ | .selfColor | .noneIn _ => false
  | .attr e _ | .ktrace0 e | .strftime e _ | .qualName e | .str e | .hex e | .isNotNone e | .callTimestamp e
  | .callProcess e | .highlightStrip e | .colored e _ | .list1 e => e.hasUnsupported
  | .tpGet a b | .pnGet a b | .index a b | .isIn a b | .cat a b | .rep a b | .join a b | .ne a b =>
    a.hasUnsupported || b.hasUnsupported
  | .ite a b c => a.hasUnsupported || b.hasUnsupported || c.hasUnsupported
  | .fstr ps => ps.hasUnsupported
def Pieces.hasUnsupported : Pieces → Bool
  | .nil => false
  | .lit _ r => r.hasUnsupported
  | .fmt _ e r => e.hasUnsupported || r.hasUnsupported
end

def Stmt.hasUnsupported : Stmt → Bool
  | .unsupported _ => true
  | .skip | .wallClock => false
  | .seq a b | .tryValueError a b => a.hasUnsupported || b.hasUnsupported
  | .ite c a b => c.hasUnsupported || a.hasUnsupported || b.hasUnsupported
  | .ret e | .assign _ e | .append _ e | .listAppend _ e => e.hasUnsupported
  | .appendIf _ c e => c.hasUnsupported || e.hasUnsupported
  | .forEnum _ _ it b => it.hasUnsupported || b.hasUnsupported

def Program.hasUnsupported (p : Program) : Bool :=
  [p.formatTimestamp, p.formatProcess, p.formatKevent, p.formatTrace, p.formatCallstack, p.formatLog].any
    fun m => m.body.hasUnsupported

end KdVerif.PyIRFm
