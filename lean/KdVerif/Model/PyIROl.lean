import KdVerif.Model.OsLog
/-
  The Python subset of `OsLogEvent.parse_decomposed`, `OsLogEvent.parse_decomposed_segment` and
  `OsLogEvent.parse_trace_identifier` (`pykdebugparser/os_log_event.py`) as a deep embedding with a big-step
  interpreter — the companion of `Model/PyIR` (C04), `Model/PyIRCs` (C15), `Model/PyIRFl` (C12/C13), `Model/PyIRTr`
  (C05) for the hand-written control logic of `Model/OsLog` that C16 rests on.

  `tools/gen_pyir_ol.py` translates the source text of the three methods (and of the dataclass `TraceIdentifier`) into a
  `Program` of this IR (`Gen/PyIROl.lean`) on every run; `Props/C16` proves that the translated methods, run by this
  interpreter on ANY plist value and string table, ARE `OsLog.parseDecomposed`, `OsLog.parseSegment`,
  `OsLog.parseTraceIdentifier` of the hand model (same value, same exception).

  Values are the model's own `OsLog.PVal`; dict subscript, `in`, truthiness, `log_strings[…]`, iteration and `== <int>`
  are `OsLog.subscr`, `contains`, `truthy`, `strIndex`, `iter`, `pyEqInt` — the protocol that the correspondence of C16
  already validates, with its exceptions (KeyError, TypeError, …).  Three more kinds of value exist only while a function
  runs: the `log_strings` argument (`table`: the string table `S` of the run), a decoded enum member / flag value that
  still knows its integer (`ev`), and the container `firehose_tracepoint_id.parse(…)` returns (`con`).

  PRIMITIVES (meaning taken from the model / the reflected tables `OsLog.IdTables`, not from source text):
  `firehose_tracepoint_id.parse(Int64ul.build(x))` is `parseWordP` (the model's `toLE` + `parseLayout` over the reflected
  construct layout); `Cls(x)` of an enum class is `OsLog.enumCall` on the reflected class; the module-level dicts
  `tracepoint_types` / `tracepoint_flags` are the reflected `IdTables.types` / `IdTables.flags`.

  Dicts are values: `v['k'] = e` rebinds `v` to the updated association list.  That is Python's meaning as long as the
  object in `v` is referenced from nowhere else when it is updated; the translator checks that (a target of `v['k'] = …` is
  bound only by dict displays and is never updated after it was stored, passed or returned) and emits `unsupported`
  otherwise.  Non-plist values (enum members, flag values, datetimes, objects) count as true in conditions and differ from
  every int, as `OsLog.truthy` / `pyEqInt` say; no condition of the three methods tests one.
  Outside the subset: `.unsupported "<source>"`, run as `.error .unmodelled` — never a guess.  Core Lean only.
-/
namespace KdVerif.PyIROl
open KdVerif.OsLog

inductive Expr
  | none
  | int (n : Int)
  | var (i : Nat)                                -- parameters after `cls` first, then locals by first binding
  | dictEmpty                                    -- `{}`
  | dictAdd (d : Expr) (k : String) (v : Expr)   -- a dict display extended on the right by `'k': v`
  | key (e : Expr) (k : String)                  -- `e['k']`
  | strAt (t i : Expr)                           -- `t[i]`, `i` not a literal: `log_strings[…]`
  | hasKey (k : String) (e : Expr)               -- `'k' in e`  (`'k' not in e`, `not 'k' in e`: `not (hasKey …)`)
  | get (e : Expr) (k : String)                  -- `e.get('k')`
  | eqInt (e : Expr) (n : Int)                   -- `e == n`
  | not (e : Expr)
  | and (a b : Expr)
  | or (a b : Expr)
  | ifExp (c a b : Expr)                         -- `a if c else b`
  | listComp (v : Nat) (elem it : Expr)          -- `[elem for v in it]`
  | call1 (f : String) (a : Expr)                -- `cls.f(a)`
  | call2 (f : String) (a b : Expr)              -- `cls.f(a, b)`
  -- the trace identifier
  | parseWord (struct word : String) (e : Expr)  -- `<struct>.parse(<word>.build(e))`  PRIMITIVE
  | attr (e : Expr) (name : String)              -- `e.<name>` of a parsed container
  | band (e : Expr) (m : Nat)                    -- `e & m`
  | bor (a b : Expr)                             -- `a | b` of two flag values of one class
  | enumCall (cls : String) (e : Expr)           -- `Cls(e)`, `Cls` an enum class of the module
  | isMember (e : Expr) (cls name : String)      -- `e == Cls.NAME`
  | inTable (e : Expr) (tbl : String)            -- `e in <module-level dict>`
  | tableCall (tbl : String) (k x : Expr)        -- `<module-level dict>[k](x)`
  | construct (cls : String) (kw : Expr)         -- `Cls(f1=e1, …)`: the keywords as a dict display, in written order
  | unsupported (src : String)
  deriving DecidableEq, Repr

/-- statement lists are right-nested `seq`; an `if` without `else` has `skip` as its else branch -/
inductive Stmt
  | skip
  | seq (a b : Stmt)
  | assign (v : Nat) (e : Expr)                  -- `v = e`
  | setKey (v : Nat) (k : String) (e : Expr)     -- `v['k'] = e`, `v` a local
  | ite (c : Expr) (t e : Stmt)
  | ret (e : Expr)
  | unsupported (src : String)
  deriving DecidableEq, Repr

/-- a `@classmethod def name(cls, p0, …)` of `OsLogEvent`; `params` counts the parameters after `cls` -/
structure FunDef where
  name : String
  params : Nat
  body : Stmt
  deriving DecidableEq, Repr

/-- a module-level `@dataclass` whose fields have no defaults -/
structure ClassDef where
  name : String
  fields : List String
  deriving DecidableEq, Repr

structure Program where
  classes : List ClassDef
  funs : List FunDef
  deriving DecidableEq, Repr

/-! ### values -/

inductive Val
  | pv (v : PVal)                                -- a plist value / a result
  | table                                        -- the `log_strings` argument
  | ev (e : EnumVal)                             -- an enum member / flag value with its integer
  | con (pfx : String) (fs : List (String × Nat))   -- a parsed container (fields by dotted name) seen under a prefix
  deriving Inhabited

/-- a value where a plist value is needed (operand of `[]`, `in`, a condition, …) -/
def asP : Val → Except PyErr PVal
  | .pv v => .ok v
  | _ => .error .unmodelled

/-- a value as it is kept in a dict / list / object / result: enum members and flag values in the model's rendering -/
def Val.store : Val → Except PyErr PVal
  | .pv v => .ok v
  | .ev e => .ok e.toPVal
  | _ => .error .unmodelled

abbrev Locals := Nat → Option Val
def Locals.set (l : Locals) (i : Nat) (v : Val) : Locals := fun j => if j = i then some v else l j
def Locals.ofArgs (args : List Val) : Locals := fun j => args[j]?

/-- `d[k] = x` on an association list: an existing key keeps its position -/
def dset : Dict → String → PVal → Dict
  | [], k, x => [(k, x)]
  | (k', y) :: r, k, x => if k' == k then (k', x) :: r else (k', y) :: dset r k x

/-! ### the primitives of the trace identifier -/

/-- `firehose_tracepoint_id.parse(Int64ul.build(v))`: the field values by dotted name — exactly the steps of
    `OsLog.parseTraceIdentifier` / `decodeId` before `decodeFields` -/
def parseWordP (T : IdTables) (v : PVal) : Except PyErr (List (String × Nat)) :=
  match numOf v with
  | some n =>
    if n < 0 then .error .streamError
    else if n.toNat < 256 ^ T.wordSize then parseLayout T.layout (toLE T.wordSize n.toNat)
    else .error .streamError
  | Option.none => .error .streamError

def bitKeys : List BitField → List String
  | [] => []
  | .pad _ :: r => bitKeys r
  | .flag n :: r => n :: bitKeys r
  | .uint n _ :: r => n :: bitKeys r
  | .unsupported _ :: r => bitKeys r

/-- the (dotted) names of the leaves a successful parse of the layout yields, in order -/
def layoutKeys : List LField → List String
  | [] => []
  | .uint n _ _ :: r => n :: layoutKeys r
  | .bits _ b :: r => bitKeys b ++ layoutKeys r
  | .unsupported _ :: r => layoutKeys r

def bitFlags : List BitField → List String
  | [] => []
  | .flag n :: r => n :: bitFlags r
  | _ :: r => bitFlags r

/-- the leaves declared `Flag` (construct yields a `bool` for them) -/
def layoutFlags : List LField → List String
  | [] => []
  | .bits _ b :: r => bitFlags b ++ layoutFlags r
  | _ :: r => layoutFlags r

/-- the nested structs (`'trace_flags' / BitStruct(…)`) -/
def layoutGroups : List LField → List String
  | [] => []
  | .bits n _ :: r => n :: layoutGroups r
  | _ :: r => layoutGroups r

/-- `c.<name>` of a parsed container: a leaf (`bool` for a `Flag`, `int` otherwise), a nested container, or
    AttributeError -/
def conAttr (T : IdTables) (pfx : String) (fs : List (String × Nat)) (name : String) : Except PyErr Val :=
  let full := pfx ++ name
  match fs.lookup full with
  | some n => .ok (if (layoutFlags T.layout).contains full then .pv (.bool (n != 0)) else .pv (.int n))
  | Option.none =>
    if (layoutGroups T.layout).contains full then .ok (.con (full ++ ".") fs) else .error .attributeError

/-- the enum classes the reflected tables know, by class name -/
def classOf (T : IdTables) (name : String) : Option EnumRef :=
  ([T.nsEnum, T.pcEnum, T.signpostType] ++ T.types.map (·.2) ++ T.flags.map (·.2)).find? (·.cls.name == name)

/-- the module-level dicts keyed by namespace member, by name -/
def tableOf (T : IdTables) (name : String) : Option (List (Int × EnumRef)) :=
  if name == "tracepoint_types" then some T.types
  else if name == "tracepoint_flags" then some T.flags
  else Option.none

/-- `Cls(x)` on an evaluated argument: container leaves and masked leaves are non-negative ints -/
def callEnum (r : EnumRef) (x : PVal) : Except PyErr Val :=
  match x with
  | .int n => if 0 ≤ n then enumCall r n.toNat >>=? fun e => .ok (.ev e) else .error .unmodelled
  | _ => .error .unmodelled

/-- `<dict>[k]` for a namespace member `k`: the entry of the member's value (members of other classes are no keys) -/
def tableLookup (T : IdTables) (entries : List (Int × EnumRef)) : Val → Except PyErr (Option EnumRef)
  | .ev (.member c _ v) => .ok (if c == T.nsEnum.cls.name then entries.lookup v else Option.none)
  | _ => .error .unmodelled

def findClass (P : Program) (cls : String) : Option ClassDef := P.classes.find? (·.name == cls)

/-! ### expressions -/

structure Ctx where
  T : IdTables
  S : Strings
  P : Program
  /-- `cls.f(args)`: the translated callee, interpreted (see `callLevel`) -/
  call : String → List Val → Except PyErr PVal

def eval (cx : Ctx) (loc : Locals) : Expr → Except PyErr Val
  | .none => .ok (.pv PVal.none)
  | .int n => .ok (.pv (.int n))
  | .var i => match loc i with | some v => .ok v | Option.none => .error .unmodelled
  | .dictEmpty => .ok (.pv (.dict []))
  | .dictAdd d k v =>
    eval cx loc d >>=? fun dv =>
    match dv with
    | .pv (.dict kv) => eval cx loc v >>=? fun x => x.store >>=? fun p => .ok (.pv (.dict (dset kv k p)))
    | _ => .error .unmodelled
  | .key e k => eval cx loc e >>=? asP >>=? fun v => subscr v k >>=? fun r => .ok (.pv r)
  | .strAt t i =>
    eval cx loc t >>=? fun tv =>
    match tv with
    | .table => eval cx loc i >>=? asP >>=? fun v => strIndex cx.S v >>=? fun r => .ok (.pv r)
    | _ => .error .unmodelled
  | .hasKey k e => eval cx loc e >>=? asP >>=? fun v => contains k v >>=? fun c => .ok (.pv (.bool c))
  | .get e k =>
    eval cx loc e >>=? asP >>=? fun v =>
    match v with
    | .dict kv => .ok (.pv ((kv.lookup k).getD PVal.none))
    | _ => .error .attributeError
  | .eqInt e n => eval cx loc e >>=? asP >>=? fun v => .ok (.pv (.bool (pyEqInt v n)))
  | .not e => eval cx loc e >>=? asP >>=? fun v => .ok (.pv (.bool (!truthy v)))
  | .and a b => eval cx loc a >>=? fun va => asP va >>=? fun p => if truthy p then eval cx loc b else .ok va
  | .or a b => eval cx loc a >>=? fun va => asP va >>=? fun p => if truthy p then .ok va else eval cx loc b
  | .ifExp c a b => eval cx loc c >>=? asP >>=? fun p => if truthy p then eval cx loc a else eval cx loc b
  | .listComp v elem it =>
    eval cx loc it >>=? asP >>=? iter >>=? fun xs =>
    mapE (fun x => eval cx (loc.set v (.pv x)) elem >>=? Val.store) xs >>=? fun ys => .ok (.pv (.list ys))
  | .call1 f a => eval cx loc a >>=? fun va => cx.call f [va] >>=? fun r => .ok (.pv r)
  | .call2 f a b =>
    eval cx loc a >>=? fun va => eval cx loc b >>=? fun vb => cx.call f [va, vb] >>=? fun r => .ok (.pv r)
  | .parseWord s _ e =>
    if s == "firehose_tracepoint_id" then
      eval cx loc e >>=? asP >>=? parseWordP cx.T >>=? fun fs => .ok (.con "" fs)
    else .error .unmodelled
  | .attr e name =>
    eval cx loc e >>=? fun v =>
    match v with
    | .con pfx fs => conAttr cx.T pfx fs name
    | _ => .error .unmodelled
  | .band e m =>
    eval cx loc e >>=? asP >>=? fun v =>
    match v with
    | .int n => if 0 ≤ n then .ok (.pv (.int ((n.toNat &&& m : Nat) : Int))) else .error .unmodelled
    | _ => .error .unmodelled
  | .bor a b =>
    eval cx loc a >>=? fun va => eval cx loc b >>=? fun vb =>
    match va, vb with
    | .ev (.flags c x), .ev (.flags c' y) => if c == c' then .ok (.ev (.flags c (x ||| y))) else .error .unmodelled
    | _, _ => .error .unmodelled
  | .enumCall cls e =>
    match classOf cx.T cls with
    | Option.none => .error .unmodelled
    | some r => eval cx loc e >>=? asP >>=? callEnum r
  | .isMember e cls name =>
    eval cx loc e >>=? fun v =>
    match v, classOf cx.T cls with
    | .ev (.member c _ x), some r =>
      (match r.cls.members.find? (·.name == name) with
       | some m => .ok (.pv (.bool (c == r.cls.name && x == m.value)))
       | Option.none => .error .attributeError)
    | _, _ => .error .unmodelled
  | .inTable e tbl =>
    match tableOf cx.T tbl with
    | Option.none => .error .unmodelled
    | some entries =>
      eval cx loc e >>=? fun v => tableLookup cx.T entries v >>=? fun r => .ok (.pv (.bool r.isSome))
  | .tableCall tbl k x =>
    match tableOf cx.T tbl with
    | Option.none => .error .unmodelled
    | some entries =>
      eval cx loc k >>=? fun kv => tableLookup cx.T entries kv >>=? fun r =>
      match r with
      | Option.none => .error .keyError
      | some r => eval cx loc x >>=? asP >>=? callEnum r
  | .construct cls kw =>
    match findClass cx.P cls with
    | Option.none => .error .unmodelled
    | some cd =>
      eval cx loc kw >>=? fun kv =>
      match kv with
      | .pv (.dict kvs) =>
        OsLog.construct (cd.fields.map fun f => ⟨f, Option.none⟩) kvs >>=? fun fs => .ok (.pv (.obj cls fs))
      | _ => .error .unmodelled
  | .unsupported _ => .error .unmodelled

/-! ### statements -/

inductive Outcome
  | normal (loc : Locals)
  | ret (v : PVal)

def exec (cx : Ctx) : Stmt → Locals → Except PyErr Outcome
  | .skip, loc => .ok (.normal loc)
  | .seq a b, loc =>
    match exec cx a loc with
    | .ok (.normal loc') => exec cx b loc'
    | r => r
  | .assign v e, loc => eval cx loc e >>=? fun x => .ok (.normal (loc.set v x))
  | .setKey v k e, loc =>
    -- Python evaluates the right-hand side first, then the target
    eval cx loc e >>=? Val.store >>=? fun p =>
    match loc v with
    | some (.pv (.dict kv)) => .ok (.normal (loc.set v (.pv (.dict (dset kv k p)))))
    | some (.pv _) => .error .typeError
    | _ => .error .unmodelled
  | .ite c t e, loc => eval cx loc c >>=? asP >>=? fun p => if truthy p then exec cx t loc else exec cx e loc
  | .ret e, loc => eval cx loc e >>=? Val.store >>=? fun p => .ok (.ret p)
  | .unsupported _, _ => .error .unmodelled

/-! ### running a method -/

/-- `f(cls, args…)` for a translated body: the returned value (`None` when it falls off the end); a wrong number of
    arguments is a TypeError -/
def runBody (cx : Ctx) (fd : FunDef) (args : List Val) : Except PyErr PVal :=
  if args.length ≠ fd.params then .error .typeError
  else
    match exec cx fd.body (Locals.ofArgs args) with
    | .ok (.ret v) => .ok v
    | .ok (.normal _) => .ok PVal.none
    | .error e => .error e

def findFun (P : Program) (f : String) : Option FunDef := P.funs.find? (·.name == f)

/-- `cls.f(args)` with calls nested at most `depth` deep (a method that is not translated, or deeper nesting — a
    recursive method — is `.unmodelled`) -/
def callLevel (T : IdTables) (S : Strings) (P : Program) : Nat → String → List Val → Except PyErr PVal
  | 0, _, _ => .error .unmodelled
  | d + 1, f, args =>
    match findFun P f with
    | Option.none => .error .unmodelled
    | some fd => runBody ⟨T, S, P, callLevel T S P d⟩ fd args

/-- `OsLogEvent.f(args)` through the translated program: nesting up to the number of translated methods -/
def run (T : IdTables) (S : Strings) (P : Program) (f : String) (args : List Val) : Except PyErr PVal :=
  callLevel T S P P.funs.length f args

/-! ### unsupported nodes -/

def Expr.hasUnsupported : Expr → Bool
  | .unsupported _ => true
  | .none | .int _ | .var _ | .dictEmpty => false
  | .key e _ | .hasKey _ e | .get e _ | .eqInt e _ | .not e | .call1 _ e | .parseWord _ _ e | .attr e _ | .band e _
  | .enumCall _ e | .isMember e _ _ | .inTable e _ | .construct _ e => e.hasUnsupported
  | .dictAdd a _ b | .strAt a b | .and a b | .or a b | .listComp _ a b | .call2 _ a b | .bor a b
  | .tableCall _ a b => a.hasUnsupported || b.hasUnsupported
  | .ifExp a b c => a.hasUnsupported || b.hasUnsupported || c.hasUnsupported

def Stmt.hasUnsupported : Stmt → Bool
  | .unsupported _ => true
  | .skip => false
  | .seq a b => a.hasUnsupported || b.hasUnsupported
  | .assign _ e | .setKey _ _ e | .ret e => e.hasUnsupported
  | .ite c t e => c.hasUnsupported || t.hasUnsupported || e.hasUnsupported

def Program.hasUnsupported (p : Program) : Bool := p.funs.any (·.body.hasUnsupported)

end KdVerif.PyIROl
