#!/venv/bin/python
"""tools/seedsave.py <seed-id> <patch> <demo> <property> <change> <needs> [extra check ids…]
Confirms a seeded change with tools/seedtest.py and stores it under seeded/<seed-id>/ (patch.diff, demo.py, meta.json)."""
import json
import os
import shutil
import subprocess
import sys

sid, patch, demo, prop, change, needs = sys.argv[1:7]
checks = [prop] + sys.argv[7:]
d = os.path.join(os.path.dirname(os.path.dirname(os.path.abspath(__file__))), 'seeded', sid)
os.makedirs(d, exist_ok=True)
for src, name in ((patch, 'patch.diff'), (demo, 'demo.py')):
    if os.path.abspath(src) != os.path.join(d, name):
        shutil.copy(src, os.path.join(d, name))
r = subprocess.run([os.path.join(os.path.dirname(__file__), 'seedtest.py'), os.path.join(d, 'patch.diff'),
                    os.path.join(d, 'demo.py')] + checks, capture_output=True, text=True)
try:
    res = json.loads(r.stdout[r.stdout.index('{'):])
except Exception:
    res = {'raw': r.stdout[-800:] + r.stderr[-400:]}
meta = {'id': sid, 'breaks_property': prop, 'change': change, 'needs_to_manifest': needs,
        'origin': 'fresh sub-agent given only the property text and a scratch worktree',
        'confirmed': {'tests_with_change': res.get('tests'), 'demo_rc_without_change': res.get('demo_without_change_rc'),
                      'demo_rc_with_change': res.get('demo_with_change_rc')},
        'ran': 'tools/seedtest.py seeded/%s/patch.diff seeded/%s/demo.py %s' % (sid, sid, ' '.join(checks)),
        'checks': {c: res.get('check_' + c) for c in checks}}
old = os.path.join(d, 'meta.json')
if os.path.exists(old):
    try:
        meta['history'] = json.load(open(old)).get('history', '')
    except Exception:
        pass
json.dump(meta, open(old, 'w'), indent=1)
print(sid, meta['confirmed'], {c: (res.get('check_' + c) or {}).get('rc') for c in checks})
for c in checks:
    for l in (res.get('check_' + c) or {}).get('lines', [])[:3]:
        if not l.startswith('KNOWN'):
            print('   ', c, l[:150])
own = checks[0] if checks else None
if own and (res.get('check_' + own) or {}).get('rc') != 1:
    print('    MISSED: the check of', own, 'ended rc', (res.get('check_' + own) or {}).get('rc'))
