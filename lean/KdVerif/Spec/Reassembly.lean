import KdVerif.Model.Kevent
/-
  C08 specification: the KERNEL side of split paths and strings (xnu `kdebug_vfs_lookup`,
  `kernel_debug_string_internal`, `kdebug_proc_name_args`/thread-name tracepoints), written as encoders.
  A text is cut into 32-byte record payloads:

    first record   = header ++ the first (32 − |header|) text bytes, NUL-padded to 32 bytes
    later records  = the next 32 text bytes each, the last one NUL-padded to 32 bytes

  header = 8-byte little-endian vnode id (lookups), 8-byte debug id ++ 8-byte string id (global strings),
  nothing (thread names).  Qualifiers: START on the first record, END on the last, both (3) when there is
  one record only, NONE (0) on the records in between.  A text that exactly fills its records gets NO
  terminating NUL and no extra record (length 24, 24+32k for lookups).  Nothing here mentions 184 or any
  other length limit.  Core Lean only; the recursion is by fuel so that `decide` evaluates it.
-/
namespace KdVerif.Reassembly

/-- `b.ljust(n, b'\0')` -/
def padTo (n : Nat) (b : Bytes) : Bytes := b ++ List.replicate (n - b.length) 0

/-- `while raw: chunks.append(raw[:32].ljust(32, b'\0')); raw = raw[32:]` (fuel ≥ |raw| suffices). -/
def chunks32 : Nat → Bytes → List Bytes
  | 0, _ => []
  | fuel + 1, b => if b.length = 0 then [] else padTo 32 (b.take 32) :: chunks32 fuel (b.drop 32)

/-- The record payloads of a text `s` behind a first-record header `hdr`. -/
def splitChunks (hdr s : Bytes) : List Bytes :=
  (hdr ++ padTo (32 - hdr.length) (s.take (32 - hdr.length))) :: chunks32 s.length (s.drop (32 - hdr.length))

/-- Payloads of one `VFS_LOOKUP`: 8-byte vnode id, then the path. -/
def encodeLookup (vnode : Nat) (p : Bytes) : List Bytes := splitChunks (toLE 8 vnode) p

/-- Payloads of one `TRACE_STRING_GLOBAL`: debug id, string id, then the text. -/
def encodeGlobalString (debugid strId : Nat) (s : Bytes) : List Bytes :=
  splitChunks (toLE 8 debugid ++ toLE 8 strId) s

/-- Payloads of one `TRACE_STRING_THREADNAME(_PREV)`. -/
def encodeThreadName (s : Bytes) : List Bytes := splitChunks [] s

/-- The four argument words of a payload (what `from_kd_buf` puts into `values`, C01.decode_eq_spec). -/
def words (d : Bytes) : List Nat :=
  [leNat (d.take 8), leNat ((d.drop 8).take 8), leNat ((d.drop 16).take 8), leNat ((d.drop 24).take 8)]

/-- One decoded record: timestamp, thread, code id (low two bits clear), qualifier, payload. -/
def mkEvent (ts tid eid q : Nat) (d : Bytes) : Kevent :=
  { timestamp := ts, data := d, values := words d, tid := tid, debugid := eid + q, eventid := eid, qual := q }

/-- Records for payloads number `i, i+1, …` (timestamps `ts i, ts (i+1), …` are arbitrary): START iff `first`,
    END on the last one. -/
def tagFrom (tid eid : Nat) (ts : Nat → Nat) : Nat → Bool → List Bytes → List Kevent
  | _, _, [] => []
  | i, first, [c] => [mkEvent (ts i) tid eid ((if first then 1 else 0) + 2) c]
  | i, first, c :: c' :: cs =>
    mkEvent (ts i) tid eid (if first then 1 else 0) c :: tagFrom tid eid ts (i + 1) false (c' :: cs)

/-- The records of one split text on thread `tid` under code `eid`. -/
def chunkEvents (tid eid : Nat) (ts : Nat → Nat) (payloads : List Bytes) : List Kevent :=
  tagFrom tid eid ts 0 true payloads

def lookupEvents (tid eid : Nat) (ts : Nat → Nat) (vnode : Nat) (p : Bytes) : List Kevent :=
  chunkEvents tid eid ts (encodeLookup vnode p)

def globalStringEvents (tid eid : Nat) (ts : Nat → Nat) (debugid strId : Nat) (s : Bytes) : List Kevent :=
  chunkEvents tid eid ts (encodeGlobalString debugid strId s)

def threadNameEvents (tid eid : Nat) (ts : Nat → Nat) (s : Bytes) : List Kevent :=
  chunkEvents tid eid ts (encodeThreadName s)

/-- One lookup as the kernel sees it: vnode id, path bytes, the timestamps of its records. -/
structure LookupSpec where
  vnode : Nat
  path : Bytes
  ts : Nat → Nat

/-- The records of several lookups of one thread, one after the other. -/
def encodeLookups (tid eid : Nat) : List LookupSpec → List Kevent
  | [] => []
  | l :: ls => lookupEvents tid eid l.ts l.vnode l.path ++ encodeLookups tid eid ls

/-- No NUL inside the text (C strings). -/
def NulFree (p : Bytes) : Prop := ∀ b ∈ p, b ≠ 0

end KdVerif.Reassembly
