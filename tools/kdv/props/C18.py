"""C18 — output is a function of the dump, not of the host operating system."""
import contextlib
import enum
import errno
import signal
import socket
import types

from .. import core
from .. import decoders as D

MODULE = 'KdVerif.Props.C18'
NAMESPACE = 'KdVerif.C18'
TRUSTED = ['Spec/DarwinHost.lean: Darwin errno / signal / socket tables written by hand from the XNU headers',
           'Gen/Host.lean: reflection of the running interpreter\'s tables', 'IR translator + IR.eval']
ASSUMPTIONS = ['other platforms are modelled by swapping the errno / Signals / socket objects the handler module imports']
LEVEL_TEXT = ('Host tables are a parameter of the Lean rendering function; theorems: exactly six decoders read host enum tables, '
              'errno is read only in BSD result parts, every other decoder renders identically on any two hosts '
              '(host_free_independent, non_bsd_decoders_host_independent), and host-reading decoders depend on the host only '
              'through the tables (errno_only_decoders, host_dependence_only_through_tables). The known finding K2 (names come '
              'from the running interpreter) is demonstrated on the real code wherever the host tables differ from Darwin\'s.')
LEVEL_NOTE = ('Trusted: Lean kernel, Darwin reference tables, reflection, AST translator (validated differentially). The property '
              'is violated by design of the current code (K2, recorded as known finding); what is proved is the exact extent.')
TECHNIQUE = 'Lean 4 proof: host as parameter, reflective footprint classification + congruence lemma; table-swap differential run'

DARWIN_ERRNO = {1: 'EPERM', 2: 'ENOENT', 3: 'ESRCH', 4: 'EINTR', 5: 'EIO', 6: 'ENXIO', 7: 'E2BIG', 8: 'ENOEXEC', 9: 'EBADF',
                10: 'ECHILD', 11: 'EDEADLK', 12: 'ENOMEM', 13: 'EACCES', 14: 'EFAULT', 15: 'ENOTBLK', 16: 'EBUSY', 17: 'EEXIST',
                18: 'EXDEV', 19: 'ENODEV', 20: 'ENOTDIR', 21: 'EISDIR', 22: 'EINVAL', 23: 'ENFILE', 24: 'EMFILE', 25: 'ENOTTY',
                26: 'ETXTBSY', 27: 'EFBIG', 28: 'ENOSPC', 29: 'ESPIPE', 30: 'EROFS', 31: 'EMLINK', 32: 'EPIPE', 33: 'EDOM',
                34: 'ERANGE', 35: 'EAGAIN', 36: 'EINPROGRESS', 37: 'EALREADY', 38: 'ENOTSOCK', 39: 'EDESTADDRREQ',
                40: 'EMSGSIZE', 41: 'EPROTOTYPE', 42: 'ENOPROTOOPT', 43: 'EPROTONOSUPPORT', 44: 'ESOCKTNOSUPPORT',
                45: 'ENOTSUP', 46: 'EPFNOSUPPORT', 47: 'EAFNOSUPPORT', 48: 'EADDRINUSE', 49: 'EADDRNOTAVAIL', 50: 'ENETDOWN',
                51: 'ENETUNREACH', 52: 'ENETRESET', 53: 'ECONNABORTED', 54: 'ECONNRESET', 55: 'ENOBUFS', 56: 'EISCONN',
                57: 'ENOTCONN', 58: 'ESHUTDOWN', 59: 'ETOOMANYREFS', 60: 'ETIMEDOUT', 61: 'ECONNREFUSED', 62: 'ELOOP',
                63: 'ENAMETOOLONG', 64: 'EHOSTDOWN', 65: 'EHOSTUNREACH', 66: 'ENOTEMPTY', 67: 'EPROCLIM', 68: 'EUSERS',
                69: 'EDQUOT', 70: 'ESTALE', 71: 'EREMOTE', 72: 'EBADRPC', 73: 'ERPCMISMATCH', 74: 'EPROGUNAVAIL',
                75: 'EPROGMISMATCH', 76: 'EPROCUNAVAIL', 77: 'ENOLCK', 78: 'ENOSYS', 79: 'EFTYPE', 80: 'EAUTH', 81: 'ENEEDAUTH',
                82: 'EPWROFF', 83: 'EDEVERR', 84: 'EOVERFLOW', 85: 'EBADEXEC', 86: 'EBADARCH', 87: 'ESHLIBVERS',
                88: 'EBADMACHO', 89: 'ECANCELED', 90: 'EIDRM', 91: 'ENOMSG', 92: 'EILSEQ', 93: 'ENOATTR', 94: 'EBADMSG',
                95: 'EMULTIHOP', 96: 'ENODATA', 97: 'ENOLINK', 98: 'ENOSR', 99: 'ENOSTR', 100: 'EPROTO', 101: 'ETIME',
                102: 'EOPNOTSUPP', 103: 'ENOPOLICY', 104: 'ENOTRECOVERABLE', 105: 'EOWNERDEAD', 106: 'EQFULL'}
DARWIN_SIGNALS = {1: 'SIGHUP', 2: 'SIGINT', 3: 'SIGQUIT', 4: 'SIGILL', 5: 'SIGTRAP', 6: 'SIGABRT', 7: 'SIGEMT', 8: 'SIGFPE',
                  9: 'SIGKILL', 10: 'SIGBUS', 11: 'SIGSEGV', 12: 'SIGSYS', 13: 'SIGPIPE', 14: 'SIGALRM', 15: 'SIGTERM',
                  16: 'SIGURG', 17: 'SIGSTOP', 18: 'SIGTSTP', 19: 'SIGCONT', 20: 'SIGCHLD', 21: 'SIGTTIN', 22: 'SIGTTOU',
                  23: 'SIGIO', 24: 'SIGXCPU', 25: 'SIGXFSZ', 26: 'SIGVTALRM', 27: 'SIGPROF', 28: 'SIGWINCH', 29: 'SIGINFO',
                  30: 'SIGUSR1', 31: 'SIGUSR2'}
DARWIN_AF = {0: 'AF_UNSPEC', 1: 'AF_UNIX', 2: 'AF_INET', 11: 'AF_SNA', 12: 'AF_DECnet', 16: 'AF_APPLETALK', 17: 'AF_ROUTE',
             18: 'AF_LINK', 23: 'AF_IPX', 30: 'AF_INET6', 32: 'AF_SYSTEM'}
DARWIN_SK = {1: 'SOCK_STREAM', 2: 'SOCK_DGRAM', 3: 'SOCK_RAW', 4: 'SOCK_RDM', 5: 'SOCK_SEQPACKET'}
DARWIN_SOL = 0xffff
ENUM_READERS = {'BSC_socket': ['addressFamily', 'socketKind'], 'BSC_socketpair': ['addressFamily', 'socketKind'],
                'BSC_socket_delegate': ['addressFamily', 'socketKind'], 'BSC_sigaction': ['signals'],
                'BSC_setsockopt': ['solSocket'], 'BSC_getsockopt': ['solSocket']}


def host_tables():
    return {'errno': dict(errno.errorcode),
            'signals': {m.value: signal.Signals(m.value).name for m in signal.Signals},
            'addressFamily': {m.value: socket.AddressFamily(m.value).name for m in socket.AddressFamily},
            'socketKind': {m.value: socket.SocketKind(m.value).name for m in socket.SocketKind},
            'solSocket': socket.SOL_SOCKET}


@contextlib.contextmanager
def darwin_host():
    """Substitute Darwin's tables for the objects the handler module took from the host interpreter."""
    from pykdebugparser.trace_handlers import bsd
    saved = {k: getattr(bsd, k) for k in ('errno', 'Signals', 'socket') if hasattr(bsd, k)}
    bsd.errno = types.SimpleNamespace(errorcode=dict(DARWIN_ERRNO))
    bsd.Signals = enum.IntEnum('Signals', {v: k for k, v in DARWIN_SIGNALS.items()})
    bsd.socket = types.SimpleNamespace(
        AddressFamily=enum.IntEnum('AddressFamily', {v: k for k, v in DARWIN_AF.items()}),
        SocketKind=enum.IntEnum('SocketKind', {v: k for k, v in DARWIN_SK.items()}), SOL_SOCKET=DARWIN_SOL)
    try:
        yield
    finally:
        for k, v in saved.items():
            setattr(bsd, k, v)


def run(c):
    try:
        return D.text_of(D.impl_fn(c))
    except Exception as e:
        return 'raise ' + core.err_name(e)


def demo_case(name, start=None, end=None):
    return {'name': name, 'start': start or [3, 4, 5, 6], 'end': end or [0, 0, 0, 0], 'tid': 9, 'lookups': [], 'gs': {},
            'tp': {}, 'tn': {}}


def correspondence(rep, rng, tier):
    D.section_decoders(rep, rng, tier, per=2 if tier == 'quick' else 30, name='decoders')
    ht = host_tables()
    ref = {'errno': DARWIN_ERRNO, 'signals': DARWIN_SIGNALS, 'addressFamily': DARWIN_AF, 'socketKind': DARWIN_SK}
    sec = rep.section('host-vs-darwin')
    sec['rule'] = ('failing-input search on the real code: every code at which the running interpreter\'s table differs from '
                   'Darwin\'s, rendered by a decoder that consults that table, under the host tables and under substituted '
                   'Darwin tables; then every decoder on random windows under both (any difference outside the known readers '
                   'is a new host dependence)')
    diffs = {}
    for tname, table in ref.items():
        codes = sorted(set(table) | set(ht[tname]))
        d = [k for k in codes if table.get(k) != ht[tname].get(k) and k in table]
        diffs[tname] = d
    diffs['solSocket'] = [] if ht['solSocket'] == DARWIN_SOL else [DARWIN_SOL]
    sec['dist'] = {k: len(v) for k, v in diffs.items()}
    demos = {
        'errno': lambda code: demo_case('BSC_read', end=[code, 0, 0, 0]),
        'signals': lambda code: demo_case('BSC_sigaction', start=[code, 4, 5, 6]),
        'addressFamily': lambda code: demo_case('BSC_socket', start=[code, 1, 0, 0]),
        'socketKind': lambda code: demo_case('BSC_socket', start=[2, code, 0, 0]),
        'solSocket': lambda code: demo_case('BSC_setsockopt', start=[3, code, 4, 8]),
    }
    for tname, codes in diffs.items():
        for code in codes[:200]:
            c = demos[tname](code)
            a = run(c)
            with darwin_host():
                b = run(c)
            sec['cases'] += 1
            if a != b:
                sec['distinct_nontrivial'] += 1
                rep.add_failure('host:' + tname, 'code %d: on this host %r, with Darwin tables %r' % (code, a, b),
                                {'section': 'host-vs-darwin', 'case': c, 'table': tname, 'code': code})
    if rep.broken or tier == 'thorough':       # the theorems rule a new dependence out; search only when they no longer check
        targeted_search(rep, diffs, tier, ht)
        if rep.broken and not any(f['signature'].startswith('host:new-dependence') for f in rep.failures):
            pairwise_search(rep, diffs, ht)
    # every decoder on random windows under both hosts: differences only where a known reader meets a differing code
    known_errno = set()
    from pykdebugparser.trace_handlers.bsd import handlers as bsd_handlers
    per = 3 if tier == 'quick' else 40
    sec2 = rep.section('table-swap')
    sec2['rule'] = 'every decoder x %d random windows under host tables and under Darwin tables' % per
    for n in D.all_handler_names():
        for _ in range(per):
            c = D.make_case(rng, n)
            a = run(c)
            with darwin_host():
                b = run(c)
            sec2['cases'] += 1
            if a == b:
                continue
            sec2['distinct_nontrivial'] += 1
            reason = None
            if n in bsd_handlers and c['end'][0] in diffs['errno'] or \
                    (n in bsd_handlers and ht['errno'].get(c['end'][0]) != DARWIN_ERRNO.get(c['end'][0])):
                reason = 'errno'
            for t in ENUM_READERS.get(n, []):
                reason = reason or t
            if reason is None:
                rep.add_failure('host:new-dependence:' + n, 'decoder %s renders %r on this host and %r with Darwin tables'
                                % (n, a, b), {'section': 'table-swap', 'case': c})
            else:
                rep.add_failure('host:' + reason, 'decoder %s: %r on this host, %r with Darwin tables' % (n, a, b),
                                {'section': 'table-swap', 'case': c, 'table': reason})


def candidates():
    """Decoders that may hide a new host dependence: untranslated ones (outside the hand-modelled set), and every
    decoder whose generated IR mentions a host enum table or SOL_SOCKET."""
    import os
    import re
    st = D.stats()
    hand = {'DBG_DYLD_TIMING_LAUNCH_EXECUTABLE', 'MACH_vmfault', 'PERF_Event', 'PERF_THD_Data', 'TRACE_DATA_EXEC',
            'TRACE_DATA_NEWTHREAD', 'TRACE_DATA_THREAD_TERMINATE', 'TRACE_DATA_THREAD_TERMINATE_PID', 'TRACE_STRING_EXEC',
            'TRACE_STRING_GLOBAL', 'TRACE_STRING_NEWTHREAD', 'TRACE_STRING_PROC_EXIT', 'TRACE_STRING_THREADNAME',
            'TRACE_STRING_THREADNAME_PREV', 'VFS_LOOKUP'}
    out = {n for n in st['unsupported'] if n not in hand} | set(ENUM_READERS)
    with open(os.path.join(core.LEAN, 'KdVerif', 'Gen', 'Decoders.lean')) as fd:
        text = fd.read()
    for m in re.finditer(r'\{ key := \d+, name := "([^"]+)"(.*?)\n  \{ key', text, flags=re.S):
        if '.hostEnum' in m.group(2) or '.hostSolSocket' in m.group(2):
            out.add(m.group(1))
    return sorted(out)


def targeted_search(rep, diffs, tier, ht):
    """For every candidate decoder put every small code (0..130), 0xffff and every code at which a host table differs
    from Darwin's into every START / END position and compare the rendering under the host tables and under Darwin's.
    A difference at a code on which the consulted tables AGREE, or in a decoder outside the known readers, is a NEW
    host dependence."""
    from pykdebugparser.trace_handlers.bsd import handlers as bsd_handlers
    sec = rep.section('new-dependence-search')
    sec['rule'] = 'codes 0..130, 0xffff, all differing codes x every START/END position x candidate decoders'
    ref = {'errno': DARWIN_ERRNO, 'signals': DARWIN_SIGNALS, 'addressFamily': DARWIN_AF, 'socketKind': DARWIN_SK}
    codes = sorted(set(range(0, 131)) | {0xffff} | {c for t in ref for c in diffs[t]})
    for n in candidates():
        known_tables = ENUM_READERS.get(n, [])
        for code in codes:
            for pos in range(8):
                c = demo_case(n, start=[2, 1, 0, 6], end=[0, 1, 2, 3])
                if pos < 4:
                    c['start'][pos] = code
                else:
                    c['end'][pos - 4] = code
                a = run(c)
                with darwin_host():
                    b = run(c)
                sec['cases'] += 1
                if a == b:
                    continue
                sec['distinct_nontrivial'] += 1
                # explained by a known reader meeting a code its table names differently?
                explained = None
                if n in bsd_handlers and pos == 4 and ht['errno'].get(code) != DARWIN_ERRNO.get(code):
                    explained = 'errno'
                for t in known_tables:
                    words = c['start']
                    if t == 'solSocket' and (ht['solSocket'] in words or DARWIN_SOL in words):
                        explained = explained or t
                    elif t in ref and any(ht[t].get(w) != ref[t].get(w) for w in words):
                        explained = explained or t
                if explained:
                    rep.add_failure('host:' + explained, 'decoder %s: %r on this host, %r with Darwin tables' % (n, a, b),
                                    {'section': 'new-dependence-search', 'case': c, 'table': explained})
                else:
                    rep.add_failure('host:new-dependence:' + n,
                                    'decoder %s renders %r on this host and %r with Darwin tables although the tables agree '
                                    'on every word of the window' % (n, a, b),
                                    {'section': 'new-dependence-search', 'case': c})
                    break
            else:
                continue
            break


def pairwise_search(rep, diffs, ht):
    """Two cooperating words: for the UNTRANSLATED decoders (the translator met a construct outside its subset, so the
    theorems say nothing about them) sweep a single flag bit in every START word against every differing errno /
    signal code, plain and negated, in the END error and return words."""
    st = D.stats()
    hand = set(candidates()) & set(st['unsupported'])
    sec = rep.section('new-dependence-pairs')
    sec['rule'] = 'untranslated decoders x (START position x single bit 0..31) x (END word 0/1 x +-code for differing codes)'
    ref = {'errno': DARWIN_ERRNO, 'signals': DARWIN_SIGNALS}
    codes = sorted({c for t in ref for c in diffs[t]})[:80]
    ends = [c for c in codes] + [(1 << 64) - c for c in codes] + [(1 << 32) - c for c in codes]
    for n in sorted(hand):
        found = False
        for pos in range(4):
            for bit in range(32):
                for epos in (1, 0):
                    for ev in ends:
                        c = demo_case(n, start=[2, 1, 0, 6], end=[0, 1, 2, 3])
                        c['start'][pos] |= 1 << bit
                        c['end'][epos] = ev
                        a = run(c)
                        with darwin_host():
                            b = run(c)
                        sec['cases'] += 1
                        if a != b:
                            from pykdebugparser.trace_handlers.bsd import handlers as bsd_handlers
                            if n in bsd_handlers and epos == 0 and ht['errno'].get(ev) != DARWIN_ERRNO.get(ev):
                                continue          # the error word of a result part: K2a
                            sec['distinct_nontrivial'] += 1
                            rep.add_failure('host:new-dependence:' + n,
                                            'decoder %s renders %r on this host and %r with Darwin tables' % (n, a, b),
                                            {'section': 'new-dependence-pairs', 'case': c})
                            found = True
                            break
                    if found:
                        break
                if found:
                    break
            if found:
                break


def replay(path):
    import json
    with open(path) as fd:
        r = json.load(fd)
    c = r['replay']['case']
    a = run(c)
    with darwin_host():
        b = run(c)
    print('host  :', a)
    print('darwin:', b)
    if a != b:
        print(f'VIOLATION property=C18 replay={path}')
        return 1
    return 0
