import KdVerif.Model.Filters
/-
  The Python subset of the FILTER LOGIC of `pykdebugparser/pykdebugparser.py` — `_is_eventid_allowed`, `kevents`,
  `os_log_events`, `traces` (class list handed to `kevents`, post-filter stages) and `_filter_process_callback` — as a
  deep embedding with a big-step interpreter: the companion of `Model/PyIR` (C04) and `Model/PyIRCs` (C15) for C12/C13.
  `tools/gen_pyir_fl.py` translates the source text into terms of this IR (`Gen/PyIRFl.lean`); `Props/C12` / `Props/C13`
  prove that the translated code, run by this interpreter, is `Filters.kevents` / `Filters.osLogEvents` /
  `Filters.isEventidAllowed` / `TracePipeline.effectiveClasses` + `postFilter` / `processMatches`.

  * Values are Python values: `None`, bools, ints (`Int`), strs, REFERENCES to list objects (`self.filter_class`,
    `self.filter_subclass`, lists made by `list(x)` or passed in by the caller: the heap maps them to `List Nat`, so that
    `l.append(x)` through an alias — or on `self.filter_class` itself — is seen by every holder of the reference), the
    two shared dicts, stream elements, trace objects, and LAZY STREAMS: a source plus the `filter(lambda x: p, ·)`
    stages stacked on it, in order.
  * `and` / `or` / `not` / `if` / `a if c else b` / `any` use Python truthiness (`None`, `0`, `''`, `[]` are false) and
    `and` / `or` return an OPERAND (`has_filters = filter_class or self.filter_subclass` is a list).
  * A stage's lambda is a closure over the VARIABLES of the frame that made it and is called when an element is pulled,
    i.e. after the method has returned: the interpreter evaluates every stage predicate in the FINAL environment and
    heap of the frame (exactly Python's cell semantics for a generator consumed after the call).  Laziness itself is
    irrelevant for a fixed configuration: the filter attributes are assumed not to change while the listing is consumed
    (assumption of C12/C13), so a stage keeps exactly the elements of the fully materialised previous stage whose
    predicate is truthy.
  * Method calls inside expressions (`self._is_eventid_allowed(a, b)`, `self._filter_process_callback(t)`) run the
    callee's translated body, by call depth.  `KdBufParser(self.threads_pids, self.pids_names).parse(kdebug)` and
    `TracesParser(codes, self.threads_pids, self.pids_names).feed_generator(self.kevents(kdebug, fc))` are SOURCES: the
    interpreter records what they were given (which tables, which code table, which class-list object) — their
    meaning is the hand model of the container parser / of `TracesParser` (other properties).
  * Outside the modelled behaviour: `.error .unmodelled`; where Python raises on the modelled values (`e.tid` of a log
    record, `x in None`): the Python exception.  Core Lean only.
-/
namespace KdVerif.PyIRFl
open KdVerif.Filters

/-- `self.<attr>` -/
inductive Attr
  | filterTid | filterClass | filterSubclass | filterProcess | threadsPids | pidsNames
  deriving DecidableEq, Repr

/-- `<object>.<field>` -/
inductive Field
  | tid | eventid | threadIdentifier | process | processIdentifier | ktraces
  deriving DecidableEq, Repr

/-- the methods that are called inside expressions -/
inductive Meth
  | isEventidAllowed | filterProcessCallback
  deriving DecidableEq, Repr

inductive Expr
  | none
  | int (n : Int)
  | str (s : String)
  | var (i : Nat)
  | self (a : Attr)                              -- `self.<attr>`
  | field (e : Expr) (f : Field)                 -- `e.<field>`
  | index (e i : Expr)                           -- `e[i]`
  | isLog (e : Expr)                             -- `isinstance(e, OsLogEvent)`
  | not (e : Expr)
  | and (a b : Expr)
  | or (a b : Expr)
  | isNone (e : Expr)                            -- `e is None`
  | eq (a b : Expr)                              -- `a == b`   (`a != b` is `not (a == b)`)
  | isIn (x l : Expr)                            -- `x in l`   (`x not in l` is `not (x in l)`)
  | inPair (x a b : Expr)                        -- `x in (a, b)`
  | shr (a : Expr) (k : Nat)                     -- `a >> k` for a literal `k`
  | strOf (e : Expr)                             -- `str(e)`
  | get (d k dflt : Expr)                        -- `d.get(k, dflt)`
  | anyFilter (x : Nat) (p xs : Expr)            -- `any(filter(lambda x: p, xs))`
  | ifExp (c a b : Expr)                         -- `a if c else b`
  | call1 (m : Meth) (a : Expr)                  -- `self.<m>(a)`
  | call2 (m : Meth) (a b : Expr)                -- `self.<m>(a, b)`
  | parseStream (tp pn kd : Expr)                -- `KdBufParser(tp, pn).parse(kd)`
  | defaultTraceCodes                            -- `default_trace_codes()`
  | feedKevents (codes tp pn kd fc : Expr)       -- `TracesParser(codes, tp, pn).feed_generator(self.kevents(kd, fc))`
  | unsupported (src : String)
  deriving DecidableEq, Repr

/-- Continuation form, as in `Model/PyIR`; the branches of `ite` end in `done` (fall through to `next`) or return. -/
inductive Stmt
  | done
  | ret (e : Expr)
  | assign (v : Nat) (e : Expr) (next : Stmt)                     -- `v = e`
  | assignList (v : Nat) (e : Expr) (next : Stmt)                 -- `v = list(e)`   (a NEW list object)
  | assignFilter (v x : Nat) (p src : Expr) (next : Stmt)         -- `v = filter(lambda x: p, src)`
  | append (l x : Expr) (next : Stmt)                             -- `l.append(x)`
  | ite (c : Expr) (t e next : Stmt)                              -- `if c: t else: e` ; next
  | unsupported (src : String)
  deriving DecidableEq, Repr

/-- A method: `params` parameters after `self`, the last `optional` of them with the default `None`. -/
structure Block where
  params : Nat
  optional : Nat := 0
  body : Stmt
  deriving DecidableEq, Repr

structure Prog where
  isEventidAllowed : Block
  kevents : Block
  osLogEvents : Block
  traces : Block
  filterProcessCallback : Block
  deriving DecidableEq, Repr

def Prog.get (p : Prog) : Meth → Block
  | .isEventidAllowed => p.isEventidAllowed
  | .filterProcessCallback => p.filterProcessCallback

/-! ### values, heap -/

/-- A list object. -/
inductive Ref
  | selfClass                       -- the object `self.filter_class` names
  | selfSubclass                    -- the object `self.filter_subclass` names
  | loc (i : Nat)                   -- a list made by `list(x)`, or the caller's argument
  deriving DecidableEq, Repr

/-- One `filter(lambda x: p, ·)`. -/
structure Stage where
  param : Nat
  body : Expr
  deriving DecidableEq, Repr

/-- What a lazy stream draws from. -/
inductive Src
  | parse                                           -- the container parser on the shared tables
  | traces (codesGiven : Bool) (fc : Option Ref)    -- a fresh `TracesParser` (the caller's code table / the default
                                                    -- one) on the shared tables, fed by `self.kevents(kdebug, fc)`
  deriving DecidableEq, Repr

inductive Val
  | none
  | bool (b : Bool)
  | int (n : Int)
  | str (s : String)
  | ref (r : Ref)
  | tpRef | pnRef                   -- `self.threads_pids`, `self.pids_names` (the shared dict objects)
  | kdebug                          -- the file object
  | codes (given : Bool)            -- a code table: the caller's (`true`) or `default_trace_codes()` (`false`)
  | item (i : Item)                 -- an element of the container parser's stream
  | trace (first : Kevent)          -- a trace object whose `ktraces[0]` is `first`
  | ktraces (first : Kevent)        -- its `ktraces` list
  | stream (src : Src) (stages : List Stage)
  deriving DecidableEq, Repr

structure Heap where
  cfg : Cfg
  locs : List (List Nat) := []
  deriving DecidableEq, Repr

/-- The two shared lookup tables as they are when a trace is pulled (`List.lookup` = the newest binding). -/
structure Tables where
  threadsPids : List (Nat × Nat) := []
  pidsNames : List (Nat × String) := []
  deriving DecidableEq, Repr, Inhabited

structure World where
  heap : Heap
  tabs : Tables := {}
  deriving DecidableEq, Repr

def Heap.deref (h : Heap) : Ref → Option (List Nat)
  | .selfClass => some h.cfg.filterClass
  | .selfSubclass => some h.cfg.filterSubclass
  | .loc i => h.locs[i]?

/-- `l.append(n)` on the object `r`. -/
def Heap.append (h : Heap) (r : Ref) (n : Nat) : Option Heap :=
  match r with
  | .selfClass => some { h with cfg := { h.cfg with filterClass := h.cfg.filterClass ++ [n] } }
  | .selfSubclass => some { h with cfg := { h.cfg with filterSubclass := h.cfg.filterSubclass ++ [n] } }
  | .loc i => match h.locs[i]? with
    | some l => some { h with locs := h.locs.set i (l ++ [n]) }
    | Option.none => Option.none

/-- `list(l)`: a new object. -/
def Heap.alloc (h : Heap) (l : List Nat) : Heap × Ref := ({ h with locs := h.locs ++ [l] }, .loc h.locs.length)

abbrev Env := Nat → Option Val
def Env.set (env : Env) (i : Nat) (v : Val) : Env := fun j => if j = i then some v else env j
def Env.ofArgs (args : List Val) : Env := fun j => args[j]?

@[inline] def bindE {α β : Type} (x : Except PyErr α) (f : α → Except PyErr β) : Except PyErr β :=
  match x with
  | .ok a => f a
  | .error e => .error e

@[simp] theorem bindE_ok {α β : Type} (a : α) (f : α → Except PyErr β) : bindE (.ok a) f = f a := rfl
@[simp] theorem bindE_error {α β : Type} (e : PyErr) (f : α → Except PyErr β) : bindE (.error e) f = .error e := rfl

/-- Python truthiness of the modelled values. -/
def truthy (w : World) : Val → Except PyErr Bool
  | .none => .ok false
  | .bool b => .ok b
  | .int n => .ok (n != 0)
  | .str s => .ok (s != "")
  | .ref r => match w.heap.deref r with
    | some l => .ok (!l.isEmpty)
    | Option.none => .error .unmodelled
  | _ => .error .unmodelled

/-- `a == b` on `None` / bool / int / str (a bool is the int 0 / 1). -/
def pyEq : Val → Val → Except PyErr Bool
  | .none, .none => .ok true
  | .int a, .int b => .ok (a == b)
  | .str a, .str b => .ok (a == b)
  | .bool a, .bool b => .ok (a == b)
  | .bool a, .int b => .ok ((if a then 1 else 0) == b)
  | .int a, .bool b => .ok (a == (if b then 1 else 0))
  | .none, .int _ | .none, .str _ | .none, .bool _ | .int _, .none | .str _, .none | .bool _, .none => .ok false
  | .int _, .str _ | .str _, .int _ | .bool _, .str _ | .str _, .bool _ => .ok false
  | _, _ => .error .unmodelled

/-- `n in l` for a Python int `n` and a list of non-negative ints. -/
def memNat (n : Int) (l : List Nat) : Bool := decide (0 ≤ n) && l.contains n.toNat

/-- `any(filter(p, l))`: an element counts when `p` is truthy for it AND it is truthy itself; stops at the first. -/
def anyE (p : Nat → Except PyErr Bool) : List Nat → Except PyErr Bool
  | [] => .ok false
  | n :: ns => bindE (p n) fun b => if b && n != 0 then .ok true else anyE p ns

/-- `d.get(k, dflt)` on the two shared dicts (keys are non-negative ints). -/
def dictGet (t : Tables) (d k dflt : Val) : Except PyErr Val :=
  match d, k with
  | .tpRef, .int n =>
    .ok (match (if 0 ≤ n then t.threadsPids.lookup n.toNat else Option.none) with
         | some p => .int p | Option.none => dflt)
  | .pnRef, .int n =>
    .ok (match (if 0 ≤ n then t.pidsNames.lookup n.toNat else Option.none) with
         | some s => .str s | Option.none => dflt)
  | _, _ => .error .unmodelled

def getField : Val → Field → Except PyErr Val
  | .item (.event k), .tid => .ok (.int k.tid)
  | .item (.event k), .eventid => .ok (.int k.eventid)
  | .item (.event _), _ => .error .attributeError
  | .item (.log l), .threadIdentifier => .ok (.int l.threadIdentifier)
  | .item (.log l), .process => .ok (.str l.process)
  | .item (.log l), .processIdentifier => .ok (.int l.processIdentifier)
  | .item (.log _), _ => .error .attributeError
  | .trace k, .ktraces => .ok (.ktraces k)
  | _, _ => .error .unmodelled

def getAttr (cfg : Cfg) : Attr → Val
  | .filterTid => match cfg.filterTid with | some t => .int t | Option.none => .none
  | .filterClass => .ref .selfClass
  | .filterSubclass => .ref .selfSubclass
  | .filterProcess => match cfg.filterProcess with | some p => .str p | Option.none => .none
  | .threadsPids => .tpRef
  | .pidsNames => .pnRef

/-- `call m args w`: the meaning of `self.<m>(args)` (given from outside: call depth). -/
abbrev CallFn := Meth → List Val → World → Except PyErr Val

def eval (call : CallFn) (w : World) (env : Env) : Expr → Except PyErr Val
  | .none => .ok .none
  | .int n => .ok (.int n)
  | .str s => .ok (.str s)
  | .var i => match env i with | some v => .ok v | Option.none => .error .unmodelled
  | .self a => .ok (getAttr w.heap.cfg a)
  | .field e f => bindE (eval call w env e) fun v => getField v f
  | .index e i =>
    bindE (eval call w env e) fun v => bindE (eval call w env i) fun iv =>
      match v, iv with
      | .ktraces k, .int 0 => .ok (.item (.event k))
      | _, _ => .error .unmodelled
  | .isLog e =>
    bindE (eval call w env e) fun v =>
      match v with
      | .item (.log _) => .ok (.bool true)
      | .item (.event _) => .ok (.bool false)
      | _ => .error .unmodelled
  | .not e => bindE (eval call w env e) fun v => bindE (truthy w v) fun b => .ok (.bool !b)
  | .and a b => bindE (eval call w env a) fun va => bindE (truthy w va) fun t => if t then eval call w env b else .ok va
  | .or a b => bindE (eval call w env a) fun va => bindE (truthy w va) fun t => if t then .ok va else eval call w env b
  | .isNone e => bindE (eval call w env e) fun v => .ok (.bool (v == .none))
  | .eq a b => bindE (eval call w env a) fun va => bindE (eval call w env b) fun vb =>
      bindE (pyEq va vb) fun r => .ok (.bool r)
  | .isIn x l =>
    bindE (eval call w env x) fun vx => bindE (eval call w env l) fun vl =>
      match vx, vl with
      | .int n, .ref r =>
        (match w.heap.deref r with
         | some xs => .ok (.bool (memNat n xs))
         | Option.none => .error .unmodelled)
      | .int _, .none => .error .typeError
      | _, _ => .error .unmodelled
  | .inPair x a b =>
    bindE (eval call w env x) fun vx => bindE (eval call w env a) fun va => bindE (eval call w env b) fun vb =>
      bindE (pyEq vx va) fun r1 => if r1 then .ok (.bool true) else bindE (pyEq vx vb) fun r2 => .ok (.bool r2)
  | .shr a k =>
    bindE (eval call w env a) fun va =>
      match va with
      | .int x => .ok (.int (x >>> k))
      | _ => .error .unmodelled
  | .strOf e =>
    bindE (eval call w env e) fun v =>
      match v with
      | .int n => .ok (.str (toString n))
      | .str s => .ok (.str s)
      | _ => .error .unmodelled
  | .get d k dflt =>
    bindE (eval call w env d) fun vd => bindE (eval call w env k) fun vk => bindE (eval call w env dflt) fun vf =>
      dictGet w.tabs vd vk vf
  | .anyFilter x p xs =>
    bindE (eval call w env xs) fun vxs =>
      match vxs with
      | .ref r =>
        (match w.heap.deref r with
         | some l => bindE (anyE (fun n => bindE (eval call w (env.set x (.int n)) p) (truthy w)) l) fun b => .ok (.bool b)
         | Option.none => .error .unmodelled)
      | _ => .error .unmodelled
  | .ifExp c a b => bindE (eval call w env c) fun vc => bindE (truthy w vc) fun t =>
      if t then eval call w env a else eval call w env b
  | .call1 m a => bindE (eval call w env a) fun va => call m [va] w
  | .call2 m a b => bindE (eval call w env a) fun va => bindE (eval call w env b) fun vb => call m [va, vb] w
  | .parseStream tp pn kd =>
    bindE (eval call w env tp) fun vt => bindE (eval call w env pn) fun vp => bindE (eval call w env kd) fun vk =>
      match vt, vp, vk with
      | .tpRef, .pnRef, .kdebug => .ok (.stream .parse [])
      | _, _, _ => .error .unmodelled
  | .defaultTraceCodes => .ok (.codes false)
  | .feedKevents codes tp pn kd fc =>
    bindE (eval call w env codes) fun vc => bindE (eval call w env tp) fun vt => bindE (eval call w env pn) fun vp =>
    bindE (eval call w env kd) fun vk => bindE (eval call w env fc) fun vf =>
      match vc, vt, vp, vk, vf with
      | .codes g, .tpRef, .pnRef, .kdebug, .ref r => .ok (.stream (.traces g (some r)) [])
      | .codes g, .tpRef, .pnRef, .kdebug, .none => .ok (.stream (.traces g Option.none) [])
      | _, _, _, _, _ => .error .unmodelled
  | .unsupported _ => .error .unmodelled

inductive Outcome
  | normal
  | ret (v : Val)
  deriving DecidableEq, Repr

def exec (call : CallFn) : Stmt → Env → World → Except PyErr (Outcome × Env × World)
  | .done, env, w => .ok (.normal, env, w)
  | .ret e, env, w => bindE (eval call w env e) fun v => .ok (.ret v, env, w)
  | .assign v e next, env, w => bindE (eval call w env e) fun x => exec call next (env.set v x) w
  | .assignList v e next, env, w =>
    bindE (eval call w env e) fun x =>
      match x with
      | .ref r =>
        (match w.heap.deref r with
         | some l => exec call next (env.set v (.ref (w.heap.alloc l).2)) { w with heap := (w.heap.alloc l).1 }
         | Option.none => .error .unmodelled)
      | .none => .error .typeError
      | _ => .error .unmodelled
  | .assignFilter v x p src next, env, w =>
    bindE (eval call w env src) fun s =>
      match s with
      | .stream so st => exec call next (env.set v (.stream so (st ++ [⟨x, p⟩]))) w
      | _ => .error .unmodelled
  | .append l x next, env, w =>
    bindE (eval call w env l) fun lv => bindE (eval call w env x) fun xv =>
      match lv, xv with
      | .ref r, .int n =>
        if 0 ≤ n then
          (match w.heap.append r n.toNat with
           | some h => exec call next env { w with heap := h }
           | Option.none => .error .unmodelled)
        else .error .unmodelled
      | _, _ => .error .unmodelled
  | .ite c t e next, env, w =>
    bindE (eval call w env c) fun cv => bindE (truthy w cv) fun b =>
      bindE (if b then exec call t env w else exec call e env w) fun r =>
        match r with
        | (.normal, env', w') => exec call next env' w'
        | (.ret v, env', w') => .ok (.ret v, env', w')
  | .unsupported _, _, _ => .error .unmodelled

/-- arguments padded with `None` for the omitted optional parameters -/
def padArgs (b : Block) (args : List Val) : Option (List Val) :=
  if args.length ≤ b.params ∧ b.params ≤ args.length + b.optional then
    some (args ++ List.replicate (b.params - args.length) .none)
  else Option.none

/-- Running a method body: the returned value (falling off the end: `None`), the frame's final variables and the
    world afterwards. -/
def runBlock (call : CallFn) (b : Block) (args : List Val) (w : World) : Except PyErr (Val × Env × World) :=
  match padArgs b args with
  | Option.none => .error .typeError
  | some full =>
    bindE (exec call b.body (Env.ofArgs full) w) fun r =>
      match r with
      | (.ret v, env, w') => .ok (v, env, w')
      | (.normal, env, w') => .ok (.none, env, w')

/-- `self.<m>(args)` at call depth `d`; a call inside an EXPRESSION must leave the heap as it was (the interpreter's
    expressions are pure). -/
def callAt (prog : Prog) : Nat → CallFn
  | 0 => fun _ _ _ => .error .unmodelled
  | d + 1 => fun m args w =>
    bindE (runBlock (callAt prog d) (prog.get m) args w) fun r =>
      if r.2.2.heap = w.heap then .ok r.1 else .error .unmodelled

/-- the depth the five methods need: a stage predicate calls one method, which calls none -/
def depth : Nat := 2

/-- One stage: the elements (already shown as values by `view`) whose predicate is truthy, in order. -/
def filterE {α : Type} (p : α → Except PyErr Bool) : List α → Except PyErr (List α)
  | [] => .ok []
  | x :: xs => bindE (p x) fun b => bindE (filterE p xs) fun r => .ok (if b then x :: r else r)

/-- The stages in the order they were stacked, each evaluated in the frame's final variables `env` and world. -/
def applyStages {α : Type} (call : CallFn) (env : Env) (world : α → World) (view : α → Val) :
    List Stage → List α → Except PyErr (List α)
  | [], l => .ok l
  | st :: rest, l =>
    bindE (filterE (fun x => bindE (eval call (world x) (env.set st.param (view x)) st.body) (truthy (world x))) l)
      fun l' => applyStages call env world view rest l'

/-- the caller's optional class-list argument as a value, and the heap that holds it -/
def argHeap (cfg : Cfg) (arg : Option (List Nat)) : Heap × Val :=
  match arg with
  | Option.none => ({ cfg := cfg }, .none)
  | some l => ({ cfg := cfg, locs := [l] }, .ref (.loc 0))

/-- `self._is_eventid_allowed(event_id, filter_class)` -/
def runIsEventidAllowed (prog : Prog) (cfg : Cfg) (eventid : Nat) (arg : Option (List Nat)) : Except PyErr Val :=
  callAt prog depth .isEventidAllowed [.int eventid, (argHeap cfg arg).2] { heap := (argHeap cfg arg).1 }

/-- A listing method consumed to the end on the stream `items`: the elements that survive all stages. -/
def runListing (prog : Prog) (b : Block) (args : List Val) (h : Heap) (items : List Item) : Except PyErr (List Item) :=
  bindE (runBlock (callAt prog depth) b args { heap := h }) fun r =>
    match r with
    | (.stream .parse stages, env, w) => applyStages (callAt prog depth) env (fun _ => w) Val.item stages items
    | _ => .error .unmodelled

/-- `list(self.kevents(kdebug, filter_class))` -/
def runKevents (prog : Prog) (cfg : Cfg) (arg : Option (List Nat)) (items : List Item) : Except PyErr (List Item) :=
  runListing prog prog.kevents [.kdebug, (argHeap cfg arg).2] (argHeap cfg arg).1 items

/-- `list(self.os_log_events(kdebug))` -/
def runOsLogEvents (prog : Prog) (cfg : Cfg) (items : List Item) : Except PyErr (List Item) :=
  runListing prog prog.osLogEvents [.kdebug] { cfg := cfg } items

/-- `self._filter_process_callback(trace)` for a trace whose first record is `first`, on the tables as they are then. -/
def runFilterProcessCallback (prog : Prog) (cfg : Cfg) (t : Tables) (first : Kevent) : Except PyErr Val :=
  callAt prog depth .filterProcessCallback [.trace first] { heap := { cfg := cfg }, tabs := t }

/-- What a `traces()` request sets up, and what its post-filter stages keep of the traces the `TracesParser` yields. -/
structure TracesRun (α : Type) where
  /-- the `TracesParser` got the caller's code table (else `default_trace_codes()`) -/
  codesGiven : Bool
  /-- the class list `self.kevents` is handed, as it is when the request is consumed (`none`: `None`) -/
  classArg : Option (List Nat)
  /-- the parser's filter attributes when the method has returned -/
  cfgAfter : Cfg
  /-- the traces that pass the post-filter stages -/
  out : List α

/-- `self.traces(kdebug, trace_codes)`; the traces the parser yields are `l`, `view` shows of each its first record
    and the shared tables at the moment it is yielded. -/
def runTraces {α : Type} (view : α → Kevent × Tables) (prog : Prog) (cfg : Cfg) (codesGiven : Bool) (l : List α) :
    Except PyErr (TracesRun α) :=
  bindE (runBlock (callAt prog depth) prog.traces [.kdebug, if codesGiven then .codes true else .none] { heap := { cfg := cfg } })
    fun r =>
      match r with
      | (.stream (.traces g fc) stages, env, w) =>
        bindE (match fc with
               | Option.none => .ok Option.none
               | some r => (match w.heap.deref r with | some c => .ok (some c) | Option.none => .error .unmodelled))
          fun ca =>
            bindE (applyStages (callAt prog depth) env (fun x => { heap := w.heap, tabs := (view x).2 })
                    (fun x => .trace (view x).1) stages l)
              fun out => .ok { codesGiven := g, classArg := ca, cfgAfter := w.heap.cfg, out := out }
      | _ => .error .unmodelled

/-! ### `.unsupported` nodes -/

def Expr.hasUnsupported : Expr → Bool
  | .unsupported _ => true
  | .field e _ | .isLog e | .not e | .isNone e | .strOf e | .call1 _ e | .shr e _ => e.hasUnsupported
  | .index a b | .and a b | .or a b | .eq a b | .isIn a b | .call2 _ a b | .anyFilter _ a b =>
    a.hasUnsupported || b.hasUnsupported
  | .inPair a b c | .get a b c | .ifExp a b c | .parseStream a b c =>
    a.hasUnsupported || b.hasUnsupported || c.hasUnsupported
  | .feedKevents a b c d e =>
    a.hasUnsupported || b.hasUnsupported || c.hasUnsupported || d.hasUnsupported || e.hasUnsupported
  | _ => false

def Stmt.hasUnsupported : Stmt → Bool
  | .unsupported _ => true
  | .done => false
  | .ret e => e.hasUnsupported
  | .assign _ e n | .assignList _ e n => e.hasUnsupported || n.hasUnsupported
  | .assignFilter _ _ p s n => p.hasUnsupported || s.hasUnsupported || n.hasUnsupported
  | .append l x n => l.hasUnsupported || x.hasUnsupported || n.hasUnsupported
  | .ite c t e n => c.hasUnsupported || t.hasUnsupported || e.hasUnsupported || n.hasUnsupported

def Prog.hasUnsupported (p : Prog) : Bool :=
  p.isEventidAllowed.body.hasUnsupported || p.kevents.body.hasUnsupported || p.osLogEvents.body.hasUnsupported ||
  p.traces.body.hasUnsupported || p.filterProcessCallback.body.hasUnsupported

end KdVerif.PyIRFl
