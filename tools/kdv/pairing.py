"""Shared by the C04 / C05 check modules: history generators, the real TracesParser under recording stub
handlers, and the DECLARATIVE oracle (a direct transcription of Spec/Pairing: open_at / accepted / win —
no tables, no state machine)."""
from . import core, impl  # noqa: F401  (impl puts REPO_DIR first on sys.path and checks the import origin)

# ------------------------------------------------------------------------------------------------------
# cases
#
# A case is JSON-able:
#   {'codes': [[eid, name | None, has_handler], ...],     the alphabet (name None = id unknown to trace_codes)
#    'events': [[timestamp, tid, eid, qualifier, [a0, a1, a2, a3]], ...],
#    'style': str}
# ------------------------------------------------------------------------------------------------------

ORDINARY_NAMES = ['BSC_read', 'BSC_write', 'MACH_vmfault', 'XYZ_custom', 'MSC_mach_msg_trap', 'VFS_LOOKUP',
                  'DYLD_uuid_map_a', 'PERF_Event', 'BSC_open', 'TURNSTILE_x']
UNDECODED_NAMES = ['KTrap_Debug', 'IOKIT_foo', 'NET_bar', 'FOO_without_decoder']


def trace_domain_names():
    """The names that select the second table (`on_going_traces`) — read from the repository."""
    from pykdebugparser.trace_handlers.trace import handlers
    return sorted(handlers)


def make_alphabet(rng, n_dec=4, n_trace=3, n_trace_nohandler=1, n_undec=2, n_unknown=2, pool=None):
    """~12 codes: decodable ordinary / trace-domain (with and without handler) / known-but-undecoded /
    unknown id.  Event ids are arbitrary multiples of 4 below 2^32 (incl. the extremes now and then).
    pool (optional, `name_pool()`): one or two of the decodable and of the undecoded names are then REAL names — registered
    handler names, names the source mentions, names of the bundled table — instead of the synthetic ones (the generator
    stream without a pool is unchanged)."""
    tnames = trace_domain_names()
    total = n_dec + n_trace + n_trace_nohandler + n_undec + n_unknown
    eids = set()
    if rng.random() < 0.15:
        eids.add(0)
    if rng.random() < 0.15:
        eids.add(0xfffffffc)
    while len(eids) < total:
        cls = rng.choice([1, 3, 4, 5, 7, 0x1f, 0x25, 0x31, 0xff])
        eids.add(((cls << 24) | (rng.randrange(0, 4) << 16) | (rng.randrange(0, 8) << 2)) & 0xfffffffc)
    eids = list(eids)
    rng.shuffle(eids)
    codes = []
    names = rng.sample(ORDINARY_NAMES, n_dec)
    tn = rng.sample(tnames, n_trace + n_trace_nohandler)
    un = rng.sample(UNDECODED_NAMES, n_undec)
    if pool:
        tset = set(tnames)
        for k in range(rng.choice([1, 1, 2])):
            cand = rng.choice(pool['decodable'])
            if k < n_dec and cand not in names and cand not in tset:
                names[k] = cand
        for k in range(rng.choice([1, 1, 2])):
            cand = rng.choice(pool['undecoded'])
            if k < n_undec and cand not in un and cand not in names and cand not in tset:
                un[k] = cand
    for i in range(n_dec):
        codes.append([eids.pop(), names[i], True])
    for i in range(n_trace):
        codes.append([eids.pop(), tn[i], True])
    for i in range(n_trace_nohandler):
        codes.append([eids.pop(), tn[n_trace + i], False])
    for i in range(n_undec):
        codes.append([eids.pop(), un[i], False])
    for i in range(n_unknown):
        codes.append([eids.pop(), None, False])
    rng.shuffle(codes)
    return codes


def pick_tids(rng, n):
    pool = [0, 1, 2, 3, 0x1234, 0xffffffff, 0x100000000, (1 << 63) + 5, (1 << 64) - 1, 77, 78]
    return rng.sample(pool, n)


def gen_program(rng, eids, n, style, p_start=0.35, p_end=0.35):
    """[(eid, q)] for ONE thread, with high rates of unmatched / repeated / nested / crossing pairs."""
    out = []
    open_ = []          # generator-side bookkeeping only (chooses *which* END to write)
    for _ in range(n):
        r = rng.random()
        if r < p_start:
            if open_ and rng.random() < 0.25:
                e = rng.choice(open_)                     # repeated START of an open code (re-open)
            else:
                e = rng.choice(eids)
            out.append((e, 1))
            open_.append(e)
        elif r < p_start + p_end:
            if open_ and rng.random() < 0.7:
                if style == 'nested':
                    e = open_[-1]
                elif style == 'crossing':
                    e = open_[0]
                else:
                    e = rng.choice(open_)
                open_ = [x for x in open_ if x != e]
                out.append((e, 2))
                if rng.random() < 0.12:
                    out.append((e, 2))                    # the same END twice: the second is stray
            else:
                out.append((rng.choice(eids), 2))         # (very likely) stray END
        else:
            out.append((rng.choice(eids), rng.choice([0, 3])))
    return out


def gen_history_case(rng, style=None, maxlen=40, pool=None):
    codes = make_alphabet(rng, pool=pool)
    eids = [c[0] for c in codes]
    ntids = rng.randint(1, 4)
    tids = pick_tids(rng, ntids)
    style = style or rng.choice(['random', 'nested', 'crossing', 'start-heavy', 'end-heavy'])
    n = rng.randint(0, maxlen)
    ps, pe = {'start-heavy': (0.55, 0.25), 'end-heavy': (0.25, 0.55)}.get(style, (0.35, 0.35))
    # one program per thread, then a random merge: every thread gets its own open-set bookkeeping
    progs = {t: gen_program(rng, eids, n, style, ps, pe) for t in tids}
    pos = {t: 0 for t in tids}
    events = []
    for i in range(n):
        t = rng.choice(tids)
        e, q = progs[t][pos[t]]
        pos[t] += 1
        events.append([i, t, e, q, [rng.getrandbits(64) for _ in range(4)]])
    return {'codes': codes, 'events': events, 'style': style}


# ------------------------------------------------------------------------------------------------------
# every real name in every role of a pairing history
#
# The pairing machine may not care WHICH code a record carries beyond (domain, thread, code identity).  A change that
# singles out one code — by its name in the table (`trace_codes[...] == 'INTERRUPT'`), by a name list, by its id — is
# invisible to histories over a synthetic alphabet.  So every name the package can possibly single out is put, in turn,
# into every role of a small set of scripted histories: the registered handler names, every string literal of the source
# that is or looks like a trace name (tools/kdv/mined.py), and names of the bundled table that have no decoder (a few on
# the quick tier of an unchanged tree, all of them otherwise).
# ------------------------------------------------------------------------------------------------------

GENERIC_A = ('XYZ_custom', 'XYZ_other')            # generic decodable partner (not in the bundled table)
GENERIC_B = ('BSC_read', 'BSC_write')              # the filler record r is a NONE-qualified record of this code
NAME_SHAPES = ('nested-in-A', 'A-nested-in-N', 'N-closed-before-filler', 'N-single-q0', 'N-single-q3', 'N-reopened',
               'two-threads', 'N-never-closed', 'two-threads-N-never-closed', 'N-first-never-closed')

_POOL = {}


def name_pool(tier='quick', changed=None):
    """{'handlers': registered handler names, 'mined': name-like string literals of the source, 'table': names of the
    bundled table without decoder (a sample on the quick tier of an unchanged tree), 'decodable' / 'undecoded': the two
    classes `make_alphabet` draws from, 'all': every name once, names mentioned by changed files first}."""
    from . import mined
    changed = mined.changed_files() if changed is None else changed
    key = (tier, tuple(changed))
    if key in _POOL:
        return _POOL[key]
    p = real_parser()
    handlers = list(p.handlers)
    hset = set(handlers)
    mnames = mined.all_names(changed, tier)
    table = sorted(set(p.trace_codes.values()) - hset)
    if tier == 'quick' and not changed:
        # a spread over the sorted table (the name families of the kernel's code space are all hit)
        step = max(1, len(table) // 24)
        table = table[::step]
    every = list(dict.fromkeys(mnames + handlers + table))
    tn = set(trace_domain_names())
    pool = {'handlers': handlers, 'mined': mnames, 'table': table, 'all': every,
            'decodable': [n for n in dict.fromkeys(handlers + mnames) if n not in tn],
            'undecoded': [n for n in dict.fromkeys(mnames + table) if n not in hset and n not in tn]}
    _POOL[key] = pool
    return pool


def name_role_cases(names, handler_names=None):
    """Scripted histories with the name N in every role, for every N of `names`.  A = generic decodable code, r = a
    NONE-qualified filler record of a third code B; S/E = START/END:
       [S A, r, S N, r, E A, E N]   [S N, S A, r, E N, E A]   [S A, S N, E N, r, E A]   [S A, N(q=0), r, E A]
       [S A, N(q=3), r, E A]        [S N, r, S N, r, E N]     two threads: [S A t1, S N t2, r t1, r t2, E A t1, E N t2]
       and with N's START never closed: [S A, S N, r, E A], [S A t1, S N t2, r t1, r t2, E A t1], [S N, S A, r, E A].
    N carries its REAL id when the bundled table knows the name (a change may single the code out by id), is decodable iff
    a handler is registered under it (names without a handler moreover once as decodable: the stubs make any name
    decodable); a trace-domain N is moreover paired with a trace-domain partner A (same table)."""
    p = real_parser()
    hset = set(p.handlers) if handler_names is None else set(handler_names)
    inv = {}
    for k, v in p.trace_codes.items():
        inv.setdefault(v, k)
    tn = sorted(trace_domain_names())
    t1, t2 = 0x1234, 77
    out = []
    for N in names:
        A = GENERIC_A[0] if N != GENERIC_A[0] else GENERIC_A[1]
        B = GENERIC_B[0] if N != GENERIC_B[0] else GENERIC_B[1]
        partners = [A] + ([next(x for x in tn if x != N)] if N in tn else [])
        flags = [N in hset] + ([True] if N not in hset else [])
        for pi, An in enumerate(partners):
            for fi, dec in enumerate(flags):
                eB = inv[B]
                eN = inv.get(N, 0x2e0b0c00)
                eA = inv.get(An, 0x2f0f0f00)
                while eA in (eN, eB):
                    eA += 4
                while eN in (eA, eB):
                    eN += 4
                codes = [[eA, An, True], [eN, N, dec], [eB, B, True]]
                SA, EA, SN, EN_, r = (eA, 1), (eA, 2), (eN, 1), (eN, 2), (eB, 0)
                hs_ = {
                    'nested-in-A': [(t1,) + SA, (t1,) + r, (t1,) + SN, (t1,) + r, (t1,) + EA, (t1,) + EN_],
                    'A-nested-in-N': [(t1,) + SN, (t1,) + SA, (t1,) + r, (t1,) + EN_, (t1,) + EA],
                    'N-closed-before-filler': [(t1,) + SA, (t1,) + SN, (t1,) + EN_, (t1,) + r, (t1,) + EA],
                    'N-single-q0': [(t1,) + SA, (t1, eN, 0), (t1,) + r, (t1,) + EA],
                    'N-single-q3': [(t1,) + SA, (t1, eN, 3), (t1,) + r, (t1,) + EA],
                    'N-reopened': [(t1,) + SN, (t1,) + r, (t1,) + SN, (t1,) + r, (t1,) + EN_],
                    'two-threads': [(t1,) + SA, (t2,) + SN, (t1,) + r, (t2,) + r, (t1,) + EA, (t2,) + EN_],
                    'N-never-closed': [(t1,) + SA, (t1,) + SN, (t1,) + r, (t1,) + EA],
                    'two-threads-N-never-closed': [(t1,) + SA, (t2,) + SN, (t1,) + r, (t2,) + r, (t1,) + EA],
                    'N-first-never-closed': [(t1,) + SN, (t1,) + SA, (t1,) + r, (t1,) + EA],
                }
                shapes = NAME_SHAPES if (pi == 0 and fi == 0) or pi > 0 and fi == 0 else \
                    ('nested-in-A', 'N-single-q0', 'N-reopened')
                for nm in shapes:
                    out.append({'codes': codes, 'name': N,
                                'events': [[i, t, e, q, [0, 0, 0, 0]] for i, (t, e, q) in enumerate(hs_[nm])],
                                'style': 'names-' + nm})
    return out


# ------------------------------------------------------------------------------------------------------
# protocol lines
# ------------------------------------------------------------------------------------------------------

def rec_hex(ev):
    ts, tid, eid, q, args = ev
    return impl.record_args(ts, args, tid, eid | q).hex()


def nat_list(xs):
    return ','.join(str(x) for x in xs) or '-'


def dom_dec(case):
    tn = set(trace_domain_names())
    dom = sorted(c[0] for c in case['codes'] if c[1] is not None and c[1] in tn)
    dec = sorted(c[0] for c in case['codes'] if c[1] is not None and c[2])
    return dom, dec


def line(cmd, case):
    dom, dec = dom_dec(case)
    head = [cmd, nat_list(dom)] + ([nat_list(dec)] if cmd != 'pair' else [])
    return ' '.join(head + [rec_hex(e) for e in case['events']])


# ------------------------------------------------------------------------------------------------------
# the real implementation
# ------------------------------------------------------------------------------------------------------

class Rec:
    """What a recording stub returns: only `.ktraces`, like every real trace object."""

    def __init__(self, name, events):
        self.name = name
        self.ktraces = events


def stub_parser(case):
    """The real TracesParser over the case's small `codes` dict; `parser.handlers` replaced by recording
    stubs for exactly the names flagged decodable.  Which table an event uses is still decided by the real
    `trace_handlers` membership test inside `feed`."""
    from pykdebugparser.traces_parser import TracesParser
    codes = {c[0]: c[1] for c in case['codes'] if c[1] is not None}
    parser = TracesParser(codes, prepopulated_threads(case), {})

    def mk(name):
        return lambda p, events: Rec(name, events)
    parser.handlers = {c[1]: mk(c[1]) for c in case['codes'] if c[1] is not None and c[2]}
    return parser


_real_codes = None


def prepopulated_threads(case):
    """The thread/process table the parser is CONSTRUCTED with: in every other case it already lists all threads of
    the stream (as when a PyKdebugParser object is reused, or a thread map was parsed first) — the windows of
    different threads must stay separate whatever the table held at construction time."""
    if case is None or len(case.get('events', ())) % 2 == 0:
        return {}
    return {ev[1]: 1 + i for i, ev in enumerate(case['events'])}


def real_parser(case=None):
    from pykdebugparser.trace_codes import default_trace_codes
    from pykdebugparser.traces_parser import TracesParser
    global _real_codes
    if _real_codes is None:
        _real_codes = default_trace_codes()
    return TracesParser(dict(_real_codes), prepopulated_threads(case), {})


REAL_NAMES = ['BSC_read', 'BSC_write', 'BSC_getpid', 'MACH_SCHED', 'TRACE_DATA_EXEC', 'TRACE_STRING_PROC_EXIT',
              'TRACE_DATA_THREAD_TERMINATE', 'KTrap_Debug']
UNKNOWN_REAL_ID = 0x0badc0d0


def real_alphabet():
    """A few really decodable codes looked up BY NAME in default_trace_codes(), one known-but-undecoded name
    and one id the table does not know."""
    p = real_parser()
    inv = {}
    for k, v in p.trace_codes.items():
        inv.setdefault(v, k)
    codes = [[inv[n], n, n in p.handlers] for n in REAL_NAMES]
    assert UNKNOWN_REAL_ID not in p.trace_codes
    codes.append([UNKNOWN_REAL_ID, None, False])
    return codes


def real_args(rng):
    """In-domain argument words for the real decoders: small integers, or ASCII text; every byte < 0x80
    because the string record decodes its 32 data bytes as UTF-8."""
    if rng.random() < 0.3:
        return [int.from_bytes(bytes(rng.choice(b'abcdefghijklmnopqrstuvwxyz/._-') for _ in range(8)), 'little')
                for _ in range(4)]
    return [rng.choice([0, 0, 1, 2, 3, 9, 13, 35, 100, 4096]),
            rng.randrange(0, 128) | (rng.randrange(0, 128) << 8),
            rng.randrange(0, 128) | (rng.randrange(0, 16) << 8), rng.randrange(0, 64)]


def kevents(case):
    from pykdebugparser.kevent import from_kd_buf
    return [from_kd_buf(bytes.fromhex(rec_hex(e))) for e in case['events']]


def ts_list(events):
    return ','.join(str(e.timestamp) for e in events)


def feed_all(parser, events, observe_gate):
    """Per event: None (nothing delivered), or (window timestamps, trace-or-None, trace.ktraces timestamps
    at that moment).  With `observe_gate` the
    bound method `parse_event_list` is wrapped on the instance so that windows dropped by the gate are seen
    too; without it only the public return value of `feed` is used."""
    seen = []
    if observe_gate:
        orig = parser.parse_event_list

        def wrapper(evs):
            seen.append(list(evs))
            return orig(evs)
        parser.parse_event_list = wrapper
    out = []
    for ev in events:
        del seen[:]
        r = parser.feed(ev)
        if observe_gate:
            now = None if r is None else ts_list(r.ktraces)
            if len(seen) > 1:
                out.append(('multi', None, now))
            elif not seen:
                out.append(None if r is None else ('unseen', r, now))
            else:
                out.append((ts_list(seen[0]), r, now))
        else:
            out.append(None if r is None else (ts_list(r.ktraces), r, ts_list(r.ktraces)))
    return out


def show_window(w, r, at_feed):
    """One delivered window as the driver prints it; deviations of the trace object's own list are made
    visible (`!=`: the handler got / kept another list; `~later`: the list changed after delivery)."""
    if r is None:
        return w + '*'
    s = at_feed if at_feed == w else at_feed + '!=' + w
    if ts_list(r.ktraces) != at_feed:
        s += '~later:' + ts_list(r.ktraces)
    return s


def show_per_event(parser_factory, case):
    """Canonical answer as `pairg` prints it.  The run is done twice, once through the public API only and
    once with the gate observed; they must tell the same story."""
    evs = kevents(case)
    plain = feed_all(parser_factory(), evs, False)
    obs = feed_all(parser_factory(), evs, True)
    # the entry point the package itself uses: feed_generator must deliver exactly what feed returns, in order
    try:
        via_gen = [ts_list(r.ktraces) for r in parser_factory().feed_generator(iter(evs))]
    except Exception as e:
        return 'err feed_generator-raises-' + core.err_name(e)
    if via_gen != [p[0] for p in plain if p is not None]:
        return 'err feed_generator-differs-from-feed'
    parts = []
    for p, o in zip(plain, obs):
        if o is None:
            if p is not None:
                return 'err observer-inconsistent'
            parts.append('-')
            continue
        w, r, at_feed = o
        if w in ('multi', 'unseen'):
            return 'err parse_event_list-' + w
        if (r is None) != (p is None) or (p is not None and p[0] != at_feed):
            return 'err observer-inconsistent'
        parts.append(show_window(w, r, at_feed))
    return 'ok ' + ';'.join(parts)


def show_per_thread(parser_factory, case):
    """Canonical answer as `pairt` prints it: windows grouped by the tid of their first event."""
    evs = kevents(case)
    obs = feed_all(parser_factory(), evs, True)
    tids = sorted({e.tid for e in evs})
    per = {t: [] for t in tids}
    by_ts = {e.timestamp: e for e in evs}
    for o in obs:
        if o is None:
            continue
        w, r, at_feed = o
        if w in ('multi', 'unseen') or w == '':
            return 'err parse_event_list-' + (w or 'empty')
        first = by_ts[int(w.split(',')[0])]
        per[first.tid].append(show_window(w, r, at_feed))
    return 'ok ' + ';'.join('%d:%s' % (t, '|'.join(per[t])) for t in tids)


# ------------------------------------------------------------------------------------------------------
# the declarative oracle (Spec/Pairing transcribed; history = list of (ts, tid, eid, q), oldest first)
# ------------------------------------------------------------------------------------------------------

class Spec:
    def __init__(self, case):
        tn = set(trace_domain_names())
        names = {c[0]: c[1] for c in case['codes']}
        self.dom = {c[0]: (c[1] is not None and c[1] in tn) for c in case['codes']}
        self.dec = {c[0]: (c[1] is not None and bool(c[2])) for c in case['codes']}
        self.names = names
        self.h = [(e[0], e[1], e[2], e[3]) for e in case['events']]
        # accepted(h[:j], h[j]) depends on j only: tabulated once (still the declarative definition)
        # (a record that is not an END is accepted whatever came before: the prefix is only built for ENDs, which keeps
        # histories of 10^5 records affordable)
        self.acc = [x[3] != 2 or self.accepted(self.h[:j], x) for j, x in enumerate(self.h)]

    def key(self, x):
        return (self.dom.get(x[2], False), x[1], x[2])

    def same_td(self, k, x):
        return self.dom.get(x[2], False) == k[0] and x[1] == k[1]

    def open_at(self, h, k):
        """the last START-or-END of key k in h exists and is a START"""
        marks = [x for x in h if self.key(x) == k and x[3] in (1, 2)]
        return bool(marks) and marks[-1][3] == 1

    def accepted(self, h, x):
        return x[3] != 2 or self.open_at(h, self.key(x))

    def win(self, k, n):
        """window of key k after the first n events"""
        starts = [i for i in range(n) if self.key(self.h[i]) == k and self.h[i][3] == 1]
        if not starts:
            return []
        i = starts[-1]
        return [self.h[i]] + [self.h[j] for j in range(i + 1, n) if self.same_td(k, self.h[j]) and self.acc[j]]

    def emit(self, n):
        """what feeding h[n] after h[:n] delivers"""
        e = self.h[n]
        if e[3] == 1:
            return None
        if e[3] == 2:
            k = self.key(e)
            return self.win(k, n) + [e] if self.open_at(self.h[:n], k) else None
        return [e]

    def expected_per_event(self):
        out = []
        for n in range(len(self.h)):
            w = self.emit(n)
            if w is None:
                out.append('-')
            else:
                s = ','.join(str(x[0]) for x in w)
                out.append(s if self.dec.get(w[0][2], False) else s + '*')
        return out


def classify(spec, i, exp, got):
    """Stable signature for the first differing event."""
    e = spec.h[i]
    kind = {1: 'start', 2: 'end'}.get(e[3], 'single')
    if exp == '-':
        return 'pairing:%s-delivers-unexpected-window' % ('stray-end' if kind == 'end' else kind)
    if got == '-':
        return 'pairing:%s-delivers-nothing' % ('matched-end' if kind == 'end' else kind)
    if '~later' in got:
        return 'pairing:delivered-list-changes-later'
    if got.endswith('*') != exp.endswith('*'):
        return 'pairing:decodability-gate'
    if '!=' in got:
        return 'pairing:trace-holds-other-list'
    try:
        g = [int(x) for x in got.rstrip('*').split(',')]
    except ValueError:
        return 'pairing:malformed-window'
    x = [int(v) for v in exp.rstrip('*').split(',')]
    by = {y[0]: y for y in spec.h}
    if any(t not in by for t in g):
        return 'pairing:window-has-unknown-event'
    if g[0] != x[0]:
        return 'pairing:window-head-not-last-start'
    if g[-1] != x[-1]:
        return 'pairing:window-last-not-the-end'
    if any(by[t][1] != e[1] for t in g):
        return 'pairing:window-has-foreign-thread-event'
    if any(spec.dom.get(by[t][2], False) != spec.dom.get(e[2], False) for t in g):
        return 'pairing:window-has-other-domain-event'
    if len(set(g)) != len(g):
        return 'pairing:window-duplicates'
    if g != sorted(g):
        return 'pairing:window-out-of-order'
    if any(t < x[0] for t in g):
        return 'pairing:window-outside-interval'
    if set(x) - set(g):
        return 'pairing:window-misses-event'
    return 'pairing:window-has-stray-end'


def oracle_per_event(case, got):
    spec = Spec(case)
    exp = spec.expected_per_event()
    if got.startswith('err feed_generator'):
        return ('pairing:feed-generator-differs-from-feed', 'TracesParser.feed_generator over the history does not deliver, in order, '
                'the traces TracesParser.feed returns record by record (%s)' % got[4:])
    if not got.startswith('ok'):
        return ('pairing:raises', 'feeding the history failed: ' + got)
    body = got[3:]
    parts = body.split(';') if body else []
    if len(parts) != len(exp):
        return ('pairing:answer-count', '%d answers for %d events' % (len(parts), len(exp)))
    for i, (x, g) in enumerate(zip(exp, parts)):
        if x != g:
            return (classify(spec, i, x, g),
                    'event #%d (tid %d, code %#x, qualifier %d): expected %s, delivered %s'
                    % (i, spec.h[i][1], spec.h[i][2], spec.h[i][3], brief(x), brief(g)))
    return None


def brief(window, keep=12):
    """A window of thousands of records is described by its ends and its length."""
    items = window.split(',')
    if len(items) <= 2 * keep + 4:
        return window
    return '%s,...(%d records in all)...,%s' % (','.join(items[:keep]), len(items), ','.join(items[-keep:]))


def has_multi_window(got):
    return any(',' in p for p in got[3:].split(';'))


# ------------------------------------------------------------------------------------------------------
# shrinking of failing inputs (greedy event removal while the same signature is reported)
# ------------------------------------------------------------------------------------------------------

def drop_event(case, i):
    c = dict(case)
    ts = case['events'][i][0]
    c['events'] = case['events'][:i] + case['events'][i + 1:]
    if 'programs' in case:
        c['programs'] = [[t, [x for x in p if x[0] != ts]] for t, p in case['programs']]
    return c


def shrink_failures(rep, section, impl_fn, oracle_fn, line_fn, budget=4000, seconds=25.0, expand=None):
    """Replace the recorded failing case of each signature of `section` by a locally minimal one: blocks of events are
    removed first (halving the block size), then single events; bounded by `budget` attempts and `seconds` of wall time per
    signature (a window that fails only beyond thousands of records stays that long).  expand: turns a compactly recorded
    case into one with an explicit event list."""
    import time
    done = set()
    for f in rep.failures:
        rp = f['replay']
        if rp.get('section') != section or f['signature'] in done:
            continue
        done.add(f['signature'])
        case = expand(rp['case']) if expand else rp['case']
        deadline = time.time() + seconds
        left = [budget]

        def fails(c):
            try:
                got = impl_fn(c)
            except Exception as e:
                got = 'err ' + core.err_name(e)
            r = oracle_fn(c, got)
            return (r, got) if r and r[0] == f['signature'] else None

        def spent():
            return left[0] <= 0 or time.time() > deadline
        last = None
        block = len(case['events']) // 2
        while block >= 2 and not spent():                       # coarse passes: drop whole blocks
            i = 0
            while i < len(case['events']) and not spent():
                left[0] -= 1
                cand = case
                for j in reversed(range(i, min(i + block, len(case['events'])))):
                    cand = drop_event(cand, j)
                r = fails(cand)
                if r:
                    case, last = cand, r
                else:
                    i += block
            block //= 2
        changed = True
        while changed and not spent():
            changed = False
            for i in reversed(range(len(case['events']))):
                left[0] -= 1
                cand = drop_event(case, i)
                r = fails(cand)
                if r:
                    case, last, changed = cand, r, True
                if spent():
                    break
        if last:
            (sig, what), got = last
            f['what'] = what
            rp['case'], rp['line'], rp['impl'] = case, line_fn(case)[:4000], got[:2000]
