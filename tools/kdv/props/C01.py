"""C01 — every 64-byte kd_buf record decodes exactly and totally."""
from .. import core
from ..core import run_section

MODULE = 'KdVerif.Props.C01'
NAMESPACE = 'KdVerif.C01'
TRUSTED = ['struct.unpack modelled by Model/Kevent.structUnpack (little-endian, unaligned)',
           'format string and the two masks reflected into Gen/Consts.lean; tuple positions and the "<QQQQ" '
           'argument split are tied by the correspondence section `kevent`']
ASSUMPTIONS = ['bytes objects hold values 0..255 (IsBytes)']


def gen_cases(rng, tier):
    cases = []
    zero = bytearray(64)
    ones = bytearray(b'\xff' * 64)
    for bit in range(512):           # walking one / walking zero: complete for any per-bit affine decoder
        a = bytearray(zero); a[bit // 8] |= 1 << (bit % 8); cases.append(bytes(a))
        b = bytearray(ones); b[bit // 8] &= ~(1 << (bit % 8)) & 0xff; cases.append(bytes(b))
    cases += [bytes(zero), bytes(ones), bytes(range(64)), bytes(range(64, 128)), bytes(reversed(range(192, 256)))]
    for lo, hi in ((0, 8), (8, 40), (40, 48), (48, 52), (52, 56), (56, 64)):   # one field all-ones, rest zero; and inverse
        a = bytearray(zero); a[lo:hi] = b'\xff' * (hi - lo); cases.append(bytes(a))
        b = bytearray(ones); b[lo:hi] = b'\x00' * (hi - lo); cases.append(bytes(b))
    # byte-class fills: every field filled with one repeated byte value, for all 256 values (catches decoders that
    # special-case a class of bytes: whitespace, NUL, 0xff, ASCII …), and whole records of one byte value
    fields = ((0, 8), (8, 40), (40, 48), (48, 52), (52, 56), (56, 64))
    for b in range(256):
        cases.append(bytes([b]) * 64)
        for lo, hi in fields:
            for base in (zero, ones):
                a = bytearray(base); a[lo:hi] = bytes([b]) * (hi - lo); cases.append(bytes(a))
    ws = b' \t\n\r\x0b\x0c'
    for _ in range(64):                                  # whitespace / printable mixes in the argument bytes
        a = bytearray(rng.randbytes(64)); a[8:40] = bytes(rng.choice(ws) for _ in range(32)); cases.append(bytes(a))
        a = bytearray(rng.randbytes(64)); a[8:40] = bytes(rng.randrange(32, 127) for _ in range(32)); cases.append(bytes(a))
    n = 2000 if tier == 'quick' else 60000
    for _ in range(n):
        cases.append(rng.randbytes(64))
    for ln in list(range(0, 64)) + [65, 66, 127, 128]:      # wrong lengths: both sides must reject
        cases.append(rng.randbytes(ln))
    return [c.hex() for c in cases]


FIELDS = (('timestamp', 0, 8), ('arg0', 8, 8), ('arg1', 16, 8), ('arg2', 24, 8), ('arg3', 32, 8), ('tid', 40, 8),
          ('debugid', 48, 4), ('cpuid', 52, 4), ('unused', 56, 8))


def parts_of(width):
    """(name, byte offset inside the field, byte length) of the parts of a little-endian field of `width` bytes."""
    out = [('whole', 0, width), ('low-byte', 0, 1), ('top-byte', width - 1, 1), ('low-16', 0, 2), ('top-16', width - 2, 2)]
    if width == 8:
        out += [('low-32', 0, 4), ('top-32', 4, 4)]
    return out


def gen_coincidences(rng, tier):
    """Records in which a part of one field EQUALS (as a number) a part of another field: for every unordered pair of the
    nine fields of the record and every pair of parts (whole field, low / top byte, low / top 16 bits, low / top 32
    bits), the shared value is written into both parts (zero-extended inside the wider part), the rest of the record
    is a random, an all-zero or an all-ones background.  A decoder that treats such a record specially (a field
    'repaired' when it repeats another one, a byte taken for a cpu number, a sentinel comparison between two
    fields) breaks here and nowhere in walking-bit or random records, where such an equality has probability 2^-8 or less."""
    out = []
    rounds = 1 if tier == 'quick' else 6
    for ia, (na, oa, wa) in enumerate(FIELDS):
        for nb, ob, wb in FIELDS[ia + 1:]:
            for pna, poa, pla in parts_of(wa):
                for pnb, pob, plb in parts_of(wb):
                    n = min(pla, plb)
                    vals = [(1 << (8 * n)) - 1]                                    # boundary: all ones of the narrower part
                    for _ in range(rounds):
                        vals += [rng.randrange(1, 256), rng.randrange(1, 1 << (8 * n))]   # a small number; any number that fits
                    for v in vals:
                        for bg in ('random', 'zero', 'ones'):
                            r = bytearray(rng.randbytes(64) if bg == 'random' else (b'\x00' if bg == 'zero' else b'\xff') * 64)
                            r[oa + poa:oa + poa + pla] = v.to_bytes(pla, 'little')
                            r[ob + pob:ob + pob + plb] = v.to_bytes(plb, 'little')
                            out.append(bytes(r))
                    # near-coincidences: one part is the other plus one / its complement / its byte-swap (within the narrower width)
                    mask = (1 << (8 * n)) - 1
                    v = rng.randrange(1, mask + 1)
                    for u in ((v + 1) & mask, v ^ mask, int.from_bytes(v.to_bytes(n, 'little'), 'big')):
                        r = bytearray(rng.randbytes(64))
                        r[oa + poa:oa + poa + pla] = v.to_bytes(pla, 'little')
                        r[ob + pob:ob + pob + plb] = u.to_bytes(plb, 'little')
                        out.append(bytes(r))
    return [c.hex() for c in out]


def package_constants(rng, tier):
    """Numbers and byte strings that mean something elsewhere in the package: every int / bytes constant of the modules that
    read records and dumps (masks, sizes, file magics, chunk tags), and event ids of the bundled code table (with each
    qualifier), reflected from the package under test."""
    import importlib
    from .. import impl  # noqa: F401
    nums, blobs = set(), set()
    for mn in ('kevent', 'kd_buf_parser', 'pykdebugparser', 'traces_parser'):
        try:
            m = importlib.import_module('pykdebugparser.' + mn)
        except Exception:
            continue
        for k, v in vars(m).items():
            if k.startswith('__'):
                continue
            if isinstance(v, bool):
                continue
            if isinstance(v, int) and 0 <= v < (1 << 64):
                nums.add(v)
            elif isinstance(v, (bytes, bytearray)) and 0 < len(v) <= 32:
                blobs.add(bytes(v))
                if len(v) <= 8:
                    nums.add(int.from_bytes(v, 'little'))
                    nums.add(int.from_bytes(v, 'big'))
    from pykdebugparser.trace_codes import default_trace_codes
    ids = sorted(default_trace_codes())
    for i in rng.sample(ids, min(len(ids), 24 if tier == 'quick' else 400)):
        nums |= {i, i | 1, i | 2, i | 3}
    return sorted(nums), sorted(blobs)


def gen_constants(rng, tier):
    """Every such number in every field (whole, low / top 32 bits where it fits), every such byte string at every offset
    where it fits, on a random and on an all-zero background."""
    nums, blobs = package_constants(rng, tier)
    out = []
    for v in nums:
        for nm, off, w in FIELDS:
            for pn, po, pl in parts_of(w):
                if pn in ('whole', 'low-32', 'top-32') and v < (1 << (8 * pl)):
                    for bg in ('random', 'zero'):
                        r = bytearray(rng.randbytes(64) if bg == 'random' else bytes(64))
                        r[off + po:off + po + pl] = v.to_bytes(pl, 'little')
                        out.append(bytes(r))
    for b in blobs:
        for off in range(0, 65 - len(b)):
            r = bytearray(rng.randbytes(64) if off % 2 else bytes(64))
            r[off:off + len(b)] = b
            out.append(bytes(r))
    return [c.hex() for c in out]


def oracle(hexrec, got):
    """The property stated directly on the implementation's answer (independent of the Lean model)."""
    r = bytes.fromhex(hexrec)
    if len(r) != 64:
        return None if got.startswith('err') else ('kevent:accepts-wrong-length', 'a %d-byte buffer decoded' % len(r))
    if not got.startswith('ok '):
        return ('kevent:raises', 'a 64-byte record raised ' + got)
    f = got.split()
    ts, data, v, tid, dbg, eid, q = int(f[1]), bytes.fromhex(f[2]), [int(x) for x in f[3:7]], int(f[7]), int(f[8]), \
        int(f[9]), int(f[10])
    exp_dbg = int.from_bytes(r[48:52], 'little')
    checks = [
        ('timestamp', ts == int.from_bytes(r[0:8], 'little')),
        ('data', data == r[8:40]),
        ('values', v == [int.from_bytes(r[8 + 8 * i:16 + 8 * i], 'little') for i in range(4)]),
        ('tid', tid == int.from_bytes(r[40:48], 'little')),
        ('debugid', dbg == exp_dbg),
        ('eventid', eid == exp_dbg - exp_dbg % 4),
        ('qualifier', q == exp_dbg % 4),
        ('reassemble', (eid | q) == exp_dbg and (eid & q) == 0),
    ]
    for nm, ok in checks:
        if not ok:
            return ('kevent:' + nm, f'field {nm} of the decoded record is not the little-endian field of the record')
    return None


def impl_fn(hexrec):
    from ..impl import show_kevent
    from pykdebugparser.kevent import from_kd_buf
    return show_kevent(from_kd_buf(bytes.fromhex(hexrec)))


def battery():
    """Compact boundary battery: walking one / walking zero over the 52 decoded bytes, all-zero, all-ones."""
    out = [bytes(64), b'\xff' * 64, bytes(range(1, 65))]
    for bit in range(52 * 8):
        a = bytearray(64); a[bit // 8] |= 1 << (bit % 8); out.append(bytes(a))
        b = bytearray(b'\xff' * 64); b[bit // 8] &= ~(1 << (bit % 8)) & 0xff; out.append(bytes(b))
    return out


def history_section(rep, rng, tier):
    """Decoding is a pure function of the record: it must not depend on what the process did before.  Each history
    parses a whole dump first (version 2 with every is-64-bit word, version 3 with each header field in turn 0 / 1 /
    all-ones) through KdBufParser and through PyKdebugParser, checks every event the dump itself yields, and then decodes the
    boundary battery directly."""
    import io
    import struct
    from .. import streams
    from ..impl import show_kevent
    from pykdebugparser.kevent import from_kd_buf
    from pykdebugparser.kd_buf_parser import KdBufParser
    from pykdebugparser.pykdebugparser import PyKdebugParser
    sec = rep.section('kevent-history')
    sec['rule'] = ('from_kd_buf on the boundary battery (walking one / zero over bytes 0..51) after the process has parsed a '
                   'dump: v2 with is_64_bit in {0, 1, 2^32-1}, v3 with each of the 12 header words set to 0 / 1 / all-ones in '
                   'turn; the events the dump itself yields (its records are battery records) are checked as well')
    bat = battery()
    inner = [r for r in bat if r[0] != 0][:40] + [b'\x01' + bytes(6) + b'\xff' + bytes(56), b'\xff' * 64]
    sizes = 'IIQIIQQIIIII'
    histories = [('v2 is64=%d' % v, streams.v2_file([(7, 42, 'launchd')], inner, is64=v)) for v in (0, 1, 2 ** 32 - 1)]
    for i, c in enumerate(sizes):
        top = (1 << (32 if c == 'I' else 64)) - 1
        for v in (0, 1, top):
            hf = list(streams.V3_HEADER)
            hf[i] = v
            histories.append(('v3 header word %d = %#x' % (i, v), streams.v3_file([(7, 42, 'launchd')], inner, None, None, tuple(hf))))
    if tier == 'quick':
        histories = histories[:3] + rng.sample(histories[3:], 14)
    lines = ['kevent ' + r.hex() for r in bat]
    model = core.drive(lines)
    for what, data in histories:
        for route in ('KdBufParser', 'PyKdebugParser'):
            try:
                if route == 'KdBufParser':
                    evs = list(KdBufParser({}, {}).parse(io.BytesIO(data)))
                else:
                    evs = list(PyKdebugParser().kevents(io.BytesIO(data)))
            except Exception:
                evs = None                      # a header this dump format does not allow: still a history
            if evs is not None:
                for r, e in zip(inner, [e for e in evs if hasattr(e, 'debugid')]):
                    sec['cases'] += 1
                    res = oracle(r.hex(), show_kevent(e))
                    if res:
                        rep.add_failure(res[0], 'record inside a dump (%s, through %s): %s' % (what, route, res[1]),
                                        {'section': 'kevent-history', 'history': what, 'dump': data.hex(), 'case': r.hex()})
                        break
            bad = None
            for r, m in zip(bat, model):
                sec['cases'] += 1
                try:
                    got = show_kevent(from_kd_buf(r))
                except Exception as e:
                    got = 'err ' + core.err_name(e)
                if got != m:
                    sec['mismatches'] += 1
                res = oracle(r.hex(), got)
                if res and not bad:
                    bad = (res, r)
            if bad:
                res, r = bad
                rep.add_failure(res[0].replace('kevent:', 'kevent:after-history-'),
                                'after the process parsed a dump (%s, through %s): %s' % (what, route, res[1]),
                                {'section': 'kevent-history', 'history': what, 'dump': data.hex(), 'case': r.hex()})
            else:
                sec['distinct_nontrivial'] += 1
    if sec['mismatches']:
        rep.broken.append('correspondence:kevent-history (%d of %d cases differ)' % (sec['mismatches'], sec['cases']))


_FRESH = r"""
import sys
sys.path.insert(0, sys.argv[1])
from pykdebugparser.kevent import from_kd_buf
recs = sys.stdin.buffer.read()
n = len(recs) // 64
bad = []
for i in range(n):
    r = recs[64 * i:64 * i + 64]
    e = from_kd_buf(r)
    d = int.from_bytes(r[48:52], 'little')
    ok = (e.timestamp == int.from_bytes(r[0:8], 'little') and e.data == r[8:40]
          and tuple(e.values) == tuple(int.from_bytes(r[8 + 8 * k:16 + 8 * k], 'little') for k in range(4))
          and e.tid == int.from_bytes(r[40:48], 'little') and e.debugid == d and e.eventid == d - d % 4
          and e.func_qualifier == d % 4)
    if not ok:
        bad.append(i)
print(','.join(map(str, bad)))
"""


def fresh_bad_indices(blob):
    """Decodes the records of `blob` (64 bytes each), in order, in a FRESH interpreter; indices whose decoding is not the
    little-endian reading of the record."""
    import subprocess
    p = subprocess.run([core.PY, '-c', _FRESH, core.REPO], input=blob, capture_output=True, timeout=600)
    out = p.stdout.decode().strip()
    if p.returncode != 0:
        return None
    return [int(x) for x in out.split(',')] if out else []


def birthday_section(rep, rng, tier):
    """A decoder that remembers earlier records under a SHORT key (a checksum / truncated hash of some bytes of the record)
    answers a later record with an earlier one's fields once two keys coincide.  No single record shows that; among n
    records with random contents some pair coincides under any k-bit key once n is a few times 2^(k/2) (birthday bound):
    2^18 records make a collision of a 32-bit key all but certain (1 - exp(-n^2 / 2^33) > 0.999).  All records are decoded
    in ONE fresh interpreter, each result is compared with the little-endian reading of its own record; a failing history
    is bisected down to the two records involved."""
    import os
    sec = rep.section('kevent-birthday')
    n = (1 << 18) if tier == 'quick' else (1 << 20)
    sec['rule'] = ('%d records with random contents decoded one after the other in one fresh interpreter, four streams: only '
                   'the 32 argument bytes vary / only timestamp / only tid+debugid / everything varies; every decoded field '
                   'must be the little-endian field of ITS record (oracle on the code alone); a failing stream is bisected to '
                   'a two-record history' % n)
    base = bytearray(rng.randbytes(64))
    streams_ = []
    for what, lo, hi in (('argument bytes', 8, 40), ('timestamp', 0, 8), ('tid and debugid', 40, 52), ('all fields', 0, 64)):
        rnd = rng.randbytes((hi - lo) * (n // 4 if what != 'argument bytes' else n))
        cnt = len(rnd) // (hi - lo)
        blob = bytearray(64 * cnt)
        for i in range(cnt):
            blob[64 * i:64 * i + 64] = base
            blob[64 * i + lo:64 * i + hi] = rnd[(hi - lo) * i:(hi - lo) * (i + 1)]
        streams_.append((what, bytes(blob)))
    for what, blob in streams_:
        cnt = len(blob) // 64
        sec['cases'] += cnt
        bad = fresh_bad_indices(blob)
        if bad is None:
            rep.notes.append('kevent-birthday: the fresh interpreter failed on stream %r' % what)
            continue
        if not bad:
            sec['distinct_nontrivial'] += cnt
            continue
        i = bad[0]
        probe = blob[64 * i:64 * i + 64]
        lo_, hi_ = 0, i                      # the poisoning record lies in [lo_, hi_)
        while hi_ - lo_ > 1:
            mid = (lo_ + hi_) // 2
            b = fresh_bad_indices(blob[64 * lo_:64 * mid] + probe)
            if b and b[-1] == mid - lo_:
                hi_ = mid
            else:
                lo_ = mid
        first = blob[64 * lo_:64 * lo_ + 64]
        pair_bad = fresh_bad_indices(first + probe)
        hist = [first.hex(), probe.hex()] if pair_bad else [blob[64 * k:64 * k + 64].hex() for k in range(max(0, i - 3), i + 1)]
        rep.add_failure('kevent:after-history-collision',
                        'stream "%s vary": record #%d is decoded with fields that are not the little-endian fields of the record '
                        'once record #%d has been decoded in the same process (alone it decodes correctly)' % (what, i, lo_),
                        {'section': 'kevent-birthday', 'history': hist, 'case': probe.hex(), 'stream': what})


def correspondence(rep, rng, tier):
    cases = gen_cases(rng, tier)
    run_section(rep, 'kevent', cases,
                line_fn=lambda c: 'kevent ' + (c or '-'),
                impl_fn=impl_fn, oracle_fn=oracle,
                nontrivial_fn=lambda c, got: len(c) == 128 and got.startswith('ok'),
                kind_fn=lambda c, got: 'len64' if len(c) == 128 else 'wrong-length',
                rule='512 walking-one + 512 walking-zero records, per-field all-ones/all-zero patterns, seeded random '
                     'records, wrong lengths 0..63,65,66,127,128; non-trivial = distinct 64-byte records decoded')
    run_section(rep, 'kevent-coincidences', gen_coincidences(rng, tier),
                line_fn=lambda c: 'kevent ' + c, impl_fn=impl_fn, oracle_fn=oracle,
                nontrivial_fn=lambda c, got: got.startswith('ok'),
                rule='coincidences BETWEEN fields of one record: every unordered pair of the nine fields (timestamp, four '
                     'argument words, tid, debugid, cpuid, unused) x every pair of parts (whole, low/top byte, low/top 16 bits, '
                     'low/top 32 bits) holding the same number (all-ones of the narrower part, a number 1..255, any number that '
                     'fits) on a random, an all-zero and an all-ones background, and near-coincidences (plus one, complement, '
                     'byte-swapped) on a random background; same oracle as `kevent` (each output field is '
                     'the little-endian field of the record); non-trivial = distinct records decoded')
    run_section(rep, 'kevent-constants', gen_constants(rng, tier),
                line_fn=lambda c: 'kevent ' + c, impl_fn=impl_fn, oracle_fn=oracle,
                nontrivial_fn=lambda c, got: got.startswith('ok'),
                rule='fields that hold a value meaningful elsewhere in the package: every int / bytes constant of the record and '
                     'dump reading modules (masks, sizes, file magics, v3 chunk tags) and event ids of the bundled code table with '
                     'each qualifier, in every field (whole, low / top 32 bits), byte strings at every offset; random and zero '
                     'backgrounds; same oracle as `kevent`')
    history_section(rep, rng, tier)
    birthday_section(rep, rng, tier)


def replay(path):
    import json
    with open(path) as fd:
        r = json.load(fd)
    case = r['replay']['case']
    if r['replay'].get('section') == 'kevent-birthday':
        hist = [bytes.fromhex(h) for h in r['replay']['history']]
        bad = fresh_bad_indices(b''.join(hist))
        print('records decoded one after the other in a fresh interpreter:')
        for k, h in enumerate(hist):
            print('   #%d %s%s' % (k, h.hex(), '   <- not the little-endian reading of this record' if bad and k in bad else ''))
        if bad:
            print(f'VIOLATION property=C01 replay={path}')
            return 1
        print('no violation on this input')
        return 0
    if r['replay'].get('section') == 'kevent-history':
        import io
        from pykdebugparser.kd_buf_parser import KdBufParser
        print('history:', r['replay']['history'])
        try:
            evs = list(KdBufParser({}, {}).parse(io.BytesIO(bytes.fromhex(r['replay']['dump']))))
            from ..impl import show_kevent
            inner = bytes.fromhex(r['replay']['dump'])
            for e in evs:
                if hasattr(e, 'debugid') and e.data == bytes.fromhex(case)[8:40]:
                    res = oracle(case, show_kevent(e))
                    if res:
                        print('inside the dump:', show_kevent(e), '<-', res[1])
                        print(f'VIOLATION property=C01 replay={path}')
                        return 1
        except Exception as e:
            print('the dump itself raised', core.err_name(e))
    got = impl_fn(case) if True else None
    res = oracle(case, got)
    model = core.drive(['kevent ' + (case or '-')])[0]
    print('impl :', got)
    print('model:', model)
    if res:
        print(f'VIOLATION property=C01 replay={path}')
        return 1
    return 0

LEVEL_TEXT = ('Lean theorems over the model of from_kd_buf for all 64-byte records (decode_eq_spec, reassemble, '
              'rebuild52, noninterference, tail_irrelevant), re-checked against the format string and masks '
              'reflected from the source on every run; the model is tied to the code by walking-bit + random '
              'differential runs.')
LEVEL_NOTE = ('Trusted: Lean kernel, translator reflection of KD_BUF_FORMAT/masks, correspondence harness; '
              'struct.unpack is modelled (Model/Kevent.structUnpack), not verified.')
TECHNIQUE = 'Lean 4 proof over reflected constants + differential correspondence'
