import KdVerif.Model.IRAnalysis
namespace KdVerif.IR

theorem evalS_cat (c : Ctx) (a b : Expr) :
    evalS c (.cat a b) = (do let s ← evalS c a; let t ← evalS c b; pure (s ++ t)) := by
  simp only [evalS, eval]
  cases ha : eval c a with
  | error e => simp [bind, Except.bind]
  | ok va =>
    cases va <;> simp [bind, Except.bind, pure, Except.pure]
    cases hb : eval c b with
    | error e => simp
    | ok vb => cases vb <;> simp

theorem evalPieces_append (c : Ctx) (xs ys : List Expr) :
    evalPieces c (xs ++ ys) = (do let a ← evalPieces c xs; let b ← evalPieces c ys; pure (a ++ b)) := by
  induction xs with
  | nil =>
    simp only [List.nil_append, evalPieces]
    cases evalPieces c ys <;> simp [bind, Except.bind, pure, Except.pure]
  | cons x xs ih =>
    simp only [List.cons_append, evalPieces, ih]
    cases evalS c x <;> simp [bind, Except.bind, pure, Except.pure]
    cases evalPieces c xs <;> simp
    cases evalPieces c ys <;> simp [String.append_assoc]

theorem evalPieces_singleton (c : Ctx) (e : Expr) : evalPieces c [e] = evalS c e := by
  simp only [evalPieces]
  cases evalS c e <;> simp [bind, Except.bind, pure, Except.pure]

theorem evalS_flatten (c : Ctx) (e : Expr) : evalPieces c (flatten e) = evalS c e := by
  induction e with
  | cat a b iha ihb => simp only [flatten, evalPieces_append, iha, ihb, evalS_cat]
  | _ => simp only [flatten, evalPieces_singleton]

end KdVerif.IR

namespace KdVerif.IR

theorem litString_append (a b : List Nat) : litString (a ++ b) = litString a ++ litString b := by
  simp [litString, String.ofList_append]

theorem evalS_strLit (c : Ctx) (a : List Nat) : evalS c (.strLit a) = .ok (litString a) := by
  simp [evalS, eval]

theorem evalPieces_lit_cons (c : Ctx) (a : List Nat) (ps : List Expr) :
    evalPieces c (.strLit a :: ps) = (evalPieces c ps).map (litString a ++ ·) := by
  simp only [evalPieces, evalS_strLit]
  cases evalPieces c ps <;> simp [bind, Except.bind, pure, Except.pure, Except.map]

theorem evalPieces_mergeLits (c : Ctx) (ps : List Expr) : evalPieces c (mergeLits ps) = evalPieces c ps := by
  induction ps with
  | nil => simp [mergeLits]
  | cons p ps ih =>
    cases p with
    | strLit a =>
      simp only [mergeLits]
      rw [evalPieces_lit_cons, ← ih]
      split
      · rename_i b rest' h
        rw [h, evalPieces_lit_cons, evalPieces_lit_cons, litString_append]
        cases evalPieces c rest' <;> simp [Except.map, String.append_assoc]
      · split
        · subst_vars
          cases evalPieces c (mergeLits ps) <;> simp [Except.map, litString]
        · rw [evalPieces_lit_cons]
    | _ => simp only [mergeLits, evalPieces, ih]

theorem evalS_normalize (c : Ctx) (e : Expr) : evalPieces c (normalize e) = evalS c e := by
  rw [normalize, evalPieces_mergeLits, evalS_flatten]

/-- If the kernel-checked shape agrees with `str`, the text is the text of the shape's pieces. -/
theorem evalS_of_agrees (c : Ctx) (s : Shape) (str : Expr) (h : s.agrees str = true) :
    evalS c str = evalPieces c s.pieces := by
  have : mergeLits s.pieces = normalize str := by simpa [Shape.agrees] using h
  rw [← evalS_normalize, ← this, evalPieces_mergeLits]

end KdVerif.IR

namespace KdVerif.IR

/-- Two evaluation contexts agree on everything the selector `s` permits reading. -/
structure Agree (s : Sel) (c c' : Ctx) : Prop where
  tables : c.tables = c'.tables
  start : ∀ k, s.start.contains k = true → c.win.startArgs[k]? = c'.win.startArgs[k]?
  startAll : s.startAll = true → c.win.startArgs = c'.win.startArgs
  endA : s.endA = true → c.win.endArgs = c'.win.endArgs
  endL : ∀ k, s.endL.contains k = true → c.win.endArgs[k]? = c'.win.endArgs[k]?
  tid : s.tid = true → c.win.startTid = c'.win.startTid
  data : s.data = true → c.win.startData = c'.win.startData
  lookups : s.lookups = true → c.win.lookups = c'.win.lookups ∧ c.win.restFirst = c'.win.restFirst
  gstr : s.gstr = true → c.win.globalStrings = c'.win.globalStrings
  tpids : s.tpids = true → c.win.threadsPids = c'.win.threadsPids
  tnames : s.tnames = true → c.win.tidsNames = c'.win.tidsNames
  host : s.host = true → c.host.signals = c'.host.signals ∧ c.host.addressFamily = c'.host.addressFamily
    ∧ c.host.socketKind = c'.host.socketKind ∧ c.host.solSocket = c'.host.solSocket
  hostErrno : s.hostErrno = true → c.host.errno = c'.host.errno
  fields : s.fields = true → c.fields = c'.fields

/-- Footprint lemma: an expression that reads only what `s` permits evaluates equally in two
    contexts that agree on `s`. -/
theorem selectLookup_congr (w w' : Window) (h1 : w.lookups = w'.lookups) (h2 : w.restFirst = w'.restFirst)
    (sel : LookupSel) : selectLookup w sel = selectLookup w' sel := by
  cases sel <;> simp [selectLookup, h1, h2]

theorem hostTable_congr (s : Sel) (c c' : Ctx) (h : Agree s c c') (t : HostTable)
    (hw : (if t = HostTable.errno then s.hostErrno else s.host) = true) : c.host.table t = c'.host.table t := by
  cases t <;> simp only [Host.table] <;> simp at hw
  · exact h.hostErrno hw
  · exact (h.host hw).1
  · exact (h.host hw).2.1
  · exact (h.host hw).2.2.1

theorem eval_congr (s : Sel) (c c' : Ctx) (h : Agree s c c') (e : Expr) (hw : within s e = true) :
    eval c e = eval c' e := by
  have ht := h.tables
  have hsa := h.startAll
  have hs := h.start
  have he := h.endA
  have hel := h.endL
  have htid := h.tid
  have hd := h.data
  have hl := h.lookups
  have hg := h.gstr
  have htp := h.tpids
  have htn := h.tnames
  have hh := h.host
  have hhe := h.hostErrno
  have hf := h.fields
  induction e with
  | startArg k =>
    simp only [within, Bool.or_eq_true] at hw
    simp only [eval]
    rcases hw with hw | hw
    · rw [hsa hw]
    · rw [hs k hw]
  | endArg k =>
    simp only [within, Bool.or_eq_true] at hw
    simp only [eval]
    rcases hw with hw | hw
    · rw [he hw]
    · rw [hel k hw]
  | hostEnum t e ih | hostHas t e ih | hostGet t e ih =>
    simp only [within, Bool.and_eq_true] at hw
    simp only [eval, ih hw.2, hostTable_congr s c c' h t hw.1]
  | lookupPath sel | lookupVnode sel =>
    simp only [within] at hw
    simp only [eval, selectLookup_congr _ _ (hl hw).1 (hl hw).2]
  | lookupPathOrEmpty | lookupRestPathOrEmpty | lookupVnodeOrZero =>
    simp only [within] at hw
    simp only [eval, selectLookup_congr _ _ (hl hw).1 (hl hw).2]
  | _ => simp_all [within, eval]

end KdVerif.IR

namespace KdVerif.IR

theorem evalFields_get (c : Ctx) (fs : List Expr) (vs : List Val) (h : evalFields c fs = .ok vs) (i : Nat) :
    (∀ f, fs[i]? = some f → ∃ v, vs[i]? = some v ∧ eval c f = .ok v) ∧ (fs[i]? = none → vs[i]? = none) := by
  induction fs generalizing vs i with
  | nil =>
    simp only [evalFields, Except.ok.injEq] at h
    subst h; simp
  | cons f fs ih =>
    simp only [evalFields] at h
    cases hf : eval c f with
    | error e => simp [hf, bind, Except.bind] at h
    | ok v =>
      cases hr : evalFields c fs with
      | error e => simp [hf, hr, bind, Except.bind] at h
      | ok vs' =>
        simp [hf, hr, bind, Except.bind, pure, Except.pure] at h
        subst h
        cases i with
        | zero => simp [hf]
        | succ i => simpa using ih vs' hr i

/-- Inlining the constructor arguments into `__str__`: evaluating `str` with the evaluated fields equals
    evaluating the substituted expression directly (when the field expressions themselves evaluate). -/
theorem eval_subst (c : Ctx) (hc : c.fields = []) (fs : List Expr) (vs : List Val)
    (h : evalFields c fs = .ok vs) (e : Expr) :
    eval { c with fields := vs } e = eval c (subst fs e) := by
  have key := evalFields_get c fs vs h
  induction e with
  | field i =>
    simp only [subst, eval]
    cases hfi : fs[i]? with
    | none => simp [(key i).2 hfi, eval, hc]
    | some f =>
      obtain ⟨v, hv, hev⟩ := (key i).1 f hfi
      simp [hv, hev]
  | _ => simp_all [eval, subst]

end KdVerif.IR

namespace KdVerif.IR

theorem render_eq (h : Host) (t : Tables) (d : Decoder) (w : Window) :
    render h t d w = (evalFields { host := h, tables := t, win := w } d.fields).bind
      (fun fs => evalS { host := h, tables := t, win := w, fields := fs } d.str) := by
  unfold render evalS
  cases evalFields { host := h, tables := t, win := w } d.fields with
  | error e => rfl
  | ok fs =>
    simp only [bind, Except.bind]
    cases eval { host := h, tables := t, win := w, fields := fs } d.str with
    | error e => rfl
    | ok v => cases v <;> rfl

/-- `str(handler(...))` as: evaluate the constructor arguments (errors surface here), then concatenate the
    normalised pieces of `__str__` with the arguments inlined. -/
theorem render_eq_pieces (h : Host) (t : Tables) (d : Decoder) (w : Window) :
    render h t d w = (evalFields { host := h, tables := t, win := w } d.fields).bind
      (fun _ => evalPieces { host := h, tables := t, win := w } (normalize (subst d.fields d.str))) := by
  rw [render_eq]
  cases hf : evalFields { host := h, tables := t, win := w } d.fields with
  | error e => rfl
  | ok fs =>
    simp only [Except.bind]
    have := eval_subst { host := h, tables := t, win := w } rfl d.fields fs hf d.str
    rw [evalS_normalize]
    simp only [evalS, this]

theorem evalFields_append_const (c : Ctx) (xs : List Expr) (b : Bool) :
    evalFields c (xs ++ [.bool b]) = (evalFields c xs).map (· ++ [.bool b]) := by
  induction xs with
  | nil => simp [evalFields, eval, bind, Except.bind, pure, Except.pure, Except.map]
  | cons x xs ih =>
    simp only [List.cons_append, evalFields, ih]
    cases eval c x <;> simp [bind, Except.bind, Except.map, pure, Except.pure]
    cases evalFields c xs <;> simp

end KdVerif.IR
