import KdVerif.Proofs.ReassemblyHandlers
/-
  C08 lemmas, part 4: several lookups inside one syscall window (`parse_vnodes`, the second-phase lookup
  `[e for e in events if e not in first.ktraces]`, `mkWindow`).
-/
namespace KdVerif.Reassembly
open KdVerif.Trace KdVerif.IR

/-- The `Vnode`s the lookups should reassemble to, given their decoded texts. -/
def vnodesOf (tid eid : Nat) : List LookupSpec → List String → List Vnode
  | l :: ls, s :: ss => ⟨lookupEvents tid eid l.ts l.vnode l.path, l.vnode, s⟩ :: vnodesOf tid eid ls ss
  | _, _ => []

/-- What the decoders see of them. -/
def lookupsOf : List LookupSpec → List String → List Lookup
  | l :: ls, s :: ss => ⟨s, l.vnode⟩ :: lookupsOf ls ss
  | _, _ => []

/-- `dec` of every path, in order. -/
def Decoded (dec : Bytes → Except PyErr String) : List LookupSpec → List String → Prop
  | [], [] => True
  | l :: ls, s :: ss => dec l.path = .ok s ∧ Decoded dec ls ss
  | _, _ => False

def GoodSpecs (ls : List LookupSpec) : Prop := ∀ l ∈ ls, l.vnode < 2 ^ 64 ∧ NulFree l.path

theorem vnodesOf_map (tid eid : Nat) (ls : List LookupSpec) (ss : List String) :
    (vnodesOf tid eid ls ss).map (fun v => (⟨v.path, v.vnodeId⟩ : Lookup)) = lookupsOf ls ss := by
  induction ls generalizing ss with
  | nil => cases ss <;> rfl
  | cons l ls ih =>
    cases ss with
    | nil => rfl
    | cons s ss => simp [vnodesOf, lookupsOf, ih]

theorem vnodeGen_encodeLookups (dec : Bytes → Except PyErr String) (tid eid : Nat) (ls : List LookupSpec)
    (ss : List String) (hg : GoodSpecs ls) (hd : Decoded dec ls ss) :
    vnodeGen dec (encodeLookups tid eid ls) [] 0 [] = .ok (vnodesOf tid eid ls ss) := by
  induction ls generalizing ss with
  | nil =>
    cases ss with
    | nil => rfl
    | cons s ss => exact absurd hd (by simp [Decoded])
  | cons l ls ih =>
    cases ss with
    | nil => exact absurd hd (by simp [Decoded])
    | cons s ss =>
      obtain ⟨h1, h2⟩ := hd
      obtain ⟨hv, hp⟩ := hg l (by simp)
      simp only [encodeLookups]
      rw [vnodeGen_lookupEvents dec tid eid l.ts l.vnode l.path hv hp, h1,
        ih ss (fun x hx => hg x (by simp [hx])) h2]
      rfl

/-- Removing the records of the first lookup (by VALUE, as `e not in old.ktraces` does) leaves the later
    lookups' records, provided none of those is value-equal to a record of the first. -/
theorem filter_not_first (first rest : List Kevent) (hne : ∀ e ∈ rest, e ∉ first) :
    (first ++ rest).filter (fun e => !first.contains e) = rest := by
  rw [List.filter_append]
  have h1 : first.filter (fun e => !first.contains e) = [] := by
    rw [List.filter_eq_nil_iff]
    intro e he
    simp [he]
  have h2 : rest.filter (fun e => !first.contains e) = rest := by
    rw [List.filter_eq_self]
    intro e he
    simp [hne e he]
  rw [h1, h2, List.nil_append]

theorem filter_comm' {α : Type} (p q : α → Bool) (l : List α) :
    (l.filter p).filter q = (l.filter q).filter p := by
  simp only [List.filter_filter]
  congr 1
  funext x
  exact Bool.and_comm _ _

/-- `mkWindow` on a window whose lookup records are the encoded lookups `ls` (anything else may sit anywhere
    in between): `lookups` are the decoded paths with their vnode ids in lookup order; `restFirst` is the
    second of them, PROVIDED no record of a later lookup is value-equal to a record of the first (K5). -/
theorem mkWindow_encoded (env : Env) (tabs : Tabs) (events : List Kevent) (tid eid : Nat)
    (ls : List LookupSpec) (ss : List String) (hg : GoodSpecs ls) (hd : Decoded env.dec ls ss)
    (hev : events.filter (isLookup env) = encodeLookups tid eid ls)
    (hk5 : ∀ l rest, ls = l :: rest →
      ∀ e ∈ encodeLookups tid eid rest, e ∉ lookupEvents tid eid l.ts l.vnode l.path) :
    ∃ W, mkWindow env tabs events = .ok W ∧ W.lookups = lookupsOf ls ss ∧
      W.restFirst = (lookupsOf ls ss)[1]? ∧
      W.startArgs = (firstOf events).values ∧ W.endArgs = (lastOf events).values ∧
      W.startTid = (firstOf events).tid ∧ W.startData = (firstOf events).data := by
  have hpv : parseVnodes env events = .ok (vnodesOf tid eid ls ss) := by
    unfold parseVnodes; rw [hev]; exact vnodeGen_encodeLookups env.dec tid eid ls ss hg hd
  unfold mkWindow
  simp only [hpv, if_true, bind, Except.bind, pure, Except.pure]
  refine ⟨_, rfl, vnodesOf_map tid eid ls ss, ?_, rfl, rfl, rfl, rfl⟩
  cases ls with
  | nil => cases ss <;> rfl
  | cons l ls =>
    cases ss with
    | nil => rfl
    | cons s ss =>
      obtain ⟨_, h2⟩ := hd
      have hrest : parseVnodes env (events.filter fun e => !(lookupEvents tid eid l.ts l.vnode l.path).contains e) =
          .ok (vnodesOf tid eid ls ss) := by
        unfold parseVnodes
        rw [filter_comm', hev]
        simp only [encodeLookups]
        rw [filter_not_first _ _ (hk5 l ls rfl)]
        exact vnodeGen_encodeLookups env.dec tid eid ls ss (fun x hx => hg x (by simp [hx])) h2
      simp only [vnodesOf, hrest, Except.toOption, Option.getD_some]
      cases ls with
      | nil => cases ss <;> rfl
      | cons l' ls =>
        cases ss with
        | nil => rfl
        | cons s' ss => rfl

end KdVerif.Reassembly
