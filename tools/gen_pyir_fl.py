"""Translator of the FILTER LOGIC of pykdebugparser/pykdebugparser.py (pure `ast` over the source text; the values of the
module constants DBG_TRACE / DBG_FSYSTEM / DBG_BSD are additionally reflected from the imported module and compared)
-> lean/KdVerif/Gen/PyIRFl.lean: one term of the IR of lean/KdVerif/Model/PyIRFl.lean per method
(`_is_eventid_allowed`, `kevents`, `os_log_events`, `traces`, `_filter_process_callback`).

The methods are SYMBOLICALLY EVALUATED into a normal form, so that harmless rewrites give the same term:
  * a local (or a re-assigned parameter) that merely names a PURE expression (no call of a method / constructor) is
    inlined at its uses, PROVIDED (checked) that between the definition and every use — uses inside a lambda count as
    uses at the end of the method, because a lambda reads its free variables when it is called — nothing it reads is
    rebound, no list is mutated if its value depends on the CONTENT of a list (`and`/`or`/`not`/`in`/`any`/conditional
    expressions: truthiness, membership), the name is not assigned again after a lambda captured it, and inlining does
    not move the moment an exception could be raised (the statement that follows must begin by evaluating the very same
    raising operations).  A local that fails a side condition simply stays a variable (`assign`);
  * `x is not None` / `not x is None` are `not (x is None)`, `a != b` is `not (a == b)`, `x not in l` is
    `not (x in l)`; a condition is never `not c`: `if not c: A else: B` is `ite c B A`, `a if not c else b` is
    `ifExp c b a`; `if a: if b: S` is `if a and b: S`; `a and b and c` nests to the right;
  * `filter(self.<method>, g)` is `filter(lambda t: self.<method>(t), g)`; `f = lambda x: p` … `filter(f, g)` is
    `filter(lambda x: p, g)`; `x in [a, b]` is `x in (a, b)`;
  * module-level integer constants are replaced by their values;
  * `p = TracesParser(c, a, b)` … `p.feed_generator(self.kevents(kd, fc))` is one source node (`feedKevents`), as is
    `KdBufParser(a, b).parse(kd)` (`parseStream`): the interpreter records what they are given, their meaning is the
    hand model of those classes;
  * every lambda parameter is a variable of its own; variables are numbered: parameters (after `self`) first, then the
    remaining ones in source order of their first binding.
Everything else — any statement or expression outside the subset of Model/PyIRFl — becomes an explicit
`.unsupported "<source text>"` node (or an entry of `notes` when it is outside the method bodies): never a guess."""
import ast
import os

METHODS = [('_is_eventid_allowed', 'isEventidAllowed'), ('kevents', 'kevents'), ('os_log_events', 'osLogEvents'),
           ('traces', 'traces'), ('_filter_process_callback', 'filterProcessCallback')]
CALLABLE = {'_is_eventid_allowed': '.isEventidAllowed', '_filter_process_callback': '.filterProcessCallback'}
SELF_ATTRS = {'filter_tid': '.filterTid', 'filter_class': '.filterClass', 'filter_subclass': '.filterSubclass',
              'filter_process': '.filterProcess', 'threads_pids': '.threadsPids', 'pids_names': '.pidsNames'}
FIELDS = {'tid': '.tid', 'eventid': '.eventid', 'thread_identifier': '.threadIdentifier', 'process': '.process',
          'process_identifier': '.processIdentifier', 'ktraces': '.ktraces'}
BUILTINS = ('filter', 'list', 'any', 'str', 'isinstance')
IMPORTS = {'OsLogEvent': 'pykdebugparser.os_log_event', 'KdBufParser': 'pykdebugparser.kd_buf_parser',
           'TracesParser': 'pykdebugparser.traces_parser', 'default_trace_codes': 'pykdebugparser.trace_codes'}
DBG = ('DBG_TRACE', 'DBG_FSYSTEM', 'DBG_BSD')

# expression nodes whose value is not a function of the variables alone (calls into other code)
IMPURE = {'call1', 'call2', 'parseStream', 'defaultTraceCodes', 'feedKevents', 'unsupported', 'stale', 'tracesParser',
          'lambda'}
# expression nodes whose value depends on the CONTENT of a list object (truthiness, membership)
CONTENT = {'and', 'or', 'not', 'ifExp', 'isIn', 'anyFilter'}


def subexprs(e):
    yield e
    for x in e[1:]:
        if isinstance(x, tuple):
            yield from subexprs(x)


def kinds(e):
    return {x[0] for x in subexprs(e)}


def ops(e):
    """The operations of `e` that can raise, in evaluation order, as far as they are evaluated unconditionally."""
    k = e[0]
    if k in ('field', 'shr', 'call1'):
        return ops(e[1] if k != 'call1' else e[2]) + [e]
    if k in ('index', 'isIn'):
        return ops(e[1]) + ops(e[2]) + [e]
    if k == 'call2':
        return ops(e[2]) + ops(e[3]) + [e]
    if k == 'anyFilter':
        return ops(e[3]) + [e]
    if k in ('isLog', 'not', 'isNone', 'strOf'):
        return ops(e[1])
    if k == 'eq':
        return ops(e[1]) + ops(e[2])
    if k in ('inPair', 'get'):
        return ops(e[1]) + ops(e[2]) + ops(e[3])
    if k in ('and', 'or', 'ifExp'):
        return ops(e[1])
    if k in ('parseStream', 'defaultTraceCodes', 'feedKevents', 'unsupported', 'stale'):
        return [e]
    return []


def head_ops(s):
    """The raising operations a statement evaluates before anything else can happen."""
    k = s[0]
    if k == 'ret':
        return ops(s[1])
    if k in ('assign', 'assignList'):
        return ops(s[2])
    if k == 'assignFilter':
        return ops(s[4])
    if k == 'append':
        return ops(s[1]) + ops(s[2])
    if k == 'ite':
        return ops(s[1])
    return []


class Retry(Exception):
    pass


class Env:
    def __init__(self, m=None):
        self.m = dict(m or {})

    def copy(self):
        return Env(self.m)


class MethodTranslator:
    def __init__(self, src, fn, consts, imported):
        self.src = src
        self.fn = fn
        self.consts = consts            # module-level integer constants: name -> value
        self.imported = imported        # names bound to the expected imports: local name -> original name
        self.force = set()              # locals that must stay variables (a side condition of inlining failed)
        self.reset()

    def reset(self):
        self.order = []                 # variables in source order of first binding
        self.captured = []              # (alias name, its expression) read inside a lambda made so far
        self.nlam = 0

    def text(self, node):
        t = ast.get_source_segment(self.src, node) or ast.dump(node)
        return ' '.join(t.split())[:200]

    def uns(self, node, why=''):
        return ('unsupported', self.text(node) + ('   # ' + why if why else ''))

    def demand_variable(self, name):
        """`name` cannot be inlined: translate again with `name` as a variable."""
        if name not in self.force:
            self.force.add(name)
            raise Retry()

    # ---- aliases
    def lookup(self, n, env, in_lambda):
        v = env.m.get(n.id)
        if v is None:
            if n.id in self.consts:
                return ('int', self.consts[n.id])
            return self.uns(n)
        if v[0] == 'stale':
            self.demand_variable(n.id)
            return ('unsupported', 'stale alias ' + n.id)
        if in_lambda and v != ('var', n.id):
            self.captured.append((n.id, v))
        return v

    def mutated(self, env):
        """a list object was mutated: aliases whose value depends on the content of a list are stale"""
        for k, v in list(env.m.items()):
            if v != ('var', k) and kinds(v) & CONTENT:
                env.m[k] = ('stale', k)
        for k, v in self.captured:
            if kinds(v) & CONTENT:
                self.demand_variable(k)

    def rebound(self, name, env):
        """`name` gets a new value: aliases that read the variable `name` are stale; a lambda made earlier that read
        `name` as an alias would see the new value"""
        for k, v in list(env.m.items()):
            if k != name and v != ('var', k) and any(x == ('var', name) for x in subexprs(v)):
                env.m[k] = ('stale', k)
        for k, v in self.captured:
            if k == name:
                self.demand_variable(name)
            if any(x == ('var', name) for x in subexprs(v)):
                self.demand_variable(k)

    def bind(self, name, env):
        if name not in self.order:
            self.order.append(name)
        self.rebound(name, env)
        env.m[name] = ('var', name)

    # ---- expressions
    def is_self(self, n, env):
        return isinstance(n, ast.Name) and n.id == 'self' and 'self' not in env.m

    def imported_as(self, n, env, what):
        return isinstance(n, ast.Name) and n.id not in env.m and self.imported.get(n.id) == what

    def builtin(self, n, env, what):
        return isinstance(n, ast.Name) and n.id == what and n.id not in env.m

    def lam(self, n, env):
        """a function of one argument as ('lambda', binder, body), else None"""
        if isinstance(n, ast.Lambda):
            a = n.args
            if a.vararg or a.kwarg or a.kwonlyargs or a.defaults or a.posonlyargs or len(a.args) != 1:
                return None
            self.nlam += 1
            binder = 'lambda#%d' % self.nlam
            self.order.append(binder)
            inner = env.copy()
            inner.m[a.args[0].arg] = ('var', binder)
            return ('lambda', binder, self.expr(n.body, inner, True))
        if isinstance(n, ast.Attribute) and self.is_self(n.value, env) and n.attr in CALLABLE:
            self.nlam += 1
            binder = 'lambda#%d' % self.nlam
            self.order.append(binder)
            return ('lambda', binder, ('call1', CALLABLE[n.attr], ('var', binder)))
        if isinstance(n, ast.Name) and env.m.get(n.id, ('',))[0] == 'lambda':
            return env.m[n.id]
        return None

    def int_const(self, n, env):
        if isinstance(n, ast.Constant) and isinstance(n.value, int) and not isinstance(n.value, bool):
            return n.value
        if isinstance(n, ast.Name) and n.id not in env.m and n.id in self.consts:
            return self.consts[n.id]
        return None

    def expr(self, n, env, in_lambda=False):
        E = lambda x: self.expr(x, env, in_lambda)  # noqa: E731
        if isinstance(n, ast.Constant):
            if n.value is None:
                return ('none',)
            if isinstance(n.value, int) and not isinstance(n.value, bool):
                return ('int', n.value)
            if isinstance(n.value, str):
                return ('str', n.value)
            return self.uns(n)
        if isinstance(n, ast.UnaryOp) and isinstance(n.op, ast.USub) and isinstance(n.operand, ast.Constant) \
                and isinstance(n.operand.value, int) and not isinstance(n.operand.value, bool):
            return ('int', -n.operand.value)
        if isinstance(n, ast.Name):
            return self.lookup(n, env, in_lambda)
        if isinstance(n, ast.Attribute):
            if self.is_self(n.value, env):
                if n.attr in SELF_ATTRS:
                    return ('self', SELF_ATTRS[n.attr])
                return self.uns(n)
            if n.attr in FIELDS:
                return ('field', E(n.value), FIELDS[n.attr])
            return self.uns(n)
        if isinstance(n, ast.Subscript) and not isinstance(n.slice, (ast.Slice, ast.Tuple)):
            return ('index', E(n.value), E(n.slice))
        if isinstance(n, ast.UnaryOp) and isinstance(n.op, ast.Not):
            return ('not', E(n.operand))
        if isinstance(n, ast.BoolOp):
            vals = [E(v) for v in n.values]
            out = vals[-1]
            for v in reversed(vals[:-1]):
                out = ('or' if isinstance(n.op, ast.Or) else 'and', v, out)
            return out
        if isinstance(n, ast.IfExp):
            c, a, b = E(n.test), E(n.body), E(n.orelse)
            while c[0] == 'not':
                c, a, b = c[1], b, a
            return ('ifExp', c, a, b)
        if isinstance(n, ast.BinOp) and isinstance(n.op, ast.RShift):
            k = self.int_const(n.right, env)
            if k is None or k < 0:
                return self.uns(n, 'shift by something that is not a constant')
            return ('shr', E(n.left), k)
        if isinstance(n, ast.Compare) and len(n.ops) == 1:
            op, l, r = n.ops[0], n.left, n.comparators[0]
            none = lambda x: isinstance(x, ast.Constant) and x.value is None  # noqa: E731
            if isinstance(op, (ast.Is, ast.IsNot)):
                if none(r) or none(l):
                    e = ('isNone', E(l if none(r) else r))
                    return e if isinstance(op, ast.Is) else ('not', e)
                return self.uns(n)
            if isinstance(op, (ast.Eq, ast.NotEq)):
                e = ('eq', E(l), E(r))
                return e if isinstance(op, ast.Eq) else ('not', e)
            if isinstance(op, (ast.In, ast.NotIn)):
                if isinstance(r, (ast.Tuple, ast.List)):
                    if len(r.elts) != 2 or any(isinstance(x, ast.Starred) for x in r.elts):
                        return self.uns(n)
                    e = ('inPair', E(l), E(r.elts[0]), E(r.elts[1]))
                else:
                    e = ('isIn', E(l), E(r))
                return e if isinstance(op, ast.In) else ('not', e)
            return self.uns(n)
        if isinstance(n, ast.Call) and not n.keywords and not any(isinstance(a, ast.Starred) for a in n.args):
            return self.call(n, env, in_lambda)
        return self.uns(n)

    def call(self, n, env, in_lambda):
        E = lambda x: self.expr(x, env, in_lambda)  # noqa: E731
        f, args = n.func, n.args
        if self.builtin(f, env, 'isinstance') and len(args) == 2 and self.imported_as(args[1], env, 'OsLogEvent'):
            return ('isLog', E(args[0]))
        if self.builtin(f, env, 'str') and len(args) == 1:
            return ('strOf', E(args[0]))
        if self.builtin(f, env, 'any') and len(args) == 1:
            g = args[0]
            if isinstance(g, ast.Call) and self.builtin(g.func, env, 'filter') and len(g.args) == 2 and not g.keywords:
                fn = self.lam(g.args[0], env)
                if fn is not None:
                    return ('anyFilter', fn[1], fn[2], E(g.args[1]))
            return self.uns(n)
        if self.imported_as(f, env, 'default_trace_codes') and not args:
            return ('defaultTraceCodes',)
        if self.imported_as(f, env, 'TracesParser') and len(args) == 3:
            return ('tracesParser', E(args[0]), E(args[1]), E(args[2]))
        if isinstance(f, ast.Attribute):
            if self.is_self(f.value, env) and f.attr in CALLABLE:
                if len(args) == 1:
                    return ('call1', CALLABLE[f.attr], E(args[0]))
                if len(args) == 2:
                    return ('call2', CALLABLE[f.attr], E(args[0]), E(args[1]))
                return self.uns(n)
            if f.attr == 'get' and len(args) == 2:
                return ('get', E(f.value), E(args[0]), E(args[1]))
            if f.attr == 'parse' and len(args) == 1 and isinstance(f.value, ast.Call) and not f.value.keywords \
                    and self.imported_as(f.value.func, env, 'KdBufParser') and len(f.value.args) == 2 \
                    and not any(isinstance(a, ast.Starred) for a in f.value.args):
                return ('parseStream', E(f.value.args[0]), E(f.value.args[1]), E(args[0]))
            if f.attr == 'feed_generator' and len(args) == 1:
                p, k = E(f.value), args[0]
                if p[0] == 'tracesParser' and isinstance(k, ast.Call) and not k.keywords \
                        and isinstance(k.func, ast.Attribute) and self.is_self(k.func.value, env) \
                        and k.func.attr == 'kevents' and len(k.args) in (1, 2) \
                        and not any(isinstance(a, ast.Starred) for a in k.args):
                    fc = E(k.args[1]) if len(k.args) == 2 else ('none',)
                    return ('feedKevents', p[1], p[2], p[3], E(k.args[0]), fc)
                return self.uns(n)
        return self.uns(n)

    # ---- statements
    def merge(self, env, a, b):
        """the environment after `if`: what both branches agree on"""
        for k in set(a.m) | set(b.m):
            va, vb = a.m.get(k), b.m.get(k)
            if va == vb:
                env.m[k] = va
            elif ('var', k) in (va, vb):
                env.m[k] = ('var', k)
            else:
                env.m[k] = ('stale', k)

    def block(self, stmts, env, kont):
        if not stmts:
            return kont(env)
        st, rest = stmts[0], stmts[1:]
        nxt = lambda e: self.block(rest, e, kont)  # noqa: E731
        if isinstance(st, ast.Pass) or (isinstance(st, ast.Expr) and isinstance(st.value, ast.Constant)
                                        and isinstance(st.value.value, str)):
            return nxt(env)
        if isinstance(st, ast.Return):
            return ('ret', ('none',) if st.value is None else self.value(self.expr(st.value, env), st))
        if isinstance(st, ast.If):
            test, body, orelse = st.test, st.body, st.orelse
            while not orelse and len(body) == 1 and isinstance(body[0], ast.If) and not body[0].orelse:
                test = ast.BoolOp(op=ast.And(), values=[test, body[0].test])       # if a: if b: S
                body = body[0].body
            c = self.value(self.expr(test, env), st.test)
            while c[0] == 'not':
                c, body, orelse = c[1], orelse, body
            ea, eb = env.copy(), env.copy()
            t = self.block(body, ea, lambda e: ('done',))
            e = self.block(orelse, eb, lambda e: ('done',))
            self.merge(env, ea, eb)
            return ('ite', c, t, e, nxt(env))
        if isinstance(st, ast.Expr) and isinstance(st.value, ast.Call) and isinstance(st.value.func, ast.Attribute) \
                and st.value.func.attr == 'append' and len(st.value.args) == 1 and not st.value.keywords \
                and not isinstance(st.value.args[0], ast.Starred):
            lst = self.value(self.expr(st.value.func.value, env), st)
            x = self.value(self.expr(st.value.args[0], env), st)
            self.mutated(env)
            return ('append', lst, x, nxt(env))
        target = value = None
        if isinstance(st, ast.Assign) and len(st.targets) == 1:
            target, value = st.targets[0], st.value
        elif isinstance(st, ast.AnnAssign) and st.value is not None and st.simple:
            target, value = st.target, st.value
        if isinstance(target, ast.Name) and target.id != 'self':
            name = target.id
            if isinstance(value, ast.Call) and not value.keywords \
                    and not any(isinstance(a, ast.Starred) for a in value.args):
                if self.builtin(value.func, env, 'list') and len(value.args) == 1:
                    e = self.value(self.expr(value.args[0], env), st)
                    self.bind(name, env)
                    return ('assignList', name, e, nxt(env))
                if self.builtin(value.func, env, 'filter') and len(value.args) == 2:
                    fn = self.lam(value.args[0], env)
                    if fn is None:
                        return self.uns(st)
                    src = self.value(self.expr(value.args[1], env), st)
                    self.bind(name, env)
                    return ('assignFilter', name, fn[1], fn[2], src, nxt(env))
            if isinstance(value, ast.Lambda):
                fn = self.lam(value, env)
                if fn is None:
                    return self.uns(st)
                self.rebound(name, env)
                env.m[name] = fn                                  # a named lambda: only `filter(name, …)` may use it
                return nxt(env)
            e = self.expr(value, env)
            if e[0] == 'tracesParser':                            # p = TracesParser(…): only p.feed_generator(…) may use it
                self.rebound(name, env)
                env.m[name] = e
                return nxt(env)
            e = self.value(e, st)
            if not (kinds(e) & IMPURE) and name not in self.force:
                # a local that names a pure expression: inlined.  Evaluating it later must not move an exception.
                self.rebound(name, env)
                env.m[name] = e
                follow = nxt(env)
                need = ops(e)
                if need and head_ops(follow)[:len(need)] != need:
                    self.demand_variable(name)
                return follow
            self.bind(name, env)
            return ('assign', name, e, nxt(env))
        return self.uns(st)

    def value(self, e, node):
        """symbolic objects that are not values of the IR may not escape into it"""
        if any(x[0] in ('tracesParser', 'lambda', 'stale') for x in subexprs(e)):
            return self.uns(node, 'a parser object / function used as a value')
        return e

    def translate(self):
        a = self.fn.args
        if (self.fn.decorator_list or a.vararg or a.kwarg or a.kwonlyargs or a.posonlyargs or a.kw_defaults
                or not a.args or a.args[0].arg != 'self'
                or any(not (isinstance(d, ast.Constant) and d.value is None) for d in a.defaults)
                or len(a.defaults) > len(a.args) - 1):
            return 0, 0, ('unsupported', 'signature of ' + self.fn.name)
        params = [x.arg for x in a.args[1:]]
        while True:
            self.reset()
            env = Env({p: ('var', p) for p in params})
            try:
                body = self.block(self.fn.body, env, lambda e: ('ret', ('none',)))
                break
            except Retry:
                continue
        used = {x[1] for x in _walk_vars(body)}
        names = params + [n for n in self.order if n in used and n not in params]
        return len(params), len(a.defaults), _rename(body, {n: i for i, n in enumerate(names)})


BINDERS = {'assign': (1,), 'assignList': (1,), 'assignFilter': (1, 2), 'anyFilter': (1,)}


def _walk_vars(s):
    if not isinstance(s, tuple):
        return
    if s[0] == 'var':
        yield s
        return
    if s[0] == 'unsupported':
        return
    for i in BINDERS.get(s[0], ()):
        yield ('var', s[i])
    for x in s[1:]:
        if isinstance(x, tuple):
            yield from _walk_vars(x)


def _rename(s, num):
    if not isinstance(s, tuple):
        return s
    if s[0] == 'var':
        return ('var', num[s[1]])
    if s[0] == 'unsupported':
        return s
    b = BINDERS.get(s[0], ())
    return (s[0],) + tuple(num[x] if i + 1 in b else _rename(x, num) for i, x in enumerate(s[1:]))


def lean(s, lean_str):
    k = s[0]
    if k == 'unsupported':
        return '(.unsupported %s)' % lean_str(s[1])
    if k in ('none', 'done', 'defaultTraceCodes'):
        return '.' + k
    if k == 'str':
        return '(.str %s)' % lean_str(s[1])
    if k == 'int':
        return '(.int (%d))' % s[1] if s[1] < 0 else '(.int %d)' % s[1]
    parts = []
    for x in s[1:]:
        parts.append(lean(x, lean_str) if isinstance(x, tuple) else str(x))
    return '(.%s %s)' % (k, ' '.join(parts))


def has_unsupported(s):
    return isinstance(s, tuple) and (s[0] == 'unsupported' or any(has_unsupported(x) for x in s[1:]))


def module_facts(tree, notes):
    """integer constants and the expected imports of the module; anything that would change what the names the methods
    use mean goes to `notes`"""
    consts, stores, imported = {}, {}, {}
    for node in tree.body:
        if isinstance(node, ast.ImportFrom):
            for al in node.names:
                local = al.asname or al.name
                stores[local] = stores.get(local, 0) + 1
                if al.name in IMPORTS and node.module == IMPORTS[al.name] and node.level == 0:
                    imported[local] = al.name
        elif isinstance(node, ast.Import):
            for al in node.names:
                local = (al.asname or al.name).split('.')[0]
                stores[local] = stores.get(local, 0) + 1
        elif isinstance(node, (ast.FunctionDef, ast.AsyncFunctionDef, ast.ClassDef)):
            stores[node.name] = stores.get(node.name, 0) + 1
        else:
            for t in ast.walk(node):
                if isinstance(t, ast.Name) and isinstance(t.ctx, (ast.Store, ast.Del)):
                    stores[t.id] = stores.get(t.id, 0) + 1
            if isinstance(node, ast.Assign) and len(node.targets) == 1 and isinstance(node.targets[0], ast.Name):
                v = node.value
                if isinstance(v, ast.Constant) and isinstance(v.value, int) and not isinstance(v.value, bool):
                    consts[node.targets[0].id] = v.value
    for node in ast.walk(tree):
        if isinstance(node, (ast.Global, ast.Nonlocal)):
            for nm in node.names:
                stores[nm] = stores.get(nm, 0) + 1
    consts = {k: v for k, v in consts.items() if stores.get(k) == 1}
    imported = {k: v for k, v in imported.items() if stores.get(k) == 1}
    for b in BUILTINS:
        if b in stores:
            notes.append('the builtin name %s is rebound in the module' % b)
    return consts, imported


def translate_source(repo):
    """-> ({lean field: (params, optional, body)}, notes)"""
    with open(os.path.join(repo, 'pykdebugparser', 'pykdebugparser.py')) as fd:
        src = fd.read()
    tree = ast.parse(src)
    notes = []
    consts, imported = module_facts(tree, notes)
    # reflection of the three DBG_ constants: the imported module must agree with the source text
    try:
        import importlib
        mod = importlib.import_module('pykdebugparser.pykdebugparser')
        for nm in DBG:
            if nm in consts and getattr(mod, nm, None) != consts[nm]:
                notes.append('%s: the module has %r, the source text %r' % (nm, getattr(mod, nm, None), consts[nm]))
    except Exception as e:  # the translation itself needs the text only
        notes.append('pykdebugparser.pykdebugparser cannot be imported: %s' % type(e).__name__)
    cls = [n for n in tree.body if isinstance(n, ast.ClassDef) and n.name == 'PyKdebugParser']
    out = {}
    if len(cls) != 1:
        notes.append('class PyKdebugParser not found exactly once')
        return {f: (0, 0, ('unsupported', 'method %s not found' % py)) for py, f in METHODS}, notes
    cls = cls[0]
    if cls.bases or cls.decorator_list or cls.keywords:
        notes.append('class PyKdebugParser has bases / decorators')
    fns = {}
    for n in cls.body:
        if isinstance(n, (ast.FunctionDef, ast.AsyncFunctionDef)):
            if n.name in fns:
                notes.append('method %s defined twice' % n.name)
            fns[n.name] = n
            if n.name in ('__getattr__', '__getattribute__', '__setattr__'):
                notes.append('class PyKdebugParser defines %s' % n.name)
        else:
            for t in ast.walk(n):
                if isinstance(t, ast.Name) and isinstance(t.ctx, ast.Store) and (t.id in SELF_ATTRS or t.id in dict(METHODS)):
                    notes.append('class attribute %s shadows what the methods read through self' % t.id)
    for nm in list(SELF_ATTRS) + [py for py, _ in METHODS]:
        if nm in SELF_ATTRS and nm in fns:
            notes.append('%s is a method / property, not a plain attribute' % nm)
    # a store to self.<method name> anywhere would rebind a method
    for n in ast.walk(cls):
        if isinstance(n, ast.Attribute) and isinstance(n.ctx, (ast.Store, ast.Del)) and n.attr in dict(METHODS):
            notes.append('%s is assigned as an attribute' % n.attr)
    for py, field in METHODS:
        fn = fns.get(py)
        if not isinstance(fn, ast.FunctionDef):
            out[field] = (0, 0, ('unsupported', 'method %s not found' % py))
            continue
        out[field] = MethodTranslator(src, fn, consts, imported).translate()
    return out, notes


def generate(repo, write_if_changed, lean_str):
    blocks, notes = translate_source(repo)
    L = ['import KdVerif.Model.PyIRFl', 'namespace KdVerif.Gen.PyIRFl', 'open KdVerif.PyIRFl', '',
         '/-! `PyKdebugParser._is_eventid_allowed` / `kevents` / `os_log_events` / `traces` / `_filter_process_callback`',
         '    (pykdebugparser/pykdebugparser.py), symbolically evaluated from the source text into the IR of',
         '    `Model/PyIRFl` (tools/gen_pyir_fl.py). -/', '']
    for _py, field in METHODS:
        params, optional, body = blocks[field]
        L.append('def %s : Block := { params := %d, optional := %d, body :=\n  %s }\n'
                 % (field, params, optional, lean(body, lean_str)))
    L.append('def prog : Prog := { ' + ', '.join('%s := %s' % (f, f) for _py, f in METHODS) + ' }\n')
    L.append('/-- What the translator could not express outside the method bodies (must be empty). -/')
    L.append('def notes : List String := [' + ', '.join(lean_str(n) for n in notes) + ']\n')
    L += ['end KdVerif.Gen.PyIRFl', '']
    return write_if_changed('PyIRFl.lean', '\n'.join(L))
