import KdVerif.Model.PyIRFm
/-
  The IR the proofs of `Proofs/PyIRFm` were done for: a hand-written copy of what `tools/gen_pyir_fm.py` produces
  from the line builders of `pykdebugparser/pykdebugparser.py` (statement lists as right-nested `seq`, parameters
  numbered first, then locals by first binding; the alias `tid = event.tid` inlined; BOTH spellings of a conditional
  append — `x += E if c else ''` and `if c: x += E` — as the one node `appendIf x c E`).
  `C14.source_is_expected_ir` states that the generated program IS this term.  Core Lean only.
-/
namespace KdVerif.PyIRFm.Expected
open KdVerif.PyIRFm Expr Pieces Stmt

/--
```python
def _format_timestamp(self, timestamp):                                  # timestamp = v0
    if None in (self.mach_absolute_time, self.numer, self.denom, self.usecs_since_epoch, self.timezone):
        return str(timestamp) + ' '
    offset_usec = (((timestamp - self.mach_absolute_time) * self.numer) / (self.denom * 1000))     # ┐
    ts = datetime.fromtimestamp((self.usecs_since_epoch + offset_usec) / 1000000, tz=self.timezone) # │ wallClock:
    time_string = ts.strftime('%Y-%m-%d %H:%M:%S.%f')                                              # │ outside the model
    return f'{time_string:<27}'                                                                    # ┘
```
-/
def formatTimestamp : Method :=
  { params := 1
    body :=
      seq (ite (noneIn [.machAbsoluteTime, .numer, .denom, .usecsSinceEpoch, .timezone])
            (ret (cat (str (var 0)) (lit " "))) skip)
        wallClock }

/-- `f'{process_name}({pid})' if pid != -1 else f'Error: tid {tid}'` -/
def processText : Expr :=
  .ite (ne (var 1) (int (-1)))
    (fstr (fmt .plain (var 2) (.lit "(" (fmt .plain (var 1) (.lit ")" nil)))))
    (fstr (.lit "Error: tid " (fmt .plain (var 0) nil)))

/--
```python
def _format_process(self, tid):                                          # tid = v0
    pid = self.threads_pids.get(tid, -1)                                 # pid = v1
    process_name = self.pids_names.get(pid, '')                          # process_name = v2
    return f'{process_name}({pid})' if pid != -1 else f'Error: tid {tid}'
```
-/
def formatProcess : Method :=
  { params := 1
    body :=
      seq (assign 1 (tpGet (var 0) (int (-1))))
        (seq (assign 2 (pnGet (var 1) (lit "")))
          (ret processText)) }

/-- the `name` statement of `_format_kevent` -/
def keventName : Stmt :=
  .ite (isIn (attr (var 0) .eventid) (var 1))
    (assign 2 (cat (index (var 1) (attr (var 0) .eventid))
                   (fstr (.lit " (" (fmt .plain (hex (attr (var 0) .eventid)) (.lit ")" nil))))))
    (assign 2 (hex (attr (var 0) .eventid)))

/-- the qualifier column of `_format_kevent` -/
def keventQual : Stmt :=
  .ite (selfShow .funcQual)
    (tryValueError
      (append 3 (fstr (fmt (.left 15) (qualName (attr (var 0) .funcQualifier)) nil)))
      (append 3 (fstr (fmt (.left 16) (lit "Error") nil))))
    skip

/--
```python
def _format_kevent(self, event, trace_codes_map):                        # event = v0, trace_codes_map = v1
    tid = event.tid                                                      # alias of a field of a parameter: inlined
    if event.eventid in trace_codes_map:
        name = trace_codes_map[event.eventid] + f' ({hex(event.eventid)})'     # name = v2
    else:
        # Some event IDs are not public.
        name = hex(event.eventid)
    formatted_data = ''                                                  # formatted_data = v3
    if self.show_timestamp:
        formatted_data += self._format_timestamp(event.timestamp)
    formatted_data += f'{name:<58}' if self.show_name else ''
    if self.show_func_qual:
        try:
            formatted_data += f'{DgbFuncQual(event.func_qualifier).name:<15}'
        except ValueError:
            formatted_data += f'''{'Error':<16}'''
    formatted_data += f'{hex(tid):<12}' if self.show_tid else ''
    if self.show_process:
        formatted_data += f'{self._format_process(tid):<27}'
    formatted_data += f'{str(event.data):<34}' if self.show_args else ''
    return formatted_data
```
-/
def formatKevent : Method :=
  { params := 2
    body :=
      seq keventName
      (seq (assign 3 (lit ""))
      (seq (appendIf 3 (selfShow .timestamp) (callTimestamp (attr (var 0) .timestamp)))
      (seq (appendIf 3 (selfShow .name) (fstr (fmt (.left 58) (var 2) nil)))
      (seq keventQual
      (seq (appendIf 3 (selfShow .tid) (fstr (fmt (.left 12) (hex (attr (var 0) .tid)) nil)))
      (seq (appendIf 3 (selfShow .process) (fstr (fmt (.left 27) (callProcess (attr (var 0) .tid)) nil)))
      (seq (appendIf 3 (selfShow .args) (fstr (fmt (.left 34) (str (attr (var 0) .data)) nil)))
      (ret (var 3))))))))) }

/-- The header shared by `_format_trace` and `_format_callstack` (`first` = `trace.ktraces[0]` / `callstack`):
```python
    formatted_data = ''                                                  # formatted_data = v1
    if self.show_timestamp:
        formatted_data += self._format_timestamp(<first>.timestamp)
    formatted_data += f'{tid:>11} ' if self.show_tid else ''             # tid = <first>.tid, inlined
    if self.show_process:
        formatted_data += f'{self._format_process(tid):<34}'
    <rest>
```
-/
def header (first : Expr) (rest : Stmt) : Stmt :=
  seq (assign 1 (lit ""))
  (seq (appendIf 1 (selfShow .timestamp) (callTimestamp (attr first .timestamp)))
  (seq (appendIf 1 (selfShow .tid) (fstr (fmt (.right 11) (attr first .tid) (.lit " " nil))))
  (seq (appendIf 1 (selfShow .process) (fstr (fmt (.left 34) (callProcess (attr first .tid)) nil)))
  rest)))

/-- the statements of `_format_trace` behind the header -/
def traceTail : Stmt :=
  seq (assign 2 (str (var 0)))
  (seq (.ite selfColor (assign 2 (highlightStrip (var 2))) skip)
  (ret (cat (var 1) (var 2))))

/--
```python
def _format_trace(self, trace):                                          # trace = v0
    tid = trace.ktraces[0].tid                                           # inlined
    <header, first = trace.ktraces[0]>
    event_rep = str(trace)                                               # event_rep = v2
    if self.color:
        event_rep = highlight(event_rep, c_lexer, color_formatter).strip()

    return formatted_data + event_rep
```
-/
def formatTrace : Method := { params := 1, body := header (ktrace0 (var 0)) traceTail }

/-- `f'{frame.uuid}:0x{frame.offset:016x}' if frame.uuid is not None else f'0x{frame.address:016x}'` -/
def frameLine : Expr :=
  .ite (isNotNone (attr (var 4) .uuid))
    (fstr (fmt .plain (attr (var 4) .uuid) (.lit ":0x" (fmt .hex016 (attr (var 4) .offset) nil))))
    (fstr (.lit "0x" (fmt .hex016 (attr (var 4) .address) nil)))

/-- the body of the frame loop of `_format_callstack` -/
def frameBody : Stmt :=
  seq (assign 5 frameLine) (listAppend 2 (cat (rep (lit " ") (var 3)) (var 5)))

/-- the statements of `_format_callstack` behind the header -/
def callstackTail : Stmt :=
  seq (assign 2 (list1 (var 1)))
  (seq (forEnum 3 4 (attr (var 0) .frames) frameBody)
  (ret (join (lit "\n") (var 2))))

/--
```python
def _format_callstack(self, callstack):                                  # callstack = v0
    tid = callstack.tid                                                  # inlined
    <header, first = callstack>
    ret = [formatted_data]                                               # ret = v2
    for i, frame in enumerate(callstack.frames):                         # i = v3, frame = v4
        line = f'{frame.uuid}:0x{frame.offset:016x}' if frame.uuid is not None else f'0x{frame.address:016x}'   # line = v5
        ret.append((' ' * i) + line)
    return '\n'.join(ret)
```
-/
def formatCallstack : Method := { params := 1, body := header (var 0) callstackTail }

/-- the `if os_log.process:` statement of `_format_log` -/
def logProcess : Stmt :=
  .ite (attr (var 0) .process)
    (seq (assign 4 (fstr (fmt (.left 27) (callProcess (attr (var 0) .threadIdentifier)) nil)))
    (seq (assign 4 (.ite selfColor (colored (var 4) "magenta") (var 4)))
         (append 3 (fstr (.lit " " (fmt .plain (var 4) (.lit " " nil)))))))
    skip

/--
```python
def _format_log(self, os_log: OsLogEvent):                               # os_log = v0
    time_string = os_log.unix_date.strftime('%Y-%m-%d %H:%M:%S.%f')      # time_string = v1
    timestamp = f'{time_string:<27}'                                     # timestamp = v2
    event_rep = colored(str(timestamp), 'green') if self.color else str(timestamp)       # event_rep = v3
    if os_log.process:
        process = f'{self._format_process(os_log.thread_identifier):<27}'                # process = v4
        process = colored(process, 'magenta') if self.color else process
        event_rep += f' {process} '
    event_rep += colored(os_log.composed_message, 'white') if self.color else os_log.composed_message
    return event_rep
```
-/
def formatLog : Method :=
  { params := 1
    body :=
      seq (assign 1 (strftime (var 0) "%Y-%m-%d %H:%M:%S.%f"))
      (seq (assign 2 (fstr (fmt (.left 27) (var 1) nil)))
      (seq (assign 3 (.ite selfColor (colored (str (var 2)) "green") (str (var 2))))
      (seq logProcess
      (seq (append 3 (.ite selfColor (colored (attr (var 0) .composedMessage) "white") (attr (var 0) .composedMessage)))
      (ret (var 3)))))) }

def prog : Program :=
  { formatTimestamp := formatTimestamp, formatProcess := formatProcess, formatKevent := formatKevent,
    formatTrace := formatTrace, formatCallstack := formatCallstack, formatLog := formatLog }

end KdVerif.PyIRFm.Expected
