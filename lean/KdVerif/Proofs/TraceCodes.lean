import KdVerif.Spec.TraceCodes
/-
  Lemmas for C19: the three string primitives on rendered lines, the dict fold, the pairing invariant
  "a window starts with an event of the key's id", and the re-keying simulation.
-/
namespace KdVerif.TraceCodes

/-! ### Character facts (finite checks on the reflected tables) -/

theorem digitChar_facts (up : Bool) (d : Nat) (h : d < 16) :
    hexVal (digitChar up d) = some d ∧ isSpace (digitChar up d) = false ∧ isBreak (digitChar up d) = false
    ∧ (digitChar up d).toNat < 127 ∧ (digitChar up d == '_') = false ∧ (digitChar up d == 'x') = false
    ∧ (digitChar up d == 'X') = false ∧ (digitChar up d == '+') = false ∧ (digitChar up d == '-') = false
    ∧ cSpace (digitChar up d) = false := by
  have : ∀ up : Bool, ∀ d, d < 16 → hexVal (digitChar up d) = some d ∧ isSpace (digitChar up d) = false
    ∧ isBreak (digitChar up d) = false
    ∧ (digitChar up d).toNat < 127 ∧ (digitChar up d == '_') = false ∧ (digitChar up d == 'x') = false
    ∧ (digitChar up d == 'X') = false ∧ (digitChar up d == '+') = false ∧ (digitChar up d == '-') = false
    ∧ cSpace (digitChar up d) = false := by decide
  exact this up d h

theorem break_is_space_cp : ∀ n ∈ Gen.Unicode.lineBreaks, isSpaceCp n = true := by decide

/-- Every line boundary is white space (so a white-space-free name holds no boundary). -/
theorem isSpace_of_isBreak {c : Char} (h : isBreak c = true) : isSpace c = true := by
  simp only [isBreak, isBreakCp, List.contains_iff_mem] at h
  exact break_is_space_cp _ h

theorem isBreak_false_of_not_space {c : Char} (h : isSpace c = false) : isBreak c = false := by
  cases hb : isBreak c
  · rfl
  · rw [isSpace_of_isBreak hb] at h; cases h

theorem isBlank_iff {c : Char} : isBlank c = true ↔ isSpace c = true ∧ isBreak c = false := by
  simp [isBlank]

/-! ### `splitlines` -/

theorem linesFrom_true_eq (rest : List Char) (h : rest.head? ≠ some '\n') :
    linesFrom true rest = linesFrom false rest := by
  cases rest with
  | nil => rfl
  | cons c cs =>
    have hc : (c == '\n') = false := by
      cases hcn : c == '\n'
      · rfl
      · exfalso; apply h; simp at hcn; simp [hcn]
    simp [linesFrom, hc]

theorem linesFrom_nobreak (l rest : List Char) (hl : ∀ c ∈ l, isBreak c = false) (b : Bool) (hb : l ≠ []) :
    linesFrom b (l ++ rest) =
      match linesFrom false rest with
      | [] => [l]
      | x :: xs => (l ++ x) :: xs := by
  induction l generalizing b with
  | nil => exact absurd rfl hb
  | cons c cs ih =>
    have hc : isBreak c = false := hl c (by simp)
    have hcn : (c == '\n') = false := by
      cases h : c == '\n'
      · rfl
      · simp at h; subst h; revert hc; decide
    by_cases hcs : cs = []
    · subst hcs
      simp only [List.cons_append, List.nil_append, linesFrom, hcn, Bool.and_false, hc]
      cases linesFrom false rest <;> simp
    · have := ih (fun c hc => hl c (by simp [hc])) false hcs
      simp only [List.cons_append, linesFrom, hcn, Bool.and_false, hc, this]
      cases linesFrom false rest <;> simp

theorem linesFrom_term (t : Term) (ht : t.ok = true) (rest : List Char) (h : rest.head? ≠ some '\n') :
    linesFrom false (t.chars ++ rest) = [] :: linesFrom false rest := by
  cases t with
  | single c =>
    simp only [Term.ok] at ht
    simp only [Term.chars, List.cons_append, List.nil_append, linesFrom, ht]
    cases c == '\r' <;> simp [linesFrom_true_eq rest h]
  | crlf =>
    have h1 : isBreak '\r' = true := by decide
    simp [Term.chars, linesFrom, h1]

/-- One terminated line in front of a text that does not begin with "\n". -/
theorem linesFrom_line (l : List Char) (t : Term) (rest : List Char) (hl : ∀ c ∈ l, isBreak c = false)
    (hne : l ≠ []) (ht : t.ok = true) (h : rest.head? ≠ some '\n') :
    linesFrom false (l ++ (t.chars ++ rest)) = l :: linesFrom false rest := by
  rw [linesFrom_nobreak l _ hl false hne, linesFrom_term t ht rest h]
  simp

/-- An unterminated last line. -/
theorem linesFrom_last (l : List Char) (hl : ∀ c ∈ l, isBreak c = false) (hne : l ≠ []) :
    linesFrom false l = [l] := by
  have := linesFrom_nobreak l [] hl false hne
  simpa [linesFrom] using this

/-! ### `split()` -/

theorem splitWs_nil : splitWs [] = [] := rfl

theorem splitAux_nospace (t rest : List Char) (ht : ∀ c ∈ t, isSpace c = false) :
    splitAux (t ++ rest) = (t ++ (splitAux rest).1, (splitAux rest).2) := by
  induction t with
  | nil => rfl
  | cons c cs ih =>
    have hc : isSpace c = false := ht c (by simp)
    simp [splitAux, hc, ih (fun c hc => ht c (by simp [hc]))]

theorem splitAux_space (c : Char) (rest : List Char) (hc : isSpace c = true) :
    splitAux (c :: rest) = ([], splitWs rest) := by
  simp [splitAux, hc, splitWs]

theorem splitWs_space (c : Char) (rest : List Char) (hc : isSpace c = true) :
    splitWs (c :: rest) = splitWs rest := by
  simp [splitWs, splitAux_space c rest hc, pushTok]

theorem splitWs_spaces (sp rest : List Char) (hs : ∀ c ∈ sp, isSpace c = true) :
    splitWs (sp ++ rest) = splitWs rest := by
  induction sp with
  | nil => rfl
  | cons c cs ih =>
    rw [List.cons_append, splitWs_space c _ (hs c (by simp)), ih (fun c hc => hs c (by simp [hc]))]

/-- A token followed by nothing or by white space. -/
theorem splitWs_token (t rest : List Char) (hne : t ≠ []) (ht : ∀ c ∈ t, isSpace c = false)
    (hr : ∀ c, rest.head? = some c → isSpace c = true) :
    splitWs (t ++ rest) = t :: splitWs rest := by
  cases rest with
  | nil =>
    have : t.isEmpty = false := by cases t <;> simp_all
    have e := splitAux_nospace t [] ht
    simp only [List.append_nil, splitAux] at e
    simp [splitWs, e, pushTok, this, splitAux]
  | cons c r =>
    have hc : isSpace c = true := hr c rfl
    have : t.isEmpty = false := by cases t <;> simp_all
    rw [splitWs_space c r hc]
    simp [splitWs, splitAux_nospace t (c :: r) ht, splitAux_space c r hc, pushTok, this]

/-- The shape of a table line: blanks, token, blanks, token, then nothing or white space. -/
theorem splitWs_line (lead t1 sep t2 trail : List Char) (hlead : ∀ c ∈ lead, isSpace c = true)
    (h1ne : t1 ≠ []) (h1 : ∀ c ∈ t1, isSpace c = false) (hsne : sep ≠ []) (hsep : ∀ c ∈ sep, isSpace c = true)
    (h2ne : t2 ≠ []) (h2 : ∀ c ∈ t2, isSpace c = false) (htr : ∀ c, trail.head? = some c → isSpace c = true) :
    splitWs (lead ++ (t1 ++ (sep ++ (t2 ++ trail)))) = t1 :: t2 :: splitWs trail := by
  rw [splitWs_spaces lead _ hlead, splitWs_token t1 _ h1ne h1, splitWs_spaces sep _ hsep,
    splitWs_token t2 _ h2ne h2 htr]
  intro c hc
  cases sep with
  | nil => exact absurd rfl hsne
  | cons s ss => simp at hc; subst hc; exact hsep _ (by simp)

/-! ### `int(s, 16)` on a rendered id -/

def ofDigits (acc : Nat) (ds : List Nat) : Nat := ds.foldl (fun a d => a * 16 + d) acc

theorem hexDigitsAux_spec (fuel n : Nat) (h : n < fuel) :
    (∀ d ∈ hexDigitsAux fuel n, d < 16) ∧ hexDigitsAux fuel n ≠ [] ∧ ofDigits 0 (hexDigitsAux fuel n) = n := by
  induction fuel generalizing n with
  | zero => omega
  | succ f ih =>
    unfold hexDigitsAux
    by_cases hn : n < 16
    · simp [hn, ofDigits]
    · have := ih (n / 16) (by omega)
      simp only [hn, if_false]
      refine ⟨?_, by simp, ?_⟩
      · intro d hd
        rcases List.mem_append.mp hd with hd | hd
        · exact this.1 d hd
        · simp at hd; omega
      · simp only [ofDigits, List.foldl_append, List.foldl_cons, List.foldl_nil]
        have e := this.2.2
        simp only [ofDigits] at e
        rw [e]; omega

theorem hexDigitsNat_spec (n : Nat) :
    (∀ d ∈ hexDigitsNat n, d < 16) ∧ hexDigitsNat n ≠ [] ∧ ofDigits 0 (hexDigitsNat n) = n :=
  hexDigitsAux_spec (n + 1) n (by omega)

theorem ofDigits_zeros (z : Nat) (ds : List Nat) : ofDigits 0 (List.replicate z 0 ++ ds) = ofDigits 0 ds := by
  induction z with
  | zero => rfl
  | succ z ih => simpa [List.replicate_succ, ofDigits] using ih

theorem Entry.digitValues_spec (e : Entry) :
    (∀ d ∈ e.digitValues, d < 16) ∧ e.digitValues ≠ [] ∧ ofDigits 0 e.digitValues = e.id := by
  have h := hexDigitsNat_spec e.id
  refine ⟨?_, ?_, ?_⟩
  · intro d hd
    rcases List.mem_append.mp hd with hd | hd
    · have := List.eq_of_mem_replicate hd; omega
    · exact h.1 d hd
  · intro hc
    have := List.append_eq_nil_iff.mp hc
    exact h.2.1 this.2
  · rw [Entry.digitValues, ofDigits_zeros]; exact h.2.2

theorem scanDigits_digits (ds : List Nat) (hd : ∀ d ∈ ds, d < 16) (up : Nat → Bool) (acc : Nat) :
    scanDigits acc false (ds.mapIdx fun i d => digitChar (up i) d) = some (ofDigits acc ds, []) := by
  induction ds generalizing up acc with
  | nil => rfl
  | cons d ds ih =>
    obtain ⟨h1, -, -, -, h5, -⟩ := digitChar_facts (up 0) d (hd d (by simp))
    rw [List.mapIdx_cons]
    simp only [scanDigits, h5, h1]
    exact ih (fun d h => hd d (by simp [h])) (fun i => up (i + 1)) _

theorem map_xform_ascii (l : List Char) (h : ∀ c ∈ l, c.toNat < 127) : l.map xform = l := by
  induction l with
  | nil => rfl
  | cons c cs ih =>
    have hc := h c (by simp)
    simp [xform, hc, ih (fun c hc => h c (by simp [hc]))]

theorem mem_digits {ds : List Nat} (hd : ∀ d ∈ ds, d < 16) {up : Nat → Bool} {c : Char}
    (hc : c ∈ ds.mapIdx fun i d => digitChar (up i) d) : ∃ u d, d < 16 ∧ c = digitChar u d := by
  rw [List.mem_mapIdx] at hc
  obtain ⟨i, hi, rfl⟩ := hc
  exact ⟨up i, ds[i], hd _ (List.getElem_mem hi), rfl⟩

theorem prefix_facts (p : PrefixStyle) : ∀ c ∈ p.chars, c.toNat < 127 ∧ isSpace c = false ∧ isBreak c = false := by
  cases p <;> decide

/-- `int(token, 16)` of a rendered id (prefix in either case or none, leading zeros, digits in any
    mix of cases) is the id. -/
theorem pyInt16_token (p : PrefixStyle) (ds : List Nat) (hne : ds ≠ []) (hd : ∀ d ∈ ds, d < 16)
    (up : Nat → Bool) :
    pyInt16 (p.chars ++ ds.mapIdx fun i d => digitChar (up i) d) = .ok (ofDigits 0 ds : Nat) := by
  have hasc : ∀ c ∈ p.chars ++ ds.mapIdx (fun i d => digitChar (up i) d), c.toNat < 127 := by
    intro c hc
    rcases List.mem_append.mp hc with hc | hc
    · exact (prefix_facts p c hc).1
    · obtain ⟨u, d, hd', rfl⟩ := mem_digits hd hc
      exact (digitChar_facts u d hd').2.2.2.1
  have hscan := scanDigits_digits ds hd up 0
  unfold pyInt16
  rw [map_xform_ascii _ hasc]
  cases ds with
  | nil => exact absurd rfl hne
  | cons d0 ds' =>
    rw [List.mapIdx_cons] at hscan ⊢
    obtain ⟨f1, -, -, -, f5, f6, f7, f8, f9, f10⟩ := digitChar_facts (up 0) d0 (hd d0 (by simp))
    have hcs : ∀ c ∈ List.mapIdx (fun i d => digitChar (up (i + 1)) d) ds',
        (c == 'x') = false ∧ (c == 'X') = false := by
      intro c hc
      obtain ⟨u, d, hd', rfl⟩ := mem_digits (up := fun i => up (i + 1)) (fun d h => hd d (by simp [h])) hc
      have := digitChar_facts u d hd'
      exact ⟨this.2.2.2.2.2.1, this.2.2.2.2.2.2.1⟩
    generalize digitChar (up 0) d0 = c0 at *
    generalize List.mapIdx (fun i d => digitChar (up (i + 1)) d) ds' = cs at *
    have hstrip : stripPrefix (c0 :: cs) = c0 :: cs := by
      cases cs with
      | nil => rfl
      | cons x r =>
        have hx := hcs x (by simp)
        simp [stripPrefix, hx.1, hx.2]
    have hbody : parseBody false (c0 :: cs) = .ok (ofDigits 0 (d0 :: ds') : Nat) := by
      simp [parseBody, f1, hscan]
    have e1 : cSpace '0' = false := by decide
    cases p with
    | none =>
      have hd : List.dropWhile cSpace (PrefixStyle.none.chars ++ c0 :: cs) = c0 :: cs := by
        simp [PrefixStyle.chars, List.dropWhile_cons_of_neg, f10]
      have hs : stripSign (c0 :: cs) = (false, c0 :: cs) := by simp [stripSign, f8, f9]
      simp only [hd, hs, hstrip, hbody]
    | lower =>
      have hd : List.dropWhile cSpace (PrefixStyle.lower.chars ++ c0 :: cs) = '0' :: 'x' :: c0 :: cs := by
        simp [PrefixStyle.chars, List.dropWhile_cons_of_neg, e1]
      have hs : stripSign ('0' :: 'x' :: c0 :: cs) = (false, '0' :: 'x' :: c0 :: cs) := by simp [stripSign]
      have hp : stripPrefix ('0' :: 'x' :: c0 :: cs) = c0 :: cs := by simp [stripPrefix, f5]
      simp only [hd, hs, hp, hbody]
    | upper =>
      have hd : List.dropWhile cSpace (PrefixStyle.upper.chars ++ c0 :: cs) = '0' :: 'X' :: c0 :: cs := by
        simp [PrefixStyle.chars, List.dropWhile_cons_of_neg, e1]
      have hs : stripSign ('0' :: 'X' :: c0 :: cs) = (false, '0' :: 'X' :: c0 :: cs) := by simp [stripSign]
      have hp : stripPrefix ('0' :: 'X' :: c0 :: cs) = c0 :: cs := by simp [stripPrefix, f5]
      simp only [hd, hs, hp, hbody]

/-! ### One rendered line -/

theorem Entry.token_facts (e : Entry) :
    e.token ≠ [] ∧ (∀ c ∈ e.token, isSpace c = false) ∧ (∀ c ∈ e.token, isBreak c = false) := by
  have hv := e.digitValues_spec
  have hdig : ∀ c ∈ e.digits, isSpace c = false ∧ isBreak c = false := by
    intro c hc
    obtain ⟨u, d, hd, rfl⟩ := mem_digits hv.1 hc
    have := digitChar_facts u d hd
    exact ⟨this.2.1, this.2.2.1⟩
  have hne : e.digits ≠ [] := by
    intro h
    have : e.digits.length = e.digitValues.length := by simp [Entry.digits]
    rw [h] at this
    exact hv.2.1 (List.eq_nil_of_length_eq_zero this.symm)
  refine ⟨?_, ?_, ?_⟩
  · intro h; exact hne (List.append_eq_nil_iff.mp h).2
  · intro c hc
    rcases List.mem_append.mp hc with hc | hc
    · exact (prefix_facts _ c hc).2.1
    · exact (hdig c hc).1
  · intro c hc
    rcases List.mem_append.mp hc with hc | hc
    · exact (prefix_facts _ c hc).2.2
    · exact (hdig c hc).2

theorem parseLine_entry (e : Entry) (h : e.WF) : parseLine e.line = .ok ((e.id : Int), e.name) := by
  have ht := e.token_facts
  have hv := e.digitValues_spec
  have hsplit := splitWs_line e.lead e.token e.sep e.name.toList e.trail
    (fun c hc => (isBlank_iff.mp (h.lead_blank c hc)).1) ht.1 ht.2.1 h.sep_ne
    (fun c hc => (isBlank_iff.mp (h.sep_blank c hc)).1) h.name_ne h.name_nospace h.trail_head
  have hint : pyInt16 e.token = .ok (e.id : Int) := by
    have := pyInt16_token e.pfx e.digitValues hv.2.1 hv.1 e.upper
    rw [hv.2.2] at this
    exact this
  simp only [parseLine, Entry.line, hsplit, hint, String.ofList_toList]

theorem Entry.line_facts (e : Entry) (h : e.WF) : e.line ≠ [] ∧ ∀ c ∈ e.line, isBreak c = false := by
  have ht := e.token_facts
  refine ⟨?_, ?_⟩
  · intro hc
    simp only [Entry.line, List.append_eq_nil_iff] at hc
    exact ht.1 hc.2.1
  · intro c hc
    simp only [Entry.line, List.mem_append] at hc
    rcases hc with hc | hc | hc | hc | hc
    · exact (isBlank_iff.mp (h.lead_blank c hc)).2
    · exact ht.2.2 c hc
    · exact (isBlank_iff.mp (h.sep_blank c hc)).2
    · exact isBreak_false_of_not_space (h.name_nospace c hc)
    · exact h.trail_nobreak c hc

/-! ### The whole text -/

theorem head_ne_newline_of_nobreak (l rest : List Char) (hne : l ≠ []) (hl : ∀ c ∈ l, isBreak c = false) :
    (l ++ rest).head? ≠ some '\n' := by
  cases l with
  | nil => exact absurd rfl hne
  | cons c cs =>
    intro h
    simp at h
    have := hl c (by simp)
    subst h
    revert this; decide

theorem renderLines_head (es : List Entry) (hes : ∀ e ∈ es, e.WF) (rest : List Char)
    (hr : rest.head? ≠ some '\n') : (renderLines es ++ rest).head? ≠ some '\n' := by
  cases es with
  | nil => simpa [renderLines] using hr
  | cons e es =>
    have hl := e.line_facts (hes e (by simp))
    simp only [renderLines, List.flatMap_cons, List.append_assoc]
    exact head_ne_newline_of_nobreak _ _ hl.1 hl.2

theorem splitLines_render (es : List Entry) (hes : ∀ e ∈ es, e.WF) (rest : List Char)
    (hr : rest.head? ≠ some '\n') :
    splitLines (renderLines es ++ rest) = es.map Entry.line ++ splitLines rest := by
  induction es with
  | nil => simp [renderLines]
  | cons e es ih =>
    have hw := hes e (by simp)
    have hl := e.line_facts hw
    have hes' : ∀ e ∈ es, e.WF := fun e he => hes e (by simp [he])
    have hhead := renderLines_head es hes' rest hr
    have ih' := ih hes'
    simp only [splitLines] at ih' ⊢
    have e1 : renderLines (e :: es) ++ rest = e.line ++ (e.term.chars ++ (renderLines es ++ rest)) := by
      simp [renderLines, List.flatMap_cons, List.append_assoc]
    rw [e1, linesFrom_line e.line e.term _ hl.2 hl.1 hw.term_ok hhead, ih']
    simp

theorem parseLines_entries (es : List Entry) (hes : ∀ e ∈ es, e.WF) (t : Table) (more : List (List Char)) :
    parseLines t (es.map Entry.line ++ more) =
      parseLines (es.foldl (fun t e => t.insert e.id e.name) t) more := by
  induction es generalizing t with
  | nil => rfl
  | cons e es ih =>
    simp only [List.map_cons, List.cons_append, parseLines, parseLine_entry e (hes e (by simp)), List.foldl_cons]
    exact ih (fun e he => hes e (by simp [he])) _

/-! ### The dict -/

theorem Table.get?_insert (t : Table) (k k' : Int) (v : String) :
    (t.insert k v).get? k' = if k = k' then some v else t.get? k' := by
  induction t with
  | nil => simp [Table.insert, Table.get?]
  | cons kv r ih =>
    obtain ⟨a, b⟩ := kv
    by_cases h : a = k
    · subst h
      by_cases h' : a = k' <;> simp [Table.insert, Table.get?, h']
    · by_cases h' : a = k'
      · subst h'
        have : ¬ k = a := fun e => h e.symm
        simp [Table.insert, Table.get?, h, this]
      · simp [Table.insert, Table.get?, h, h', ih]

theorem foldl_insert_get? (es : List Entry) (t : Table) (k : Int) :
    (es.foldl (fun t e => t.insert e.id e.name) t).get? k =
      match lastName es k with
      | some n => some n
      | none => t.get? k := by
  induction es generalizing t with
  | nil => rfl
  | cons e es ih =>
    simp only [List.foldl_cons, ih, lastName, Table.get?_insert]
    cases lastName es k with
    | some n => rfl
    | none => by_cases h : (e.id : Int) = k <;> simp [h]

theorem Table.keys_insert (t : Table) (k : Int) (v : String) :
    (t.insert k v).keys = if k ∈ t.keys then t.keys else t.keys ++ [k] := by
  induction t with
  | nil => simp [Table.insert, Table.keys]
  | cons kv r ih =>
    obtain ⟨a, b⟩ := kv
    simp only [Table.keys] at ih
    by_cases h : a = k
    · subst h; simp [Table.insert, Table.keys]
    · have h' : ¬ k = a := fun e => h e.symm
      simp only [Table.insert, h, if_false, Table.keys, List.map_cons, ih, List.mem_cons, h', false_or]
      split <;> simp_all

theorem Table.keys_nodup_insert (t : Table) (k : Int) (v : String) (h : t.keys.Nodup) :
    (t.insert k v).keys.Nodup := by
  rw [Table.keys_insert]
  split
  · exact h
  · rename_i hk
    exact List.nodup_append.mpr ⟨h, by simp, by
      intro a ha b hb
      simp at hb; subst hb
      intro e; subst e; exact hk ha⟩

theorem foldl_insert_nodup (es : List Entry) (t : Table) (h : t.keys.Nodup) :
    (es.foldl (fun t e => t.insert e.id e.name) t).keys.Nodup := by
  induction es generalizing t with
  | nil => exact h
  | cons e es ih => exact ih _ (Table.keys_nodup_insert t _ _ h)

theorem Table.get?_isSome_iff (t : Table) (k : Int) : (t.get? k).isSome = true ↔ k ∈ t.keys := by
  induction t with
  | nil => simp [Table.get?, Table.keys]
  | cons kv r ih =>
    obtain ⟨a, b⟩ := kv
    simp only [Table.keys] at ih
    by_cases h : a = k
    · simp [Table.get?, Table.keys, h]
    · have h' : ¬ k = a := fun e => h e.symm
      simp [Table.get?, Table.keys, h, h', ih]

theorem lastName_some {es : List Entry} {k : Int} {n : String} (h : lastName es k = some n) :
    ∃ e ∈ es, (e.id : Int) = k ∧ e.name = n := by
  induction es with
  | nil => simp [lastName] at h
  | cons e es ih =>
    simp only [lastName] at h
    cases hl : lastName es k with
    | some m =>
      rw [hl] at h
      simp at h; subst h
      obtain ⟨e', he', h1, h2⟩ := ih hl
      exact ⟨e', by simp [he'], h1, h2⟩
    | none =>
      rw [hl] at h
      by_cases hk : (e.id : Int) = k
      · simp [hk] at h
        exact ⟨e, by simp, hk, h⟩
      · simp [hk] at h

theorem lastName_of_mem {es : List Entry} {e : Entry} (he : e ∈ es) : (lastName es e.id).isSome = true := by
  induction es with
  | nil => simp at he
  | cons a es ih =>
    simp only [lastName]
    rcases List.mem_cons.mp he with rfl | he
    · cases lastName es e.id <;> simp
    · have := ih he
      cases h : lastName es e.id with
      | some n => simp
      | none => rw [h] at this; simp at this

/-! ### Pairing: a window starts with an event of its key's id -/

open Pairing

/-- Every open window is non-empty and begins with an event carrying the key's event id. -/
def HeadInv (s : PState) : Prop := ∀ k l, s k = some l → ∃ h t, l = h :: t ∧ h.eventid = k.eid

theorem headInv_empty : HeadInv PState.empty := by
  intro k l h; simp [PState.empty] at h

theorem headInv_appendAll {s : PState} (hs : HeadInv s) (d : Bool) (tid : Nat) (e : Kevent) :
    HeadInv (appendAll s d tid e) := by
  intro k l h
  simp only [appendAll] at h
  split at h
  · cases hk : s k with
    | none => simp [hk] at h
    | some l0 =>
      obtain ⟨x, t, rfl, hx⟩ := hs k l0 hk
      simp [hk] at h
      exact ⟨x, t ++ [e], by simp [← h], hx⟩
  · exact hs k l h

theorem headInv_set_none {s : PState} (hs : HeadInv s) (k0 : Key) : HeadInv (Pairing.set s k0 none) := by
  intro k l h
  simp only [Pairing.set] at h
  split at h
  · cases h
  · exact hs k l h

theorem step_headInv (dom : Nat → Bool) (s : PState) (e : Kevent) (hs : HeadInv s) :
    HeadInv (step dom s e).1 ∧
      ∀ w, (step dom s e).2 = some w → ∃ h t, w = h :: t ∧ h.eventid = e.eventid := by
  unfold step
  simp only
  split
  · -- START
    refine ⟨?_, by simp⟩
    intro k l h
    simp only [appendAll, Pairing.set, keyOf] at h
    by_cases hk2 : k = ⟨dom e.eventid, e.tid, e.eventid⟩
    · subst hk2
      simp at h
      exact ⟨e, [], h.symm, rfl⟩
    · simp only [hk2, if_false] at h
      by_cases hk : k.dom = dom e.eventid ∧ k.tid = e.tid
      · rw [if_pos hk] at h
        cases hk' : s k with
        | none => simp [hk'] at h
        | some l0 =>
          obtain ⟨x, t, rfl, hx⟩ := hs k l0 hk'
          simp [hk'] at h
          exact ⟨x, t ++ [e], by simp [← h], hx⟩
      · rw [if_neg hk] at h
        exact hs k l h
  · split
    · -- END
      split
      · exact ⟨hs, by simp⟩
      · rename_i l0 hk
        refine ⟨headInv_set_none (headInv_appendAll hs _ _ _) _, ?_⟩
        intro w hw
        obtain ⟨x, t, hl, hx⟩ := headInv_appendAll hs (keyOf dom e).dom e.tid e (keyOf dom e) w (by simpa using hw)
        exact ⟨x, t, hl, by simpa [keyOf] using hx⟩
    · -- single
      refine ⟨headInv_appendAll hs _ _ _, ?_⟩
      intro w hw
      simp at hw
      exact ⟨e, [], hw.symm, rfl⟩

/-- What `feed` may answer for one event. -/
def GateOk (codes : Table) (handlers : String → Bool) (e : Kevent) :
    Except PyErr (Option (String × List Kevent)) → Prop
  | .error _ => False
  | .ok none => True
  | .ok (some (n, w)) =>
    codes.get? e.eventid = some n ∧ handlers n = true ∧ ∃ h t, w = h :: t ∧ h.eventid = e.eventid

theorem gateOut_ok (codes : Table) (handlers : String → Bool) (e : Kevent) (o : Option (List Kevent))
    (ho : ∀ w, o = some w → ∃ h t, w = h :: t ∧ h.eventid = e.eventid) :
    GateOk codes handlers e (gateOut codes handlers o) := by
  cases o with
  | none => simp [gateOut, GateOk]
  | some w =>
    obtain ⟨x, t, rfl, hx⟩ := ho w rfl
    simp only [gateOut, gate, hx]
    cases hc : codes.get? e.eventid with
    | none => simp [GateOk]
    | some n =>
      by_cases hh : handlers n = true
      · simp only [hh, if_true, GateOk, hc]; exact ⟨trivial, trivial, x, t, rfl, hx⟩
      · simp [hh, GateOk]

theorem decodedFrom_ok (codes : Table) (handlers traceNames : String → Bool) (s : PState) (hs : HeadInv s)
    (h : List Kevent) :
    ∀ p ∈ List.zip h (decodedFrom codes handlers traceNames s h), GateOk codes handlers p.1 p.2 := by
  induction h generalizing s with
  | nil => intro p hp; simp [decodedFrom, outputs] at hp
  | cons e es ih =>
    have hst := step_headInv (domOf codes traceNames) s e hs
    intro p hp
    simp only [decodedFrom, outputs, List.map_cons, List.zip_cons_cons, List.mem_cons] at hp
    rcases hp with rfl | hp
    · exact gateOut_ok codes handlers e _ hst.2
    · exact ih _ hst.1 p hp

theorem outputs_length (dom : Nat → Bool) (s : PState) (h : List Kevent) : (outputs dom s h).length = h.length := by
  induction h generalizing s with
  | nil => rfl
  | cons e es ih => simp [outputs, ih]

theorem decodedFrom_length (codes : Table) (handlers traceNames : String → Bool) (s : PState) (h : List Kevent) :
    (decodedFrom codes handlers traceNames s h).length = h.length := by
  simp [decodedFrom, outputs_length]

/-! ### Re-keying simulation -/

def rekeyKey (ρ : Nat → Nat) (k : Key) : Key := ⟨k.dom, k.tid, ρ k.eid⟩

/-- The second state is the first with every id `x` renamed to `ρ x` and every stored event mapped by `f`. -/
def Sim (ρ : Nat → Nat) (f : Kevent → Kevent) (s1 s2 : PState) : Prop :=
  ∀ k, s2 (rekeyKey ρ k) = (s1 k).map (List.map f)

/-- `f` changes the id of an event by `ρ` and keeps thread and qualifier. -/
def Rekeys (ρ : Nat → Nat) (f : Kevent → Kevent) : Prop :=
  ∀ e, (f e).tid = e.tid ∧ (f e).qual = e.qual ∧ (f e).eventid = ρ e.eventid

theorem rekeyKey_inj {ρ : Nat → Nat} (hρ : ∀ a b, ρ a = ρ b → a = b) {k k' : Key} :
    rekeyKey ρ k = rekeyKey ρ k' ↔ k = k' := by
  constructor
  · intro h
    cases k; cases k'
    simp only [rekeyKey, Key.mk.injEq] at h ⊢
    exact ⟨h.1, h.2.1, hρ _ _ h.2.2⟩
  · intro h; rw [h]

theorem sim_appendAll {ρ f s1 s2} (hs : Sim ρ f s1 s2) (d : Bool) (tid : Nat) (e : Kevent) :
    Sim ρ f (appendAll s1 d tid e) (appendAll s2 d tid (f e)) := by
  intro k
  have := hs k
  unfold appendAll
  by_cases hk : k.dom = d ∧ k.tid = tid
  · have hk' : (rekeyKey ρ k).dom = d ∧ (rekeyKey ρ k).tid = tid := hk
    rw [if_pos hk', if_pos hk, this]; cases s1 k <;> simp
  · have hk' : ¬ ((rekeyKey ρ k).dom = d ∧ (rekeyKey ρ k).tid = tid) := hk
    rw [if_neg hk', if_neg hk, this]

theorem sim_set {ρ f s1 s2} (hρ : ∀ a b, ρ a = ρ b → a = b) (hs : Sim ρ f s1 s2) (k0 : Key)
    (v : Option (List Kevent)) :
    Sim ρ f (Pairing.set s1 k0 v) (Pairing.set s2 (rekeyKey ρ k0) (v.map (List.map f))) := by
  intro k
  simp only [Pairing.set, rekeyKey_inj hρ]
  split
  · rfl
  · exact hs k

theorem step_sim {ρ : Nat → Nat} {f : Kevent → Kevent} (hρ : ∀ a b, ρ a = ρ b → a = b) (hf : Rekeys ρ f)
    {dom1 dom2 : Nat → Bool} (hdom : ∀ x, dom2 (ρ x) = dom1 x) {s1 s2 : PState} (hs : Sim ρ f s1 s2)
    (e : Kevent) :
    Sim ρ f (step dom1 s1 e).1 (step dom2 s2 (f e)).1 ∧
      (step dom2 s2 (f e)).2 = ((step dom1 s1 e).2).map (List.map f) := by
  obtain ⟨h1, h2, h3⟩ := hf e
  have hkey : keyOf dom2 (f e) = rekeyKey ρ (keyOf dom1 e) := by
    simp [keyOf, rekeyKey, h1, h3, hdom]
  have hkd : (rekeyKey ρ (keyOf dom1 e)).dom = (keyOf dom1 e).dom := rfl
  unfold step
  simp only [hkey, h1, h2, hkd]
  split
  · refine ⟨?_, rfl⟩
    have := sim_set hρ hs (keyOf dom1 e) (some [])
    simp only [Option.map_some, List.map_nil] at this
    exact sim_appendAll this _ _ _
  · split
    · have hk := hs (keyOf dom1 e)
      cases h : s1 (keyOf dom1 e) with
      | none =>
        rw [h] at hk; simp only [Option.map_none] at hk
        simp only [hk]
        exact ⟨hs, rfl⟩
      | some l =>
        rw [h] at hk; simp only [Option.map_some] at hk
        simp only [hk]
        have ha := sim_appendAll hs (keyOf dom1 e).dom e.tid e
        refine ⟨?_, ha (keyOf dom1 e)⟩
        have := sim_set hρ ha (keyOf dom1 e) none
        simpa using this
    · exact ⟨sim_appendAll hs _ _ _, rfl⟩

/-- The image of a `feed` answer under re-keying. -/
def mapOut (f : Kevent → Kevent) :
    Except PyErr (Option (String × List Kevent)) → Except PyErr (Option (String × List Kevent))
  | .error e => .error e
  | .ok none => .ok none
  | .ok (some (n, w)) => .ok (some (n, w.map f))

theorem gateOut_sim {ρ : Nat → Nat} {f : Kevent → Kevent} (hf : Rekeys ρ f) {c1 c2 : Table}
    (hc : ∀ x : Nat, c2.get? (ρ x : Nat) = c1.get? x) (handlers : String → Bool) (o : Option (List Kevent)) :
    gateOut c2 handlers (o.map (List.map f)) = mapOut f (gateOut c1 handlers o) := by
  cases o with
  | none => rfl
  | some w =>
    cases w with
    | nil => rfl
    | cons x t =>
      simp only [Option.map_some, List.map_cons, gateOut, gate, (hf x).2.2, hc]
      cases c1.get? x.eventid with
      | none => rfl
      | some n => by_cases hh : handlers n = true <;> simp [hh, mapOut]

theorem decodedFrom_sim {ρ : Nat → Nat} {f : Kevent → Kevent} (hρ : ∀ a b, ρ a = ρ b → a = b) (hf : Rekeys ρ f)
    {c1 c2 : Table} (hc : ∀ x : Nat, c2.get? (ρ x : Nat) = c1.get? x) (handlers traceNames : String → Bool)
    {s1 s2 : PState} (hs : Sim ρ f s1 s2) (h : List Kevent) :
    decodedFrom c2 handlers traceNames s2 (h.map f) =
      (decodedFrom c1 handlers traceNames s1 h).map (mapOut f) := by
  have hdom : ∀ x, domOf c2 traceNames (ρ x) = domOf c1 traceNames x := by
    intro x; simp [domOf, hc]
  induction h generalizing s1 s2 with
  | nil => rfl
  | cons e es ih =>
    obtain ⟨h1, h2⟩ := step_sim hρ hf hdom hs e
    have := ih h1
    simp only [decodedFrom] at this
    simp only [decodedFrom, List.map_cons, outputs, h2, gateOut_sim hf hc, this]

theorem sim_empty (ρ : Nat → Nat) (f : Kevent → Kevent) : Sim ρ f PState.empty PState.empty := by
  intro k; rfl

end KdVerif.TraceCodes
