#!/bin/sh
# Runs every registered check (quick tier unless $1 = thorough) and prints one line per property.
cd "$(dirname "$0")/.."
TIER=${1:-quick}
for p in $(/venv/bin/python -c "import json;print(' '.join(c['property_id'] for c in json.load(open('MANIFEST.json'))['checks']))"); do
  /venv/bin/python tools/check.py $p --tier $TIER 2>&1 | grep -v "^KNOWN-FINDING" | tail -1 | cut -c1-160
done
