"""C05 — per-thread results are invariant under interleaving of threads.  WINDOW-LEVEL HALF ONLY: the
sequence of event windows delivered per thread.  (Rendered text and learned process names: added by the slice
that owns Model/Context — see the header of lean/KdVerif/Props/C05.lean.)"""
import json

from .. import core
from .. import pairing as P
from ..core import run_section

MODULE = 'KdVerif.Props.C05'
NAMESPACE = 'KdVerif.C05'
TRUSTED = ['Model/Pairing.step/run: hand model of TracesParser.feed/feed_generator up to parse_event_list, tied to '
           'the code by the correspondence sections `interleave` / `interleave-real` (and C04 `pairing`)',
           'window-level half only: decoders and the learned-names tables are not modelled in this slice']
ASSUMPTIONS = ['a window is attributed to the thread of its first event (all events of a delivered window have the '
               'same thread id: theorem window_single_thread)',
               'two merges are "interleavings of the same per-thread programs" iff their per-thread subsequences '
               'coincide']

SCHEDULES = ['sequential', 'reverse', 'round-robin', 'round-robin-reverse', 'bursty', 'bursty2', 'random',
             'random2', 'longest-first', 'random3', 'random4', 'bursty3']


def schedule(rng, kind, lens):
    """A list of program indices, index i occurring lens[i] times."""
    n = len(lens)
    left = list(lens)
    out = []
    if kind == 'sequential':
        for i in range(n):
            out += [i] * lens[i]
    elif kind == 'reverse':
        for i in reversed(range(n)):
            out += [i] * lens[i]
    elif kind in ('round-robin', 'round-robin-reverse'):
        order = list(range(n)) if kind == 'round-robin' else list(reversed(range(n)))
        while any(left):
            for i in order:
                if left[i]:
                    out.append(i)
                    left[i] -= 1
    elif kind.startswith('bursty'):
        while any(left):
            i = rng.choice([j for j in range(n) if left[j]])
            b = min(left[i], rng.randint(1, 6))
            out += [i] * b
            left[i] -= b
    elif kind == 'longest-first':
        while any(left):
            i = max(range(n), key=lambda j: left[j])
            out.append(i)
            left[i] -= 1
    else:
        pool = [i for i in range(n) for _ in range(lens[i])]
        rng.shuffle(pool)
        out = pool
    return out


def materialise(codes, programs, sched, kind, group):
    """programs: [[tid, [[timestamp, eid, q, args], ...]], ...]; timestamps belong to the program, not to the
    schedule, so per-thread results of different schedules can be compared literally."""
    pos = [0] * len(programs)
    events = []
    for i in sched:
        tid, prog = programs[i]
        ts, e, q, args = prog[pos[i]]
        events.append([ts, tid, e, q, args])
        pos[i] += 1
    return {'codes': codes, 'events': events, 'style': kind, 'group': group,
            'programs': [[t, [list(x) for x in p]] for t, p in programs]}


def fixed_groups():
    """Tiny two-thread program sets under every schedule (so that a broken keying shows up on a handful of events)."""
    tn = P.trace_domain_names()
    codes = [[0x40c000c, 'BSC_read', True], [0x40c0010, 'BSC_write', True], [0x7000008, tn[0], True],
             [0x1020004, 'KTrap_Debug', False]]
    A, B, T, U = [c[0] for c in codes]
    z = [0, 0, 0, 0]
    sets = [
        [[1, [(A, 1), (B, 0), (A, 2)]], [2, [(A, 1), (A, 0), (A, 2)]]],
        [[1, [(A, 1), (A, 2)]], [2, [(A, 2), (A, 1), (A, 2)]]],
        [[1, [(A, 1), (B, 1), (A, 2), (B, 2)]], [2, [(B, 1), (A, 3), (B, 2), (A, 2)]]],
        [[7, [(T, 1), (A, 0), (T, 2)]], [8, [(T, 0), (T, 1), (U, 0), (T, 2)]], [9, [(A, 0)]]],
    ]
    out = []
    for g, progs in enumerate(sets):
        programs = [[t, [[i * 1000 + j, e, q, z] for j, (e, q) in enumerate(p)]] for i, (t, p) in enumerate(progs)]
        lens = [len(p) for _, p in programs]
        import random
        r = random.Random(g)
        out += [materialise(codes, programs, schedule(r, k, lens), k, 'fixed%d' % g) for k in SCHEDULES]
    return out


def gen_group(rng, group, nsched, real=None):
    codes = real if real is not None else P.make_alphabet(rng)
    eids = [c[0] for c in codes]
    nt = rng.randint(2, 4)
    tids = P.pick_tids(rng, nt)
    style = rng.choice(['random', 'nested', 'crossing'])
    programs = []
    for i, t in enumerate(tids):
        prog = P.gen_program(rng, eids, rng.randint(0, 14), style)
        programs.append([t, [[i * 1000 + j, e, q,
                              P.real_args(rng) if real is not None else [rng.getrandbits(64) for _ in range(4)]]
                             for j, (e, q) in enumerate(prog)]])
    lens = [len(p) for _, p in programs]
    return [materialise(codes, programs, schedule(rng, k, lens), k, group) for k in SCHEDULES[:nsched]]


def sequential_case(case):
    progs = case['programs']
    lens = [len(p) for _, p in progs]
    return materialise(case['codes'], progs, schedule(None, 'sequential', lens), 'sequential', case['group'])


def own_thread_expected(case):
    """Each thread's windows when its program is parsed ALONE, from the declarative spec (independent of the
    model and of the implementation)."""
    parts = {}
    for tid, prog in case['programs']:
        if not prog:
            continue
        alone = {'codes': case['codes'], 'events': [[ts, tid, e, q, a] for ts, e, q, a in prog]}
        exp = [x for x in P.Spec(alone).expected_per_event() if x != '-']
        parts[tid] = '|'.join(exp)
    return 'ok ' + ';'.join('%d:%s' % (t, parts[t]) for t in sorted(parts))


def make_impl(factory_of):
    def impl_fn(case):
        return P.show_per_thread(factory_of(case), case)
    return impl_fn


def make_oracle(impl_fn):
    def oracle(case, got):
        if not got.startswith('ok'):
            return ('interleave:raises', 'feeding the merged history failed: ' + got)
        try:
            seq = impl_fn(sequential_case(case))
        except Exception as e:      # pragma: no cover
            seq = 'err ' + core.err_name(e)
        if seq != got:
            return ('interleave:thread-windows-depend-on-schedule',
                    'schedule %s delivers %s, the sequential order delivers %s' % (case['style'], got, seq))
        exp = own_thread_expected(case)
        if exp != got:
            return ('interleave:thread-windows-differ-from-own-run',
                    'schedule %s delivers %s, each thread alone (specification) delivers %s'
                    % (case['style'], got, exp))
        return None
    return oracle


impl_stub = make_impl(lambda case: (lambda: P.stub_parser(case)))
impl_real = make_impl(lambda case: P.real_parser)
SECTIONS = {'interleave': impl_stub, 'interleave-real': impl_real}


def model_groups_agree(rep, name, cases):
    """The driver's answers for all schedules of one program set must coincide (theorem
    interleaving_invariant_windows, observed on the compiled model)."""
    answers = core.drive([P.line('pairt', c) for c in cases]) if cases else []
    seen = {}
    bad = 0
    for c, a in zip(cases, answers):
        if seen.setdefault(c['group'], a) != a:
            bad += 1
    if bad:
        rep.broken.append('model:%s: %d schedules change the per-thread windows of the compiled model' % (name, bad))


RULE = ('4 hand-written tiny program sets + seeded program sets of 2-4 threads (0..14 events each, 12-code alphabet as '
        'in C04, unmatched / repeated / nested / crossing pairs) each merged under the schedules sequential, reverse, '
        'round-robin (both directions), bursty, longest-first and seeded random; real TracesParser with recording '
        'stubs; compared: per thread the delivered windows (timestamps, gate mark) in order; oracle: equal to the '
        'sequential run of the implementation and to each thread parsed alone by the declarative specification; '
        'non-trivial = non-sequential schedules delivering a multi-event window')


def correspondence(rep, rng, tier):
    kind = lambda c, got: c['style']  # noqa: E731
    nontriv = lambda c, got: got.startswith('ok') and ',' in got and c['style'] != 'sequential'  # noqa: E731
    ns = 8 if tier == 'quick' else 12
    chunks = [500] if tier == 'quick' else [1000] * 6
    g0 = 0
    for k, ng in enumerate(chunks):
        cases = (fixed_groups() if k == 0 else []) + [c for g in range(g0, g0 + ng) for c in gen_group(rng, g, ns)]
        g0 += ng
        run_section(rep, 'interleave', cases,
                    line_fn=lambda c: P.line('pairt', c), impl_fn=impl_stub, oracle_fn=make_oracle(impl_stub),
                    nontrivial_fn=nontriv, kind_fn=kind, rule=RULE)
        model_groups_agree(rep, 'interleave', cases)
    P.shrink_failures(rep, 'interleave', impl_stub, make_oracle(impl_stub), lambda c: P.line('pairt', c))
    real = P.real_alphabet()
    ng2 = 120 if tier == 'quick' else 1500
    rcases = [c for g in range(ng2) for c in gen_group(rng, g, ns, real=real)]
    run_section(rep, 'interleave-real', rcases,
                line_fn=lambda c: P.line('pairt', c), impl_fn=impl_real, oracle_fn=make_oracle(impl_real),
                nontrivial_fn=nontriv, kind_fn=kind,
                rule='the same with the real handlers over BSC_read, BSC_write, BSC_getpid, MACH_SCHED, TRACE_DATA_EXEC, '
                     'TRACE_STRING_PROC_EXIT, one undecoded name and one unknown id (trace.ktraces compared)')
    model_groups_agree(rep, 'interleave-real', rcases)
    P.shrink_failures(rep, 'interleave-real', impl_real, make_oracle(impl_real), lambda c: P.line('pairt', c))


def replay(path):
    with open(path) as fd:
        r = json.load(fd)
    rp = r.get('replay') or {}
    if 'case' not in rp:
        print('nothing to replay (no failing input was recorded):', r.get('no_longer_checks'))
        return 1
    case, sec = rp['case'], rp.get('section', 'interleave')
    impl_fn = SECTIONS[sec]
    try:
        got = impl_fn(case)
    except Exception as e:
        got = 'err ' + core.err_name(e)
    try:
        seq = impl_fn(sequential_case(case))
    except Exception as e:
        seq = 'err ' + core.err_name(e)
    model = core.drive([P.line('pairt', case)])[0]
    print('merged history, schedule %s (timestamp tid code qualifier):' % case['style'])
    for e in case['events']:
        print('   %d tid=%d code=%#x q=%d' % (e[0], e[1], e[2], e[3]))
    print('impl            :', got)
    print('impl sequential :', seq)
    print('model           :', model)
    res = make_oracle(impl_fn)(case, got)
    if res:
        print('oracle:', res[0], '-', res[1])
        print(f'VIOLATION property=C05 replay={path}')
        return 1
    print('oracle: property holds on this input')
    return 0


LEVEL_TEXT = ('Window-level half: Lean theorems for ALL histories and threads — step_other_thread_frame (a step '
              'touches only entries of the event\'s thread), projection_windows (the windows of thread t in a merged '
              'history are the windows of t\'s own subsequence) and interleaving_invariant_windows (equal per-thread '
              'subsequences give equal per-thread window sequences); model tied to the code by differential runs over '
              'many schedules of the same per-thread programs.')
LEVEL_NOTE = ('Trusted: Lean kernel; hand model of feed (Model/Pairing) tied by correspondence.  The rendered-text and '
              'learned-names half of C05 is not covered by this module.')
TECHNIQUE = 'Lean 4 frame/projection proof + differential correspondence over schedules'
