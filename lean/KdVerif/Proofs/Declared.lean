import KdVerif.Model.Declared
import KdVerif.Proofs.TraceProjection
/-
  C14 (process-column half): the context tables of `Trace.run` after a prefix are the declarative fold
  `Declared.declaredTables`.  Core Lean only.
-/
namespace KdVerif.Declared
open KdVerif.Trace KdVerif.Pairing

theorem declareNamed_other (env : Env) (d : Decl) (name : String) (x : Kevent) (w : List Kevent)
    (h1 : name ≠ "TRACE_DATA_NEWTHREAD") (h2 : name ≠ "TRACE_STRING_NEWTHREAD") (h3 : name ≠ "TRACE_DATA_EXEC")
    (h4 : name ≠ "TRACE_STRING_EXEC") (h5 : name ≠ "TRACE_DATA_THREAD_TERMINATE_PID") (h6 : name ≠ "PERF_THD_Data")
    (h7 : name ≠ "PERF_Event") : declareNamed env d name x w = d := by
  unfold declareNamed
  split <;> first | (exfalso; simp_all; done) | rfl

/-- What a handler call does to the declared part of the tables is what `declareNamed` says. -/
theorem declareNamed_eq (env : Env) (T : Tabs) (name : String) (w : List Kevent) :
    Decl.ofTabs (applyWrites T (handleWrites env T name w)) = declareNamed env (Decl.ofTabs T) name (firstOf w) w := by
  by_cases hh : handNames.contains name = true
  · rcases hand_cases hh with rfl | rfl | rfl | rfl | rfl | rfl | rfl | rfl | rfl | rfl | rfl | rfl | rfl | rfl | rfl
    · simp [handleWrites, declareNamed, applyWrites, Write.apply, Decl.ofTabs]
    · simp [handleWrites, declareNamed, applyWrites, Write.apply, Decl.ofTabs]
    · simp [handleWrites, declareNamed, applyWrites, Decl.ofTabs]
    · simp [handleWrites, declareNamed, applyWrites, Write.apply, Decl.ofTabs]
    · rw [declareNamed_other _ _ _ _ _ (by decide) (by decide) (by decide) (by decide) (by decide) (by decide) (by decide)]
      simp only [handleWrites]
      split
      · rfl
      · cases env.dec (stripNul (globalLoop (firstOf w).eventid w 0 0 [] []).2.2.1) with
        | error e => rfl
        | ok s => by_cases hs : s = "" <;> simp [hs, applyWrites, Write.apply, Decl.ofTabs]
    · simp only [handleWrites, declareNamed]
      cases env.dec (stripNul (firstOf w).data) <;> cases hp : T.pendingNewthread.get (firstOf w).tid <;>
        simp [hp, applyWrites, Write.apply, Decl.ofTabs]
    · simp only [handleWrites, declareNamed]
      cases env.dec (stripNul (firstOf w).data) <;> cases hp : T.pendingExec.get (firstOf w).tid <;>
        simp [hp, applyWrites, Write.apply, Decl.ofTabs]
    · simp [handleWrites, declareNamed, applyWrites, Decl.ofTabs]
    · rw [declareNamed_other _ _ _ _ _ (by decide) (by decide) (by decide) (by decide) (by decide) (by decide) (by decide)]
      simp only [handleWrites]
      split
      · rfl
      · cases env.dec (stripNul (joinData w)) <;> simp [applyWrites, Write.apply, Decl.ofTabs]
    · rw [declareNamed_other _ _ _ _ _ (by decide) (by decide) (by decide) (by decide) (by decide) (by decide) (by decide)]
      simp only [handleWrites]
      split
      · rfl
      · cases env.dec (stripNul (joinData w)) <;> simp [applyWrites, Write.apply, Decl.ofTabs]
    · simp [handleWrites, declareNamed, applyWrites, Decl.ofTabs]
    · simp only [handleWrites, declareNamed, samplesThreadInfo]
      by_cases hc : (enumNamesOf env "SamplerAction" (arg (firstOf w) 0)).contains "SAMPLER_TH_INFO" = true
      · simp only [hc, if_true]
        cases List.filter (namedIs env "PERF_THD_Data") w <;> simp [applyWrites, Write.apply, Decl.ofTabs]
      · simp only [hc, if_false, Bool.false_eq_true]
        rfl
    · simp [handleWrites, declareNamed, applyWrites, Write.apply, Decl.ofTabs]
    · simp [handleWrites, declareNamed, applyWrites, Decl.ofTabs]
    · simp [handleWrites, declareNamed, applyWrites, Decl.ofTabs]
  · have hh' : handNames.contains name = false := by simpa using hh
    obtain ⟨h1, h2, h3, h4, h5, h6, h7, h8, h9, h10, h11, h12, h13, h14, h15⟩ := not_hand_of_contains_false hh'
    rw [handleWrites_generated env T name w hh', declareNamed_other env _ name _ w h1 h6 h2 h7 h4 h13 h12]
    rfl


/-! ### runs split at a point of the stream -/

theorem run_append_ok (env : Env) (s : Trace.PState) (a b : List Kevent) (h : (Trace.run env s a).2.1 = none) :
    Trace.run env s (a ++ b) =
      ((Trace.run env s a).1 ++ (Trace.run env (Trace.run env s a).2.2 b).1,
       (Trace.run env (Trace.run env s a).2.2 b).2.1, (Trace.run env (Trace.run env s a).2.2 b).2.2) := by
  induction a generalizing s with
  | nil => simp [Trace.run]
  | cons e es ih =>
    obtain ⟨r, s', hf, hrest⟩ := feed_ok_of_run env s e es h
    rw [List.cons_append, run_cons_ok env s s' e (es ++ b) r hf, run_cons_ok env s s' e es r hf, ih s' hrest]
    simp only [List.append_assoc]

theorem noexc_prefix (env : Env) (s : Trace.PState) (a b : List Kevent)
    (h : (Trace.run env s (a ++ b)).2.1 = none) : (Trace.run env s a).2.1 = none := by
  induction a generalizing s with
  | nil => rfl
  | cons e es ih =>
    rw [List.cons_append] at h
    obtain ⟨r, s', hf, hrest⟩ := feed_ok_of_run env s e (es ++ b) h
    rw [run_cons_ok env s s' e es r hf]
    exact ih s' hrest

/-- The pairing tables inside the whole-parser state are those of `Model/Pairing`. -/
theorem run_pairing (env : Env) (s : Trace.PState) (m : List Kevent) (h : (Trace.run env s m).2.1 = none) :
    (Trace.run env s m).2.2.pairing = (Pairing.runFrom env.domOf s.pairing m).1 := by
  induction m generalizing s with
  | nil => rfl
  | cons e es ih =>
    obtain ⟨r, s', hf, hrest⟩ := feed_ok_of_run env s e es h
    rw [run_cons_ok env s s' e es r hf, Pairing.runFrom_cons]
    simp only [ih s' hrest, (feed_ok env s s' e r hf).1]

/-- One more event: the declared part of the tables moves by `declStep`. -/
theorem feed_declStep (env : Env) (hbn : BenignNested env) (s s' : Trace.PState) (h : List Kevent) (e : Kevent)
    (r : Option TraceOut)
    (hp : s.pairing = Pairing.stateAfter env.domOf h) (hf : feed env s e = .ok (r, s')) :
    Decl.ofTabs s'.tabs = declStep env (Decl.ofTabs s.tabs) (h, e) := by
  rw [feed_tabs env hbn s s' e r hf, feedWrites_eq, hp]
  have hem : (Pairing.step env.domOf (Pairing.stateAfter env.domOf h) e).2 = Pairing.emitSpec env.domOf h e :=
    Pairing.emitAt_eq_emitSpec env.domOf h e
  rw [hem]
  simp only [declStep]
  cases Pairing.emitSpec env.domOf h e with
  | none => rfl
  | some w =>
    cases w with
    | nil => rfl
    | cons x xs =>
      simp only [handlerOf, declare]
      cases hc : env.codes x.eventid with
      | none => rfl
      | some n =>
        by_cases hh : isHandled env n = true
        · simp only [hh, if_true]
          exact declareNamed_eq env s.tabs n (x :: xs)
        · simp only [hh, if_false, Bool.false_eq_true]
          have hn : handNames.contains n = false := by
            simp only [isHandled, Bool.or_eq_true, not_or, Bool.not_eq_true] at hh
            exact hh.1
          obtain ⟨h1, h2, h3, h4, h5, h6, h7, h8, h9, h10, h11, h12, h13, h14, h15⟩ := not_hand_of_contains_false hn
          rw [declareNamed_other env _ n _ _ h1 h6 h2 h7 h4 h13 h12]
          rfl

/-- **tables_are_fold**, from the thread map: after any prefix that raises no exception, the lookup tables (and
    the pending records) of the pipeline are the declarative fold over the prefix. -/
theorem tables_are_fold (env : Env) (hbn : BenignNested env) (tm : ThreadMap) (pre : List Kevent)
    (h : (Trace.run env { pairing := Pairing.PState.empty, tabs := mapTabs tm } pre).2.1 = none) :
    Decl.ofTabs (Trace.run env { pairing := Pairing.PState.empty, tabs := mapTabs tm } pre).2.2.tabs
      = declaredTables env tm pre := by
  induction pre using Pairing.snoc_induction with
  | nil => rfl
  | snoc hst e ih =>
    have hpre := noexc_prefix env _ hst [e] h
    have ih' := ih hpre
    rw [run_append_ok env _ hst [e] hpre] at h ⊢
    simp only at h ⊢
    obtain ⟨r, s', hf, _⟩ := feed_ok_of_run env _ e [] h
    rw [run_cons_ok env _ s' e [] r hf]
    simp only [run_nil]
    have hp := run_pairing env _ hst hpre
    rw [feed_declStep env hbn _ s' hst e r hp hf, ih']
    simp only [declaredTables, Pairing.annotFrom_snoc, List.foldl_append, List.nil_append, List.foldl_cons,
      List.foldl_nil]


/-! ### the process text from the formatter's tables -/

theorem natCast_beq (a b : Nat) : ((a : Int) == (b : Int)) = (a == b) := by
  by_cases h : a = b
  · subst h; rw [beq_self_eq_true, beq_self_eq_true]
  · have h' : (a : Int) ≠ (b : Int) := by omega
    rw [beq_eq_false_iff_ne.2 h, beq_eq_false_iff_ne.2 h']

theorem lookup_fmt_tp (tp : Dict Nat) (tid : Nat) :
    List.lookup tid (tp.map fun e => (e.1, (e.2 : Int))) = (List.lookup tid tp).map Int.ofNat := by
  induction tp with
  | nil => rfl
  | cons x xs ih =>
    rcases x with ⟨k, v⟩
    simp only [List.map_cons, List.lookup_cons]
    cases tid == k
    · exact ih
    · rfl

theorem lookup_fmt_pn (pn : Dict String) (pid : Nat) :
    List.lookup (pid : Int) (pn.map fun e => ((e.1 : Int), e.2)) = List.lookup pid pn := by
  induction pn with
  | nil => rfl
  | cons x xs ih =>
    rcases x with ⟨k, v⟩
    simp only [List.map_cons, List.lookup_cons, natCast_beq]
    cases pid == k
    · exact ih
    · rfl

/-- `_format_process` on the pipeline's tables is the specified process text. -/
theorem formatProcess_eq_spec (d : Decl) (tid : Nat) :
    Format.formatProcess (fmtTables d.threadsPids d.pidsNames) tid = processSpec d tid := by
  simp only [Format.formatProcess, fmtTables, processSpec, lookup_fmt_tp, Dict.get]
  cases h : List.lookup tid d.threadsPids with
  | none => simp
  | some pid =>
    have hne : (Int.ofNat pid) ≠ -1 := by
      intro hc; have h0 : (0 : Int) ≤ Int.ofNat pid := Int.natCast_nonneg pid
      rw [hc] at h0; exact absurd h0 (by decide)
    simp only [Option.map_some, Option.getD_some, ne_eq, hne, not_false_eq_true, if_true]
    have : List.lookup (Int.ofNat pid) (List.map (fun e => ((e.1 : Int), e.2)) d.pidsNames) = List.lookup pid d.pidsNames :=
      lookup_fmt_pn d.pidsNames pid
    rw [this]
    rfl

/-! ### the tables a yielded trace is formatted with -/

/-- Every trace `runAnnot` yields was yielded by the `feed` of some event `e` of the stream, and is annotated with
    the tables of the run over the prefix up to and including `e`. -/
theorem mem_runAnnot (env : Env) (s : Trace.PState) (m : List Kevent) (o : TraceOut) (T : Tabs)
    (h : (o, T) ∈ runAnnot env s m) :
    ∃ pre e post, m = pre ++ e :: post ∧ (Trace.run env s (pre ++ [e])).2.1 = none ∧
      T = (Trace.run env s (pre ++ [e])).2.2.tabs ∧ o ∈ (Trace.run env s (pre ++ [e])).1 := by
  induction m generalizing s with
  | nil => simp [runAnnot] at h
  | cons e es ih =>
    cases hf : feed env s e with
    | error err => simp [runAnnot, hf] at h
    | ok p =>
      rcases p with ⟨r, s'⟩
      simp only [runAnnot, hf, List.mem_append] at h
      rcases h with h | h
      · cases r with
        | none => simp at h
        | some t =>
          simp only [List.mem_singleton, Prod.mk.injEq] at h
          obtain ⟨rfl, rfl⟩ := h
          refine ⟨[], e, es, rfl, ?_, ?_, ?_⟩ <;>
            simp [run_cons_ok env s s' e [] (some o) hf, run_nil]
      · obtain ⟨pre, e', post, hm, hne, hT, ho⟩ := ih s' h
        refine ⟨e :: pre, e', post, by rw [hm]; rfl, ?_, ?_, ?_⟩
        · rw [List.cons_append, run_cons_ok env s s' e _ r hf]; exact hne
        · rw [List.cons_append, run_cons_ok env s s' e _ r hf]; exact hT
        · rw [List.cons_append, run_cons_ok env s s' e _ r hf]
          exact List.mem_append_right _ ho

theorem contains_map_filter {α : Type} (l : List α) (p : α → Bool) (f : α → String) (a : String) :
    ((l.filter p).map f).contains a = l.any (fun m => p m && f m == a) := by
  induction l with
  | nil => rfl
  | cons x xs ih =>
    simp only [List.filter_cons, List.any_cons]
    by_cases hp : p x = true
    · simp only [hp, if_true, List.map_cons, List.contains_cons, Bool.true_and, ih]
      rw [Bool.beq_comm]
    · have : p x = false := by simpa using hp
      simp only [this, Bool.false_eq_true, if_false, Bool.false_and, Bool.false_or, ih]

end KdVerif.Declared
