import Driver.Cmd.Trace
import KdVerif.Model.PyIRCo
import KdVerif.Gen.PyIRCo
import KdVerif.Spec.PyIRCoExpected
/-
  Commands for the translation tie of the composite handlers (C20): the programs GENERATED from perf.py / mach.py / dyld.py
  (`Gen/PyIRCo`) run by the interpreter of `Model/PyIRCo`.

  coircheck                          `same` | `differs <parts>` (`C20.source_is_expected_ir`)
  tracesco <codes> <record hex>…     the command `traces` of Driver/Cmd/Trace with `PERF_Event`, `PERF_THD_Data`,
                                     `MACH_vmfault` and `DBG_DYLD_TIMING_LAUNCH_EXECUTABLE` handled by the interpreted
                                     generated handlers (`PyIRCo.runVia Gen.PyIRCo.progs` instead of `Trace.run`)
  `unsupported` when the translation contains a node outside the IR.
-/
open KdVerif KdVerif.Trace
namespace Driver.PyIRCo
open Driver.Trace KdVerif.PyIRCo

def unsupported : Bool :=
  Gen.PyIRCo.perf.hasUnsupported || Gen.PyIRCo.mach.hasUnsupported || Gen.PyIRCo.dyld.hasUnsupported ||
  !Gen.PyIRCo.notes.isEmpty

def progDiff (label : String) (g x : Program) : List String :=
  let clsDiff := (g.classes.zip x.classes).filterMap fun (a, b) => if a = b then none else some s!"{label}:class {a.name}"
  let funDiff := (g.funs.zip x.funs).filterMap fun (a, b) => if a = b then none else some s!"{label}:{a.name}"
  clsDiff ++ (if g.classes.length = x.classes.length then [] else [s!"{label}:classes"]) ++
  funDiff ++ (if g.funs.length = x.funs.length then [] else [s!"{label}:functions"]) ++
  (if g.handlers = x.handlers then [] else [s!"{label}:handlers"])

def cmdCheck : Cmd := fun _ =>
  let d : List String :=
    progDiff "perf" Gen.PyIRCo.perf Expected.perf ++ progDiff "mach" Gen.PyIRCo.mach Expected.mach ++
    progDiff "dyld" Gen.PyIRCo.dyld Expected.dyld ++ (if Gen.PyIRCo.notes.isEmpty then [] else ["notes"])
  let same := Gen.PyIRCo.perf = Expected.perf && Gen.PyIRCo.mach = Expected.mach && Gen.PyIRCo.dyld = Expected.dyld
    && Gen.PyIRCo.notes.isEmpty
  if same then "same" else
    "differs " ++ ",".intercalate ((if d.isEmpty then ["program"] else d).map fun x => x.replace " " "_")
      ++ (if unsupported then " unsupported" else "")

/-- `tracesco <codes> <record hex>…` -/
def cmdTraces : Cmd
  | codes :: recs =>
    if unsupported then "unsupported" else
    match parseCodes codes, parseRecs recs with
    | some cs, some es =>
      let (outs, err, sf) := runVia Gen.PyIRCo.progs (mkEnv cs) { pairing := Pairing.PState.empty, tabs := {} } es
      let e := match err with | some x => x.name | none => "-"
      let t := sf.tabs
      "ok " ++ (if outs.isEmpty then "-" else " ".intercalate (outs.map showTrace)) ++ s!" ;err={e} ;tp={showNatDict t.threadsPids} ;pn={showStrDict t.pidsNames} ;tn={showStrDict t.tidsNames} ;gs={showStrDict t.globalStrings}"
    | _, _ => "bad-op"
  | _ => "bad-op"

def commands : List (String × Cmd) :=
  [("coircheck", cmdCheck), ("tracesco", cmdTraces)]

end Driver.PyIRCo
