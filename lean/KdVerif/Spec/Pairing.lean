import KdVerif.Model.Pairing
/-
  Declarative, history-based specification of START/END pairing (C04, C05).  No state machine: every
  notion is a direct function of the history `h` (the events fed so far, oldest first).

  * `openAt h k`   – the last START-or-END of key `k = (domain, tid, eid)` in `h` is a START;
  * `accepted h x` – `x` (arriving after history `h`) is not an END, or it is an END whose key is open;
  * `win k h`      – split `h` at the LAST START of `k`: that START followed by every later event of
                     the same thread and the same pairing domain that was `accepted` when it arrived,
                     in stream order;
  * `emitSpec h e` – what feeding `e` after `h` hands to `parse_event_list`;
  * `runSpec h`    – all emitted windows, in order.

  The only recursion is in the two generic list helpers `splitLast` (split at the last element
  satisfying a predicate) and `annotFrom` (pair every element with the history before it); both are
  characterised independently in `Proofs/Pairing` (`splitLast_eq_some_iff`, `annotFrom_map_snd`,
  `mem_annotFrom`).  Core Lean only.
-/
namespace KdVerif.Pairing

/-- Split at the last element satisfying `p`: `(before, that element, after)`. -/
def splitLast {α : Type} (p : α → Bool) : List α → Option (List α × α × List α)
  | [] => none
  | x :: xs =>
    match splitLast p xs with
    | some (a, s, b) => some (x :: a, s, b)
    | none => if p x then some ([], x, xs) else none

/-- Every element of `l` paired with the history before it (`pre` = what precedes `l`). -/
def annotFrom {α : Type} (pre : List α) : List α → List (List α × α)
  | [] => []
  | x :: xs => (pre, x) :: annotFrom (pre ++ [x]) xs

section
variable (domOf : Nat → Bool)

/-- `x` is a START or an END of key `k`. -/
def isMark (k : Key) (x : Kevent) : Bool := decide (keyOf domOf x = k ∧ (x.qual = 1 ∨ x.qual = 2))

/-- `x` is a START of key `k`. -/
def isStartOf (k : Key) (x : Kevent) : Bool := decide (keyOf domOf x = k ∧ x.qual = 1)

/-- `x` belongs to the thread and to the pairing domain of key `k`. -/
def sameTD (k : Key) (x : Kevent) : Bool := decide (domOf x.eventid = k.dom ∧ x.tid = k.tid)

/-- The last START-or-END of key `k` in `h` exists and is a START. -/
def openAt (h : List Kevent) (k : Key) : Bool :=
  match (h.filter (isMark domOf k)).getLast? with
  | some x => decide (x.qual = 1)
  | none => false

/-- `x`, arriving after `h`, is not a stray END. -/
def accepted (h : List Kevent) (x : Kevent) : Bool :=
  decide (x.qual ≠ 2) || openAt domOf h (keyOf domOf x)

/-- Of the events `mid` that arrive after history `pre`: those of `k`'s thread and domain that were
    accepted when they arrived, in order. -/
def bodyOf (k : Key) (pre mid : List Kevent) : List Kevent :=
  ((annotFrom pre mid).filter fun p => sameTD domOf k p.2 && accepted domOf p.1 p.2).map (·.2)

/-- The window of key `k` after history `h` (meaningful while `openAt h k`). -/
def win (k : Key) (h : List Kevent) : List Kevent :=
  match splitLast (isStartOf domOf k) h with
  | none => []
  | some (pre, s, mid) => s :: bodyOf domOf k (pre ++ [s]) mid

/-- What feeding `e` after history `h` delivers to `parse_event_list`. -/
def emitSpec (h : List Kevent) (e : Kevent) : Option (List Kevent) :=
  if e.qual = 1 then none
  else if e.qual = 2 then
    (if openAt domOf h (keyOf domOf e) then some (win domOf (keyOf domOf e) h ++ [e]) else none)
  else some [e]

/-- All delivered windows of a history, in order. -/
def runSpec (h : List Kevent) : List (List Kevent) :=
  (annotFrom [] h).filterMap fun p => emitSpec domOf p.1 p.2

end
end KdVerif.Pairing
