import KdVerif.Model.Filters
import KdVerif.Proofs.PyIRFl
import KdVerif.Gen.PyIRFl
import KdVerif.Gen.Enums
import KdVerif.Gen.PyIRCli
import KdVerif.Proofs.PyIRCli
/-
  C12 — event filters select exactly the matching subsequence.

  Subject: `Filters.kevents` / `Filters.osLogEvents` (Model/Filters.lean), written as the same chain of
  conditional `filter()` stages as `PyKdebugParser.kevents` / `os_log_events`.  The theorems replace the
  chain by ONE declarative predicate and `List.filter` (order and multiplicity are those of
  `List.filter`), for every stream (events and log records interleaved arbitrarily) and every
  configuration (any tid, any class / subclass lists: empty, overlapping, absent, out of range).
-/
namespace KdVerif.C12
open KdVerif.Filters

/-- The events of the stream, in stream order (the unfiltered event listing). -/
def events (items : List Item) : List Kevent := items.filterMap asEvent

/-- The log records of the stream, in stream order (the unfiltered log listing). -/
def logs (items : List Item) : List LogRec := items.filterMap asLog

/-- The declarative selection predicate for events, for an explicit class list `fc`:
    thread id equal to the requested one (when one is requested) and, when a class or subclass
    filter is given, class (`eventid / 2^24`, the top byte of a 32-bit id) in the class list or
    subclass (`eventid / 2^16`, the top 16 bits) in the subclass list. -/
def SelWith (cfg : Cfg) (fc : List Nat) (e : Kevent) : Prop :=
  (cfg.filterTid = none ∨ cfg.filterTid = some e.tid) ∧
  ((fc = [] ∧ cfg.filterSubclass = []) ∨ e.eventid / 2 ^ 24 ∈ fc ∨ e.eventid / 2 ^ 16 ∈ cfg.filterSubclass)

instance (cfg : Cfg) (fc : List Nat) (e : Kevent) : Decidable (SelWith cfg fc e) :=
  inferInstanceAs (Decidable (_ ∧ _))

/-- The predicate of the public listing (`filter_class` argument omitted: the parser's own list). -/
def Sel (cfg : Cfg) (e : Kevent) : Prop := SelWith cfg cfg.filterClass e

instance (cfg : Cfg) (e : Kevent) : Decidable (Sel cfg e) :=
  inferInstanceAs (Decidable (SelWith _ _ _))

/-- The declarative selection predicate for log records: thread equal when requested, and the
    process filter equal to the record's process name or to the decimal text of its pid. -/
def SelLog (cfg : Cfg) (l : LogRec) : Prop :=
  (cfg.filterTid = none ∨ cfg.filterTid = some l.threadIdentifier) ∧
  (cfg.filterProcess = none ∨ cfg.filterProcess = some l.process
    ∨ cfg.filterProcess = some (toString l.processIdentifier))

instance (cfg : Cfg) (l : LogRec) : Decidable (SelLog cfg l) :=
  inferInstanceAs (Decidable (_ ∧ _))

/-! ### helper lemmas -/

theorem allowed_iff (cfg : Cfg) (fc : List Nat) (eid : Nat) :
    isEventidAllowed cfg eid fc = true ↔ eid / 2 ^ 24 ∈ fc ∨ eid / 2 ^ 16 ∈ cfg.filterSubclass := by
  simp [isEventidAllowed, Nat.shiftRight_eq_div_pow]

theorem filter_all {α} {l : List α} {p : α → Bool} (h : ∀ x ∈ l, p x = true) : l = l.filter p :=
  (List.filter_eq_self.mpr h).symm

theorem nonempty_iff (a b : List Nat) : (!a.isEmpty || !b.isEmpty) = true ↔ ¬ (a = [] ∧ b = []) := by
  cases a <;> cases b <;> simp

/-- The declarative predicate as the conjunction of the two stage tests. -/
theorem sel_bool (cfg : Cfg) (fc : List Nat) (e : Kevent) :
    decide (SelWith cfg fc e)
      = ((match cfg.filterTid with | some t => e.tid == t | none => true)
         && (!(!fc.isEmpty || !cfg.filterSubclass.isEmpty) || isEventidAllowed cfg e.eventid fc)) := by
  rw [Bool.eq_iff_iff, decide_eq_true_iff]
  have hA := allowed_iff cfg fc e.eventid
  have hN := nonempty_iff fc cfg.filterSubclass
  simp only [Bool.and_eq_true, Bool.or_eq_true, Bool.not_eq_true', SelWith, hA]
  rw [← Bool.not_eq_true, hN]
  constructor
  · rintro ⟨h1, h2⟩
    refine ⟨?_, ?_⟩
    · rcases h1 with h1 | h1
      · rw [h1]
      · rw [h1]; simp
    · rcases h2 with h2 | h2
      · exact Or.inl (fun h => h h2)
      · exact Or.inr h2
  · rintro ⟨h1, h2⟩
    refine ⟨?_, ?_⟩
    · rcases h : cfg.filterTid with _ | t
      · exact Or.inl rfl
      · rw [h] at h1; simp only [beq_iff_eq] at h1; rw [h1]; exact Or.inr rfl
    · rcases h2 with h2 | h2
      · exact Or.inl (Classical.not_not.mp h2)
      · exact Or.inr h2

/-! ### the event listing -/

/-- The event listing for an explicit class list (what `traces()` requests): exactly the events of
    the stream that satisfy the declarative predicate, in stream order, with multiplicity. -/
theorem keventsWith_eq_filter (cfg : Cfg) (fc : List Nat) (items : List Item) :
    keventsWith cfg fc items = (events items).filter (fun e => decide (SelWith cfg fc e)) := by
  unfold keventsWith events
  have key := sel_bool cfg fc
  rcases htid : cfg.filterTid with _ | t <;> rw [htid] at key <;>
    cases hc : (!fc.isEmpty || !cfg.filterSubclass.isEmpty) <;> rw [hc] at key <;>
    simp only [Bool.false_eq_true, if_false, if_true, List.filter_filter]
  · exact filter_all (fun e _ => by rw [key]; rfl)
  · exact List.filter_congr (fun e _ => by rw [key]; simp)
  · exact List.filter_congr (fun e _ => by rw [key]; simp)
  · exact List.filter_congr (fun e _ => by rw [key]; simp [Bool.and_comm])

/-- **kevents_eq_filter.**  The filtered event listing equals the unfiltered listing restricted to
    the events that satisfy the filter — thread id equal to the requested one and, when class or
    subclass filters are given, class in the class list or subclass in the subclass list —
    preserving order and multiplicity (those of `List.filter`). -/
theorem kevents_eq_filter (cfg : Cfg) (items : List Item) :
    kevents cfg none items = (events items).filter (fun e => decide (Sel cfg e)) :=
  keventsWith_eq_filter cfg cfg.filterClass items

/-- The same with the class list passed as an argument (it then *replaces* the parser's list,
    even when it is empty). -/
theorem kevents_arg_eq_filter (cfg : Cfg) (fc : List Nat) (items : List Item) :
    kevents cfg (some fc) items = (events items).filter (fun e => decide (SelWith cfg fc e)) :=
  keventsWith_eq_filter cfg fc items

/-- With no filter set the listing is the whole event sequence of the stream. -/
theorem kevents_unfiltered (items : List Item) : kevents {} none items = events items := by
  rw [kevents_eq_filter]
  have : ∀ e, decide (Sel {} e) = true := by intro e; simp [Sel, SelWith]
  simp [this]

/-- The filtered listing is a subsequence (order and multiplicity kept, nothing invented) of the
    unfiltered listing. -/
theorem kevents_sublist (cfg : Cfg) (fc : Option (List Nat)) (items : List Item) :
    (kevents cfg fc items).Sublist (kevents {} none items) := by
  rw [kevents_unfiltered]
  cases fc with
  | none => rw [kevents_eq_filter]; exact List.filter_sublist
  | some l => rw [kevents_arg_eq_filter]; exact List.filter_sublist

/-- Membership form: an event is listed iff it occurs in the stream and satisfies the predicate. -/
theorem mem_kevents (cfg : Cfg) (items : List Item) (e : Kevent) :
    e ∈ kevents cfg none items ↔ Item.event e ∈ items ∧ Sel cfg e := by
  rw [kevents_eq_filter]
  simp only [List.mem_filter, decide_eq_true_eq, events, List.mem_filterMap]
  constructor
  · rintro ⟨⟨it, hit, he⟩, hs⟩
    cases it with
    | event e' => simp [asEvent] at he; subst he; exact ⟨hit, hs⟩
    | log l => simp [asEvent] at he
  · rintro ⟨h, hs⟩
    exact ⟨⟨_, h, rfl⟩, hs⟩

/-- Multiplicity: every selected event is listed exactly as often as it occurs in the stream,
    every other event zero times. -/
theorem count_kevents (cfg : Cfg) (items : List Item) (e : Kevent) :
    (kevents cfg none items).count e = if Sel cfg e then (events items).count e else 0 := by
  rw [kevents_eq_filter]
  by_cases h : Sel cfg e
  · rw [if_pos h, List.count_filter (by simpa using h)]
  · rw [if_neg h]
    apply List.count_eq_zero_of_not_mem
    simp [List.mem_filter, h]

/-! ### the log listing -/

/-- **logs_eq_filter.**  The log listing honours the thread and process filters in the same
    exact-subsequence sense. -/
theorem sellog_bool (cfg : Cfg) (l : LogRec) :
    decide (SelLog cfg l)
      = ((match cfg.filterTid with | some t => l.threadIdentifier == t | none => true)
         && (match cfg.filterProcess with | some p => p == l.process || p == pidText l | none => true)) := by
  rw [Bool.eq_iff_iff, decide_eq_true_iff]
  simp only [Bool.and_eq_true, SelLog, pidText]
  constructor
  · rintro ⟨h1, h2⟩
    refine ⟨?_, ?_⟩
    · rcases h1 with h1 | h1
      · rw [h1]
      · rw [h1]; simp
    · rcases h2 with h2 | h2 | h2
      · rw [h2]
      · rw [h2]; simp
      · rw [h2]; simp
  · rintro ⟨h1, h2⟩
    refine ⟨?_, ?_⟩
    · rcases h : cfg.filterTid with _ | t
      · exact Or.inl rfl
      · rw [h] at h1; simp only [beq_iff_eq] at h1; rw [h1]; exact Or.inr rfl
    · rcases h : cfg.filterProcess with _ | p
      · exact Or.inl rfl
      · rw [h] at h2; simp only [Bool.or_eq_true, beq_iff_eq] at h2
        rcases h2 with h2 | h2
        · rw [h2]; exact Or.inr (Or.inl rfl)
        · rw [h2]; exact Or.inr (Or.inr rfl)

theorem logs_eq_filter (cfg : Cfg) (items : List Item) :
    osLogEvents cfg items = (logs items).filter (fun l => decide (SelLog cfg l)) := by
  unfold osLogEvents logs
  have key := sellog_bool cfg
  rcases htid : cfg.filterTid with _ | t <;> rw [htid] at key <;>
    rcases hp : cfg.filterProcess with _ | p <;> rw [hp] at key <;>
    simp only [List.filter_filter]
  · exact filter_all (fun e _ => by rw [key]; rfl)
  · exact List.filter_congr (fun e _ => by rw [key]; simp)
  · exact List.filter_congr (fun e _ => by rw [key]; simp)
  · exact List.filter_congr (fun e _ => by rw [key]; simp [Bool.and_comm])

theorem logs_unfiltered (items : List Item) : osLogEvents {} items = logs items := by
  rw [logs_eq_filter]
  have : ∀ l, decide (SelLog {} l) = true := by intro l; simp [SelLog]
  simp [this]

theorem logs_sublist (cfg : Cfg) (items : List Item) :
    (osLogEvents cfg items).Sublist (osLogEvents {} items) := by
  rw [logs_unfiltered, logs_eq_filter]; exact List.filter_sublist

/-! ### events and logs never mix (stated on the heterogeneous stream) -/

/-- The two listings as sub-streams of the heterogeneous stream. -/
def keventItems (cfg : Cfg) (items : List Item) : List Item := (kevents cfg none items).map Item.event
def logItems (cfg : Cfg) (items : List Item) : List Item := (osLogEvents cfg items).map Item.log

theorem filterMap_asEvent_map (items : List Item) (p : Kevent → Bool) :
    ((items.filterMap asEvent).filter p).map Item.event
      = items.filter (fun it => match it with | .event e => p e | .log _ => false) := by
  induction items with
  | nil => rfl
  | cons it rest ih =>
    cases it with
    | event e => by_cases h : p e <;> simp_all [asEvent]
    | log l => simp_all [asEvent, List.filterMap_cons]

theorem filterMap_asLog_map (items : List Item) (p : LogRec → Bool) :
    ((items.filterMap asLog).filter p).map Item.log
      = items.filter (fun it => match it with | .event _ => false | .log l => p l) := by
  induction items with
  | nil => rfl
  | cons it rest ih =>
    cases it with
    | event e => simp_all [asLog, List.filterMap_cons]
    | log l => by_cases h : p l <;> simp_all [asLog]

/-- The event listing is the stream restricted to "is an event and satisfies the predicate":
    log records are dropped whatever the configuration. -/
theorem keventItems_eq_filter (cfg : Cfg) (items : List Item) :
    keventItems cfg items
      = items.filter (fun it => match it with | .event e => decide (Sel cfg e) | .log _ => false) := by
  unfold keventItems; rw [kevents_eq_filter]; exact filterMap_asEvent_map items _

/-- The log listing is the stream restricted to "is a log record and satisfies the predicate". -/
theorem logItems_eq_filter (cfg : Cfg) (items : List Item) :
    logItems cfg items
      = items.filter (fun it => match it with | .event _ => false | .log l => decide (SelLog cfg l)) := by
  unfold logItems; rw [logs_eq_filter]; exact filterMap_asLog_map items _

/-- **events_logs_disjoint.**  Log records never appear in the event listing and events never
    appear in the log listing (for any two configurations), so no stream element is in both. -/
theorem events_logs_disjoint (cfg cfg' : Cfg) (items : List Item) :
    (∀ l, Item.log l ∉ keventItems cfg items) ∧ (∀ e, Item.event e ∉ logItems cfg' items) ∧
    (∀ it, it ∈ keventItems cfg items → it ∉ logItems cfg' items) := by
  refine ⟨?_, ?_, ?_⟩
  · intro l h; rw [keventItems_eq_filter] at h; simp at h
  · intro e h; rw [logItems_eq_filter] at h; simp at h
  · intro it h h'
    rw [keventItems_eq_filter] at h; rw [logItems_eq_filter] at h'
    cases it <;> simp at h h'

/-- Nothing is lost: unfiltered, the two listings partition the stream. -/
theorem listings_partition (items : List Item) :
    (∀ it, it ∈ items ↔ it ∈ keventItems {} items ∨ it ∈ logItems {} items) ∧
    (keventItems {} items).length + (logItems {} items).length = items.length := by
  constructor
  · intro it
    rw [keventItems_eq_filter, logItems_eq_filter]
    cases it <;> simp [Sel, SelWith, SelLog]
  · unfold keventItems logItems
    rw [kevents_unfiltered, logs_unfiltered, List.length_map, List.length_map]
    unfold events logs
    induction items with
    | nil => rfl
    | cons it rest ih => cases it <;> simp_all [asEvent, asLog, List.filterMap_cons] <;> omega

/-! ### composition -/

/-- Filtering an already filtered listing again with the same configuration changes nothing. -/
theorem filter_idempotent (cfg : Cfg) (items : List Item) :
    kevents cfg none (keventItems cfg items) = kevents cfg none items := by
  have hev : ∀ l : List Kevent, events (l.map Item.event) = l := by
    intro l; induction l with
    | nil => rfl
    | cons a t ih => simp_all [events, asEvent]
  unfold keventItems
  rw [kevents_eq_filter, hev, kevents_eq_filter, List.filter_filter]
  simp

theorem logs_filter_idempotent (cfg : Cfg) (items : List Item) :
    osLogEvents cfg (logItems cfg items) = osLogEvents cfg items := by
  have hev : ∀ l : List LogRec, logs (l.map Item.log) = l := by
    intro l; induction l with
    | nil => rfl
    | cons a t ih => simp_all [logs, asLog]
  unfold logItems
  rw [logs_eq_filter, hev, logs_eq_filter, List.filter_filter]
  simp

/-- The thread filter and the class/subclass filter are independent stages: applying them one after
    the other, in either order, gives the listing of the combined configuration. -/
theorem filter_compose (cfg : Cfg) (items : List Item) :
    let tidOnly : Cfg := { filterTid := cfg.filterTid }
    let classOnly : Cfg := { filterClass := cfg.filterClass, filterSubclass := cfg.filterSubclass }
    kevents classOnly none (keventItems tidOnly items) = kevents cfg none items ∧
    kevents tidOnly none (keventItems classOnly items) = kevents cfg none items := by
  have hev : ∀ l : List Kevent, events (l.map Item.event) = l := by
    intro l; induction l with
    | nil => rfl
    | cons a t ih => simp_all [events, asEvent]
  refine ⟨?_, ?_⟩ <;>
  · unfold keventItems
    rw [kevents_eq_filter, hev, kevents_eq_filter, kevents_eq_filter, List.filter_filter]
    apply List.filter_congr
    intro e _
    rw [Bool.eq_iff_iff, Bool.and_eq_true, decide_eq_true_iff, decide_eq_true_iff, decide_eq_true_iff]
    simp only [Sel, SelWith]
    constructor
    · rintro ⟨⟨a1, a2⟩, ⟨b1, b2⟩⟩
      first | exact ⟨a1, by simpa using b2⟩ | exact ⟨b1, by simpa using a2⟩
    · rintro ⟨a, b⟩
      first | exact ⟨⟨a, by simp⟩, ⟨by simp, b⟩⟩ | exact ⟨⟨by simp, b⟩, ⟨a, by simp⟩⟩

/-- A class that no 32-bit event id can have (≥ 256) still counts as "a filter is given": on its own
    it selects nothing (it does not mean "no filter"). -/
theorem out_of_range_class_selects_nothing (cfg : Cfg) (items : List Item)
    (hne : cfg.filterClass ≠ []) (hc : ∀ c ∈ cfg.filterClass, 256 ≤ c) (hs : cfg.filterSubclass = [])
    (h32 : ∀ e ∈ events items, e.eventid < 2 ^ 32) :
    kevents cfg none items = [] := by
  rw [kevents_eq_filter, List.filter_eq_nil_iff]
  intro e he
  have := h32 e he
  simp only [Sel, SelWith, hs, decide_eq_true_eq, hne, false_and, List.not_mem_nil, or_false, false_or, not_and]
  intro _ hm
  have := hc _ hm
  omega

/-! ### non-vacuity: a concrete mixed stream and overlapping / absent / out-of-range lists -/

private def ev (ts tid eid : Nat) : Kevent :=
  { timestamp := ts, data := [], values := [], tid := tid, debugid := eid, eventid := eid, qual := 0 }
private def lg (tid : Nat) (p : String) (pid : Int) : LogRec :=
  { threadIdentifier := tid, process := p, processIdentifier := pid, message := "m" }
private def stream : List Item :=
  [.event (ev 1 7 0x040c0004), .log (lg 7 "launchd" 1), .event (ev 2 0 0x01400000),
   .event (ev 3 7 0x03010090), .log (lg 9 "" 44), .event (ev 4 7 0x040c0004), .event (ev 5 8 0x040c0008)]

example : kevents { filterTid := some 7, filterClass := [4, 300], filterSubclass := [0x040c, 0x0301] } none stream
    = [ev 1 7 0x040c0004, ev 3 7 0x03010090, ev 4 7 0x040c0004] := by decide
example : kevents { filterTid := some 0 } none stream = [ev 2 0 0x01400000] := by decide
example : kevents { filterClass := [4] } (some []) stream = events stream := by decide
example : osLogEvents { filterProcess := some "44" } stream = [lg 9 "" 44] := by decide
example : osLogEvents { filterTid := some 7, filterProcess := some "launchd" } stream = [lg 7 "launchd" 1] := by decide
example : kevents { filterClass := [300] } none stream = [] :=
  out_of_range_class_selects_nothing _ _ (by decide) (by decide) rfl (by decide)

/-! ### translation tie: the SOURCE TEXT of `kevents` / `os_log_events` / `_is_eventid_allowed`, translated by
    `tools/gen_pyir_fl.py` into the IR of `Model/PyIRFl` and run by its interpreter, IS the model above -/

/-- **source_is_expected_ir.**  The IR that the translator produces from the working tree's `pykdebugparser.py`
    (`Gen/PyIRFl.lean`, regenerated on every run) for `_is_eventid_allowed`, `kevents` and `os_log_events` is, term for
    term, the hand-written `Spec/PyIRFlExpected` the refinement proofs were done for, and the translator met nothing
    outside the method bodies that it could not express.  (False as soon as one of the three methods is changed in any
    way that is not a harmless restyling: the build of this module breaks and the check reports it.) -/
theorem source_is_expected_ir :
    Gen.PyIRFl.isEventidAllowed = PyIRFl.Expected.isEventidAllowed ∧
    Gen.PyIRFl.kevents = PyIRFl.Expected.kevents ∧
    Gen.PyIRFl.osLogEvents = PyIRFl.Expected.osLogEvents ∧
    Gen.PyIRFl.notes = [] := by decide

/-- **is_eventid_allowed_ir_eq_model.**  `self._is_eventid_allowed(event_id, filter_class)` of the source, interpreted
    for EVERY configuration, event id and optional class-list argument (`none` = the argument omitted / `None`), returns
    the bool `Filters.isEventidAllowed` computes on the parser's own list resp. the argument. -/
theorem is_eventid_allowed_ir_eq_model (cfg : Cfg) (eventid : Nat) (arg : Option (List Nat)) :
    PyIRFl.runIsEventidAllowed Gen.PyIRFl.prog cfg eventid arg
      = .ok (.bool (isEventidAllowed cfg eventid (match arg with | none => cfg.filterClass | some l => l))) :=
  PyIRFl.runIsEventidAllowed_expected _ source_is_expected_ir.1 cfg eventid arg

/-- **kevents_ir_eq_model.**  `self.kevents(kdebug, filter_class)` of the source, interpreted — the stream the method
    returns consumed to its end, every stacked `filter(lambda e: …)` stage evaluated in the frame's final variables —
    for EVERY configuration, EVERY optional class-list argument and EVERY stream of events and log records: no
    exception, and exactly the events `Filters.kevents` lists, in that order.  Together with `kevents_eq_filter` the
    source text itself selects the declarative subsequence. -/
theorem kevents_ir_eq_model (cfg : Cfg) (arg : Option (List Nat)) (items : List Item) :
    PyIRFl.runKevents Gen.PyIRFl.prog cfg arg items = .ok ((kevents cfg arg items).map Item.event) :=
  PyIRFl.runKevents_expected _ source_is_expected_ir.2.1 source_is_expected_ir.1 cfg arg items

/-- **os_log_events_ir_eq_model.**  `self.os_log_events(kdebug)` of the source, interpreted on every configuration and
    stream: no exception, and exactly the log records `Filters.osLogEvents` lists, in that order. -/
theorem os_log_events_ir_eq_model (cfg : Cfg) (items : List Item) :
    PyIRFl.runOsLogEvents Gen.PyIRFl.prog cfg items = .ok ((osLogEvents cfg items).map Item.log) :=
  PyIRFl.runOsLogEvents_expected _ source_is_expected_ir.2.2.1 cfg items

/-- The source text selects the declarative subsequence (the tie composed with `kevents_eq_filter`). -/
theorem kevents_ir_eq_filter (cfg : Cfg) (items : List Item) :
    PyIRFl.runKevents Gen.PyIRFl.prog cfg none items
      = .ok (((events items).filter fun e => decide (Sel cfg e)).map Item.event) := by
  rw [kevents_ir_eq_model, kevents_eq_filter]

private instance exceptDecEq {ε α : Type} [DecidableEq ε] [DecidableEq α] : DecidableEq (Except ε α)
  | .ok a, .ok b => if h : a = b then isTrue (by rw [h]) else isFalse (by intro e; cases e; exact h rfl)
  | .error a, .error b => if h : a = b then isTrue (by rw [h]) else isFalse (by intro e; cases e; exact h rfl)
  | .ok _, .error _ => isFalse (by intro e; cases e)
  | .error _, .ok _ => isFalse (by intro e; cases e)

/-- non-vacuity: the GENERATED methods run by the interpreter on the mixed stream above — thread + overlapping class /
    subclass lists, an explicit empty class-list argument, a process filter by pid text, one event id. -/
example : PyIRFl.runKevents Gen.PyIRFl.prog
      { filterTid := some 7, filterClass := [4, 300], filterSubclass := [0x040c, 0x0301] } none stream
    = .ok [.event (ev 1 7 0x040c0004), .event (ev 3 7 0x03010090), .event (ev 4 7 0x040c0004)] := by decide
example : (PyIRFl.runKevents Gen.PyIRFl.prog { filterClass := [4] } (some []) stream).map List.length = .ok 5 := by decide
example : PyIRFl.runOsLogEvents Gen.PyIRFl.prog { filterProcess := some "44" } stream = .ok [.log (lg 9 "" 44)] := by
  decide
example : PyIRFl.runIsEventidAllowed Gen.PyIRFl.prog { filterClass := [4], filterSubclass := [0x0301] } 0x03010090 none
    = .ok (.bool true) := by decide
example : PyIRFl.runIsEventidAllowed Gen.PyIRFl.prog { filterClass := [4] } 0x040c0004 (some [1]) = .ok (.bool false) := by
  decide

end KdVerif.C12

/-! ### Translation tie: the command-line glue in front of the filters

  (`tools/gen_pyir_cli.py` → `Gen/PyIRCli.lean`; IR and interpreter `Model/PyIRCli`; expected terms `Spec/PyIRCliExpected`.)
  Between the user and `kevents()` stand `pykdebugparser/__main__.py` — the option declarations, the command callbacks that
  assign option values to attributes of a fresh parser object, `print_with_count` — and `PyKdebugParser.__init__` (what an
  attribute is when no command assigns it) and the `formatted_*` maps.  All of it is translated from the source text on
  every run.  The interpreter starts from what click hands to a callback (`Given`: per option, the converted value if the
  user gave it), fills in the DECLARED defaults, calls the callback by keyword and runs its body; what a `formatted_*`
  method does is a parameter (`World`: a function of the object's attributes and the dump).  `configOf` / `showOf` are the
  records the hand models take; negative filter numbers are sent where no thread id / class / subclass is (`natOf`, as
  the harness does). -/
namespace KdVerif.C12
open KdVerif.Filters KdVerif.PyIRCli

/-- **Every term the translator generates from `__main__.py` and from `__init__` / `formatted_*` is the expected one**
    (`Spec/PyIRCliExpected`, quoting the Python), and the translator met nothing it could not express: `print_with_count`,
    `BASED_INT`, the seven commands with their option declarations (names, spellings, kinds, defaults, `multiple`), every
    attribute default of `__init__`, the four maps. -/
theorem cli_source_is_expected_ir :
    Gen.PyIRCli.printWithCount = PyIRCli.Expected.printWithCount ∧
    Gen.PyIRCli.basedInt = PyIRCli.Expected.basedInt ∧
    Gen.PyIRCli.kevents = PyIRCli.Expected.kevents ∧
    Gen.PyIRCli.traces = PyIRCli.Expected.traces ∧
    Gen.PyIRCli.callstacks = PyIRCli.Expected.callstacks ∧
    Gen.PyIRCli.processes = PyIRCli.Expected.processes ∧
    Gen.PyIRCli.kexts = PyIRCli.Expected.kexts ∧
    Gen.PyIRCli.images = PyIRCli.Expected.images ∧
    Gen.PyIRCli.logs = PyIRCli.Expected.logs ∧
    Gen.PyIRCli.init = PyIRCli.Expected.init ∧
    Gen.PyIRCli.formattedKevents = PyIRCli.Expected.formattedKevents ∧
    Gen.PyIRCli.formattedTraces = PyIRCli.Expected.formattedTraces ∧
    Gen.PyIRCli.formattedCallstacks = PyIRCli.Expected.formattedCallstacks ∧
    Gen.PyIRCli.formattedLogs = PyIRCli.Expected.formattedLogs ∧
    Gen.PyIRCli.notes = [] := by decide

/-- the generated program record is the expected one -/
theorem cli_prog_is_expected : Gen.PyIRCli.prog = PyIRCli.Expected.prog := by
  obtain ⟨h1, _, _, _, _, _, _, _, _, h2, h3, h4, h5, h6, _⟩ := cli_source_is_expected_ir
  simp only [Gen.PyIRCli.prog, PyIRCli.Expected.prog, h1, h2, h3, h4, h5, h6]

/-- **`PyKdebugParser.__init__` of the source, interpreted, builds the parser the hand models assume**: exactly the twenty
    attributes of `freshObj`, which read as the default filter configuration (`Filters.Cfg`: no thread / process filter,
    empty class and subclass lists), the default column switches (`Format.Show`: every column but the thread id),
    colour on, no wall-clock parameter set (`_format_timestamp` prints ticks), empty tables and image lists. -/
theorem init_defaults_ir_eq_model :
    initObj Gen.PyIRCli.init [] = .ok freshObj ∧
    cfgOfObj freshObj = some ({} : Cfg) ∧ showOfObj freshObj = some ({} : Format.Show) ∧
    colorOfObj freshObj = some true ∧ wallClockUnset freshObj = true ∧ tablesEmpty freshObj = true := by
  refine ⟨by rw [cli_source_is_expected_ir.2.2.2.2.2.2.2.2.2.1]; rfl, by decide, by decide, by decide, by decide, by decide⟩

/-- **The `kevents` command of the source, interpreted** (any meaning `W` of `formatted_kevents`): on the options `g`
    (`--process` / `--color` are not options of this command) it prints
    `print_with_count(parser.formatted_kevents(dump), count)` for the parser object `keventsObj o` — `o` the option values
    in force, the declared defaults filled in (`count = -1`, `tid = None`, `show_tid = False`, no class / subclass
    value) —, whose attributes read as `configOf o` without process filter, `showOf o` (thread-id column iff
    `--show-tid`), colour as `__init__` leaves it (on), no wall-clock parameter, empty tables. -/
theorem kevents_command_ir_eq_model {δ τ : Type} (W : World δ τ) (g : Given) (hp : g.process = none) (hc : g.color = none)
    (dump : δ) :
    run Gen.PyIRCli.prog W Gen.PyIRCli.kevents g.args dump =
      pwcResult (W.formatted "formatted_kevents" (keventsObj (Opts.ofGiven g)) dump) (Opts.ofGiven g).count ∧
    cfgOfObj (keventsObj (Opts.ofGiven g)) = some (configOf (Opts.ofGiven g)) ∧
    showOfObj (keventsObj (Opts.ofGiven g)) = some (showOf (Opts.ofGiven g)) ∧
    colorOfObj (keventsObj (Opts.ofGiven g)) = some true ∧
    wallClockUnset (keventsObj (Opts.ofGiven g)) = true ∧ tablesEmpty (keventsObj (Opts.ofGiven g)) = true := by
  refine ⟨?_, ?_, show_objWith .., color_objWith .., (unset_objWith ..).1, (unset_objWith ..).2⟩
  · rw [cli_prog_is_expected, cli_source_is_expected_ir.2.2.1]; exact run_kevents_expected W g hp hc dump
  · rw [cfg_keventsObj]; simp [configOf, Opts.ofGiven, hp]

/-- `formatted_kevents` as the hand model of `Model/Format` has it: the object's filter attributes and column switches
    configure `Format.formattedKevents` (enum `qe`, code table `codes`, tables `t` as there). -/
def keventsWorld (qe : EnumDef) (codes : List (Nat × String)) (t : Format.Tables) : World (List Item) Unit :=
  { formatted := fun m o items =>
      if m = "formatted_kevents" then
        match cfgOfObj o, showOfObj o with
        | some cfg, some sh => (Format.formattedKevents cfg sh qe codes t items, none)
        | _, _ => ([], some .unmodelled)
      else ([], some .attributeError)
    parseAll := fun _ => .error .unmodelled
    jsonDumps := fun _ _ _ => .error .unmodelled }

/-- **`kevents` command = `print_with_count` of the hand model under `configOf`**: every option reaches exactly the
    attribute the model reads — `--tid` the thread filter, `-cf` / `-sf` the class / subclass lists (in the order given),
    `--show-tid` the thread-id column, `-c` the count; defaults included. -/
theorem kevents_command_ir_eq_hand_model (qe : EnumDef) (codes : List (Nat × String)) (t : Format.Tables) (g : Given)
    (hp : g.process = none) (hc : g.color = none) (items : List Item) :
    run Gen.PyIRCli.prog (keventsWorld qe codes t) Gen.PyIRCli.kevents g.args items =
      .ran (printWithCount (Format.formattedKevents (configOf (Opts.ofGiven g)) (showOf (Opts.ofGiven g)) qe codes t items)
              (Opts.ofGiven g).count) none := by
  obtain ⟨h, hcfg, hsh, _⟩ := kevents_command_ir_eq_model (keventsWorld qe codes t) g hp hc items
  rw [h]
  simp only [keventsWorld, hcfg, hsh, if_true, pwcResult, pwcOutcome, ite_self]

/-- … hence (with `kevents_eq_filter`) the lines the command prints are the formatted events the declarative predicate
    selects under the user's options, cut by `-c`. -/
theorem kevents_command_prints_selected (qe : EnumDef) (codes : List (Nat × String)) (t : Format.Tables) (g : Given)
    (hp : g.process = none) (hc : g.color = none) (items : List Item) :
    run Gen.PyIRCli.prog (keventsWorld qe codes t) Gen.PyIRCli.kevents g.args items =
      .ran (printWithCount
        (((events items).filter fun e => decide (Sel (configOf (Opts.ofGiven g)) e)).map
          (Format.formatKevent (showOf (Opts.ofGiven g)) qe codes t)) (Opts.ofGiven g).count) none := by
  rw [kevents_command_ir_eq_hand_model qe codes t g hp hc, Format.formattedKevents, kevents_eq_filter]

/-- **The three table commands of the source, interpreted**: a fresh `KdBufParser({}, {})`, the dump parsed to the end
    (`list(parser.parse(dump))`: an exception of the parser ends the command before anything is printed), then ONE print:
    `json.dumps(parser.<attr>, indent=4)` of `processes` / `kernel_extensions` / `images`. -/
theorem table_commands_ir_eq_model {δ τ : Type} (W : World δ τ) (dump : δ) :
    run Gen.PyIRCli.prog W Gen.PyIRCli.processes ({} : Given).args dump = tableResult W "processes" 4 dump ∧
    run Gen.PyIRCli.prog W Gen.PyIRCli.kexts ({} : Given).args dump = tableResult W "kernel_extensions" 4 dump ∧
    run Gen.PyIRCli.prog W Gen.PyIRCli.images ({} : Given).args dump = tableResult W "images" 4 dump := by
  obtain ⟨_, _, _, _, _, h1, h2, h3, _⟩ := cli_source_is_expected_ir
  rw [cli_prog_is_expected, h1, h2, h3]
  exact ⟨run_table_expected W _ _ dump, run_table_expected W _ _ dump, run_table_expected W _ _ dump⟩

/-- **`formatted_kevents` of the source, interpreted** (any meaning `M` of `self.kevents` / `self._format_kevent`):
    `map` of `self._format_kevent(e, codes)` over `self.kevents(kdebug)` — the caller's code table, or
    `default_trace_codes()` when none is given —, ending with the first exception of the formatter or with that of the
    event listing. -/
theorem formatted_kevents_ir_eq_model {δ ι κ : Type} (M : Methods δ ι κ) (o : Obj) (tc : Option κ) (dump : δ) :
    runFormatted M Gen.PyIRCli.formattedKevents o tc dump =
      mapGen (fun e => M.formatter "_format_kevent" o e [codesArg tc])
        (M.source "kevents" o [.kdebug] dump).1 (M.source "kevents" o [.kdebug] dump).2 := by
  rw [cli_source_is_expected_ir.2.2.2.2.2.2.2.2.2.2.1]; exact runFormatted_kevents M o tc dump

/-- `BASED_INT` of the source is `int(value, 0)` with `ValueError` turned into a usage error. -/
theorem based_int_ir_eq_model (text : String) : Gen.PyIRCli.basedInt.apply text = intBase0 text := by
  rw [cli_source_is_expected_ir.2.1]; rfl

private instance resultDecEq : DecidableEq Result := inferInstance

private def exGiven : Given := { tid := some 7, classFilters := [4, 300], subclassFilters := [0x040c, 0x0301], count := some 2 }

-- non-vacuity: the GENERATED command on the mixed stream above: thread 7, classes 4 / 300, two subclasses, two lines
example : run Gen.PyIRCli.prog (keventsWorld Gen.Enums.DgbFuncQual [] {}) Gen.PyIRCli.kevents exGiven.args stream =
    .ran ([ev 1 7 0x040c0004, ev 3 7 0x03010090].map (Format.formatKevent {} Gen.Enums.DgbFuncQual [] {})) none := by
  decide +kernel
-- … no option at all: every event, thread-id column off
example : run Gen.PyIRCli.prog (keventsWorld Gen.Enums.DgbFuncQual [] {}) Gen.PyIRCli.kevents ({} : Given).args stream =
    .ran ((events stream).map (Format.formatKevent {} Gen.Enums.DgbFuncQual [] {})) none := by decide +kernel
-- … `--show-tid -c 0 --tid -5`
example : run Gen.PyIRCli.prog (keventsWorld Gen.Enums.DgbFuncQual [] {}) Gen.PyIRCli.kevents
    ({ showTid := some true, count := some 0, tid := some (-5) } : Given).args stream = .ran [] none := by decide +kernel
-- … `--process` is not an option of `kevents`: click rejects the command line
example : run Gen.PyIRCli.prog (keventsWorld Gen.Enums.DgbFuncQual [] {}) Gen.PyIRCli.kevents
    ({ process := some "launchd" } : Given).args stream = .usage := by decide +kernel
example : (Opts.ofGiven exGiven).count = 2 ∧ configOf (Opts.ofGiven exGiven) =
    { filterTid := some 7, filterClass := [4, 300], filterSubclass := [0x040c, 0x0301] } := by decide
example : Gen.PyIRCli.basedInt.apply "0x1f" = .ok 31 ∧ Gen.PyIRCli.basedInt.apply "0o17" = .ok 15 ∧
    Gen.PyIRCli.basedInt.apply "-12" = .ok (-12) ∧ Gen.PyIRCli.basedInt.apply "010" = .error .valueError ∧
    Gen.PyIRCli.basedInt.apply "0b101" = .ok 5 ∧ Gen.PyIRCli.basedInt.apply "4x" = .error .valueError ∧
    Gen.PyIRCli.basedInt.apply "00" = .ok 0 ∧ Gen.PyIRCli.basedInt.apply "1_0" = .error .unmodelled := by decide

end KdVerif.C12
