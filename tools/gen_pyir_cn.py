"""Translator of the module-level `construct` DECLARATIONS of pykdebugparser/kd_buf_parser.py (pure `ast`) ->
lean/KdVerif/Gen/PyIRCn.lean: `kd_threadmap`, `kd_header_v2`, `kd_header_v3`, `kd_v3_threadmap`, `kd_v3_additional_data`
as terms of `PyIRCn.Con` (Model/PyIRCn.lean), plus what `BplistAdapter._decode` returns.

Every module-level `name = <expression built from construct classes>` is translated, in source order.  The construct
classes are recognised through the module's `from construct import …` (an `as` alias is followed; `import construct` +
`construct.X` too); integer literals are normalised (`0x100` = `256`); `'name' / X` and bare `X` are the two field forms of
`Struct`; a module-level name bound earlier to a construct is `.ref "<name>"`.  Anything else — another class, another
argument form, keywords, a rebound class name — is `.unsupported "<text>"` and / or a note: never a guess."""
import ast
import os

WANTED = ['kd_threadmap', 'kd_header_v2', 'kd_header_v3', 'kd_v3_threadmap', 'kd_v3_additional_data']
ADAPTER = 'BplistAdapter'
UTF8 = {'utf8', 'utf_8', 'u8'}          # construct: `encoding.replace('-', '_').lower()` against its table of encodings


def src(n):
    try:
        return ast.unparse(n)
    except Exception:
        return '<?>'


class Tr:
    def __init__(self, tree):
        self.tree = tree
        self.notes = []
        self.names = {}          # local name -> construct class name
        self.modules = set()     # local names of `import construct`
        self.plistlib = set()    # local names of `import plistlib`
        self.decls = []          # (name, term)
        self.adapter = ('unsupported', 'class %s not found' % ADAPTER)
        self.adapter_defined = False

    # -- terms are nested tuples --
    def unsupported(self, n):
        return ('unsupported', src(n))

    def cls(self, f):
        """the construct class a callee / name denotes, or None"""
        if isinstance(f, ast.Name):
            return self.names.get(f.id)
        if isinstance(f, ast.Attribute) and isinstance(f.value, ast.Name) and f.value.id in self.modules:
            return f.attr
        return None

    @staticmethod
    def nat(e):
        if isinstance(e, ast.Constant) and type(e.value) is int and e.value >= 0:
            return e.value
        return None

    def conv(self, e):
        declared = dict(self.decls)
        if isinstance(e, ast.Name) and e.id in declared and e.id not in self.names:
            return ('ref', e.id)
        if isinstance(e, (ast.Name, ast.Attribute)):
            c = self.cls(e)
            simple = {'Int32ul': 'int32ul', 'Int64ul': 'int64ul', 'Byte': 'byte', 'GreedyBytes': 'greedyBytes'}
            if c in simple:
                return (simple[c],)
            return self.unsupported(e)
        if not isinstance(e, ast.Call):
            return self.unsupported(e)
        if isinstance(e.func, ast.Name) and e.func.id == ADAPTER and self.adapter_defined and ADAPTER not in self.names:
            if len(e.args) == 1 and not e.keywords:
                return ('bplist', self.conv(e.args[0]))
            return self.unsupported(e)
        c = self.cls(e.func)
        a = e.args
        if c is None or any(isinstance(x, ast.Starred) for x in a):
            return self.unsupported(e)
        if c == 'CString':
            enc = None
            if len(a) == 1 and not e.keywords:
                enc = a[0]
            elif not a and len(e.keywords) == 1 and e.keywords[0].arg == 'encoding':
                enc = e.keywords[0].value
            if isinstance(enc, ast.Constant) and isinstance(enc.value, str) and enc.value.replace('-', '_').lower() in UTF8:
                return ('cstringUtf8',)
            return self.unsupported(e)
        if e.keywords:
            return self.unsupported(e)
        if c == 'Struct':
            fields = []
            for x in a:
                if isinstance(x, ast.BinOp) and isinstance(x.op, ast.Div) and isinstance(x.left, ast.Constant) \
                        and isinstance(x.left.value, str):
                    fields.append((x.left.value, self.conv(x.right)))
                else:
                    fields.append((None, self.conv(x)))
            return ('struct', fields)
        if c in ('Padding', 'Bytes') and len(a) == 1 and self.nat(a[0]) is not None:
            return ('padding' if c == 'Padding' else 'bytes', self.nat(a[0]))
        if c == 'Const' and len(a) == 2 and self.nat(a[0]) == 0 and self.cls(a[1]) == 'Byte':
            return ('const0Byte',)
        if c == 'Array' and len(a) == 2 and isinstance(a[0], ast.Lambda):
            lam = a[0]
            la = lam.args
            if len(la.args) == 1 and not (la.posonlyargs or la.kwonlyargs or la.vararg or la.kwarg or la.defaults) \
                    and isinstance(lam.body, ast.Attribute) and isinstance(lam.body.value, ast.Name) \
                    and lam.body.value.id == la.args[0].arg:
                return ('array', lam.body.attr, self.conv(a[1]))
            return self.unsupported(e)
        if c == 'GreedyRange' and len(a) == 1:
            return ('greedyRange', self.conv(a[0]))
        if c in ('FixedSized', 'Aligned') and len(a) == 2 and self.nat(a[0]) is not None:
            return ('fixedSized' if c == 'FixedSized' else 'aligned', self.nat(a[0]), self.conv(a[1]))
        if c == 'Prefixed' and len(a) == 2 and self.cls(a[0]) == 'Int64ul':
            return ('prefixed64', self.conv(a[1]))
        if c == 'Select' and len(a) == 2:
            return ('select', self.conv(a[0]), self.conv(a[1]))
        return self.unsupported(e)

    def is_construct_expr(self, e):
        if isinstance(e, ast.Call):
            if isinstance(e.func, ast.Name) and e.func.id == ADAPTER:
                return True
            return self.cls(e.func) is not None
        return self.cls(e) is not None

    def do_adapter(self, cd):
        self.adapter_defined = True
        if len(cd.bases) != 1 or self.cls(cd.bases[0]) != 'Adapter' or cd.keywords or cd.decorator_list:
            self.adapter = ('unsupported', 'class %s(%s)' % (cd.name, ', '.join(src(b) for b in cd.bases)))
            return
        body = [s for s in cd.body if not (isinstance(s, ast.Expr) and isinstance(s.value, ast.Constant))]
        dec = None
        for s in body:
            if isinstance(s, ast.FunctionDef) and s.name == '_decode' and dec is None:
                dec = s
            elif isinstance(s, ast.FunctionDef) and s.name == '_encode':
                pass                                            # building is outside the parser's behaviour
            else:
                self.notes.append('%s: member other than _decode / _encode: %s' % (ADAPTER, src(s).splitlines()[0]))
        if dec is None:
            self.adapter = ('unsupported', '%s has no _decode' % ADAPTER)
            return
        fa = dec.args
        fb = [s for s in dec.body if not (isinstance(s, ast.Expr) and isinstance(s.value, ast.Constant))]
        ok = len(fa.args) == 4 and not (fa.posonlyargs or fa.kwonlyargs or fa.vararg or fa.kwarg or fa.defaults) \
            and not dec.decorator_list and len(fb) == 1 and isinstance(fb[0], ast.Return) \
            and isinstance(fb[0].value, ast.Call)
        if ok:
            call = fb[0].value
            f = call.func
            ok = isinstance(f, ast.Attribute) and f.attr == 'loads' and isinstance(f.value, ast.Name) \
                and f.value.id in self.plistlib and len(call.args) == 1 and not call.keywords \
                and isinstance(call.args[0], ast.Name) and call.args[0].id == fa.args[1].arg
        self.adapter = ('plistLoadsObj',) if ok else ('unsupported', src(dec))

    def run(self):
        bound = {}
        for s in self.tree.body:
            if isinstance(s, ast.ImportFrom) and s.module == 'construct' and s.level == 0:
                for al in s.names:
                    if al.name == '*':
                        self.notes.append('from construct import *')
                    else:
                        self.names[al.asname or al.name] = al.name
            elif isinstance(s, ast.Import):
                for al in s.names:
                    if al.name == 'construct':
                        self.modules.add(al.asname or al.name)
                    if al.name == 'plistlib':
                        self.plistlib.add(al.asname or al.name)
            elif isinstance(s, ast.ClassDef):
                if s.name == ADAPTER:
                    if self.adapter_defined:
                        self.notes.append('class %s defined twice' % ADAPTER)
                    self.do_adapter(s)
                if s.name in self.names or s.name in self.modules or s.name in self.plistlib:
                    self.notes.append('class rebinds %s' % s.name)
            elif isinstance(s, ast.FunctionDef):
                if s.name in self.names or s.name in self.modules or s.name in self.plistlib or s.name == ADAPTER:
                    self.notes.append('def rebinds %s' % s.name)
            elif isinstance(s, (ast.Assign, ast.AnnAssign, ast.AugAssign)):
                targets = s.targets if isinstance(s, ast.Assign) else [s.target]
                tnames = [t.id for t in targets if isinstance(t, ast.Name)]
                for t in targets:
                    for n in ast.walk(t):
                        if isinstance(n, ast.Name) and (n.id in self.names or n.id in self.modules or n.id in self.plistlib
                                                        or n.id == ADAPTER):
                            self.notes.append('assignment rebinds %s' % n.id)
                value = getattr(s, 'value', None)
                is_decl = value is not None and (self.is_construct_expr(value) or any(n in WANTED for n in tnames)
                                                 or (isinstance(value, ast.Name) and value.id in dict(self.decls)))
                if is_decl:
                    if not (isinstance(s, ast.Assign) and len(targets) == 1 and isinstance(targets[0], ast.Name)):
                        self.notes.append('construct bound by something else than `name = …`: ' + src(s).splitlines()[0])
                        continue
                    name = targets[0].id
                    if name in bound:
                        self.notes.append('%s bound twice' % name)
                    bound[name] = True
                    self.decls.append((name, self.conv(value)))
                else:
                    for n in tnames:
                        if n in dict(self.decls):
                            self.notes.append('%s rebound: %s' % (n, src(s).splitlines()[0]))
        for w in WANTED:
            if w not in bound:
                self.notes.append('declaration %s not found' % w)
        return self


def translate(repo):
    path = os.path.join(repo, 'pykdebugparser', 'kd_buf_parser.py')
    with open(path) as fd:
        tree = ast.parse(fd.read())
    return Tr(tree).run()


def generate(repo, write_if_changed, lean_str):
    t = translate(repo)

    def con(x, ind):
        k = x[0]
        if k == 'unsupported':
            return '(.unsupported %s)' % lean_str(x[1])
        if k == 'ref':
            return '(.ref %s)' % lean_str(x[1])
        if k in ('int32ul', 'int64ul', 'byte', 'greedyBytes', 'const0Byte', 'cstringUtf8'):
            return '.' + k
        if k in ('padding', 'bytes'):
            return '(.%s %d)' % (k, x[1])
        if k in ('fixedSized', 'aligned'):
            return '(.%s %d %s)' % (k, x[1], con(x[2], ind))
        if k == 'array':
            return '(.array %s %s)' % (lean_str(x[1]), con(x[2], ind))
        if k in ('greedyRange', 'prefixed64', 'bplist'):
            return '(.%s %s)' % (k, con(x[1], ind))
        if k == 'select':
            return '(.select %s %s)' % (con(x[1], ind), con(x[2], ind))
        if k == 'struct':
            pad = ' ' * (ind + 4)
            fs = [pad + '(%s, %s)' % ('none' if n is None else 'some ' + lean_str(n), con(c, ind + 4)) for n, c in x[1]]
            return '(.struct (Fields.ofList [\n' + ',\n'.join(fs) + ']))'
        raise ValueError(k)

    L = ['import KdVerif.Model.PyIRCn', 'namespace KdVerif.Gen.PyIRCn', 'open KdVerif.PyIRCn', '',
         '/-! The construct declarations of pykdebugparser/kd_buf_parser.py as `Con` terms (tools/gen_pyir_cn.py). -/', '']
    used = set()
    entries = []
    for i, (name, term) in enumerate(t.decls):
        ident = 'd%d_%s' % (i, ''.join(ch if ch.isalnum() or ch == '_' else '_' for ch in name))
        used.add(ident)
        L.append('def %s : Con :=\n  %s\n' % (ident, con(term, 2)))
        entries.append('(%s, %s)' % (lean_str(name), ident))
    dec = '.plistLoadsObj' if t.adapter[0] == 'plistLoadsObj' else '(.unsupported %s)' % lean_str(t.adapter[1])
    L.append('def module : Module :=\n  { decls := [%s],\n    bplistDecode := %s }\n' % (', '.join(entries), dec))
    L.append('def notes : List String := [' + ', '.join(lean_str(n) for n in t.notes) + ']\n')
    L += ['end KdVerif.Gen.PyIRCn', '']
    return write_if_changed('PyIRCn.lean', '\n'.join(L))


if __name__ == '__main__':
    import sys
    t = translate(sys.argv[1] if len(sys.argv) > 1 else '/repo')
    for d in t.decls:
        print(d)
    print(t.adapter)
    print(t.notes)
