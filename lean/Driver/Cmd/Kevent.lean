import Driver.Util
open KdVerif
namespace Driver.Kevent

def showKevent (e : Kevent) : String :=
  s!"ok {e.timestamp} {toHex e.data} {natList e.values} {e.tid} {e.debugid} {e.eventid} {e.qual}"

def cmdKevent : Cmd
  | [h] =>
    match ofHex (unDash h) with
    | none => "bad-op"
    | some bs =>
      match fromKdBuf bs with
      | .ok e => showKevent e
      | .error err => s!"err {err.name}"
  | _ => "bad-op"

def commands : List (String × Cmd) := [("kevent", cmdKevent)]

end Driver.Kevent
