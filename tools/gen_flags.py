"""Translator part for C11: lean/KdVerif/Gen/Flags.lean from the CURRENT source of
bsd.py / mach.py / perf.py / dyld.py.

Structure comes from `ast` (which members are walked, in which order, what is iterated, which masks
and shifts are applied, which member is returned for the zero word); values come from reflection of
the imported module (member values, `S_IFMT`, `IOC_REQUEST_PARAMS`).  Every shape that is not
recognised is listed in `unsupported`; `Props/C11.lean` proves `unsupported = []`, so an unknown
shape stops the build instead of being modelled wrongly.

`analyse()` returns the same information as a plain dict (used by tools/kdv/props/C11.py to find the
sites to exercise)."""
import ast
import enum
import importlib
import inspect

FLAG_MODULES = [('bsd', 'pykdebugparser.trace_handlers.bsd'), ('mach', 'pykdebugparser.trace_handlers.mach'),
                ('perf', 'pykdebugparser.trace_handlers.perf'), ('dyld', 'pykdebugparser.trace_handlers.dyld')]


class Unsupported(Exception):
    pass


def src_of(node):
    try:
        return ast.unparse(node)
    except Exception:  # pragma: no cover
        return '<%s>' % type(node).__name__


def strip_doc(body):
    if body and isinstance(body[0], ast.Expr) and isinstance(body[0].value, ast.Constant) \
            and isinstance(body[0].value.value, str):
        return body[1:]
    return body


class Mod:
    def __init__(self, short, name):
        self.short = short
        self.mod = importlib.import_module(name)
        with open(inspect.getsourcefile(self.mod)) as fd:
            self.tree = ast.parse(fd.read())
        self.funcs = {n.name: n for n in self.tree.body if isinstance(n, ast.FunctionDef)}
        self.classes = {n.name: n for n in self.tree.body if isinstance(n, ast.ClassDef)}

    def enum_class(self, node):
        """Name -> enum class of this module's namespace, else None."""
        if isinstance(node, ast.Name):
            obj = getattr(self.mod, node.id, None)
            if isinstance(obj, type) and issubclass(obj, enum.Enum):
                return obj
        return None

    def member(self, node):
        """`E.M` -> (class, member)."""
        if isinstance(node, ast.Attribute):
            cls = self.enum_class(node.value)
            if cls is not None and node.attr in cls.__members__:
                return cls, cls.__members__[node.attr]
        raise Unsupported('not an enum member: ' + src_of(node))

    def const_int(self, node):
        """Integer literal or module-level integer constant."""
        if isinstance(node, ast.Constant) and isinstance(node.value, int) and not isinstance(node.value, bool):
            return node.value
        if isinstance(node, ast.Name):
            v = getattr(self.mod, node.id, None)
            if isinstance(v, int) and not isinstance(v, bool):
                return v
        raise Unsupported('not an integer constant: ' + src_of(node))

    def iteration(self, node):
        """The three ways of walking an enum class -> (class, kind, members yielded)."""
        cls = self.enum_class(node)
        if cls is not None:
            return cls, 'cls', list(cls)
        if isinstance(node, ast.Call) and isinstance(node.func, ast.Name) and node.func.id == 'list' \
                and len(node.args) == 1 and not node.keywords:
            cls = self.enum_class(node.args[0])
            if cls is not None:
                return cls, 'listCls', list(cls)
        if isinstance(node, ast.Call) and not node.args and not node.keywords \
                and isinstance(node.func, ast.Attribute) and node.func.attr == 'values' \
                and isinstance(node.func.value, ast.Attribute) and node.func.value.attr == '__members__':
            cls = self.enum_class(node.func.value.value)
            if cls is not None:
                return cls, 'membersValues', list(cls.__members__.values())
        return None


def mentions(node, name):
    return any(isinstance(n, ast.Name) and n.id == name for n in ast.walk(node))


def is_value_of(node, var):
    return isinstance(node, ast.Attribute) and node.attr == 'value' and isinstance(node.value, ast.Name) \
        and node.value.id == var


def and_with_value(test, var):
    """`var.value & e` or `e & var.value` -> e (an expression that does not mention var)."""
    if isinstance(test, ast.BinOp) and isinstance(test.op, ast.BitAnd):
        for a, b in ((test.left, test.right), (test.right, test.left)):
            if is_value_of(a, var) and not mentions(b, var):
                return b
    raise Unsupported('test is not `<member>.value & <word>`: ' + src_of(test))


def is_append(stmt, acc, what=None):
    """`acc.append(x)` -> x"""
    if isinstance(stmt, ast.Expr) and isinstance(stmt.value, ast.Call):
        c = stmt.value
        if isinstance(c.func, ast.Attribute) and c.func.attr == 'append' and isinstance(c.func.value, ast.Name) \
                and c.func.value.id == acc and len(c.args) == 1 and not c.keywords:
            if what is None or (isinstance(c.args[0], ast.Name) and c.args[0].id == what):
                return c.args[0]
    raise Unsupported('expected %s.append(...): %s' % (acc, src_of(stmt)))


def single_param(fn):
    a = fn.args
    if len(a.args) == 1 and not (a.vararg or a.kwarg or a.kwonlyargs or a.posonlyargs or a.defaults):
        return a.args[0].arg
    return None


def mem(m):
    return (m.name, m.value)


# ------------------------------------------------------------------------------------------------
# flag comprehensions

def comp_of(M, node):
    """A list comprehension that walks an enum class -> dict, or None if it is some other comprehension."""
    if not isinstance(node, ast.ListComp) or len(node.generators) != 1:
        return None
    g = node.generators[0]
    it = M.iteration(g.iter)
    if it is None:
        return None
    cls, kind, members = it
    if g.is_async or not isinstance(g.target, ast.Name):
        raise Unsupported('comprehension target: ' + src_of(node))
    var = g.target.id
    if not (isinstance(node.elt, ast.Name) and node.elt.id == var):
        raise Unsupported('comprehension element is not the member itself: ' + src_of(node))
    if len(g.ifs) != 1:
        raise Unsupported('comprehension without exactly one condition: ' + src_of(node))
    word = and_with_value(g.ifs[0], var)
    return {'cls': cls, 'kind': kind, 'iter': [mem(m) for m in members], 'word': word}


def list_of_one_member(M, node, cls):
    if isinstance(node, ast.List) and len(node.elts) == 1:
        c, m = M.member(node.elts[0])
        if c is cls:
            return mem(m)
    raise Unsupported('expected a one-member list of %s: %s' % (cls.__name__, src_of(node)))


def is_not_name(test, name):
    return isinstance(test, ast.UnaryOp) and isinstance(test.op, ast.Not) and isinstance(test.operand, ast.Name) \
        and test.operand.id == name


def word_is_param(c, param):
    return isinstance(c['word'], ast.Name) and c['word'].id == param


def helper_shape(M, fn):
    """A one-parameter helper around one flag comprehension -> (comp, zero) or None when the function holds
    no flag comprehension.  zero: None | ('wordZero', member) | ('emptyResult', member)."""
    param = single_param(fn)
    body = strip_doc(fn.body)
    # return [comp]
    if len(body) == 1 and isinstance(body[0], ast.Return):
        c = comp_of(M, body[0].value)
        if c is not None:
            return c, None
    # if not flags: return [Z]  (else:) return [comp]
    if body and isinstance(body[0], ast.If) and param and is_not_name(body[0].test, param) \
            and len(body[0].body) == 1 and isinstance(body[0].body[0], ast.Return):
        rest = body[0].orelse if body[0].orelse else body[1:]
        if (not body[0].orelse or len(body) == 1) and len(rest) == 1 and isinstance(rest[0], ast.Return):
            c = comp_of(M, rest[0].value)
            if c is not None:
                if not word_is_param(c, param):
                    raise Unsupported('%s: zero test and comprehension look at different words' % fn.name)
                return c, ('wordZero', list_of_one_member(M, body[0].body[0].value, c['cls']))
    # x = [comp]; if not x: x = [Z]; return x
    if len(body) == 3 and isinstance(body[0], ast.Assign) and len(body[0].targets) == 1 \
            and isinstance(body[0].targets[0], ast.Name):
        x = body[0].targets[0].id
        c = comp_of(M, body[0].value)
        if c is not None and isinstance(body[1], ast.If) and is_not_name(body[1].test, x) and not body[1].orelse \
                and len(body[1].body) == 1 and isinstance(body[1].body[0], ast.Assign) \
                and len(body[1].body[0].targets) == 1 and isinstance(body[1].body[0].targets[0], ast.Name) \
                and body[1].body[0].targets[0].id == x and isinstance(body[2], ast.Return) \
                and isinstance(body[2].value, ast.Name) and body[2].value.id == x:
            return c, ('emptyResult', list_of_one_member(M, body[1].body[0].value, c['cls']))
    # x = [comp]; return x or [Z]      /      return [comp] or [Z]      (an empty list is the only falsy result)
    def or_default(node):
        if isinstance(node, ast.BoolOp) and isinstance(node.op, ast.Or) and len(node.values) == 2:
            return node.values
        return None
    if len(body) == 2 and isinstance(body[0], ast.Assign) and len(body[0].targets) == 1 \
            and isinstance(body[0].targets[0], ast.Name) and isinstance(body[1], ast.Return):
        x = body[0].targets[0].id
        c = comp_of(M, body[0].value)
        od = or_default(body[1].value)
        if c is not None and od and isinstance(od[0], ast.Name) and od[0].id == x:
            return c, ('emptyResult', list_of_one_member(M, od[1], c['cls']))
    if len(body) == 1 and isinstance(body[0], ast.Return):
        od = or_default(body[0].value)
        c = comp_of(M, od[0]) if od else None
        if c is not None:
            return c, ('emptyResult', list_of_one_member(M, od[1], c['cls']))
    return None


def inline_sites(M, fn):
    """Flag comprehensions inside a handler: `v = [comp]` at statement level or `[comp]` as an argument.  The
    result must flow on unchanged: no later statement may test or rebind the variable."""
    out = []
    body = strip_doc(fn.body)
    for i, st in enumerate(body):
        for node in ast.walk(st):
            c = comp_of(M, node) if isinstance(node, ast.ListComp) else None
            if c is None:
                continue
            if isinstance(st, ast.Assign) and st.value is node and len(st.targets) == 1 \
                    and isinstance(st.targets[0], ast.Name):
                v = st.targets[0].id
                for later in body[i + 1:]:
                    for n in ast.walk(later):
                        if isinstance(n, (ast.If, ast.IfExp, ast.While)) and mentions(n.test, v):
                            raise Unsupported('%s: result of the comprehension is tested afterwards' % fn.name)
                        if isinstance(n, ast.Name) and n.id == v and not isinstance(n.ctx, ast.Load):
                            raise Unsupported('%s: result of the comprehension is rebound' % fn.name)
                        if isinstance(n, ast.Attribute) and isinstance(n.value, ast.Name) and n.value.id == v:
                            raise Unsupported('%s: result of the comprehension is modified' % fn.name)
            elif isinstance(st, (ast.Return, ast.Assign, ast.Expr)):
                pass      # used in place as an argument / returned directly
            else:
                raise Unsupported('%s: comprehension inside a compound statement' % fn.name)
            out.append(c)
    return out


def find_sites(M, skip, unsupported):
    sites = []
    for name, fn in M.funcs.items():
        if name in skip:
            continue
        has = any(isinstance(n, ast.ListComp) and len(n.generators) == 1 and M.iteration(n.generators[0].iter)
                  for n in ast.walk(fn))
        if not has:
            continue
        try:
            h = helper_shape(M, fn)
            if h is not None:
                c, zero = h
                sites.append(dict(c, func=f'{M.short}.{name}', zero=zero, helper=True, word_src=src_of(c['word'])))
                continue
            found = inline_sites(M, fn)
            for k, c in enumerate(found):
                suffix = '' if len(found) == 1 else f'#{k}'
                sites.append(dict(c, func=f'{M.short}.{name}{suffix}', zero=None, helper=False,
                                  word_src=src_of(c['word'])))
        except Unsupported as e:
            unsupported.append(f'{M.short}.{name}: {e}')
    return sites


# ------------------------------------------------------------------------------------------------
# serialize_open_flags / serialize_stat_flags

def member_tuple(M, node):
    if not isinstance(node, (ast.Tuple, ast.List)):
        raise Unsupported('expected a tuple of members: ' + src_of(node))
    out, cls = [], None
    for e in node.elts:
        c, m = M.member(e)
        if cls is not None and c is not cls:
            raise Unsupported('members of different classes: ' + src_of(node))
        cls = c
        out.append(mem(m))
    return cls, out


def acc_init(st):
    if isinstance(st, ast.Assign) and len(st.targets) == 1 and isinstance(st.targets[0], ast.Name) \
            and isinstance(st.value, ast.List) and not st.value.elts:
        return st.targets[0].id
    raise Unsupported('expected `<acc> = []`: ' + src_of(st))


def param_and_value(test, param, var):
    w = and_with_value(test, var)
    if not (isinstance(w, ast.Name) and w.id == param):
        raise Unsupported('test does not look at the parameter: ' + src_of(test))


def open_flags(M):
    fn = M.funcs.get('serialize_open_flags')
    if fn is None:
        raise Unsupported('serialize_open_flags not found')
    param = single_param(fn)
    body = strip_doc(fn.body)
    if param is None or len(body) != 4:
        raise Unsupported('serialize_open_flags: statement list')
    acc = acc_init(body[0])
    f1, f2, ret = body[1], body[2], body[3]
    if not (isinstance(f1, ast.For) and isinstance(f1.target, ast.Name) and len(f1.body) == 1
            and isinstance(f1.body[0], ast.If) and not f1.body[0].orelse and len(f1.body[0].body) == 2
            and isinstance(f1.body[0].body[1], ast.Break) and len(f1.orelse) == 1):
        raise Unsupported('serialize_open_flags: access-mode loop')
    cls, cand = member_tuple(M, f1.iter)
    param_and_value(f1.body[0].test, param, f1.target.id)
    is_append(f1.body[0].body[0], acc, f1.target.id)
    c2, dflt = M.member(is_append(f1.orelse[0], acc))
    if not (isinstance(f2, ast.For) and isinstance(f2.target, ast.Name) and not f2.orelse and len(f2.body) == 1
            and isinstance(f2.body[0], ast.If) and not f2.body[0].orelse and len(f2.body[0].body) == 1):
        raise Unsupported('serialize_open_flags: shown-flags loop')
    c3, shown = member_tuple(M, f2.iter)
    param_and_value(f2.body[0].test, param, f2.target.id)
    is_append(f2.body[0].body[0], acc, f2.target.id)
    if not (isinstance(ret, ast.Return) and isinstance(ret.value, ast.Name) and ret.value.id == acc):
        raise Unsupported('serialize_open_flags: return')
    if not (cls is c2 is c3):
        raise Unsupported('serialize_open_flags: members of different classes')
    return {'cls': cls, 'acc': cand, 'dflt': mem(dflt), 'shown': shown}


def stat_flags(M):
    fn = M.funcs.get('serialize_stat_flags')
    if fn is None:
        raise Unsupported('serialize_stat_flags not found')
    param = single_param(fn)
    body = strip_doc(fn.body)
    if param is None or len(body) != 3:
        raise Unsupported('serialize_stat_flags: statement list')
    acc = acc_init(body[0])
    loop, ret = body[1], body[2]
    if not (isinstance(loop, ast.For) and isinstance(loop.target, ast.Name) and not loop.orelse
            and len(loop.body) == 1 and isinstance(loop.body[0], ast.If)):
        raise Unsupported('serialize_stat_flags: loop')
    it = M.iteration(loop.iter)
    if it is None:
        raise Unsupported('serialize_stat_flags: iterates ' + src_of(loop.iter))
    cls, kind, members = it
    var = loop.target.id
    outer = loop.body[0]
    type_mask = M.const_int(and_with_value(outer.test, var))
    if not (len(outer.body) == 1 and isinstance(outer.body[0], ast.If) and not outer.body[0].orelse
            and len(outer.body[0].body) == 1 and len(outer.orelse) == 1 and isinstance(outer.orelse[0], ast.If)
            and not outer.orelse[0].orelse and len(outer.orelse[0].body) == 1):
        raise Unsupported('serialize_stat_flags: branches')
    eq = outer.body[0].test
    if not (isinstance(eq, ast.Compare) and len(eq.ops) == 1 and isinstance(eq.ops[0], ast.Eq)):
        raise Unsupported('serialize_stat_flags: file-type test ' + src_of(eq))
    sides = [eq.left, eq.comparators[0]]
    if is_value_of(sides[0], var):
        sides.reverse()
    if not is_value_of(sides[1], var):
        raise Unsupported('serialize_stat_flags: file-type test ' + src_of(eq))
    fld = sides[0]
    if not (isinstance(fld, ast.BinOp) and isinstance(fld.op, ast.BitAnd)):
        raise Unsupported('serialize_stat_flags: file-type field ' + src_of(fld))
    a, b = fld.left, fld.right
    if isinstance(b, ast.Name) and b.id == param:
        a, b = b, a
    if not (isinstance(a, ast.Name) and a.id == param):
        raise Unsupported('serialize_stat_flags: file-type field ' + src_of(fld))
    field_mask = M.const_int(b)
    is_append(outer.body[0].body[0], acc, var)
    param_and_value(outer.orelse[0].test, param, var)
    is_append(outer.orelse[0].body[0], acc, var)
    if not (isinstance(ret, ast.Return) and isinstance(ret.value, ast.Name) and ret.value.id == acc):
        raise Unsupported('serialize_stat_flags: return')
    return {'cls': cls, 'kind': kind, 'iter': [mem(m) for m in members], 'type_mask': type_mask,
            'field_mask': field_mask}


# ------------------------------------------------------------------------------------------------
# BscIoctl.__str__

def ioctl_layout(M):
    cls = M.classes.get('BscIoctl')
    if cls is None:
        raise Unsupported('class BscIoctl not found')
    meth = next((n for n in cls.body if isinstance(n, ast.FunctionDef) and n.name == '__str__'), None)
    if meth is None:
        raise Unsupported('BscIoctl.__str__ not found')
    self_name = meth.args.args[0].arg
    env = {}
    for st in strip_doc(meth.body):
        if isinstance(st, ast.Assign) and len(st.targets) == 1 and isinstance(st.targets[0], ast.Name):
            if st.targets[0].id in env:
                raise Unsupported('BscIoctl.__str__: %s assigned twice' % st.targets[0].id)
            env[st.targets[0].id] = st.value

    def is_request(n):
        return isinstance(n, ast.Attribute) and n.attr == 'request' and isinstance(n.value, ast.Name) \
            and n.value.id == self_name

    def field(n):
        """`self.request & M` | `(self.request >> S) & M` -> (S, M)"""
        if isinstance(n, ast.BinOp) and isinstance(n.op, ast.BitAnd):
            for a, b in ((n.left, n.right), (n.right, n.left)):
                try:
                    m = M.const_int(b)
                except Unsupported:
                    continue
                if is_request(a):
                    return 0, m
                if isinstance(a, ast.BinOp) and isinstance(a.op, ast.RShift) and is_request(a.left):
                    return M.const_int(a.right), m
        raise Unsupported('BscIoctl.__str__: field expression ' + src_of(n))

    # the f-string that spells `_IOC(<dir>, '<group>', <number>, <length>)`
    ioc = None
    for n in ast.walk(meth):
        if isinstance(n, ast.JoinedStr):
            if n.values and isinstance(n.values[0], ast.Constant) and n.values[0].value == '_IOC(':
                ioc = n
                break
    if ioc is None:
        raise Unsupported('BscIoctl.__str__: no `_IOC(...)` f-string')
    shape = [v.value if isinstance(v, ast.Constant) else None for v in ioc.values]
    if shape != ['_IOC(', None, ", '", None, "', ", None, ', ', None, ')']:
        raise Unsupported('BscIoctl.__str__: `_IOC(...)` text pieces %r' % (shape,))
    holes = [v for v in ioc.values if isinstance(v, ast.FormattedValue)]
    exprs = []
    for h in holes:
        if h.conversion != -1 or h.format_spec is not None:
            raise Unsupported('BscIoctl.__str__: conversion in the `_IOC(...)` f-string')
        e = h.value
        seen = 0
        while isinstance(e, ast.Name) and e.id in env and seen < 8:
            e = env[e.id]
            seen += 1
        exprs.append(e)
    d, g, nmb, ln = exprs
    if not (isinstance(d, ast.Subscript) and isinstance(d.value, ast.Name)):
        raise Unsupported('BscIoctl.__str__: direction ' + src_of(d))
    table = getattr(M.mod, d.value.id, None)
    if not (isinstance(table, dict) and all(isinstance(k, int) and isinstance(v, str) for k, v in table.items())):
        raise Unsupported('BscIoctl.__str__: %s is not a dict of int -> str' % d.value.id)
    dshift, dmask = field(d.slice)
    if dshift != 0:
        raise Unsupported('BscIoctl.__str__: shifted direction key')
    if not (isinstance(g, ast.Call) and isinstance(g.func, ast.Name) and g.func.id == 'chr' and len(g.args) == 1
            and not g.keywords):
        raise Unsupported('BscIoctl.__str__: group is not chr(...)')
    gs, gm = field(g.args[0])
    if gm > 0x10ffff:
        raise Unsupported('BscIoctl.__str__: chr() of a field wider than a code point')
    ns, nm = field(nmb)
    ls, lm = field(ln)
    return {'table': d.value.id, 'params': list(table.items()),
            'layout': (dmask, gs, gm, ns, nm, ls, lm)}


# ------------------------------------------------------------------------------------------------

def analyse():
    unsupported = []
    mods = {}
    for short, name in FLAG_MODULES:
        mods[short] = Mod(short, name)
    bsd = mods['bsd']
    res = {'unsupported': unsupported, 'sites': []}
    for key, fn in (('open', open_flags), ('stat', stat_flags), ('ioctl', ioctl_layout)):
        try:
            res[key] = fn(bsd)
        except Unsupported as e:
            unsupported.append(str(e))
            res[key] = None
    for short, M in mods.items():
        skip = {'serialize_open_flags', 'serialize_stat_flags'} if short == 'bsd' else set()
        res['sites'] += find_sites(M, skip, unsupported)
    res['S_IFMT'] = getattr(bsd.mod, 'S_IFMT', None)
    return res


def gen_flags(T):
    """T: the translate module (write_if_changed, lean_str, lean_int, emit_chunked_list, all_enums)."""
    write_if_changed, lean_str, lean_int, emit_chunked_list, all_enums = \
        T.write_if_changed, T.lean_str, T.lean_int, T.emit_chunked_list, T.all_enums
    r = analyse()
    known = {cls: nm for nm, cls in all_enums().items()}
    unsupported = list(r['unsupported'])

    def lm(p):
        return '⟨%s, %s⟩' % (lean_str(p[0]), lean_int(p[1]))

    def enum_ref(cls):
        if cls in known and all(isinstance(m.value, int) for m in cls):
            return 'Gen.Enums.' + known[cls]
        unsupported.append('enum class %s is not reflected in Gen/Enums' % cls.__name__)
        return 'default'

    L = ['import KdVerif.Model.Flags', 'import KdVerif.Gen.Enums', 'namespace KdVerif.Gen.Flags', '']
    # --- serialize_open_flags
    o = r['open']
    L.append('-- serialize_open_flags: access-mode candidates (first hit wins), fallback, shown flags in order')
    L.append('def openEnum : EnumDef := ' + (enum_ref(o['cls']) if o else 'default'))
    L.append(emit_chunked_list('openAcc', 'EnumMember', [lm(p) for p in (o['acc'] if o else [])]))
    L.append('def openAccElse : EnumMember := ' + (lm(o['dflt']) if o else 'default'))
    L.append(emit_chunked_list('openShown', 'EnumMember', [lm(p) for p in (o['shown'] if o else [])]))
    # --- serialize_stat_flags
    s = r['stat']
    L.append('-- serialize_stat_flags: what the loop iterates, the members that yields, the two masks')
    L.append('def statEnum : EnumDef := ' + (enum_ref(s['cls']) if s else 'default'))
    L.append('def statSrc : IterSrc := .' + (s['kind'] if s else 'cls'))
    L.append(emit_chunked_list('statIter', 'EnumMember', [lm(p) for p in (s['iter'] if s else [])]))
    L.append('def statTypeMask : Nat := %#x' % (s['type_mask'] if s else 0))
    L.append('def statFieldMask : Nat := %#x' % (s['field_mask'] if s else 0))
    if isinstance(r['S_IFMT'], int) and r['S_IFMT'] >= 0:
        L.append('def S_IFMT : Nat := %#x' % r['S_IFMT'])
    else:
        unsupported.append('bsd.S_IFMT is not a natural number')
        L.append('def S_IFMT : Nat := 0')
    L.append('')
    # --- comprehension sites
    L.append('-- every `[m for m in <enum> if m.value & <word>]` of bsd/mach/perf/dyld, with the zero case around it')
    names = []
    for i, st in enumerate(r['sites']):
        nm = f'site_{i}'
        names.append(nm)
        L.append(f'-- {st["func"]}: word = {st["word_src"]}')
        L.append(emit_chunked_list(f'{nm}_iter', 'EnumMember', [lm(p) for p in st['iter']]))
        z = st['zero']
        zero = '.none' if z is None else f'.{z[0]} {lm(z[1])}'
        L.append(f'def {nm} : CompSite := ⟨{lean_str(st["func"])}, {enum_ref(st["cls"])}, .{st["kind"]}, '
                 f'{nm}_iter, {zero}⟩\n')
    L.append('def sites : List CompSite := [' + ', '.join(names) + ']\n')
    # --- ioctl
    io = r['ioctl']
    L.append('-- BscIoctl.__str__: name table and (dirMask, groupShift, groupMask, numShift, numMask, lenShift, lenMask)')
    params = io['params'] if io else []
    if any(k < 0 for k, _ in params):
        unsupported.append('negative key in the ioctl direction table')
        params = []
    L.append(emit_chunked_list('iocParams', 'Nat × String', ['(%#x, %s)' % (k, lean_str(v)) for k, v in params]))
    lay = io['layout'] if io else (0,) * 7
    if any(x < 0 for x in lay):
        unsupported.append('negative mask or shift in BscIoctl.__str__')
        lay = (0,) * 7
    L.append('def iocLayout : IoctlLayout := ⟨%#x, %d, %#x, %d, %#x, %d, %#x⟩' % lay)
    L.append('')
    L.append('-- shapes the translator could not express (Props/C11 proves this list empty)')
    L.append(emit_chunked_list('unsupported', 'String', [lean_str(u) for u in unsupported]))
    L += ['', 'end KdVerif.Gen.Flags', '']
    return write_if_changed('Flags.lean', '\n'.join(L))
