import KdVerif.Model.IR
/-
  Darwin's own tables for what pykdebugparser takes from the host interpreter.  Hand-written from the
  XNU headers (trusted base): bsd/sys/errno.h, bsd/sys/signal.h, bsd/sys/socket.h.
-/
namespace KdVerif.Spec.DarwinHost
open KdVerif.IR

/-- bsd/sys/errno.h (35 is EAGAIN = EWOULDBLOCK; 45 ENOTSUP; 102 EOPNOTSUPP). -/
def errnoNames : List (Nat × String) :=
  [ (1, "EPERM"), (2, "ENOENT"), (3, "ESRCH"), (4, "EINTR"), (5, "EIO"), (6, "ENXIO"), (7, "E2BIG"), (8, "ENOEXEC"),
    (9, "EBADF"), (10, "ECHILD"), (11, "EDEADLK"), (12, "ENOMEM"), (13, "EACCES"), (14, "EFAULT"), (15, "ENOTBLK"),
    (16, "EBUSY"), (17, "EEXIST"), (18, "EXDEV"), (19, "ENODEV"), (20, "ENOTDIR"), (21, "EISDIR"), (22, "EINVAL"),
    (23, "ENFILE"), (24, "EMFILE"), (25, "ENOTTY"), (26, "ETXTBSY"), (27, "EFBIG"), (28, "ENOSPC"), (29, "ESPIPE"),
    (30, "EROFS"), (31, "EMLINK"), (32, "EPIPE"), (33, "EDOM"), (34, "ERANGE"), (35, "EAGAIN"), (36, "EINPROGRESS"),
    (37, "EALREADY"), (38, "ENOTSOCK"), (39, "EDESTADDRREQ"), (40, "EMSGSIZE"), (41, "EPROTOTYPE"),
    (42, "ENOPROTOOPT"), (43, "EPROTONOSUPPORT"), (44, "ESOCKTNOSUPPORT"), (45, "ENOTSUP"), (46, "EPFNOSUPPORT"),
    (47, "EAFNOSUPPORT"), (48, "EADDRINUSE"), (49, "EADDRNOTAVAIL"), (50, "ENETDOWN"), (51, "ENETUNREACH"),
    (52, "ENETRESET"), (53, "ECONNABORTED"), (54, "ECONNRESET"), (55, "ENOBUFS"), (56, "EISCONN"), (57, "ENOTCONN"),
    (58, "ESHUTDOWN"), (59, "ETOOMANYREFS"), (60, "ETIMEDOUT"), (61, "ECONNREFUSED"), (62, "ELOOP"),
    (63, "ENAMETOOLONG"), (64, "EHOSTDOWN"), (65, "EHOSTUNREACH"), (66, "ENOTEMPTY"), (67, "EPROCLIM"), (68, "EUSERS"),
    (69, "EDQUOT"), (70, "ESTALE"), (71, "EREMOTE"), (72, "EBADRPC"), (73, "ERPCMISMATCH"), (74, "EPROGUNAVAIL"),
    (75, "EPROGMISMATCH"), (76, "EPROCUNAVAIL"), (77, "ENOLCK"), (78, "ENOSYS"), (79, "EFTYPE"), (80, "EAUTH"),
    (81, "ENEEDAUTH"), (82, "EPWROFF"), (83, "EDEVERR"), (84, "EOVERFLOW"), (85, "EBADEXEC"), (86, "EBADARCH"),
    (87, "ESHLIBVERS"), (88, "EBADMACHO"), (89, "ECANCELED"), (90, "EIDRM"), (91, "ENOMSG"), (92, "EILSEQ"),
    (93, "ENOATTR"), (94, "EBADMSG"), (95, "EMULTIHOP"), (96, "ENODATA"), (97, "ENOLINK"), (98, "ENOSR"),
    (99, "ENOSTR"), (100, "EPROTO"), (101, "ETIME"), (102, "EOPNOTSUPP"), (103, "ENOPOLICY"),
    (104, "ENOTRECOVERABLE"), (105, "EOWNERDEAD"), (106, "EQFULL") ]

/-- bsd/sys/signal.h -/
def signalNames : List (Nat × String) :=
  [ (1, "SIGHUP"), (2, "SIGINT"), (3, "SIGQUIT"), (4, "SIGILL"), (5, "SIGTRAP"), (6, "SIGABRT"), (7, "SIGEMT"),
    (8, "SIGFPE"), (9, "SIGKILL"), (10, "SIGBUS"), (11, "SIGSEGV"), (12, "SIGSYS"), (13, "SIGPIPE"), (14, "SIGALRM"),
    (15, "SIGTERM"), (16, "SIGURG"), (17, "SIGSTOP"), (18, "SIGTSTP"), (19, "SIGCONT"), (20, "SIGCHLD"),
    (21, "SIGTTIN"), (22, "SIGTTOU"), (23, "SIGIO"), (24, "SIGXCPU"), (25, "SIGXFSZ"), (26, "SIGVTALRM"),
    (27, "SIGPROF"), (28, "SIGWINCH"), (29, "SIGINFO"), (30, "SIGUSR1"), (31, "SIGUSR2") ]

/-- bsd/sys/socket.h, the families CPython names on Darwin. -/
def addressFamilyNames : List (Nat × String) :=
  [ (0, "AF_UNSPEC"), (1, "AF_UNIX"), (2, "AF_INET"), (11, "AF_SNA"), (12, "AF_DECnet"), (16, "AF_APPLETALK"),
    (17, "AF_ROUTE"), (18, "AF_LINK"), (23, "AF_IPX"), (30, "AF_INET6"), (32, "AF_SYSTEM") ]

/-- bsd/sys/socket.h -/
def socketKindNames : List (Nat × String) :=
  [ (1, "SOCK_STREAM"), (2, "SOCK_DGRAM"), (3, "SOCK_RAW"), (4, "SOCK_RDM"), (5, "SOCK_SEQPACKET") ]

def solSocket : Nat := 0xffff

def host : Host :=
  { errno := (List.lookup · errnoNames), signals := (List.lookup · signalNames),
    addressFamily := (List.lookup · addressFamilyNames), socketKind := (List.lookup · socketKindNames),
    solSocket := solSocket }

end KdVerif.Spec.DarwinHost
