import KdVerif.Model.Trace
/-
  The context-table WRITES of the `TracesParser` (C05 names half, C14 process-column half).

  Every handler of `Model/Trace.lean` changes the shared tables only by dict assignments `d[k] = v`
  (`Dict.set`).  `handleWrites` lists, handler by handler, the assignments one handler call performs (in the
  order of the Python statements); `Proofs/TraceWrites.handle_eq` proves that the tables `handle` returns ARE
  the old tables with exactly these assignments applied, so the list is not a second model but a proved
  description of the first.  `tableWrites` is the sequence of assignments of a whole run, each tagged with
  the thread id of the event whose `feed` caused it.  Core Lean only.
-/
namespace KdVerif.Trace

/-- One dict assignment on one of the six context tables. -/
inductive Write
  | threadsPids (k v : Nat)                 -- parser.threads_pids[k] = v
  | pidsNames (k : Nat) (v : String)        -- parser.pids_names[k] = v
  | tidsNames (k : Nat) (v : String)        -- parser.tids_names[k] = v
  | globalStrings (k : Nat) (v : String)    -- parser.global_strings[k] = v
  | pendingNewthread (k v : Nat)            -- parser.last_data_newthread[k] = <record with .pid = v>
  | pendingExec (k v : Nat)                 -- parser.last_data_exec[k] = <record with .pid = v>
  deriving DecidableEq, Repr, Inhabited

def Write.apply (t : Tabs) : Write → Tabs
  | .threadsPids k v => { t with threadsPids := t.threadsPids.set k v }
  | .pidsNames k v => { t with pidsNames := t.pidsNames.set k v }
  | .tidsNames k v => { t with tidsNames := t.tidsNames.set k v }
  | .globalStrings k v => { t with globalStrings := t.globalStrings.set k v }
  | .pendingNewthread k v => { t with pendingNewthread := t.pendingNewthread.set k v }
  | .pendingExec k v => { t with pendingExec := t.pendingExec.set k v }

def applyWrites (t : Tabs) (ws : List Write) : Tabs := ws.foldl Write.apply t

/-- The assignments performed by `self.handlers[name](self, events)` on tables `t`
    (`t` is read only by the two name-string handlers: the pending record of the string's own thread). -/
def handleWrites (env : Env) (t : Tabs) (name : String) (events : List Kevent) : List Write :=
  let e := firstOf events
  match name with
  | "TRACE_DATA_NEWTHREAD" => [.pendingNewthread e.tid (arg e 1), .threadsPids (arg e 0) (arg e 1)]
  | "TRACE_DATA_EXEC" => [.pendingExec e.tid (arg e 0)]
  | "TRACE_DATA_THREAD_TERMINATE_PID" => [.threadsPids e.tid (arg e 0)]
  | "TRACE_STRING_GLOBAL" =>
    if !hasStart e then [] else
    match env.dec (stripNul (globalLoop (firstOf events).eventid events 0 0 [] []).2.2.1) with
    | .ok s => if s ≠ "" then [.globalStrings (globalLoop (firstOf events).eventid events 0 0 [] []).2.1 s] else []
    | .error _ => []
  | "TRACE_STRING_NEWTHREAD" =>
    match env.dec (stripNul e.data), t.pendingNewthread.get e.tid with
    | .ok n, some pid => [.pidsNames pid n]
    | _, _ => []
  | "TRACE_STRING_EXEC" =>
    match env.dec (stripNul e.data), t.pendingExec.get e.tid with
    | .ok n, some pid => [.pidsNames pid n]
    | _, _ => []
  | "TRACE_STRING_THREADNAME" | "TRACE_STRING_THREADNAME_PREV" =>
    if !hasStart e then [] else
    match env.dec (stripNul (joinData events)) with
    | .ok n => [.tidsNames e.tid n]
    | .error _ => []
  | "PERF_THD_Data" => [.threadsPids (arg e 1) (arg e 0)]
  | "PERF_Event" =>
    if (enumNamesOf env "SamplerAction" (arg e 0)).contains "SAMPLER_TH_INFO" then
      match events.filter (namedIs env "PERF_THD_Data") with
      | s :: _ => [.threadsPids (arg s 1) (arg s 0)]
      | [] => []
    else []
  | _ => []

/-- The assignments caused by one `feed(e)` from state `s`. -/
def feedWrites (env : Env) (s : PState) (e : Kevent) : List Write :=
  match (Pairing.step env.domOf s.pairing e).2 with
  | none => []
  | some [] => []
  | some (x :: xs) =>
    match env.codes x.eventid with
    | none => []
    | some name => if isHandled env name then handleWrites env s.tabs name (x :: xs) else []

/-- **table_writes.**  The context-table assignments of a run (`feed_generator` over `m` from state `s`), in
    order, each tagged with the thread id of the event whose `feed` performed it (up to the first exception). -/
def tableWrites (env : Env) : PState → List Kevent → List (Nat × Write)
  | _, [] => []
  | s, e :: es =>
    match feed env s e with
    | .error _ => []
    | .ok (_, s') => (feedWrites env s e).map (fun w => (e.tid, w)) ++ tableWrites env s' es

/-- `pids_names[k] = v` as a pair. -/
def Write.asName : Write → Option (Nat × String)
  | .pidsNames k v => some (k, v)
  | _ => none

/-- The `pids_names` assignments among tagged writes: `(teaching thread, pid, name)`, in order. -/
def taught (ws : List (Nat × Write)) : List (Nat × Nat × String) :=
  ws.filterMap fun p => p.2.asName.map fun kv => (p.1, kv)

/-- The `(pid, name)` assignments to `pids_names` caused by thread `t`'s events, in order. -/
def namesTaughtBy (t : Nat) (ws : List (Nat × Write)) : List (Nat × String) :=
  ((taught ws).filter fun p => p.1 == t).map (·.2)

/-- Everything a decoder may read EXCEPT the three context tables written by other threads
    (`global_strings`, `threads_pids`, `tids_names`). -/
def ownSel : IR.Sel :=
  { startAll := true, endA := true, tid := true, data := true, lookups := true, host := true, hostErrno := true,
    fields := true }

/-- The generated decoder reads no cross-thread table (constructor arguments and `__str__`). -/
def ownOnly (d : IR.Decoder) : Bool := d.fields.all (IR.within ownSel) && IR.within ownSel d.str

/-- Whether evaluating the expression raises does not depend on the three cross-thread tables: the table getters with
    a default (`dict.get(x, d)`) raise exactly when their arguments do. -/
def errFree : IR.Expr → Bool
  | .globalStrGet x d => IR.within ownSel x && IR.within ownSel d
  | .tidsNamesGet x d => IR.within ownSel x && IR.within ownSel d
  | .threadsPidsGet x => IR.within ownSel x
  | .ite c a b => IR.within ownSel c && errFree a && errFree b
  | e => IR.within ownSel e

/-- The handler call of every decoder of the table raises, or not, independently of the cross-thread tables. -/
def ErrFreeDecoders (env : Env) : Prop := ∀ d ∈ env.decoders, d.fields.all errFree = true

/-- The handlers whose rendering reads a table written by other threads — the property's own exclusion:
    `handle_trace_data_thread_terminate` (reads `threads_pids`, `tids_names`) and the generated decoders that are
    not `ownOnly` (for the current tree exactly the four dyld string readers, `C05.excluded_generated_exact`). -/
def excluded (env : Env) (name : String) : Bool :=
  name == "TRACE_DATA_THREAD_TERMINATE" ||
  (!handNames.contains name && match findDecoder env name with | some d => !ownOnly d | none => false)

/-- A trace with its text (and the decoded dataclass fields behind it) erased when its handler is excluded; name,
    event list and payload are kept. -/
def TraceOut.masked (env : Env) (o : TraceOut) :
    String × List Kevent × Option (Except PyErr String × Option (String × List IR.Val)) × Extra :=
  (o.name, o.events, if excluded env o.name then none else some (o.text, o.obj), o.extra)

/-- The event ids `handle_mach_vmfault` hands to the nested `parse_event_list` call. -/
def vmfaultRange (eid : Nat) : Bool := decide (0x1320008 ≤ eid ∧ eid ≤ 0x1320014)

/-- The handlers that assign to a context table. -/
def writerNames : List String :=
  ["TRACE_DATA_NEWTHREAD", "TRACE_DATA_EXEC", "TRACE_DATA_THREAD_TERMINATE_PID", "TRACE_STRING_GLOBAL",
   "TRACE_STRING_NEWTHREAD", "TRACE_STRING_EXEC", "TRACE_STRING_THREADNAME", "TRACE_STRING_THREADNAME_PREV",
   "PERF_Event", "PERF_THD_Data"]

/-- The code table gives the ids of the page-fault sub-records (`0x1320008 … 0x1320014`, which `handle_mach_vmfault`
    passes to a NESTED `parse_event_list`) no handler that writes a context table and none whose result reads a table
    written by other threads.  True of the bundled table (the ids are the `RealFaultAddress*` decoders or unnamed). -/
def BenignNested (env : Env) : Prop :=
  ∀ eid n, vmfaultRange eid = true → env.codes eid = some n →
    writerNames.contains n = false ∧ excluded env n = false

/-- `trace.ktraces[0].tid`: the thread a trace is attributed to (as `_format_trace` and the process filter do). -/
def TraceOut.tid (o : TraceOut) : Nat := (firstOf o.events).tid

/-- `feed_generator` keeping, with each yielded trace, the tables as they are when it is yielded (what a lazy
    consumer such as `formatted_traces` / the process post-filter sees). -/
def runAnnot (env : Env) : PState → List Kevent → List (TraceOut × Tabs)
  | _, [] => []
  | s, e :: es =>
    match feed env s e with
    | .error _ => []
    | .ok (r, s') => (match r with | some t => [(t, s'.tabs)] | none => []) ++ runAnnot env s' es

end KdVerif.Trace
