import KdVerif.Model.Callstacks
import KdVerif.Spec.Callstacks
import KdVerif.Proofs.Callstacks
import KdVerif.Proofs.PyIRCs
import KdVerif.Gen.PyIRCs
/-
  C15 — callstacks take the sampled frames and attribute each to the right image.

  Model: `Model/Callstacks` (`bisect` as the lo/hi loop on an arbitrary list, `insertImage`,
  `lookupFrame`, `csFrames`, `feed`).  Vocabulary: `Spec/Callstacks` (`Inv`, `pairs`, `announcedAll`,
  `FirstAnnounced`, `Attributed`, `qualifies`).  Every theorem is for ALL announcement sequences /
  windows / streams; no size bound anywhere.
-/
namespace KdVerif.C15
open KdVerif.Callstacks

/-- `bisect` never raises and answers inside `0..len`, on ANY list (sorted or not): the element
    access `a[mid]` is always in range and the loop ends within `len + 1` iterations. -/
theorem bisect_total (a : List Nat) (x : Nat) : ∃ r, bisect a x = .ok r ∧ r ≤ a.length :=
  Callstacks.bisect_total a x

/-- On an ascending list `bisect` (= `bisect_right`) is the number of elements `≤ x`, and it splits
    the list into the elements `≤ x` and the elements `> x`. -/
theorem bisect_is_upper_bound (a : List Nat) (x : Nat) (hs : a.Pairwise (· ≤ ·)) :
    bisect a x = .ok (a.filter (· ≤ x)).length ∧
    (∀ y ∈ a.take (a.filter (· ≤ x)).length, y ≤ x) ∧ (∀ y ∈ a.drop (a.filter (· ≤ x)).length, x < y) := by
  obtain ⟨r, h1, h2, h3, h4⟩ := bisect_sorted a x hs
  have := partition_point_unique a x r h2 h3 h4
  subst this
  exact ⟨h1, h3, h4⟩

/-- One insertion keeps the invariant (and never raises). -/
theorem insert_preserves (st : Images) (a : Nat) (u : Uuid) (h : Inv st) :
    ∃ st', insertImage st a u = .ok st' ∧ Inv st' ∧ (∀ y, y ∈ st'.addrs ↔ y ∈ st.addrs ∨ y = a) := by
  obtain ⟨st', h1, h2, h3, _⟩ := insertImage_spec st a u h
  exact ⟨st', h1, h2, h3⟩

/-- Invariant: after EVERY sequence of insertions from the empty lists the addresses are strictly
    ascending, the two lists have equal length, and the addresses present are exactly the announced ones. -/
theorem insert_sorted (anns : List (Nat × Uuid)) :
    ∃ st, insertAll Images.empty anns = .ok st ∧
      st.addrs.Pairwise (· < ·) ∧ st.addrs.length = st.uuids.length ∧
      ∀ y, y ∈ st.addrs ↔ y ∈ anns.map Prod.fst := by
  obtain ⟨st, h1, h2, h3, _⟩ := insertAll_spec anns Images.empty inv_empty
  refine ⟨st, h1, h2.1, h2.2, ?_⟩
  intro y; rw [h3]; simp [Images.empty]

/-- On a strictly ascending table `bisect − 1` attributes the frame to the image with the greatest load
    address `≤ frame`; the offset is `frame − address` (a natural number: no underflow); no image is
    reported iff every address is above the frame.  Never raises. -/
theorem lookup_greatest_le (st : Images) (h : Inv st) (f : Nat) :
    ∃ fr, lookupFrame st f = .ok fr ∧ fr.address = f ∧
      (fr.image = none ↔ ∀ a ∈ st.addrs, f < a) ∧
      (∀ u off, fr.image = some (u, off) →
        ∃ a, (a, u) ∈ pairs st ∧ a ≤ f ∧ off = ((f - a : Nat) : Int) ∧ ∀ a' ∈ st.addrs, a' ≤ f → a' ≤ a) :=
  lookupFrame_spec st h f

/-- The table after any announcement sequence holds exactly the FIRST identity of every announced address. -/
theorem table_is_first_identities (anns : List (Nat × Uuid)) :
    ∃ st, insertAll Images.empty anns = .ok st ∧ Inv st ∧
      ∀ a u, (a, u) ∈ pairs st ↔ FirstAnnounced anns a u := by
  obtain ⟨st, h1, h2, _, h4⟩ := insertAll_spec anns Images.empty inv_empty
  refine ⟨st, h1, h2, ?_⟩
  intro a u; rw [h4]; simp [Images.empty, pairs, FirstAnnounced]

/-- For pairwise distinct load addresses any permutation of the announcements yields the same two lists. -/
theorem insert_order_independent (anns₁ anns₂ : List (Nat × Uuid)) (hp : anns₁.Perm anns₂)
    (hd : (anns₁.map Prod.fst).Nodup) :
    insertAll Images.empty anns₁ = insertAll Images.empty anns₂ := by
  obtain ⟨s₁, e₁, i₁, c₁⟩ := table_is_first_identities anns₁
  obtain ⟨s₂, e₂, i₂, c₂⟩ := table_is_first_identities anns₂
  have hd₂ : (anns₂.map Prod.fst).Nodup := (hp.map Prod.fst).nodup_iff.1 hd
  rw [e₁, e₂]
  congr 1
  apply images_ext s₁ s₂ i₁ i₂
  rintro ⟨a, u⟩
  rw [c₁, c₂]
  unfold FirstAnnounced
  rw [find_of_nodup_keys _ hd, find_of_nodup_keys _ hd₂]
  exact hp.mem_iff

/-- An address announced again keeps its first identity: if `(a, u)` is announced and `a` was not
    announced before it, the final table maps `a` to `u` and to nothing else — whatever follows. -/
theorem first_identity_kept (before after : List (Nat × Uuid)) (a : Nat) (u : Uuid)
    (hfirst : a ∉ before.map Prod.fst) :
    ∃ st, insertAll Images.empty (before ++ (a, u) :: after) = .ok st ∧
      (a, u) ∈ pairs st ∧ ∀ u', (a, u') ∈ pairs st → u' = u := by
  obtain ⟨st, e, _, c⟩ := table_is_first_identities (before ++ (a, u) :: after)
  have hf : FirstAnnounced (before ++ (a, u) :: after) a u := by
    unfold FirstAnnounced
    rw [List.find?_append]
    have : before.find? (fun p => p.1 = a) = none := by
      rw [List.find?_eq_none]
      intro p hp hpa
      exact hfirst (List.mem_map.2 ⟨p, hp, by simpa using hpa⟩)
    simp [this]
  refine ⟨st, e, (c a u).2 hf, ?_⟩
  intro u' hu'
  have := (c a u').1 hu'
  unfold FirstAnnounced at this hf
  rw [hf] at this
  simp only [Option.some.injEq, Prod.mk.injEq, true_and] at this
  exact this.symm

/-- Over the `SamplerAction` enum reflected from the source, "user stack requested" is bit 3 (value 8)
    of the START record's first word. -/
theorem ustack_is_bit3 (flags : Nat) : ustackSet flags = true ↔ 8 &&& flags ≠ 0 := ustackSet_iff flags

/-- The frames of a sample: present iff bit 3 of the START's first word is set and the window holds a
    stack-header record; then they are the first `N` words (`N` = second word of the FIRST header) of the
    window's stack-data records chained in stream order — word `k` is word `k % 4` of data record `k / 4`. -/
theorem frames_spec (first : Rec) (rest : List Rec) :
    (csFrames first rest = none ↔
      (8 &&& first.a0 = 0 ∨ (first :: rest).filter (·.name = "PERF_STK_UHdr") = [])) ∧
    ∀ frs, csFrames first rest = some frs →
      ∃ h, ((first :: rest).filter (·.name = "PERF_STK_UHdr")).head? = some h ∧ 8 &&& first.a0 ≠ 0 ∧
        frs = (((first :: rest).filter (·.name = "PERF_STK_UData")).flatMap Rec.words).take h.a1 ∧
        frs.length = min h.a1 (4 * ((first :: rest).filter (·.name = "PERF_STK_UData")).length) ∧
        ∀ k, k < frs.length →
          frs[k]? = (((first :: rest).filter (·.name = "PERF_STK_UData"))[k / 4]?).bind
            (fun r => r.words[k % 4]?) := by
  unfold csFrames
  by_cases hb : 8 &&& first.a0 = 0
  · have : ustackSet first.a0 = false := by
      rw [← Bool.not_eq_true, ustackSet_iff]; simpa using hb
    simp [this, hb]
  · have hu : ustackSet first.a0 = true := (ustackSet_iff _).2 hb
    simp only [hu, if_true, hb, false_or]
    cases hh : (first :: rest).filter (·.name = "PERF_STK_UHdr") with
    | nil => simp
    | cons h t =>
      refine ⟨by simp, ?_⟩
      intro frs hfrs
      simp only [Option.some.injEq] at hfrs
      subst hfrs
      refine ⟨h, rfl, by simpa using hb, rfl, ?_, ?_⟩
      · rw [List.length_take, words_flatMap_length]
      · intro k hk
        rw [List.length_take] at hk
        rw [List.getElem?_take, if_pos (by omega), words_flatMap_getElem?]

/-- Exactly one callstack per qualifying sample and none otherwise; it carries the timestamp and thread of
    the window's first record (the START) and one frame per sampled word, in order; the table is untouched. -/
theorem one_callstack_per_sample (st : Images) (h : Inv st) (first : Rec) (rest : List Rec) :
    ∃ o, step st (.sample first rest) = .ok (st, o) ∧
      (csFrames first rest = none → o = none) ∧
      ∀ frs, csFrames first rest = some frs →
        ∃ c, o = some c ∧ c.timestamp = first.ts ∧ c.tid = first.tid ∧ c.frames.map (·.address) = frs := by
  cases hc : csFrames first rest with
  | none =>
    refine ⟨none, ?_, ?_, ?_⟩
    · simp [step, hc]
    · intro _; rfl
    · intro frs h'; cases h'
  | some frs =>
    obtain ⟨frames, e1, e2, _⟩ := lookupAll_spec st h frs
    refine ⟨some ⟨first.ts, first.tid, frames⟩, ?_, ?_, ?_⟩
    · simp [step, hc, e1]
    · intro h'; cases h'
    · intro frs' h'; cases h'
      exact ⟨_, rfl, rfl, rfl, e2⟩

/-- The image list of a launch is a stable sort by load address of the window's map records followed by
    its shared-cache records: a permutation, ascending, and records with equal address keep their order
    (so the first record of every address is the same before and after sorting). -/
theorem launch_list_stable_sorted (imgs : List (Nat × Uuid)) :
    (sortByAddr imgs).Perm imgs ∧ (sortByAddr imgs).Pairwise (fun p q => p.1 ≤ q.1) ∧
    ∀ a, (sortByAddr imgs).filter (fun p => p.1 = a) = imgs.filter (fun p => p.1 = a) :=
  ⟨sortByAddr_perm imgs, sortByAddr_sorted imgs, sortByAddr_filter imgs⟩

/-- What a launch announces first for an address is the first map record with it, else the first
    shared-cache record with it — the sort does not change first identities. -/
theorem launch_first_identity (imgs : List (Nat × Uuid)) (a : Nat) (u : Uuid) :
    FirstAnnounced (announced (.launch imgs)) a u ↔ FirstAnnounced imgs a u := by
  unfold FirstAnnounced announced
  rw [sortByAddr_find?]

theorem attributed_of_lookup (anns : List (Nat × Uuid)) (st : Images)
    (hst : insertAll Images.empty anns = .ok st) (fr : Frame) (hl : lookupFrame st fr.address = .ok fr) :
    Attributed anns fr := by
  obtain ⟨st', e, i, c⟩ := table_is_first_identities anns
  obtain ⟨st'', e', _, _, m⟩ := insert_sorted anns
  rw [hst] at e e'
  cases e; cases e'
  obtain ⟨fr', l1, _, l3, l4⟩ := lookupFrame_spec st i fr.address
  rw [hl] at l1
  cases l1
  refine ⟨?_, ?_⟩
  · rw [l3]
    constructor
    · intro hh p hp; exact hh p.1 ((m p.1).2 (List.mem_map.2 ⟨p, hp, rfl⟩))
    · intro hh a ha
      obtain ⟨p, hp, rfl⟩ := List.mem_map.1 ((m a).1 ha)
      exact hh p hp
  · intro u off hu
    obtain ⟨a, h1, h2, h3, h4⟩ := l4 u off hu
    refine ⟨a, (c a u).1 h1, h2, h3, ?_⟩
    intro p hp hle
    exact h4 p.1 ((m p.1).2 (List.mem_map.2 ⟨p, hp, rfl⟩)) hle

/-- **Top level.**  For an arbitrary stream of image announcements, launches, samples and other traces,
    fed from empty image lists (as every `callstacks()` request is): nothing raises; there is exactly one
    callstack per qualifying sample, in stream order; the callstack of the sample at any position carries the
    START's timestamp and thread, its frame addresses are the sampled words, and EVERY frame is attributed
    with respect to exactly the announcements made EARLIER in the stream (`announcedAll pre`): to the first
    identity of the greatest announced load address not above it, with offset `frame − address`, or to no
    image iff all announced addresses are above it. -/
theorem callstacks_spec (s : List Item) :
    ∃ cs, feed s = .ok cs ∧ cs.length = (s.filter qualifies).length ∧
      ∀ pre first rest post frs, s = pre ++ Item.sample first rest :: post →
        csFrames first rest = some frs →
        ∃ c, cs[(pre.filter qualifies).length]? = some c ∧ c.timestamp = first.ts ∧ c.tid = first.tid ∧
          c.frames.map (·.address) = frs ∧ ∀ fr ∈ c.frames, Attributed (announcedAll pre) fr := by
  obtain ⟨st', cs, e, _, _, hl, hs⟩ := feedFrom_spec s Images.empty inv_empty
  refine ⟨cs, by simp [feed, e], hl, ?_⟩
  intro pre first rest post frs hsplit hc
  obtain ⟨stm, frames, e1, i1, e2, e3⟩ := hs pre first rest post frs hsplit hc
  obtain ⟨frames', e4, e5, e6⟩ := lookupAll_spec stm i1 frs
  rw [e2] at e4
  cases e4
  refine ⟨_, e3, rfl, rfl, e5, ?_⟩
  intro fr hfr
  exact attributed_of_lookup _ stm e1 fr (e6 fr hfr)

/-- Later announcements never change an earlier callstack: the callstacks of a prefix of the stream are a
    prefix of the callstacks of the whole stream. -/
theorem callstacks_prefix (s t : List Item) :
    ∃ cs cs', feed s = .ok cs ∧ feed (s ++ t) = .ok (cs ++ cs') := by
  have key : ∀ (s : List Item) (st : Images), Inv st →
      ∃ st' cs, feedFrom st s = .ok (st', cs) ∧ Inv st' ∧
        ∀ t, feedFrom st (s ++ t) = match feedFrom st' t with
          | .error e => .error e
          | .ok (st'', cs') => .ok (st'', cs ++ cs') := by
    intro s
    induction s with
    | nil =>
      intro st h
      refine ⟨st, [], rfl, h, ?_⟩
      intro t; simp only [List.nil_append]
      cases feedFrom st t with
      | error e => rfl
      | ok p => rfl
    | cons it r ih =>
      intro st h
      obtain ⟨st1, o, e1, i1, _⟩ := step_spec st h it
      obtain ⟨st2, cs2, e2, i2, k⟩ := ih st1 i1
      refine ⟨st2, o.toList ++ cs2, by simp only [feedFrom, e1, e2], i2, ?_⟩
      intro t
      simp only [List.cons_append, feedFrom, e1, k t]
      cases feedFrom st2 t with
      | error e => rfl
      | ok p => simp
  obtain ⟨st', cs, e, i, k⟩ := key s Images.empty inv_empty
  obtain ⟨st'', cs', e', _⟩ := feedFrom_spec t st' i
  refine ⟨cs, cs', by simp [feed, e], ?_⟩
  simp [feed, k t, e']

/-- The attribution demanded by the property is a function of the history and the frame address:
    the specification pins the answer down completely. -/
theorem attributed_unique (anns : List (Nat × Uuid)) (fr fr' : Frame) (ha : fr.address = fr'.address)
    (h : Attributed anns fr) (h' : Attributed anns fr') : fr = fr' := by
  obtain ⟨f, im⟩ := fr
  obtain ⟨f', im'⟩ := fr'
  simp only at ha
  subst ha
  have key : ∀ (im im' : Option (Uuid × Int)), Attributed anns ⟨f, im⟩ → Attributed anns ⟨f, im'⟩ →
      im = none → im' = none := by
    intro im im' h h' hn
    cases him' : im' with
    | none => rfl
    | some p =>
      obtain ⟨u, off⟩ := p
      obtain ⟨a, h1, h2, _, _⟩ := h'.2 u off him'
      have := (h.1.1 hn) (a, u) (List.mem_of_find?_eq_some h1)
      simp only at this h2
      omega
  cases him : im with
  | none => rw [key im im' h h' him]
  | some p =>
    cases him' : im' with
    | none => rw [key im' im h' h him'] at him; cases him
    | some p' =>
      obtain ⟨u, off⟩ := p
      obtain ⟨u', off'⟩ := p'
      obtain ⟨a, h1, h2, h3, h4⟩ := h.2 u off him
      obtain ⟨a', h1', h2', h3', h4'⟩ := h'.2 u' off' him'
      have e1 := h4 (a', u') (List.mem_of_find?_eq_some h1') h2'
      have e2 := h4' (a, u) (List.mem_of_find?_eq_some h1) h2
      simp only at e1 e2 h2 h2'
      have : a = a' := by omega
      subst this
      unfold FirstAnnounced at h1 h1'
      rw [h1] at h1'
      simp only [Option.some.injEq, Prod.mk.injEq, true_and] at h1'
      subst h1'
      rw [h3, h3']

/-- Stream-level order independence: reordering announcements of pairwise distinct load addresses
    does not change what any frame must be attributed to. -/
theorem attributed_perm (anns₁ anns₂ : List (Nat × Uuid)) (hp : anns₁.Perm anns₂)
    (hd : (anns₁.map Prod.fst).Nodup) (fr : Frame) : Attributed anns₁ fr ↔ Attributed anns₂ fr := by
  have hd₂ : (anns₂.map Prod.fst).Nodup := (hp.map Prod.fst).nodup_iff.1 hd
  have hf : ∀ a u, FirstAnnounced anns₁ a u ↔ FirstAnnounced anns₂ a u := by
    intro a u
    unfold FirstAnnounced
    rw [find_of_nodup_keys _ hd, find_of_nodup_keys _ hd₂]
    exact hp.mem_iff
  have hm : ∀ p, p ∈ anns₁ ↔ p ∈ anns₂ := fun p => hp.mem_iff
  unfold Attributed
  simp only [hf, hm]

/-! ### Non-vacuity: concrete streams -/

private instance exceptDecEq {ε α : Type} [DecidableEq ε] [DecidableEq α] : DecidableEq (Except ε α)
  | .ok a, .ok b => if h : a = b then isTrue (by rw [h]) else isFalse (by intro e; cases e; exact h rfl)
  | .error a, .error b => if h : a = b then isTrue (by rw [h]) else isFalse (by intro e; cases e; exact h rfl)
  | .ok _, .error _ => isFalse (by intro e; cases e)
  | .error _, .ok _ => isFalse (by intro e; cases e)

private def hdr (n : Nat) : Rec := ⟨"PERF_STK_UHdr", 11, 9, 1, n, 0, 0, []⟩
private def dat (a b c d : Nat) : Rec := ⟨"PERF_STK_UData", 12, 9, a, b, c, d, []⟩
private def start (flags : Nat) : Rec := ⟨"PERF_Event", 10, 9, flags, 0, 0, 0, []⟩

/-- Two images announced out of order, one announced again with another identity, a launch whose list
    holds equal addresses; a five-frame sample probing below / at / above the load addresses; an
    announcement after the sample does not affect it; header-less and flag-less samples give nothing. -/
example :
    feed [.image 100 [1], .image 50 [2], .image 100 [3], .launch [(70, [5]), (60, [4]), (70, [6])],
          .sample (start 8) [hdr 5, dat 49 50 99 100, dat 75 7 7 7],
          .image 40 [9], .sample (start 8) [dat 1 2 3 4], .sample (start 7) [hdr 1, dat 1 2 3 4]]
      = .ok [⟨10, 9, [⟨49, none⟩, ⟨50, some ([2], 0)⟩, ⟨99, some ([5], 29)⟩, ⟨100, some ([1], 0)⟩,
                       ⟨75, some ([5], 5)⟩]⟩] := by
  decide +kernel

example : insertAll Images.empty [(100, [1]), (50, [2]), (100, [3]), (51, [4])]
    = .ok ⟨[50, 51, 100], [[2], [4], [1]]⟩ := by decide +kernel

example : bisect [5, 1, 9, 2] 4 = .ok 2 ∧ bisect [1, 3, 3, 7] 3 = .ok 3 ∧ bisect [] 0 = .ok 0 := by
  decide +kernel

/-- The hypotheses of `insert_order_independent` / `first_identity_kept` are met by real inputs. -/
example : insertAll Images.empty [(3, [1]), (1, [2]), (2, [3])] = insertAll Images.empty [(1, [2]), (2, [3]), (3, [1])] :=
  insert_order_independent _ _ (by decide) (by decide)

example : ∃ st, insertAll Images.empty ([(3, [1])] ++ (5, [7]) :: [(5, [8]), (4, [2])]) = .ok st ∧
    (5, [7]) ∈ pairs st ∧ ∀ u', (5, u') ∈ pairs st → u' = [7] :=
  first_identity_kept _ _ _ _ (by decide)

/-- The frames of the concrete sample above, by `frames_spec`'s reading. -/
example : csFrames (start 8) [hdr 5, dat 49 50 99 100, dat 75 7 7 7] = some [49, 50, 99, 100, 75] := by
  decide +kernel

/-! ### translation tie: the source text of `CallstacksParser` and of `PyKdebugParser.callstacks`, interpreted, is the model

  `tools/gen_pyir.py` translates `CallstacksParser.__init__`, `insert_image` and the WHOLE `feed_generator` (the loop over
  the traces, the three-way `isinstance` dispatch, the frame loop, the `yield`, the calls of `self.insert_image`) of
  `callstacks_parser.py`, and `PyKdebugParser.callstacks` of `pykdebugparser.py`, into the Python-subset IR of
  `Model/PyIRCs` (`Gen/PyIRCs.lean`, on every run, pure `ast`); `PyIRCs.run` / `runFeed` / `runRequest` interpret them on
  the two lists.  `bisect` is a primitive of that interpreter whose meaning is `Callstacks.bisect`; `self.insert_image(…)` is
  answered by interpreting the translated `insert_image`. -/

/-- The terms generated from the source text are, node for node, the ones the theorems below were proved for
    (`Spec/PyIRCsExpected`, quoting the Python): `insert_image`, the frame loop, `__init__`, the whole `feed_generator`,
    `PyKdebugParser.callstacks`; and the translator met nothing it could not express. -/
theorem source_is_expected_ir :
    Gen.PyIRCs.insertImage = PyIRCs.Expected.insertImage ∧ Gen.PyIRCs.frameLoop = PyIRCs.Expected.frameLoop ∧
    Gen.PyIRCs.notes = [] ∧
    Gen.PyIRCs.init = PyIRCs.Expected.init ∧ Gen.PyIRCs.feedGenerator = PyIRCs.Expected.feedGenerator ∧
    Gen.PyIRCs.callstacks = PyIRCs.Expected.callstacks := by decide

/-- the generated program is the expected one -/
theorem prog_is_expected : Gen.PyIRCs.prog = PyIRCs.Expected.prog := by
  obtain ⟨h1, _, _, h4, h5, h6⟩ := source_is_expected_ir
  simp only [Gen.PyIRCs.prog, PyIRCs.Expected.prog, h1, h4, h5, h6]

/-- `insert_image(a, u)` of the source, interpreted on ANY pair of lists, is `Callstacks.insertImage`: returns
    `None`, leaves exactly the model's lists, raises exactly when the model's `bisect` does. -/
theorem insert_image_ir_eq_model (st : Images) (a : Nat) (u : Uuid) :
    PyIRCs.run Gen.PyIRCs.insertImage [.int a, .uuid u] st =
      match insertImage st a u with
      | .ok st' => .ok (.none, st')
      | .error e => .error e := by
  rw [source_is_expected_ir.1]; exact PyIRCs.run_insertImage st a u

/-- The frame loop of the source, interpreted on ANY pair of lists and any sample (`ktraces`, `cs_frames`), builds
    exactly `Callstacks.lookupAll` (same frames in the same order, same `IndexError` where the model has one) and does
    not touch the lists. -/
theorem frame_loop_ir_eq_model (st : Images) (kts : List PyIRCs.KT) (cs : List Nat) :
    PyIRCs.run Gen.PyIRCs.frameLoop [.trace (.sample kts (some cs))] st =
      match lookupAll st cs with
      | .ok frs => .ok (.frames (frs.map PyIRCs.ofFrame), st)
      | .error e => .error e := by
  rw [source_is_expected_ir.2.1]; exact PyIRCs.run_frameLoop st kts cs

/-- **feed_generator_ir_eq_model.**  The WHOLE `feed_generator` of the source — `for trace in generator`, the dispatch
    `isinstance(trace, PerfEvent) and trace.cs_frames is not None` / `isinstance(trace, DyldUuidMapA)` /
    `isinstance(trace, DyldLaunchExecutable)`, the frame loop, `yield Callstack(trace.ktraces[0].timestamp,
    trace.ktraces[0].tid, frames)`, `self.insert_image(…)` answered by the translated `insert_image` — interpreted on
    EVERY list of trace items and EVERY pair of initial lists (parallel or not, sorted or not) is the hand model
    `Callstacks.feedFrom`: where the model delivers, the generator yields the same callstacks in the same order and leaves
    the same two lists; where the model raises (an `IndexError` of `dyld_uuids[index_]` on lists of unequal length), the
    generator raises the same exception, at the same item, after yielding exactly the callstacks of the items before it.
    (`traceOf`: the trace object of an item — a sample's `ktraces` are the records of its window and its `cs_frames`
    what `handle_event` computed, a launch's `uuid_map_a` is the sorted list.) -/
theorem feed_generator_ir_eq_model (st : Images) (s : List Item) :
    match feedFrom st s with
    | .ok (st', cs) =>
      PyIRCs.runFeed Gen.PyIRCs.prog (s.map PyIRCs.traceOf) none st =
        (cs.map (fun c => PyIRCs.Val.callstack (PyIRCs.ofCallstack c)), .ok st')
    | .error e =>
      ∃ pre it post st₁ cs, s = pre ++ it :: post ∧ feedFrom st pre = .ok (st₁, cs) ∧ step st₁ it = .error e ∧
        PyIRCs.runFeed Gen.PyIRCs.prog (s.map PyIRCs.traceOf) none st =
          (cs.map (fun c => PyIRCs.Val.callstack (PyIRCs.ofCallstack c)), .error e) := by
  rw [prog_is_expected, PyIRCs.runFeed_expected]
  have h := PyIRCs.feedTrace_traceOf s st
  cases hf : feedFrom st s with
  | ok p => rw [hf] at h; simp only [h, PyIRCs.thenRaise]
  | error e =>
    rw [hf] at h
    obtain ⟨pre, it, post, st₁, cs, h1, h2, h3, h4⟩ := h
    exact ⟨pre, it, post, st₁, cs, h1, h2, h3, by simp only [h4, PyIRCs.thenRaise]⟩

/-- The same on trace OBJECTS (not only those that come from windows): the interpreted `feed_generator` is
    `PyIRCs.feedTrace` — per trace `lookupAll` stamped by `ktraces[0]` / `insertImage` / `insertAll` / nothing —, and an
    exception of the trace generator itself surfaces after everything it delivered was consumed. -/
theorem feed_generator_ir_eq_trace_model (st : Images) (ts : List PyIRCs.Trace) (err : Option PyErr) :
    PyIRCs.runFeed Gen.PyIRCs.prog ts err st = PyIRCs.thenRaise err (PyIRCs.feedTrace st ts) := by
  rw [prog_is_expected]; exact PyIRCs.runFeed_expected ts err st

/-- **callstacks_request_ir_eq_model.**  `PyKdebugParser.callstacks(kdebug, trace_codes)` of the source
    (`self.dyld_addresses.clear(); self.dyld_uuids.clear(); callstacks_parser = CallstacksParser(self.dyld_addresses,
    self.dyld_uuids); return callstacks_parser.feed_generator(self.traces(kdebug, trace_codes))`, with
    `CallstacksParser.__init__` storing its two arguments), interpreted on an object whose two lists hold ANYTHING
    (the images of earlier requests), for every list of traces `self.traces(kdebug, trace_codes)` delivers (and every
    exception it ends with): the request is the translated `feed_generator` over the traces of THIS request run from
    EMPTY image lists, on exactly the object's two list objects (they hold the request's images afterwards). -/
theorem callstacks_request_ir_eq_model (st₀ : Images) (ts : List PyIRCs.Trace) (err : Option PyErr) :
    PyIRCs.runRequest Gen.PyIRCs.prog ts err st₀ = PyIRCs.runFeed Gen.PyIRCs.prog ts err Images.empty := by
  rw [prog_is_expected]; exact PyIRCs.runRequest_expected ts err st₀

/-- … hence the model's "every request is `feed` of its own dump" (`Callstacks.feed`, the subject of `callstacks_spec`)
    is what the interpreted source does: for the trace objects of ANY item list and ANY earlier contents of the two
    lists, the translated `callstacks()` never raises and yields exactly the callstacks of `feed`, in order. -/
theorem callstacks_request_is_feed (st₀ : Images) (s : List Item) :
    ∃ cs st', feed s = .ok cs ∧
      PyIRCs.runRequest Gen.PyIRCs.prog (s.map PyIRCs.traceOf) none st₀ =
        (cs.map (fun c => PyIRCs.Val.callstack (PyIRCs.ofCallstack c)), .ok st') := by
  obtain ⟨st', cs, e, _⟩ := feedFrom_spec s Images.empty inv_empty
  have h := feed_generator_ir_eq_model Images.empty s
  rw [e] at h
  exact ⟨cs, st', by simp [feed, e], by rw [callstacks_request_ir_eq_model]; exact h⟩

/-- announcing through the generated `insert_image` -/
def insIR (r : Except PyErr Images) (a : Nat) (u : Uuid) : Except PyErr Images :=
  match r with
  | .ok st => (PyIRCs.run Gen.PyIRCs.insertImage [.int a, .uuid u] st).map (·.2)
  | .error e => .error e

/-- non-vacuity: 0x30, 0x10, 0x20, 0x10 (again) announced through the generated `insert_image` … -/
example : insIR (insIR (insIR (insIR (.ok Images.empty) 0x30 [3]) 0x10 [1]) 0x20 [2]) 0x10 [9] =
    .ok ⟨[0x10, 0x20, 0x30], [[1], [2], [3]]⟩ := by decide

/-- … then the frames 0x5, 0x10, 0x2f, 0x31 through the generated loop. -/
example : (PyIRCs.run Gen.PyIRCs.frameLoop [.trace (.sample [] (some [0x5, 0x10, 0x2f, 0x31]))]
      ⟨[0x10, 0x20, 0x30], [[1], [2], [3]]⟩).map (·.1) =
    .ok (.frames [⟨0x5, none, none⟩, ⟨0x10, some [1], some 0⟩, ⟨0x2f, some [2], some 0xf⟩, ⟨0x31, some [3], some 1⟩]) := by
  decide

private instance prodExceptDecEq {α ε β : Type} [DecidableEq α] [DecidableEq ε] [DecidableEq β] :
    DecidableEq (α × Except ε β) := inferInstance

/-- The concrete trace list of the examples below: a sample BEFORE any image is known; image announcements in
    DESCENDING order (0x30, 0x20, 0x10); a duplicate address (0x20 again, another identity: ignored); a sample without
    frames (`cs_frames is None`); an unrelated trace; a launch trace with two images (0x18, 0x40 — sorted); a sample AFTER. -/
def exTraces : List PyIRCs.Trace :=
  [.sample [⟨100, 7⟩, ⟨101, 8⟩] (some [0x25]),
   .image 0x30 [3], .image 0x20 [2], .image 0x10 [1], .image 0x20 [9],
   .sample [⟨110, 7⟩] none, .other,
   .launch [(0x18, [4]), (0x40, [5])],
   .sample [⟨120, 9⟩, ⟨121, 9⟩] (some [0x5, 0x10, 0x1f, 0x2f, 0x31, 0x41])]

/-- non-vacuity: the GENERATED `feed_generator` run on it from empty lists: two callstacks, stamped by `ktraces[0]`, the
    first with an unattributed frame, the second attributed against the five first identities; final lists sorted. -/
example : PyIRCs.runFeed Gen.PyIRCs.prog exTraces none Images.empty =
    ([.callstack ⟨100, 7, [⟨0x25, none, none⟩]⟩,
      .callstack ⟨120, 9, [⟨0x5, none, none⟩, ⟨0x10, some [1], some 0⟩, ⟨0x1f, some [4], some 7⟩,
                           ⟨0x2f, some [2], some 0xf⟩, ⟨0x31, some [3], some 1⟩, ⟨0x41, some [5], some 1⟩]⟩],
     .ok ⟨[0x10, 0x18, 0x20, 0x30, 0x40], [[1], [4], [2], [3], [5]]⟩) := by decide

/-- … the GENERATED `callstacks()` on an object that still holds the images of an earlier request (0x1 and 0x26, which
    would attribute frame 0x25 of the first sample and frame 0x5 of the last): same answer as from empty lists. -/
example : PyIRCs.runRequest Gen.PyIRCs.prog exTraces none ⟨[0x1, 0x26], [[0xaa], [0xbb]]⟩ =
    PyIRCs.runFeed Gen.PyIRCs.prog exTraces none Images.empty := by decide

/-- … without the clearing the stale images WOULD show (the interpreter can tell the difference): -/
example : (PyIRCs.runFeed Gen.PyIRCs.prog exTraces none ⟨[0x1, 0x26], [[0xaa], [0xbb]]⟩).1 ≠
    (PyIRCs.runFeed Gen.PyIRCs.prog exTraces none Images.empty).1 := by decide

/-- … lists of unequal length: the `IndexError` of `self.dyld_uuids[index_]` comes after the first callstack (frame 0x25 is
    below every address) and the insertions were made; the generator's own exception surfaces only at its end. -/
example : PyIRCs.runFeed Gen.PyIRCs.prog exTraces none ⟨[0x28], []⟩ =
    ([.callstack ⟨100, 7, [⟨0x25, none, none⟩]⟩], .error .indexError) := by decide
example : (PyIRCs.runFeed Gen.PyIRCs.prog (exTraces.take 5) (some .eof) Images.empty).2 = .error .eof := by decide

/-- … and the trace objects of the model's items (`feed_generator_ir_eq_model` on the stream of the first example of this
    file). -/
example : (PyIRCs.runFeed Gen.PyIRCs.prog
      ([Item.image 100 [1], .image 50 [2], .image 100 [3], .launch [(70, [5]), (60, [4]), (70, [6])],
        .sample (start 8) [hdr 5, dat 49 50 99 100, dat 75 7 7 7]].map PyIRCs.traceOf) none Images.empty) =
    ([.callstack ⟨10, 9, [⟨49, none, none⟩, ⟨50, some [2], some 0⟩, ⟨99, some [5], some 29⟩, ⟨100, some [1], some 0⟩,
                          ⟨75, some [5], some 5⟩]⟩],
     .ok ⟨[50, 60, 70, 100], [[2], [4], [5], [1]]⟩) := by decide +kernel

end C15
end KdVerif
