import KdVerif.Model.PyIRCli
import KdVerif.Spec.PyIRCliExpected
/-
  Lemmas for the translation tie of the command-line glue: the EXPECTED terms (`Spec/PyIRCliExpected`), run by the
  interpreter of `Model/PyIRCli`, are the hand models.  `Props/C06` / `C12` / `C13` / `C14` transport them to the terms
  generated from the source (`cli_source_is_expected_ir`).
-/
namespace KdVerif.PyIRCli
open KdVerif

/-! ### `print_with_count` -/

/-- When the exception of the generator surfaces: the loop asks for one more item unless it has just pulled the item
    whose number equals `count`. -/
def pwcExc {α : Type} (count : Int) : Int → List α → Option PyErr → Option PyErr
  | _, [], err => err
  | i, _ :: rest, err => if i = count then none else pwcExc count (i + 1) rest err

def sigOf : Option PyErr → Signal
  | none => .normal
  | some e => .err e

/-- the body of the loop of `Expected.printWithCount` -/
def loopBody : PStmt :=
  .seq (.ite (.eq (.var 2) (.var 1)) .brk .skip) (.seq (.print (.var 3)) (.addAssign 2 (.int 1)))

theorem loop_spec {α : Type} (count : Int) (items : List α) (err : Option PyErr) :
    ∀ (i : Int) (s : PState α), s.env 1 = some (.int count) → s.env 2 = some (.int i) →
      (forLoop (fun s => pexec loopBody s) 3 items err s).1.1 = sigOf (pwcExc count i items err) ∧
      (forLoop (fun s => pexec loopBody s) 3 items err s).1.2.out = s.out ++ printWithCountAux count i items := by
  induction items with
  | nil =>
    intro i s _ _
    cases err <;> simp [forLoop, pwcExc, sigOf, printWithCountAux]
  | cons x xs ih =>
    intro i s h1 h2
    by_cases hic : i = count
    · subst hic
      simp [forLoop, loopBody, pexec, peval, PEnv.set, h1, h2, ptruthy, bind, Except.bind, pwcExc, sigOf,
        printWithCountAux]
    · have hb : (i == count) = false := by simpa using hic
      have := ih (i + 1)
        { env := ({ s with env := s.env.set 3 (.obj x) } : PState α).env.set 2 (.int (i + 1)), out := s.out ++ [x] }
        (by simp [PEnv.set, h1]) (by simp [PEnv.set])
      simp [forLoop, loopBody, pexec, peval, PEnv.set, h1, h2, ptruthy, bind, Except.bind, pwcExc, sigOf,
        printWithCountAux, hb, hic] at this ⊢
      exact this

theorem pwcExc_eq {α : Type} (count : Int) (items : List α) (err : Option PyErr) :
    ∀ i : Int, pwcExc count i items err = if i ≤ count ∧ count < i + items.length then none else err := by
  induction items with
  | nil => intro i; simp [pwcExc]; omega
  | cons x xs ih =>
    intro i
    simp only [pwcExc, ih, List.length_cons]
    by_cases h : i = count
    · subst h; simp; omega
    · simp only [h, if_false]
      congr 1
      apply propext
      push_cast
      omega

theorem pexec_forIn_var {α : Type} (v g : Nat) (body : PStmt) (s : PState α) (items : List α) (err : Option PyErr)
    (h : s.env g = some (.gen items err)) :
    pexec (.forIn v (.var g) body) s =
      ((forLoop (fun s => pexec body s) v items err s).1.1,
       { (forLoop (fun s => pexec body s) v items err s).1.2 with
         env := (forLoop (fun s => pexec body s) v items err s).1.2.env.set g (forLoop (fun s => pexec body s) v items err s).2 }) := by
  simp [pexec, peval, h]

theorem pexec_seq_normal {α : Type} (a b : PStmt) (s s' : PState α) (h : pexec a s = (.normal, s')) :
    pexec (.seq a b) s = pexec b s' := by
  rw [pexec, h]

theorem expected_body : Expected.printWithCount.body = .seq (.assign 2 (.int 0)) (.forIn 3 (.var 0) loopBody) := rfl

/-- **`print_with_count`, interpreted**: prints `printWithCount items count`; the generator's exception surfaces unless
    the loop broke, i.e. unless item number `count` (0-based) was pulled. -/
theorem runPwc_expected {α : Type} (items : List α) (err : Option PyErr) (count : Int) :
    runPwc Expected.printWithCount (items, err) count =
      (printWithCount items count, if 0 ≤ count ∧ count < items.length then none else err) := by
  have h := loop_spec count items err 0
    { env := ((PEnv.empty.set 0 (.gen items err)).set 1 (.int count)).set 2 (.int 0), out := [] }
    (by simp [PEnv.set]) (by simp [PEnv.set])
  have he := pwcExc_eq count items err 0
  simp only [Int.zero_add] at he
  rw [he] at h
  obtain ⟨h1, h2⟩ := h
  have hs : pexec (α := α) (.assign 2 (.int 0)) { env := (PEnv.empty.set 0 (.gen items err)).set 1 (.int count), out := [] } =
      (.normal, { env := ((PEnv.empty.set 0 (.gen items err)).set 1 (.int count)).set 2 (.int 0), out := [] }) := rfl
  have hf := pexec_forIn_var 3 0 loopBody
    { env := ((PEnv.empty.set 0 (.gen items err)).set 1 (.int count)).set 2 (.int 0), out := [] } items err
    (by simp [PEnv.set])
  have hp : (Expected.printWithCount.params ≠ 2) = False := by simp [Expected.printWithCount]
  unfold runPwc
  rw [expected_body]
  simp only [hp, if_false]
  rw [pexec_seq_normal _ _ _ _ hs]
  simp only [hf, h1]
  by_cases hc : 0 ≤ count ∧ count < (items.length : Int)
  · simp only [hc, and_self, if_true, sigOf, h2, printWithCount, List.nil_append]
  · cases err <;> simp only [hc, if_false, sigOf, h2, printWithCount, List.nil_append]

theorem runPwc_expected' {α : Type} (gen : List α × Option PyErr) (count : Int) :
    runPwc Expected.printWithCount gen count = pwcOutcome gen count :=
  runPwc_expected gen.1 gen.2 count

/-! ### `__init__`, the options -/

theorem initObj_expected : initObj Expected.init [] = .ok freshObj := rfl

theorem getD_optInt (x : Option Int) : (Option.map Val.int x).getD .none = optInt x := by cases x <;> rfl
theorem getD_optStr (x : Option String) : (Option.map Val.str x).getD .none = optStr x := by cases x <;> rfl
theorem getD_multi (xs : List Int) : (multi xs).getD (.tuple []) = .tuple xs := by
  unfold multi; split <;> simp_all

/-! ### the seven commands -/

theorem declared_kevents (g : Given) (hp : g.process = none) (hc : g.color = none) :
    argsDeclared Expected.kevents g.args = true := by
  simp [argsDeclared, Given.args, hp, hc]
  refine ⟨.inr ?_, .inr ?_, .inr ?_, .inr ?_, .inr ?_⟩ <;> decide

theorem bindEnv_kevents (g : Given) :
    bindEnv Expected.kevents.decls g.args =
      [("class_filters", .tuple g.classFilters), ("count", .int (g.count.getD (-1))), ("kdebug_dump", .file),
       ("show_tid", .bool (g.showTid.getD false)), ("subclass_filters", .tuple g.subclassFilters), ("tid", optInt g.tid)] := by
  simp [bindEnv, Expected.kevents, Given.args, Expected.classFilter, Expected.count, Expected.dumpInput, Expected.showTid,
    Expected.subclassFilter, Expected.tidFilter, List.lookup, defaultOf, getD_optInt, getD_multi]

/-- **`kevents`, interpreted**: a fresh parser object, the four options assigned to the four attributes (the two lists as
    the tuples click delivers), `formatted_kevents(dump)` through `print_with_count(…, count)`. -/
theorem run_kevents_expected {δ τ : Type} (W : World δ τ) (g : Given) (hp : g.process = none) (hc : g.color = none) (dump : δ) :
    run Expected.prog W Expected.kevents g.args dump =
      pwcResult (W.formatted "formatted_kevents" (keventsObj (Opts.ofGiven g)) dump) (Opts.ofGiven g).count := by
  have hd := declared_kevents g hp hc
  have hb := bindEnv_kevents g
  have hu : Expected.kevents.decls.any (fun d => d.kind.isUnsupported) = false := by decide
  have hf : (Expected.kevents.fnParams ≠ Expected.kevents.decls.map (·.param)) = False := by
    simp only [ne_eq, eq_iff_iff, iff_false, Classical.not_not]; decide
  unfold run runSt
  simp only [hd, hu, hf, hb, Bool.not_true, Bool.false_eq_true, if_false]
  simp [Expected.kevents, execAll, exec1, Expected.prog, initObj_expected, evalExpr, List.lookup, Obj.set, freshObj,
    runPwc_expected', pwcResult, keventsObj, objWith, Opts.ofGiven]

theorem declared_traces (g : Given) : argsDeclared Expected.traces g.args = true := by
  simp [argsDeclared, Given.args]
  refine ⟨.inr ?_, .inr ?_, .inr ?_, .inr ?_, .inr ?_, .inr ?_, .inr ?_⟩ <;> decide

theorem bindEnv_traces (g : Given) :
    bindEnv Expected.traces.decls g.args =
      [("class_filters", .tuple g.classFilters), ("color", .bool (g.color.getD true)), ("count", .int (g.count.getD (-1))),
       ("kdebug_dump", .file), ("process", optStr g.process), ("show_tid", .bool (g.showTid.getD false)),
       ("subclass_filters", .tuple g.subclassFilters), ("tid", optInt g.tid)] := by
  simp [bindEnv, Expected.traces, Given.args, Expected.classFilter, Expected.count, Expected.dumpInput, Expected.showTid,
    Expected.subclassFilter, Expected.tidFilter, Expected.color, Expected.processFilter, List.lookup, defaultOf, getD_optInt,
    getD_optStr, getD_multi]

/-- **`traces`, interpreted**: all seven options, the two lists wrapped in `list(…)`. -/
theorem run_traces_expected {δ τ : Type} (W : World δ τ) (g : Given) (dump : δ) :
    run Expected.prog W Expected.traces g.args dump =
      pwcResult (W.formatted "formatted_traces" (tracesObj (Opts.ofGiven g)) dump) (Opts.ofGiven g).count := by
  have hd := declared_traces g
  have hb := bindEnv_traces g
  have hu : Expected.traces.decls.any (fun d => d.kind.isUnsupported) = false := by decide
  have hf : (Expected.traces.fnParams ≠ Expected.traces.decls.map (·.param)) = False := by
    simp only [ne_eq, eq_iff_iff, iff_false, Classical.not_not]; decide
  unfold run runSt
  simp only [hd, hu, hf, hb, Bool.not_true, Bool.false_eq_true, if_false]
  simp [Expected.traces, execAll, exec1, Expected.prog, initObj_expected, evalExpr, List.lookup, Obj.set, freshObj,
    runPwc_expected', pwcResult, tracesObj, objWith, Opts.ofGiven]

theorem declared_plain (c : Command) (hdecls : c.decls = Expected.callstacks.decls) (g : Given)
    (hcf : g.classFilters = []) (hsf : g.subclassFilters = []) (hc : g.color = none) :
    argsDeclared c g.args = true := by
  simp [argsDeclared, Given.args, hcf, hsf, hc, multi, hdecls]
  refine ⟨.inr ?_, .inr ?_, .inr ?_, .inr ?_⟩ <;> decide

theorem bindEnv_plain (g : Given) :
    bindEnv Expected.callstacks.decls g.args =
      [("count", .int (g.count.getD (-1))), ("kdebug_dump", .file), ("process", optStr g.process),
       ("show_tid", .bool (g.showTid.getD false)), ("tid", optInt g.tid)] := by
  simp [bindEnv, Expected.callstacks, Given.args, Expected.count, Expected.dumpInput, Expected.showTid,
    Expected.tidFilter, Expected.processFilter, List.lookup, defaultOf, getD_optInt, getD_optStr]

/-- **`callstacks`, interpreted**: `--tid`, `--process`, `--show-tid`; no class / subclass / colour option. -/
theorem run_callstacks_expected {δ τ : Type} (W : World δ τ) (g : Given) (hcf : g.classFilters = [])
    (hsf : g.subclassFilters = []) (hc : g.color = none) (dump : δ) :
    run Expected.prog W Expected.callstacks g.args dump =
      pwcResult (W.formatted "formatted_callstacks" (plainObj (Opts.ofGiven g)) dump) (Opts.ofGiven g).count := by
  have hd := declared_plain Expected.callstacks rfl g hcf hsf hc
  have hb := bindEnv_plain g
  have hu : Expected.callstacks.decls.any (fun d => d.kind.isUnsupported) = false := by decide
  have hf : (Expected.callstacks.fnParams ≠ Expected.callstacks.decls.map (·.param)) = False := by
    simp only [ne_eq, eq_iff_iff, iff_false, Classical.not_not]; decide
  unfold run runSt
  simp only [hd, hu, hf, hb, Bool.not_true, Bool.false_eq_true, if_false]
  simp [Expected.callstacks, execAll, exec1, Expected.prog, initObj_expected, evalExpr, List.lookup, Obj.set, freshObj,
    runPwc_expected', pwcResult, plainObj, objWith, Opts.ofGiven]

/-- **`logs`, interpreted**: the same three options, `formatted_logs`. -/
theorem run_logs_expected {δ τ : Type} (W : World δ τ) (g : Given) (hcf : g.classFilters = [])
    (hsf : g.subclassFilters = []) (hc : g.color = none) (dump : δ) :
    run Expected.prog W Expected.logs g.args dump =
      pwcResult (W.formatted "formatted_logs" (plainObj (Opts.ofGiven g)) dump) (Opts.ofGiven g).count := by
  have hd := declared_plain Expected.logs rfl g hcf hsf hc
  have hb : bindEnv Expected.logs.decls g.args = _ := bindEnv_plain g
  have hu : Expected.logs.decls.any (fun d => d.kind.isUnsupported) = false := by decide
  have hf : (Expected.logs.fnParams ≠ Expected.logs.decls.map (·.param)) = False := by
    simp only [ne_eq, eq_iff_iff, iff_false, Classical.not_not]; decide
  unfold run runSt
  simp only [hd, hu, hf, hb, Bool.not_true, Bool.false_eq_true, if_false]
  simp [Expected.logs, execAll, exec1, Expected.prog, initObj_expected, evalExpr, List.lookup, Obj.set, freshObj,
    runPwc_expected', pwcResult, plainObj, objWith, Opts.ofGiven]

/-- what a table command prints -/
def tableResult {δ τ : Type} (W : World δ τ) (attr : String) (indent : Int) (dump : δ) : Result :=
  match W.parseAll dump with
  | .error e => .ran [] (some e)
  | .ok t =>
    match W.jsonDumps t attr indent with
    | .ok txt => .ran [txt] none
    | .error e => .ran [] (some e)

/-- **`processes` / `kexts` / `images`, interpreted**: a fresh `KdBufParser({}, {})`, the dump parsed to the end, one
    `json.dumps(parser.<attr>, indent=4)` printed. -/
theorem run_table_expected {δ τ : Type} (W : World δ τ) (name attr : String) (dump : δ) :
    run Expected.prog W (Expected.tableCommand name attr) ({} : Given).args dump = tableResult W attr 4 dump := by
  have hd : argsDeclared (Expected.tableCommand name attr) ({} : Given).args = true := by
    simp [argsDeclared, Given.args, multi]
  unfold run runSt
  simp only [hd, Bool.not_true, Bool.false_eq_true, if_false]
  simp [Expected.tableCommand, Expected.dumpInput, Kind.isUnsupported, bindEnv, execAll, exec1, evalExpr, List.lookup, tableResult]
  cases W.parseAll dump with
  | error e => simp
  | ok t => cases h : W.jsonDumps t attr 4 <;> simp [h]

/-! ### what the hand models read off the objects -/

theorem cfg_keventsObj (o : Opts) : cfgOfObj (keventsObj o) = some { configOf o with filterProcess := none } := by
  cases h : o.tid <;> simp [cfgOfObj, keventsObj, objWith, Obj.get, List.lookup, optInt, intsOf, configOf, h]

theorem cfg_tracesObj (o : Opts) : cfgOfObj (tracesObj o) = some (configOf o) := by
  cases h : o.tid <;> cases h' : o.process <;>
    simp [cfgOfObj, tracesObj, objWith, Obj.get, List.lookup, optInt, optStr, intsOf, configOf, h, h']

theorem cfg_plainObj (o : Opts) :
    cfgOfObj (plainObj o) = some { configOf o with filterClass := [], filterSubclass := [] } := by
  cases h : o.tid <;> cases h' : o.process <;>
    simp [cfgOfObj, plainObj, objWith, Obj.get, List.lookup, optInt, optStr, intsOf, configOf, h, h']

theorem show_objWith (tid proc cls sub col : Val) (b : Bool) :
    showOfObj (objWith tid proc cls sub (.bool b) col) = some { tid := b } := by
  simp [showOfObj, objWith, Obj.get, List.lookup, boolOf]

theorem color_objWith (tid proc cls sub st : Val) (b : Bool) :
    colorOfObj (objWith tid proc cls sub st (.bool b)) = some b := by
  simp [colorOfObj, objWith, Obj.get, List.lookup, boolOf]

theorem unset_objWith (tid proc cls sub st col : Val) :
    wallClockUnset (objWith tid proc cls sub st col) = true ∧ tablesEmpty (objWith tid proc cls sub st col) = true := by
  simp [wallClockUnset, tablesEmpty, objWith, Obj.get, List.lookup]

/-! ### the four maps -/

theorem mapGen_ok {ι : Type} (f : ι → Except PyErr String) (g : ι → String) (h : ∀ x, f x = .ok (g x))
    (items : List ι) (err : Option PyErr) : mapGen f items err = (items.map g, err) := by
  induction items with
  | nil => rfl
  | cons x xs ih => simp [mapGen, h, ih]

/-- `default_trace_codes() if trace_codes is None else trace_codes` -/
def codesArg {κ : Type} : Option κ → ArgVal κ
  | some c => .codes c
  | none => .defaultCodes

/-- `trace_codes` handed on as it came -/
def givenArg {κ : Type} : Option κ → ArgVal κ
  | some c => .codes c
  | none => .none

theorem runFormatted_kevents {δ ι κ : Type} (M : Methods δ ι κ) (o : Obj) (tc : Option κ) (dump : δ) :
    runFormatted M Expected.formattedKevents o tc dump =
      mapGen (fun e => M.formatter "_format_kevent" o e [codesArg tc])
        (M.source "kevents" o [.kdebug] dump).1 (M.source "kevents" o [.kdebug] dump).2 := by
  cases tc <;> simp [runFormatted, Expected.formattedKevents, evalFArgs, evalFArg, codesArg]

theorem runFormatted_traces {δ ι κ : Type} (M : Methods δ ι κ) (o : Obj) (tc : Option κ) (dump : δ) :
    runFormatted M Expected.formattedTraces o tc dump =
      mapGen (fun t => M.formatter "_format_trace" o t [])
        (M.source "traces" o [.kdebug, givenArg tc] dump).1 (M.source "traces" o [.kdebug, givenArg tc] dump).2 := by
  cases tc <;> simp [runFormatted, Expected.formattedTraces, evalFArgs, evalFArg, givenArg]

theorem runFormatted_callstacks {δ ι κ : Type} (M : Methods δ ι κ) (o : Obj) (tc : Option κ) (dump : δ) :
    runFormatted M Expected.formattedCallstacks o tc dump =
      mapGen (fun t => M.formatter "_format_callstack" o t [])
        (M.source "callstacks" o [.kdebug, givenArg tc] dump).1 (M.source "callstacks" o [.kdebug, givenArg tc] dump).2 := by
  cases tc <;> simp [runFormatted, Expected.formattedCallstacks, evalFArgs, evalFArg, givenArg]

theorem runFormatted_logs {δ ι κ : Type} (M : Methods δ ι κ) (o : Obj) (dump : δ) :
    runFormatted M Expected.formattedLogs o none dump =
      mapGen (fun t => M.formatter "_format_log" o t [])
        (M.source "os_log_events" o [.kdebug] dump).1 (M.source "os_log_events" o [.kdebug] dump).2 := by
  simp [runFormatted, Expected.formattedLogs, evalFArgs, evalFArg]

/-- `formatted_logs` takes no code table: `TypeError` -/
theorem runFormatted_logs_codes {δ ι κ : Type} (M : Methods δ ι κ) (o : Obj) (c : κ) (dump : δ) :
    runFormatted M Expected.formattedLogs o (some c) dump = ([], some .typeError) := by
  simp [runFormatted, Expected.formattedLogs]

end KdVerif.PyIRCli
