"""Shared harness for the generated decoder IR: builds windows, runs the real decoder and the Lean `render`."""
import json
import os

from . import core, impl
from .core import hs

from pykdebugparser.trace_codes import default_trace_codes
from pykdebugparser.traces_parser import TracesParser

CODES = default_trace_codes()
IDS = {}
for _k, _v in CODES.items():
    IDS.setdefault(_v, _k)

BOUNDARY = [0, 1, 2, 3, 4, 7, 8, 9, 16, 35, 64, 255, 256, 4095, 4096, 0xffff, 2 ** 31 - 1, 2 ** 31, 2 ** 32 - 1, 2 ** 32,
            2 ** 63 - 1, 2 ** 63, 2 ** 64 - 1]


def stats():
    with open(os.path.join(core.LEAN, 'KdVerif', 'Gen', 'decoders_stats.json')) as fd:
        return json.load(fd)


def all_handler_names():
    p = TracesParser(CODES, {}, {})
    return list(p.handlers)


def lookup_events(path: str, vnode: int, tid: int, ts: int):
    """Kernel encoding of a VFS_LOOKUP: 8-byte vnode + 24 path bytes, then 32-byte chunks, NUL padded."""
    raw = path.encode('utf-8', 'surrogateescape')       # lone surrogates U+DC80..U+DCFF stand for raw bytes 0x80..0xff
    eid = IDS['VFS_LOOKUP']
    chunks = [vnode.to_bytes(8, 'little') + raw[:24].ljust(24, b'\0')]
    raw = raw[24:]
    while raw:
        chunks.append(raw[:32].ljust(32, b'\0'))
        raw = raw[32:]
    evs = []
    for i, c in enumerate(chunks):
        q = (1 if i == 0 else 0) | (2 if i == len(chunks) - 1 else 0)
        evs.append(impl.record(ts + i, c, tid, eid | q))
    return evs


def rand_word(rng):
    r = rng.random()
    if r < 0.35:
        return rng.choice(BOUNDARY)
    if r < 0.6:
        return rng.randrange(0, 24)
    if r < 0.75:
        return rng.randrange(0, 1 << 16)
    if r < 0.85:
        return rng.randrange(0, 1 << 32)
    return rng.randrange(0, 1 << 64)


def rand_path(rng):
    n = rng.choice([0, 1, 5, 23, 24, 25, 40, 56, 57, 80])
    alphabet = 'abcdefghijklmnopqrstuvwxyz/._-0123456789 é'
    s = ''.join(rng.choice(alphabet) for _ in range(n))
    while len(s.encode()) > 184:
        s = s[:-1]
    return s


def call_names(name):
    """Spellings under which the decoder registered as `name` may write its own call: the registered name, the name
    without its class prefix (BSC_open -> open), both with and without the _nocancel suffix."""
    out = []
    for n in (name, name.split('_', 1)[1] if '_' in name else name):
        out.append(n)
        out.append(n[:-9] if n.endswith('_nocancel') else n + '_nocancel')
    return list(dict.fromkeys(x for x in out if x))


SYNTAX = ['(', ')', ', ', '"', '\\', '\\"', "'", '_nocancel', '_nocancel(', '), ', '")', '", ', 'errno: ', ', errno: ENOENT(2)',
          ', fd: 5', ', count: 5', ' | ', 'O_RDONLY', '0x', '{}', '{0}', '{self.path}', '%s', '%d', '%(path)s', '\n', '\t', '\r',
          '\x1b[0m', ' ', '#', '/*', '*/']


def syntax_paths(rng, name, others=(), full=False):
    """Path texts that contain the rendering's own syntax: the decoder's call name followed by '(' (and its _nocancel / base
    spelling, and the names of other decoders), '_nocancel', the separators and quotes of the argument list, the words of the
    result part, format-string placeholders, control characters; alone, embedded in an ordinary path, doubled, and two of
    them together; the empty path and very long ones (a chunk boundary every 32 bytes, 10^3 and 10^4 bytes)."""
    calls = call_names(name)
    for o in others:
        calls += call_names(o)[:2]
    toks = [c + '(' for c in calls] + [c + '("' for c in calls[:2]] + list(calls) + SYNTAX
    out = ['']
    for t in toks:
        out += [t, 'usr/' + t + '/lib', t + t, t + 'x' + t]
    for _ in range(40 if full else 12):
        a, b = rng.choice(toks), rng.choice(toks)
        out.append(rng.choice(['', 'a/', '/']) + a + rng.choice(['', 'b', '/']) + b)
    first = calls[0] + '('
    out += ['a' * 23, 'a' * 24, 'a' * 25, 'b' * 56, 'b' * 57, 'c' * 1000, ('d' * 31 + '/') * 320,
            (first + '"x", ') * 40, ('_nocancel' * 120), 'e' * 24 + first, 'e' * (24 + 32 - 2) + first]
    return list(dict.fromkeys(out))


def syntax_case(rng, name, path, other=None):
    """A window of `name` whose looked-up paths (and global strings) are the given adversarial text."""
    c = make_case(rng, name, nlookups=0)
    c['start'] = [rng.randrange(0, 24) for _ in range(4)]
    c['end'] = [0, rng.randrange(0, 9), 0, 0] if rng.random() < 0.7 else [rng.randrange(1, 100), 0, 0, 0]
    c['lookups'] = [[path, rand_word(rng)], [other if other is not None else path, rand_word(rng)]]
    c['gs'] = {str(a): path for a in c['start']}
    return c


def make_case(rng, name, nlookups=None, err=None):
    """A JSON-able window description for decoder `name`."""
    start = [rand_word(rng) for _ in range(4)]
    end = [rand_word(rng) for _ in range(4)]
    if err is not None:
        end[0] = err
    elif rng.random() < 0.55:
        end[0] = 0
    elif rng.random() < 0.7:
        end[0] = rng.randrange(1, 110)
    nl = rng.choice([0, 1, 1, 2, 2, 3, 6]) if nlookups is None else nlookups
    lookups = [[rand_path(rng), rand_word(rng)] for _ in range(nl)]
    gs = {}
    for a in start:
        if rng.random() < 0.5:
            gs[str(a)] = rand_path(rng)
    return {'name': name, 'start': start, 'end': end, 'tid': rng.randrange(1, 1 << 20), 'lookups': lookups, 'gs': gs,
            'tp': {}, 'tn': {}}


def table_str(d, val=lambda v: str(v)):
    return ';'.join(f'{k}:{val(v)}' for k, v in sorted(d.items(), key=lambda kv: int(kv[0]))) or '-'


def window_events(c):
    name = c['name']
    eid = IDS.get(name, 0x7f000000)
    tid = c['tid']
    evs = [impl.record_args(1, c['start'], tid, eid | 1)]
    ts = 10
    for path, vn in c['lookups']:
        ch = lookup_events(path, vn, tid, ts)
        ts += len(ch) + 1
        evs.extend(ch)
    evs.append(impl.record_args(ts + 5, c['end'], tid, eid | 2))
    return evs


def line(c):
    lk = ';'.join('%s:%d' % (hs(p), v) for p, v in c['lookups']) or '-'
    rest = ';'.join('%s:%d' % (hs(p), v) for p, v in c['lookups'][1:2]) or '-'
    sa = ','.join(map(str, c['start']))
    ea = ','.join(map(str, c['end']))
    sdata = b''.join(a.to_bytes(8, 'little') for a in c['start']).hex()
    return 'render %s %s %d %s %s %s %s %s %s %s' % (
        c['name'], sa, c['tid'], ea, sdata, lk, rest, table_str(c['gs'], hs), table_str(c['tp']),
        table_str(c['tn'], hs))


def trace_of(c):
    """handler(parser, events) on the real code: the decoded trace object of the window."""
    from pykdebugparser.kevent import from_kd_buf
    parser = TracesParser(CODES, {int(k): v for k, v in c['tp'].items()}, {})
    parser.global_strings.update({int(k): v for k, v in c['gs'].items()})
    parser.tids_names.update({int(k): v for k, v in c['tn'].items()})
    events = [from_kd_buf(r) for r in window_events(c)]
    h = parser.handlers[c['name']]
    return h(parser, events)


def run_impl(c, host_patch=None):
    """str(handler(parser, events)) on the real code."""
    t = trace_of(c)
    first = str(t)
    again = str(t)
    if first != again:                                 # a decoded trace is a value: it reads the same every time
        return 'unstable ' + hs(first) + ' ' + hs(again)
    return 'ok ' + hs(first)


def impl_fn(c):
    return run_impl(c)


# ------------------------------------------------------------------------------------------------
# correspondence section shared by C07/C09/C10/C17/C18: every generated decoder, Lean render vs str(trace)

def supported_names():
    st = stats()
    return [n for n in all_handler_names() if n not in st['unsupported']]


def section_decoders(rep, rng, tier, per=None, names=None, oracle_fn=None, name='decoders', syntax=0):
    """syntax = k > 0: k further windows per decoder whose paths / global strings contain the rendering's own syntax
    (syntax_paths)."""
    names = supported_names() if names is None else names
    per = per or (4 if tier == 'quick' else 60)
    cases = [make_case(rng, n) for n in names for _ in range(per)]
    if syntax:
        every = all_handler_names()
        for n in names:
            paths = syntax_paths(rng, n, rng.sample(every, 2))
            for pth in (paths if syntax >= len(paths) else rng.sample(paths, syntax)):
                cases.append(syntax_case(rng, n, pth, rng.choice(paths)))
    inner_oracle = oracle_fn

    def oracle_fn(c, got):
        if got.startswith('unstable '):
            a, b = (hs_text(x) for x in got.split(' ')[1:3])
            return ('decoder:renders-differently:' + c['name'], 'str(trace) gave %r the first time and %r the second time '
                    '(a field holds a one-shot iterator?)' % (a, b))
        return inner_oracle(c, got) if inner_oracle else None
    core.run_section(
        rep, name, cases, line_fn=line, impl_fn=impl_fn, oracle_fn=oracle_fn,
        nontrivial_fn=lambda c, got: got.startswith('ok'),
        kind_fn=lambda c, got: 'rendered' if got.startswith('ok') else got,
        rule='every translated decoder (%d) x %d windows: START/END words from boundary values, small ints, random 16/32/64-bit '
             'words; error word 0 / errno / arbitrary; 0-6 kernel-encoded lookups; random global strings; the Lean `IR.render` '
             'of the generated IR vs str(handler(parser, events)) of the real code; non-trivial = rendered without exception'
             % (len(names), per)
             + ('; plus %d windows per decoder whose looked-up paths and global strings contain the rendering\'s own syntax '
                '(own call name + "(", other decoders\' names, _nocancel, quotes, separators, result words, placeholders, '
                'control characters, empty and very long paths)' % syntax if syntax else ''),
        sample_fn=lambda c: {'decoder': c['name'], 'start': c['start'], 'end': c['end'], 'lookups': [[p[:80], v] for p, v in c['lookups'][:2]]})
    st = stats()
    rep.notes.append('translator: %d of %d registered handlers compiled to IR (%d with name(p0, ...) shape); hand-modelled: %s'
                     % (st['supported'], st['total'], st.get('shaped', 0), sorted(st['unsupported'])))


def hs_text(h):
    return '' if h == '-' else bytes.fromhex(h).decode('utf-8', 'surrogatepass')


def text_of(ans):
    if ans.startswith('ok '):
        h = ans[3:]
        return '' if h == '-' else bytes.fromhex(h).decode('utf-8', 'surrogatepass')
    return None


def split_call(text):
    """'name(p0, p1, ...)tail' -> (name, [params], tail) or None; quotes protect their content."""
    i = text.find('(')
    if i < 0:
        return None
    depth, params, cur, inq = 1, [], '', False
    j = i + 1
    while j < len(text):
        ch = text[j]
        if ch == '"':
            inq = not inq
        if not inq:
            if ch == '(':
                depth += 1
            elif ch == ')':
                depth -= 1
                if depth == 0:
                    break
            elif ch == ',' and depth == 1 and text[j + 1:j + 2] == ' ':
                params.append(cur)
                cur = ''
                j += 2
                continue
        cur += ch
        j += 1
    if depth != 0:
        return None
    if cur or params:
        params.append(cur)
    return text[:i], params, text[j + 1:]


# ------------------------------------------------------------------------------------------------
# a decoded trace is a value: what it shows does not change when OTHER traces are decoded before it is rendered

def late_render_section(rep, rng, tier, prop, names=None, name='late-render', k=3, mutate=None):
    """For every decoder: k windows with different words are decoded FIRST (all trace objects alive at once), rendered
    afterwards — in order, and in reverse order —, and each text must be the one the same window gives when it is decoded and
    rendered alone (oracle on the real code alone).  A decoder that keeps what it shows in a place shared by its traces (a class
    attribute, a default argument, one ctypes cell, a module-level buffer) shows the words of the latest window for all of them.
    `mutate(rng, case, j)` lets a property vary the field it cares about (a flag word, the END record)."""
    sec = rep.section(name)
    names = all_handler_names() if names is None else list(names)
    from . import mined
    if tier == 'quick' and not mined.changed_files() and len(names) > 160:
        names = rng.sample(names, 160)
    sec['rule'] = ('%d decoders x %d windows with different words: decoded first (all traces alive), rendered afterwards in order '
                   'and in reverse; every text must equal the text of the same window decoded and rendered alone (oracle on the '
                   'real code alone)' % (len(names), k))
    for n in names:
        cases = []
        for j in range(k):
            c = make_case(rng, n)
            if mutate:
                c = mutate(rng, c, j) or c
            cases.append(c)
        alone = []
        for c in cases:
            try:
                alone.append(str(trace_of(c)))
            except Exception as e:      # noqa: BLE001
                alone.append('raise ' + core.err_name(e))
        if len(set(alone)) < 2:
            continue
        objs = []
        for c in cases:
            try:
                objs.append(trace_of(c))
            except Exception as e:      # noqa: BLE001
                objs.append(e)
        for order in (range(k), reversed(range(k))):
            for j in order:
                sec['cases'] += 1
                o = objs[j]
                try:
                    late = 'raise ' + core.err_name(o) if isinstance(o, Exception) else str(o)
                except Exception as e:      # noqa: BLE001
                    late = 'raise ' + core.err_name(e)
                if late == alone[j]:
                    sec['distinct_nontrivial'] += 1
                    continue
                rep.add_failure('render:depends-on-other-traces:' + n,
                                '%s: decoder %s, window %d of %d decoded together: rendered after the others it reads %r, alone %r'
                                % (prop, n, j, k, late[:200], alone[j][:200]),
                                {'section': name, 'decoder': n, 'cases': cases, 'index': j})
                break
            else:
                continue
            break


def replay_late_render(rp):
    cases, j = rp['cases'], rp['index']
    alone = str(trace_of(cases[j]))
    objs = [trace_of(c) for c in cases]
    late = str(objs[j])
    return late != alone, ['decoded and rendered alone          : ' + alone, 'decoded with %d others, rendered last: ' % (len(cases) - 1) + late]
