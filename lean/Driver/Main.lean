import KdVerif.Model.Kevent
import KdVerif.Gen.Consts
/-
  Line-protocol driver: one operation per line on stdin, one canonical answer per line on
  stdout.  Byte strings and texts travel as hex.  Imports no Mathlib (so it links).
-/
open KdVerif

def natList (l : List Nat) : String := " ".intercalate (l.map toString)

def showKevent (e : Kevent) : String :=
  s!"ok {e.timestamp} {toHex e.data} {natList e.values} {e.tid} {e.debugid} {e.eventid} {e.qual}"

def cmdKevent (args : List String) : String :=
  match args with
  | [h] =>
    match ofHex h with
    | none => "bad-op"
    | some bs =>
      match decodeWith Gen.Consts.kdBufFormat Gen.Consts.eventidMask Gen.Consts.funcMask bs with
      | .ok e => showKevent e
      | .error err => s!"err {err.name}"
  | _ => "bad-op"

def dispatch (line : String) : String :=
  match (line.trimAscii.toString.splitOn " ").filter (· ≠ "") with
  | "kevent" :: args => cmdKevent args
  | "kevent-empty" :: _ => cmdKevent [""]
  | _ => "bad-op"

partial def loop (h : IO.FS.Stream) (out : IO.FS.Stream) : IO Unit := do
  let line ← h.getLine
  if line.isEmpty then return ()
  out.putStrLn (dispatch line)
  loop h out

def main : IO Unit := do
  let out ← IO.getStdout
  loop (← IO.getStdin) out
  out.flush
